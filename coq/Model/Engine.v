(* engine/{insert,update,delete,create}.go on top of Model/Store.v, the write-ahead log
   (storage/wal.go: FlushWALBatch, replay = InitStorage) and the crash / flush events. *)
From Mkdb Require Export Model.Store.
From Mkdb Require Import Gen.Params.
From Coq Require Import Arith.
Local Open Scope N_scope.
Local Open Scope list_scope.

Inductive outcome :=
| OOk (count : nat)          (* statement succeeded (count = rows inserted / deleted) *)
| OErr (e : err)
| OPanic.

(* what a statement does to the in-memory store; `batch` is what FlushWALBatch appends when
   the statement succeeds; `flushed` = the statement ends with a synchronous flushPages *)
Record effect := mkEffect { e_store : store; e_batch : list walentry; e_flushed : bool; e_out : outcome }.

Definition fielddef_of (c : coldef) : fielddef :=
  match cd_type c with
  | STNumeric => mkField TInt (cd_name c) 0
  | STBigInt => mkField TBigInt (cd_name c) 0
  | STVarchar n => mkField TVarchar (cd_name c) n
  | STBoolean => mkField TBoolean (cd_name c) 0
  end.

(* EvaluateInsert *)
Fixpoint insert_rows (s : store) (name : string) (cols : list string) (rows : list (list value))
         (batch : list walentry) (n : nat) : store * list walentry * outcome :=
  match rows with
  | [] => (s, batch, OOk n)
  | r :: rest =>
      match st_insert s name cols r with
      | (s1, Ok ws) => insert_rows s1 name cols rest (batch ++ ws) (S n)
      | (s1, Err e) => (s1, [], OErr e)
      | (s1, Panic) => (s1, [], OPanic)
      end
  end.

Fixpoint update_rows (s : store) (name : string) (cols : list string) (vals : list value)
         (ids : list N) (batch : list walentry) : store * list walentry * outcome :=
  match ids with
  | [] => (s, batch, OOk 1)
  | k :: rest =>
      match st_update s name k cols vals with
      | (s1, Ok ws) => update_rows s1 name cols vals rest (batch ++ ws)
      | (s1, Err e) => (s1, [], OErr e)
      | (s1, Panic) => (s1, [], OPanic)
      end
  end.

Fixpoint delete_rows (s : store) (name : string) (ids : list N) (batch : list walentry) (n : nat)
  : store * list walentry * outcome :=
  match ids with
  | [] => (s, batch, OOk n)
  | k :: rest =>
      match st_delete s name k with
      | (s1, Ok ws) => delete_rows s1 name rest (batch ++ ws) (S n)
      | (s1, Err e) => (s1, [], OErr e)
      | (s1, Panic) => (s1, [], OPanic)
      end
  end.

Definition where_ids (s : store) (name : string) (w : option expr) : res (list N) :=
  do rf <- st_fetch s name;
  let '(rows, fs) := rf in
  match w with
  | None => Ok (map fst rows)
  | Some e => do keep <- filter_rows e fs rows; Ok (map fst keep)
  end.

Definition lit_of (x : vexpr) : option value :=
  match x with XLit v => Some v | XCol _ => None end.

(* the check loops of EvaluateInsert / EvaluateUpdate: the first refusal, in list order *)
Fixpoint first_err {A} (chk : A -> res unit) (l : list A) : res unit :=
  match l with
  | [] => Ok tt
  | a :: r => match chk a with
              | Ok _ => first_err chk r
              | Err e => Err e
              | Panic => Panic
              end
  end.

Definition run_stmt (s : store) (st : stmt) : effect :=
  match st with
  | SCreateTable name cols =>
      match st_create_table s name (map fielddef_of cols) with
      | (s1, Ok _) => mkEffect (flush s1) [] true (OOk 0)
      | (s1, Err e) => mkEffect s1 [] false (OErr e)
      | (s1, Panic) => mkEffect s1 [] false OPanic
      end
  | SInsert name cols rows =>
      (* every row is checked against the store as it is before the first one is stored *)
      match first_err (check_insert s name cols) rows with
      | Ok _ => let '(s1, b, o) := insert_rows s name cols rows [] 0 in mkEffect s1 b false o
      | Err e => mkEffect s [] false (OErr e)
      | Panic => mkEffect s [] false OPanic
      end
  | SUpdate name sets w =>
      if existsb (fun sv => match snd sv with XCol _ => true | _ => false end) sets
      then mkEffect s [] false (OErr ETmpUnsupported)
      else match where_ids s name w with
           | Ok ids =>
               let vals := map (fun sv => match snd sv with XLit v => v | _ => VNull end) sets in
               (* every matching row is checked before the first one is changed *)
               match first_err (fun k => check_update s name k (map fst sets) vals) ids with
               | Ok _ => let '(s1, b, o) := update_rows s name (map fst sets) vals ids [] in
                         mkEffect s1 b false o
               | Err e => mkEffect s [] false (OErr e)
               | Panic => mkEffect s [] false OPanic
               end
           | Err e => mkEffect s [] false (OErr e)
           | Panic => mkEffect s [] false OPanic
           end
  | SDelete name w =>
      match where_ids s name w with
      | Ok ids => let '(s1, b, o) := delete_rows s name ids [] 0 in mkEffect s1 b false o
      | Err e => mkEffect s [] false (OErr e)
      | Panic => mkEffect s [] false OPanic
      end
  | _ => mkEffect s [] false (OErr EOther)
  end.

(* ---- the durable system: in-memory store (cache + header copy), data file, log ---- *)
Record sys := mkSys { mem : store; disk : store; wal : list walentry }.

Definition is_ok (o : outcome) : bool := match o with OOk _ => true | _ => false end.

Definition exec (y : sys) (st : stmt) : sys * outcome :=
  let e := run_stmt (mem y) st in
  let w' := if is_ok (e_out e) then wal y ++ e_batch e else wal y in
  (mkSys (e_store e) (if e_flushed e then e_store e else disk y) w', e_out e).

Definition do_flush (y : sys) : sys := mkSys (flush (mem y)) (flush (mem y)) (wal y).

(* ---- recovery: InitStorage = open header, read log, replay, flush ---- *)

(* any page of the file by offset: (is it the root of a forest member, the node) *)
Fixpoint find_in_tree (off : N) (t : tree) : option tree :=
  if N.eqb (t_off t) off then Some t else
  match t with
  | TLeaf _ _ _ _ _ _ _ _ => None
  | TNode _ _ _ kids rgt =>
      match (fix go (ks : list (N * tree)) : option tree :=
               match ks with
               | [] => None
               | (_, c) :: r => match find_in_tree off c with Some x => Some x | None => go r end
               end) kids with
      | Some x => Some x
      | None => find_in_tree off rgt
      end
  end.

Fixpoint find_node (off : N) (f : list tree) : option (bool * tree) :=
  match f with
  | [] => None
  | t :: r => match find_in_tree off t with
              | Some x => Some (N.eqb (t_off t) off, x)
              | None => find_node off r
              end
  end.

Definition t_lsn (t : tree) : N :=
  match t with TLeaf _ l _ _ _ _ _ _ => l | TNode _ l _ _ _ => l end.

Inductive replay_res :=
| RCont (s : store)        (* record applied or skipped *)
| RAbort (s : store)       (* replay stops silently (updateCell failed: `return nil`) *)
| RFail (s : store) (e : err)
| RPanic.

Definition bump_lsn (s : store) (lsn : N) : store :=
  if N.leb (nextLSN s) lsn then mkStore (forest s) (lastKey s) (ptRoot s) (nextFree s) (lsn + 1) else s.

(* the row-id counter is raised for every insert record, before the skip test *)
Definition bump_key (s : store) (w : walentry) : store :=
  match w_op w with
  | OpInsert => mkStore (forest s) (N.max (lastKey s) (w_cell w)) (ptRoot s) (nextFree s) (nextLSN s)
  | _ => s
  end.

Definition replay_one (s0 : store) (w : walentry) : replay_res :=
  let s := bump_key (bump_lsn s0 (w_lsn w)) w in
  match find_node (w_page w) (forest s) with
  | None => RFail s ECorrupt
  | Some (isroot, n) =>
      if N.leb (w_lsn w) (t_lsn n) then RCont s else
      match w_op w with
      | OpInsert =>
          if negb isroot then RFail s EUnmodelled else
          let keyup st := mkStore (forest st) (N.max (lastKey st) (w_cell w)) (ptRoot st) (nextFree st) (nextLSN st) in
          match tree_insert ML MI PS MV n (w_cell w) (w_lsn w) (w_val w) (nextFree s) with
          | TOk (t', nf) =>
              let s1 := keyup (mkStore (replace_root (w_page w) t' (forest s)) (lastKey s) (ptRoot s) nf (nextLSN s)) in
              if N.eqb (t_off t') (w_page w) then RCont s1
              else match redo_root_move s1 (w_page w) (t_off t') (w_lsn w) with
                   | (s2, Ok _) => RCont s2
                   | (s2, Err e) => RFail s2 e
                   | (s2, Panic) => RPanic
                   end
          | TErr KeyExists => RCont (keyup s)
          | TErr e => RFail s (match of_tres (A := unit) (TErr e) with Err x => x | _ => EOther end)
          end
      | OpUpdate =>
          match n with
          | TLeaf _ _ _ cells _ _ _ _ =>
              if (MV <? length (w_val w))%nat then RAbort s
              else if existsb (fun c => N.eqb (lc_key c) (w_cell w)) cells then
                RCont (set_forest s (touch_forest (w_page w) (w_cell w) (w_lsn w)
                         (fun x => mkLC (lc_key x) (lc_deleted x) (w_val w)) (forest s)))
              else RAbort s
          | TNode _ _ _ _ _ => RPanic
          end
      | OpDelete =>
          match n with
          | TLeaf _ _ _ cells _ _ _ _ =>
              if existsb (fun c => N.eqb (lc_key c) (w_cell w)) cells then
                RCont (set_forest s (touch_forest (w_page w) (w_cell w) (w_lsn w)
                         (fun x => mkLC (lc_key x) true (lc_val x)) (forest s)))
              else RFail s ECellNotFound
          | TNode _ _ _ _ _ => RPanic
          end
      end
  end.

Fixpoint replay (s : store) (ws : list walentry) : replay_res :=
  match ws with
  | [] => RCont s
  | w :: r => match replay_one s w with
              | RCont s1 => replay s1 r
              | other => other
              end
  end.

(* crash: the cache is lost; restart runs InitStorage on (data file, log).
   Result: the system after recovery (cache empty = equal to the flushed file), or failure. *)
Definition recover (y : sys) : res sys :=
  match replay (disk y) (wal y) with
  | RCont s | RAbort s => let d := flush s in Ok (mkSys d d (wal y))
  | RFail _ e => Err e
  | RPanic => Panic
  end.

(* ---- a flush cut short by a crash (C04): only the dirty pages named in W reach the file,
   the header does not. Modelled when cache and file differ only inside leaves (no page was
   allocated and no internal node changed since the last completed flush); any other flush has
   a structural change in flight and is outside the model (`None`). ---- *)
Fixpoint merge_tree (W : list N) (d m : tree) {struct d} : option tree :=
  match d, m with
  | TLeaf od _ _ _ _ _ _ _, TLeaf om _ _ _ _ _ _ _ =>
      if N.eqb od om then Some (if existsb (N.eqb od) W then clean_tree m else d) else None
  | TNode od ld _ kd rd, TNode om lm dm km rm =>
      if N.eqb od om && N.eqb ld lm && negb dm then
        match (fix go (a : list (N * tree)) (b : list (N * tree)) : option (list (N * tree)) :=
                 match a, b with
                 | [], [] => Some []
                 | (sa, ca) :: ra, (sb, cb) :: rb =>
                     if N.eqb sa sb then
                       match merge_tree W ca cb, go ra rb with
                       | Some c, Some r => Some ((sa, c) :: r)
                       | _, _ => None
                       end
                     else None
                 | _, _ => None
                 end) kd km, merge_tree W rd rm with
        | Some k, Some r => Some (TNode od ld false k r)
        | _, _ => None
        end
      else None
  | _, _ => None
  end.

Fixpoint merge_forest (W : list N) (d m : list tree) : option (list tree) :=
  match d, m with
  | [], [] => Some []
  | a :: ra, b :: rb => match merge_tree W a b, merge_forest W ra rb with
                        | Some t, Some r => Some (t :: r)
                        | _, _ => None
                        end
  | _, _ => None
  end.

Definition torn_disk (y : sys) (W : list N) : option store :=
  if N.eqb (nextFree (mem y)) (nextFree (disk y)) && N.eqb (ptRoot (mem y)) (ptRoot (disk y)) then
    match merge_forest W (forest (disk y)) (forest (mem y)) with
    | Some f => Some (set_forest (disk y) f)
    | None => None
    end
  else None.

(* ---- event histories ---- *)
Inductive event :=
| EvStmt (st : stmt)
| EvFlush                   (* the 100 ms ticker fires at a statement boundary *)
| EvCrash                   (* crash + restart (recovery) at a statement boundary *)
| EvCrashInLog (st : stmt) (j : nat)
| EvTornFlush (W : list N).
  (* the statement runs, but the process dies while its batch is being appended: only the
     first j records reach the log; then restart *)

Inductive sysres := SOk (y : sys) | SFail (e : err) | SPanic.

Definition step (y : sys) (ev : event) : sysres * option outcome :=
  match ev with
  | EvStmt st => let '(y1, o) := exec y st in
                 match o with OPanic => (SPanic, Some o) | _ => (SOk y1, Some o) end
  | EvFlush => (SOk (do_flush y), None)
  | EvCrash => match recover y with Ok y1 => (SOk y1, None) | Err e => (SFail e, None) | Panic => (SPanic, None) end
  | EvCrashInLog st j =>
      let e := run_stmt (mem y) st in
      let w' := if is_ok (e_out e) then wal y ++ firstn j (e_batch e) else wal y in
      let d := if e_flushed e then e_store e else disk y in
      match recover (mkSys d d w') with
      | Ok y1 => (SOk y1, None) | Err x => (SFail x, None) | Panic => (SPanic, None)
      end
  | EvTornFlush W =>
      (* the process dies inside flushPages after writing exactly the pages in W (no header);
         then restart *)
      match torn_disk y W with
      | Some d => match recover (mkSys d d (wal y)) with
                  | Ok y1 => (SOk y1, None) | Err x => (SFail x, None) | Panic => (SPanic, None)
                  end
      | None => (SFail EUnmodelled, None)
      end
  end.

Fixpoint run_events (y : sys) (evs : list event) : sysres * list (option outcome) :=
  match evs with
  | [] => (SOk y, [])
  | ev :: r => match step y ev with
               | (SOk y1, o) => let '(fin, os) := run_events y1 r in (fin, o :: os)
               | (bad, o) => (bad, [o])
               end
  end.

Definition init_sys : sys :=
  let s := fst create_db in mkSys s s [].

(* ---- abstraction: what SELECT * on every table of the catalog returns ---- *)
Fixpoint table_names (cells : list leafcell) : res (list string) :=
  match cells with
  | [] => Ok []
  | c :: r => do m <- decode_tuple pageTableSchema (lc_val c) [];
              do rest <- table_names r;
              match tget "table_name"%string m with VStr n => Ok (n :: rest) | _ => Ok rest end
  end.

Definition all_tables (s : store) : res (list string) :=
  do pt <- get_tree s (ptRoot s);
  do cells <- of_tres (scan_right pt);
  table_names cells.

Fixpoint fetch_all (s : store) (names : list string) : res (list (string * (list (N * row) * list field))) :=
  match names with
  | [] => Ok []
  | n :: r => do x <- st_fetch s n; do rest <- fetch_all s r; Ok ((n, x) :: rest)
  end.

Definition abs (s : store) : res (list (string * (list (N * row) * list field))) :=
  do ns <- all_tables s; fetch_all s ns.
