(* Helpers for the correspondence runs (cases.v files written by tools/check.py). *)
From Coq Require Export List NArith ZArith Bool String Ascii.
Export ListNotations.

Fixpoint bad_idx_from {A} (f : A -> bool) (i : nat) (l : list A) : list nat :=
  match l with
  | [] => []
  | x :: r => if f x then bad_idx_from f (S i) r else i :: bad_idx_from f (S i) r
  end.

(* indices (0-based) of the cases on which f is false *)
Definition bad_idx {A} (f : A -> bool) (l : list A) : list nat := bad_idx_from f 0 l.

Fixpoint list_eqb {A} (eqb : A -> A -> bool) (l1 l2 : list A) : bool :=
  match l1, l2 with
  | [], [] => true
  | x :: r1, y :: r2 => eqb x y && list_eqb eqb r1 r2
  | _, _ => false
  end.

Definition option_eqb {A} (eqb : A -> A -> bool) (a b : option A) : bool :=
  match a, b with
  | None, None => true
  | Some x, Some y => eqb x y
  | _, _ => false
  end.

Definition pair_eqb {A B} (ea : A -> A -> bool) (eb : B -> B -> bool) (x y : A * B) : bool :=
  ea (fst x) (fst y) && eb (snd x) (snd y).

Lemma list_eqb_spec {A} (eqb : A -> A -> bool) :
  (forall x y, eqb x y = true <-> x = y) ->
  forall l1 l2, list_eqb eqb l1 l2 = true <-> l1 = l2.
Proof.
  intros H. induction l1 as [|x r IH]; destruct l2 as [|y r2]; cbn; try (split; [discriminate|discriminate]); try tauto.
  rewrite andb_true_iff, H, IH. split; [intros [-> ->]; auto | intros E; inversion E; auto].
Qed.
