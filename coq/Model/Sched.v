(* Model of the lock protocol between the session goroutine and the page-flush goroutine
   (storage/page.go fileStore.mtx, newFileStore's ticker goroutine; the Evaluate functions of package engine).

   A transition system, no proofs inside:
   - one sync.RWMutex: number of readers + writer flag. RLock is enabled iff no writer holds
     it, Lock iff nobody holds it. (Go's writer preference - a pending Lock blocks new RLocks -
     only removes behaviours; it is irrelevant for safety and is not modelled.) RUnlock / Unlock
     of a mutex that is not held is a fatal runtime error in Go: the step is disabled here, the
     thread makes no further progress.
   - the SESSION thread runs a list of statement programs one after the other (any number, each
     any `prog`); when it starts a statement it emits the event `Boundary`;
   - the FLUSHER thread runs one program (the extracted ticker body: a loop of flushPages);
   - a schedule is a list of (thread, choice bit): the thread makes one small step; the bit
     resolves PBranch (true = left) and PLoop (true = one more iteration). A thread whose next
     action is a lock operation that is not enabled stutters.
   The trace is the list of emitted events: (thread, action) and Boundary.
   One fileStore = one mutex = one ticker; a session that switches database (USE) closes the
   old store (proto_close is just another session program) and continues on a fresh instance. *)
From Coq Require Import List Bool Arith.
From Mkdb Require Export Model.Prog.
Import ListNotations.

Inductive tid := Session | Flusher.

Inductive event :=
| Ev (t : tid) (a : action)
| Boundary.                       (* the session starts its next statement *)

(* ---- one thread: a stack of programs still to run ---- *)
Inductive tstep :=
| TDone
| TTau (k : list prog)
| TAct (a : action) (k : list prog).

Definition tnext (k : list prog) (c : bool) : tstep :=
  match k with
  | [] => TDone
  | PSkip :: r => TTau r
  | PSeq p q :: r => TTau (p :: q :: r)
  | PBranch p q :: r => TTau ((if c then p else q) :: r)
  | PLoop p :: r => TTau (if c then p :: PLoop p :: r else r)
  | PAct a :: r => TAct a r
  end.

(* ---- the reader/writer mutex ---- *)
Record rwmutex := mkMutex { readers : nat; writer : bool }.

Definition lock_enabled (m : rwmutex) (a : action) : bool :=
  match a with
  | LockShared => negb (writer m)
  | LockExclusive => negb (writer m) && (readers m =? 0)
  | UnlockShared => 0 <? readers m
  | UnlockExclusive => writer m
  | _ => true
  end.

Definition lock_apply (m : rwmutex) (a : action) : rwmutex :=
  match a with
  | LockShared => mkMutex (S (readers m)) (writer m)
  | UnlockShared => mkMutex (pred (readers m)) (writer m)
  | LockExclusive => mkMutex (readers m) true
  | UnlockExclusive => mkMutex (readers m) false
  | _ => m
  end.

(* ---- the system ---- *)
Record sys := mkSys {
  mtx : rwmutex;
  sess : list prog;      (* rest of the statement the session is executing *)
  todo : list prog;      (* statements still to come *)
  flus : list prog       (* rest of the flusher program *)
}.

Definition init (stmts : list prog) (flusher : prog) : sys :=
  mkSys (mkMutex 0 false) [] stmts [flusher].

Definition step (s : sys) (t : tid) (c : bool) : sys * list event :=
  match t with
  | Session =>
      match tnext (sess s) c with
      | TDone =>
          match todo s with
          | [] => (s, [])
          | p :: r => (mkSys (mtx s) [p] r (flus s), [Boundary])
          end
      | TTau k => (mkSys (mtx s) k (todo s) (flus s), [])
      | TAct a k =>
          if lock_enabled (mtx s) a
          then (mkSys (lock_apply (mtx s) a) k (todo s) (flus s), [Ev Session a])
          else (s, [])
      end
  | Flusher =>
      match tnext (flus s) c with
      | TDone => (s, [])
      | TTau k => (mkSys (mtx s) (sess s) (todo s) k, [])
      | TAct a k =>
          if lock_enabled (mtx s) a
          then (mkSys (lock_apply (mtx s) a) (sess s) (todo s) k, [Ev Flusher a])
          else (s, [])
      end
  end.

Definition schedule := list (tid * bool).

Fixpoint run_from (s : sys) (sch : schedule) : sys * list event :=
  match sch with
  | [] => (s, [])
  | (t, c) :: r =>
      let '(s1, e) := step s t c in
      let '(s2, es) := run_from s1 r in (s2, e ++ es)
  end.

(* the trace of the session running `stmts` in order, in parallel with `flusher` *)
Definition run (stmts : list prog) (flusher : prog) (sch : schedule) : list event :=
  snd (run_from (init stmts flusher) sch).
