(* The small regular program type in which tools/gen_protocol expresses the lock / change /
   log / page-write structure of the Go functions (Gen/Protocol.v), shared by Model/Sched.v.

   action  = one call that matters for property C13
     LockShared / UnlockShared        fileStore.mtx.RLock / RUnlock   (StartTxn / EndTxn)
     LockExclusive / UnlockExclusive  fileStore.mtx.Lock / Unlock     (flushPages)
     Mutate       a call that changes page or cache state (Insert, Update, MarkDeleted, createPage ...)
     CacheTouch   any other call on the relation service / file store that is not on the
                  allow-list of pure helpers (Fetch, getRelationFileOffset, fetch ...: a cache miss
                  inserts into the LRU, a hit reorders it)
     LogAppend    wal.flush (reached through FlushWALBatch)
     PageWrite    fileStore.update (WriteAt of one page)
     HeaderWrite  fileStore.save   (WriteAt of the file header)
   prog: PLoop = zero or more iterations, PBranch = either side. `defer` and early `return`
   are resolved by the translator (the deferred calls are appended to every exit path). *)
Inductive action :=
| LockShared | UnlockShared | LockExclusive | UnlockExclusive
| Mutate | CacheTouch | LogAppend | PageWrite | HeaderWrite.

Inductive prog :=
| PAct (a : action)
| PSeq (p q : prog)
| PLoop (p : prog)
| PBranch (p q : prog)
| PSkip.
