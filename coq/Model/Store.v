(* storage/relation.go (RelationService) and engine/{insert,update,delete,create}.go over a
   forest of trees sharing one allocator, one row-id counter and one LSN counter
   (fileStore). The catalog is read and written through the model's own sys_pages /
   sys_schema trees and the tuple codec, as the Go code does. *)
From Mkdb Require Export Model.Tree Model.Tuple Model.Expr.
From Mkdb Require Import Gen.Params.
From Coq Require Import Arith.
Local Open Scope N_scope.
Local Open Scope string_scope.

Definition ML : nat := N.to_nat maxLeafNodeCells.
Definition MI : nat := N.to_nat maxInternalNodeCells.
Definition MV : nat := N.to_nat maxValueSize.
Definition PS : N := pageSize.

Record store := mkStore {
  forest : list tree;      (* every tree of the file, identified by its root page offset *)
  lastKey : N;
  ptRoot : N;              (* fileStore.pageTableRoot *)
  nextFree : N;
  nextLSN : N
}.

Definition set_forest (s : store) (f : list tree) : store :=
  mkStore f (lastKey s) (ptRoot s) (nextFree s) (nextLSN s).

Definition find_root (off : N) (f : list tree) : option tree :=
  find (fun t => N.eqb (t_off t) off) f.

Fixpoint replace_root (off : N) (t' : tree) (f : list tree) : list tree :=
  match f with
  | [] => []
  | t :: r => if N.eqb (t_off t) off then t' :: r else t :: replace_root off t' r
  end.

Definition of_tres {A} (r : tres A) : res A :=
  match r with
  | TOk a => Ok a
  | TErr KeyExists => Err EKeyExists
  | TErr RowTooLarge => Err ERowTooLarge
  | TErr NotFound => Err ECellNotFound
  | TErr Unmodelled => Err EUnmodelled
  | TErr Corrupt => Err ECorrupt
  end.

(* fetch of a table root; a root offset that is not the root of a tree of the forest is
   outside the model *)
Definition get_tree (s : store) (off : N) : res tree :=
  match find_root off (forest s) with Some t => Ok t | None => Err ECorrupt end.

(* ---- catalog lookups ---- *)

(* getRelationFileOffset: first sys_pages row whose table_name equals the name *)
Fixpoint pt_lookup (name : string) (cells : list leafcell) : res N :=
  match cells with
  | [] => Err ETableNotExist
  | c :: r =>
      do m <- decode_tuple pageTableSchema (lc_val c) [];
      if value_eqb (tget "table_name" m) (VStr name)
      then match tget "file_offset" m with
           | VInt z => Ok (Z.to_N z)
           | _ => Panic                       (* .(int64) on nil *)
           end
      else pt_lookup name r
  end.

Definition rel_offset (s : store) (name : string) : res N :=
  do pt <- get_tree s (ptRoot s);
  do cells <- of_tres (scan_right pt);
  pt_lookup name cells.

Definition schemaTableName : string := "sys_schema".
Definition pageTableName : string := "sys_pages".

(* getRelationSchema: every sys_schema row of that table, in scan order *)
Fixpoint schema_rows (name : string) (cells : list leafcell) : res schema :=
  match cells with
  | [] => Ok []
  | c :: r =>
      do m <- decode_tuple schemaTableSchema (lc_val c) [];
      if value_eqb (tget "table_name" m) (VStr name)
      then match tget "field_name" m, tget "field_length" m, tget "field_type" m with
           | VStr fname, VInt flen, VInt ftype =>
               match coltype_of_code ftype with
               | Some t => do rest <- schema_rows name r; Ok (mkField t fname flen :: rest)
               | None => Panic                (* unsupported data type *)
               end
           | _, _, _ => Panic                 (* type assertion on nil *)
           end
      else schema_rows name r
  end.

Definition rel_schema (s : store) (name : string) : res schema :=
  do off <- rel_offset s schemaTableName;
  do t <- get_tree s off;
  do cells <- of_tres (scan_right t);
  schema_rows name cells.

(* scanRelation *)
Fixpoint decode_cells (sch : schema) (cells : list leafcell) : res (list (N * row)) :=
  match cells with
  | [] => Ok []
  | c :: r => do rw <- decode_row sch (lc_val c);
              do rest <- decode_cells sch r;
              Ok ((lc_key c, rw) :: rest)
  end.

(* RelationService.Fetch: rows with their row ids, and the field list (TableID empty) *)
Definition st_fetch (s : store) (name : string) : res (list (N * row) * list field) :=
  do off <- rel_offset s name;
  do sch <- rel_schema s name;
  do t <- get_tree s off;
  do cells <- of_tres (scan_right t);
  do rows <- decode_cells sch cells;
  Ok (rows, map (fun fd => mkFld "" (fd_name fd)) sch).

(* ---- BTree.insert on the tree rooted at `root`: consumes a row id and an LSN even when
   insertKey fails ---- *)
Definition bt_insert (s : store) (root : N) (v : bytes) : store * res (N * N * N) :=
  (* result: (row id, lsn, new root offset) *)
  let k := lastKey s + 1 in
  let lsn := nextLSN s in
  let bump f nf := mkStore f k (ptRoot s) nf (lsn + 1) in
  match get_tree s root with
  | Ok t =>
      match tree_insert ML MI PS MV t k lsn v (nextFree s) with
      | TOk (t', nf) => (bump (replace_root root t' (forest s)) nf, Ok (k, lsn, t_off t'))
      | TErr e => (bump (forest s) (nextFree s), of_tres (TErr e))
      end
  | Err e => (s, Err e)
  | Panic => (s, Panic)
  end.

(* the leaf page (by offset) of the tree holding it gets cell k rewritten *)
Fixpoint touch_forest (pg k lsn : N) (g : leafcell -> leafcell) (f : list tree) : list tree :=
  match f with
  | [] => []
  | t :: r => if has_page pg t then touch_leaf pg k lsn g t :: r
              else t :: touch_forest pg k lsn g r
  end.

(* updatePageTable: rewrite the file_offset of the first sys_pages row named `name`;
   one physiological update record *)
Fixpoint pt_find_row (name : string) (leaves : list tree) : res (option (N * leafcell * tuple)) :=
  match leaves with
  | [] => Ok None
  | l :: r =>
      (fix go (cs : list leafcell) : res (option (N * leafcell * tuple)) :=
         match cs with
         | [] => pt_find_row name r
         | c :: cr =>
             if lc_deleted c then go cr else
             do m <- decode_tuple pageTableSchema (lc_val c) [];
             if value_eqb (tget "table_name" m) (VStr name) then Ok (Some (t_off l, c, m)) else go cr
         end) (leaf_cells l)
  end.

Definition update_page_table (s : store) (newroot : N) (name : string) : store * res (list walentry) :=
  match (do pt <- get_tree s (ptRoot s);
         do ls <- of_tres (scan_right_leaves pt);
         pt_find_row name ls) with
  | Ok (Some (pg, c, m)) =>
      match encode_tuple pageTableSchema (tset "file_offset" (VInt (Z.of_N newroot)) m) with
      | Ok bs =>
          if (MV <? length bs)%nat then (s, Err ERowTooLarge) else
          let lsn := nextLSN s in
          let f' := touch_forest pg (lc_key c) lsn (fun x => mkLC (lc_key x) (lc_deleted x) bs) (forest s) in
          (mkStore f' (lastKey s) (ptRoot s) (nextFree s) (lsn + 1),
           Ok [mkWal OpUpdate lsn pg (lc_key c) bs])
      | Err e => (s, Err e)
      | Panic => (s, Panic)
      end
  | Ok None => (s, Err EOther)
  | Err e => (s, Err e)
  | Panic => (s, Panic)
  end.

(* wal.go redoRootMove: the first live sys_pages row whose file_offset is oldroot is pointed
   at newroot; the page is stamped with the LSN of the insert record being redone (no LSN is
   consumed, nothing is logged). No matching row: nothing happens. *)
Fixpoint pt_find_off (oldroot : N) (leaves : list tree) : res (option (N * leafcell * tuple)) :=
  match leaves with
  | [] => Ok None
  | l :: r =>
      (fix go (cs : list leafcell) : res (option (N * leafcell * tuple)) :=
         match cs with
         | [] => pt_find_off oldroot r
         | c :: cr =>
             if lc_deleted c then go cr else
             do m <- decode_tuple pageTableSchema (lc_val c) [];
             if value_eqb (tget "file_offset" m) (VInt (Z.of_N oldroot)) then Ok (Some (t_off l, c, m)) else go cr
         end) (leaf_cells l)
  end.

Definition redo_root_move (s : store) (oldroot newroot lsn : N) : store * res unit :=
  match (do pt <- get_tree s (ptRoot s);
         do ls <- of_tres (scan_right_leaves pt);
         pt_find_off oldroot ls) with
  | Ok (Some (pg, c, m)) =>
      match encode_tuple pageTableSchema (tset "file_offset" (VInt (Z.of_N newroot)) m) with
      | Ok bs =>
          if (MV <? length bs)%nat then (s, Err ERowTooLarge) else
          (set_forest s (touch_forest pg (lc_key c) lsn (fun x => mkLC (lc_key x) (lc_deleted x) bs) (forest s)), Ok tt)
      | Err e => (s, Err e)
      | Panic => (s, Panic)
      end
  | Ok None => (s, Ok tt)
  | Err e => (s, Err e)
  | Panic => (s, Panic)
  end.

(* relation.go isSysTable: the catalog tables are read-only for INSERT / UPDATE / DELETE
   (ErrSysTableReadOnly; classified as EOther) *)
Definition is_sys_table (name : string) : bool :=
  String.eqb name pageTableName || String.eqb name schemaTableName.

(* RelationService.Insert: one row (without the column-list check, which st_insert puts in front) *)
Definition st_insert0 (s : store) (name : string) (cols : list string) (vals : list value)
  : store * res (list walentry) :=
  if is_sys_table name then (s, Err EOther) else
  match (do off <- rel_offset s name;
         do _ <- get_tree s off;
         do sch <- rel_schema s name;
         let cols' := match cols with [] => map fd_name sch | _ => cols end in
         if negb (Nat.eqb (length cols') (length vals)) then Err EColCount else
         do bs <- encode_tuple sch (zip_set cols' vals []);
         Ok (off, bs)) with
  | Ok (off, bs) =>
      match bt_insert s off bs with
      | (s1, Ok (k, lsn, newroot)) =>
          let w := mkWal OpInsert lsn off k bs in
          if N.eqb newroot off then (s1, Ok [w])
          else match update_page_table s1 newroot name with
               | (s2, Ok ws) => (s2, Ok (w :: ws))
               | (s2, Err e) => (s2, Err e)
               | (s2, Panic) => (s2, Panic)
               end
      | (s1, Err e) => (s1, Err e)
      | (s1, Panic) => (s1, Panic)
      end
  | Err e => (s, Err e)
  | Panic => (s, Panic)
  end.

(* the column-list check of Insert: reached only when the catalog lookups and the count test passed *)
Definition ins_bad_cols (s : store) (name : string) (cols : list string) (vals : list value) : option err :=
  if is_sys_table name then None else
  match (do off <- rel_offset s name; do _ <- get_tree s off; rel_schema s name) with
  | Ok sch =>
      let cols' := match cols with [] => map fd_name sch | _ => cols end in
      if negb (Nat.eqb (length cols') (length vals)) then None else cols_err (map fd_name sch) cols' []
  | _ => None
  end.

Definition st_insert (s : store) (name : string) (cols : list string) (vals : list value)
  : store * res (list walentry) :=
  match ins_bad_cols s name cols vals with
  | Some e => (s, Err e)
  | None => st_insert0 s name cols vals
  end.

(* checkRowSizeLimit on an encoded row *)
Definition check_row_size (bs : bytes) : res unit :=
  if (MV <? length bs)%nat then Err ERowTooLarge else Ok tt.

(* RelationService.encodeRow after the catalog-table test: everything Insert does before
   BTree.insert (table lookup, fetch of the root page, schema, column count, column list,
   Tuple.Encode); changes nothing *)
Definition ins_precheck (s : store) (name : string) (cols : list string) (vals : list value)
  : res (N * bytes) :=
  do off <- rel_offset s name;
  do _ <- get_tree s off;
  do sch <- rel_schema s name;
  let cols' := match cols with [] => map fd_name sch | _ => cols end in
  if negb (Nat.eqb (length cols') (length vals)) then Err EColCount else
  match cols_err (map fd_name sch) cols' [] with Some e => Err e | None =>
  do bs <- encode_tuple sch (zip_set cols' vals []);
  Ok (off, bs) end.

(* RelationService.CheckInsert: encodeRow, then checkRowSizeLimit on the encoded row.
   EvaluateInsert calls it for every row of the VALUES list before it stores the first one. *)
Definition check_insert (s : store) (name : string) (cols : list string) (vals : list value) : res unit :=
  if is_sys_table name then Err EOther else
  do ob <- ins_precheck s name cols vals;
  check_row_size (snd ob).

(* RelationService.Update: the row with id rowid gets the SET values; scans the whole tree
   (without the column-list check, which st_update puts in front) *)
Definition st_update0 (s : store) (name : string) (rowid : N) (cols : list string) (vals : list value)
  : store * res (list walentry) :=
  if is_sys_table name then (s, Err EOther) else
  match (do off <- rel_offset s name;
         do t <- get_tree s off;
         do sch <- rel_schema s name;
         do ls <- of_tres (scan_right_leaves t);
         Ok (sch, ls)) with
  | Ok (sch, ls) =>
      (* the live cell with that key, if any (keys are unique in a well-formed tree) *)
      match find (fun lc => N.eqb (lc_key (snd lc)) rowid && negb (lc_deleted (snd lc)))
                 (flat_map (fun l => map (fun c => (t_off l, c)) (leaf_cells l)) ls) with
      | None => (s, Ok [])
      | Some (pg, c) =>
          match (do m <- decode_tuple sch (lc_val c) [];
                 encode_tuple sch (zip_set cols vals m)) with
          | Ok bs =>
              if (MV <? length bs)%nat then (s, Err ERowTooLarge) else
              let lsn := nextLSN s in
              let f' := touch_forest pg rowid lsn (fun x => mkLC (lc_key x) (lc_deleted x) bs) (forest s) in
              (mkStore f' (lastKey s) (ptRoot s) (nextFree s) (lsn + 1),
               Ok [mkWal OpUpdate lsn pg rowid bs])
          | Err e => (s, Err e)
          | Panic => (s, Panic)
          end
      end
  | Err e => (s, Err e)
  | Panic => (s, Panic)
  end.

(* the column-list check of Update: after the catalog lookups, before the scan *)
Definition upd_bad_cols (s : store) (name : string) (cols : list string) : option err :=
  if is_sys_table name then None else
  match (do off <- rel_offset s name; do _ <- get_tree s off; rel_schema s name) with
  | Ok sch => cols_err (map fd_name sch) cols []
  | _ => None
  end.

Definition st_update (s : store) (name : string) (rowid : N) (cols : list string) (vals : list value)
  : store * res (list walentry) :=
  match upd_bad_cols s name cols with
  | Some e => (s, Err e)
  | None => st_update0 s name rowid cols vals
  end.

(* RelationService.CheckUpdate = update(..., checkOnly = true): the very code of Update up to and
   including the size test of the re-encoded row (checkRowSizeLimit in place of updateCell's own
   test), nothing is written, the log records are dropped. EvaluateUpdate calls it for every
   matching row before it changes the first one. *)
Definition check_update (s : store) (name : string) (rowid : N) (cols : list string) (vals : list value)
  : res unit :=
  match snd (st_update s name rowid cols vals) with
  | Ok _ => Ok tt
  | Err e => Err e
  | Panic => Panic
  end.

(* RelationService.MarkDeleted *)
Definition st_delete (s : store) (name : string) (rowid : N) : store * res (list walentry) :=
  if is_sys_table name then (s, Err EOther) else
  match (do off <- rel_offset s name; get_tree s off) with
  | Ok t =>
      match find_cell rowid t with
      | None => (s, Err ECellNotFound)
      | Some (pg, c) =>
          let lsn := nextLSN s in
          let f' := touch_forest pg rowid lsn (fun x => mkLC (lc_key x) true (lc_val x)) (forest s) in
          (mkStore f' (lastKey s) (ptRoot s) (nextFree s) (lsn + 1),
           Ok [mkWal OpDelete lsn pg rowid []])
      end
  | Err e => (s, Err e)
  | Panic => (s, Panic)
  end.

(* ---- CREATE TABLE ---- *)
Definition create_page (s : store) : store * N :=
  let off := nextFree s in
  (mkStore (forest s ++ [TLeaf off 0 true [] false false 0 0]) (lastKey s) (ptRoot s)
           (off + PS) (nextLSN s), off).

(* insertPageTable *)
Definition insert_page_table (s : store) (pgoff : N) (name : string) : store * res unit :=
  match encode_tuple pageTableSchema [("table_name", VStr name); ("file_offset", VInt (Z.of_N pgoff))] with
  | Ok bs =>
      match bt_insert s (ptRoot s) bs with
      | (s1, Ok (_, _, newroot)) =>
          (mkStore (forest s1) (lastKey s1) newroot (nextFree s1) (nextLSN s1), Ok tt)
      | (s1, Err e) => (s1, Err e)
      | (s1, Panic) => (s1, Panic)
      end
  | Err e => (s, Err e)
  | Panic => (s, Panic)
  end.

(* insertSchemaTable: one sys_schema row per column; a root move of sys_schema is recorded in
   sys_pages (the log records of that update are dropped) *)
Fixpoint insert_schema_rows (s : store) (root : N) (tname : string) (fds : schema) : store * res unit :=
  match fds with
  | [] => (s, Ok tt)
  | fd :: r =>
      match encode_tuple schemaTableSchema
              [("table_name", VStr tname); ("field_name", VStr (fd_name fd));
               ("field_type", VInt (code_of_coltype (fd_type fd))); ("field_length", VInt (fd_len fd))] with
      | Ok bs =>
          match bt_insert s root bs with
          | (s1, Ok (_, _, newroot)) =>
              if N.eqb newroot root then insert_schema_rows s1 root tname r
              else match update_page_table s1 newroot schemaTableName with
                   | (s2, Ok _) => insert_schema_rows s2 newroot tname r
                   | (s2, Err e) => (s2, Err e)
                   | (s2, Panic) => (s2, Panic)
                   end
          | (s1, Err e) => (s1, Err e)
          | (s1, Panic) => (s1, Panic)
          end
      | Err e => (s, Err e)
      | Panic => (s, Panic)
      end
  end.

Definition insert_schema_table (s : store) (tname : string) (fds : schema) : store * res unit :=
  match (do off <- rel_offset s schemaTableName; do _ <- get_tree s off; Ok off) with
  | Ok off => insert_schema_rows s off tname fds
  | Err e => (s, Err e)
  | Panic => (s, Panic)
  end.

(* RelationService.createTable (without the final flush) *)
Definition st_create_table0 (s : store) (name : string) (fds : schema) : store * res unit :=
  match rel_offset s name with
  | Err ETableNotExist =>
      let '(s1, pg) := create_page s in
      match insert_page_table s1 pg name with
      | (s2, Ok _) => insert_schema_table s2 name fds
      | (s2, Err e) => (s2, Err e)
      | (s2, Panic) => (s2, Panic)
      end
  | Panic => (s, Panic)
  | _ => (s, Err ETableExists)
  end.

(* checkCatalogRows: the sys_pages row (with file_offset 0) and every sys_schema row of the new
   table are encoded and measured (Tuple.Encode + checkRowSizeLimit), first error wins; the same
   tuples insert_page_table / insert_schema_rows build *)
Definition check_encoded (r : res bytes) : res unit := do bs <- r; check_row_size bs.

Fixpoint check_schema_rows (tname : string) (fds : schema) : res unit :=
  match fds with
  | [] => Ok tt
  | fd :: r =>
      do _ <- check_encoded (encode_tuple schemaTableSchema
                [("table_name", VStr tname); ("field_name", VStr (fd_name fd));
                 ("field_type", VInt (code_of_coltype (fd_type fd))); ("field_length", VInt (fd_len fd))]);
      check_schema_rows tname r
  end.

Definition check_catalog_rows (name : string) (fds : schema) : res unit :=
  do _ <- check_encoded (encode_tuple pageTableSchema [("table_name", VStr name); ("file_offset", VInt 0)]);
  check_schema_rows name fds.

(* the catalog-row check of createTable: reached only when the table does not exist yet (after
   the table-exists test, before createPage); Some r = the check refuses with outcome r *)
Definition create_bad_rows (s : store) (name : string) (fds : schema) : option (res unit) :=
  match rel_offset s name with
  | Err ETableNotExist =>
      match check_catalog_rows name fds with
      | Ok _ => None
      | r => Some r
      end
  | _ => None
  end.

(* RelationService.createTable: a column name used twice is refused before anything else
   (ErrDuplicateColumn); then the table-exists test; then checkCatalogRows; then
   st_create_table0 (whose own table-exists test gives the same answer again) *)
Definition st_create_table (s : store) (name : string) (fds : schema) : store * res unit :=
  if names_distinct (map fd_name fds) then
    match create_bad_rows s name fds with
    | Some r => (s, r)
    | None => st_create_table0 s name fds
    end
  else (s, Err EOther).

(* ---- flush: every dirty page and the header are written; pages become clean ---- *)
Fixpoint clean_tree (t : tree) : tree :=
  match t with
  | TLeaf off l _ cells hl hr ls rs => TLeaf off l false cells hl hr ls rs
  | TNode off l _ kids rgt =>
      TNode off l false
        ((fix go (ks : list (N * tree)) : list (N * tree) :=
            match ks with [] => [] | (sp, c) :: r => (sp, clean_tree c) :: go r end) kids)
        (clean_tree rgt)
  end.

Definition flush (s : store) : store := set_forest s (map clean_tree (forest s)).

(* storage.CreateDB: the two catalog tables and their own catalog rows *)
Definition empty_store : store := mkStore [] 0 0 PS 0.

Definition create_db : store * res unit :=
  let '(s1, pt) := create_page empty_store in
  let s1 := mkStore (forest s1) (lastKey s1) pt (nextFree s1) (nextLSN s1) in
  match insert_page_table s1 pt pageTableName with
  | (s2, Ok _) =>
      let '(s3, sc) := create_page s2 in
      match insert_page_table s3 sc schemaTableName with
      | (s4, Ok _) =>
          match insert_schema_table s4 pageTableName pageTableSchema with
          | (s5, Ok _) =>
              match insert_schema_table s5 schemaTableName schemaTableSchema with
              | (s6, Ok _) => (flush s6, Ok tt)
              | r => r
              end
          | r => r
          end
      | r => r
      end
  | r => r
  end.
