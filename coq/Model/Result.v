(* Outcome type shared by the relation / engine models: every Go `error` return is `Err e`
   (classified by errors.Is into a small enum, never by message text), every failing type
   assertion / index / explicit panic is `Panic`. *)
From Coq Require Export List.
Export ListNotations.

Inductive err :=
| ETableNotExist | ETableExists | EColCount | ETypeMismatch | EIntRange | ERowTooLarge
| EKeyExists | ECellNotFound | EFieldNotFound | EFieldAmbiguous | EIncompat | ETmpUnsupported
| EDecode           (* short read while decoding a tuple *)
| ECorrupt          (* page graph not a forest / dangling pointer: outside the model *)
| EUnmodelled       (* code path deliberately not modelled (see Model/Tree.v) *)
| EOther.

Inductive res (A : Type) := Ok (a : A) | Err (e : err) | Panic.
Arguments Ok {A} a.
Arguments Err {A} e.
Arguments Panic {A}.

Definition bind {A B} (r : res A) (f : A -> res B) : res B :=
  match r with Ok a => f a | Err e => Err e | Panic => Panic end.

Notation "'do' x <- r ; k" := (bind r (fun x => k)) (at level 200, x pattern, r at level 100, k at level 200).

Definition err_eqb (a b : err) : bool :=
  match a, b with
  | ETableNotExist, ETableNotExist | ETableExists, ETableExists | EColCount, EColCount
  | ETypeMismatch, ETypeMismatch | EIntRange, EIntRange | ERowTooLarge, ERowTooLarge
  | EKeyExists, EKeyExists | ECellNotFound, ECellNotFound | EFieldNotFound, EFieldNotFound
  | EFieldAmbiguous, EFieldAmbiguous | EIncompat, EIncompat | ETmpUnsupported, ETmpUnsupported
  | EDecode, EDecode | ECorrupt, ECorrupt | EUnmodelled, EUnmodelled | EOther, EOther => true
  | _, _ => false
  end.
