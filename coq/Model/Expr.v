(* engine/select.go: evaluate, evalOr, evalAnd, evalComparisonPredicate, evalPrimary,
   filterRows, and the field lookups of storage/relation.go. *)
From Mkdb Require Export Model.Ast Model.Result.

Record field := mkFld { f_table : string; f_col : string }.   (* storage.Field{TableID, Column} *)

(* Fields.LookupColIdxByID: first field with that column and table id *)
Fixpoint lookup_by_id (q c : string) (fs : list field) (i : nat) : res nat :=
  match fs with
  | [] => Err EFieldNotFound
  | f :: r => if String.eqb (f_col f) c && String.eqb (f_table f) q then Ok i
              else lookup_by_id q c r (S i)
  end.

(* Fields.LookupFieldIdx: unique field with that column name *)
Fixpoint lookup_name (c : string) (fs : list field) (i : nat) (found : option nat) : res nat :=
  match fs with
  | [] => match found with Some j => Ok j | None => Err EFieldNotFound end
  | f :: r => if String.eqb (f_col f) c
              then match found with
                   | Some _ => Err EFieldAmbiguous
                   | None => lookup_name c r (S i) (Some i)
                   end
              else lookup_name c r (S i) found
  end.

Definition find_column (c : colref) (fs : list field) : res nat :=
  if String.eqb (cr_qual c) "" then lookup_name (cr_name c) fs 0 None
  else lookup_by_id (cr_qual c) (cr_name c) fs 0.

(* evalPrimary; row.Vals[idx] cannot be out of range when fields and rows come from Fetch *)
Definition eval_primary (x : vexpr) (fs : list field) (r : row) : res value :=
  match x with
  | XLit v => Ok v
  | XCol c => do i <- find_column c fs;
              match nth_error r i with Some v => Ok v | None => Panic end
  end.

Definition str_cmp (a b : string) : comparison := String.compare a b.

(* ordered comparison of evalComparisonPredicate; `strict` = GT/LT (no default case in the
   Go switch: a bool or nil left operand falls through to "nothing to compare here") *)
Definition cmp_ord (strict : bool) (test : comparison -> bool) (a b : value) : res bool :=
  match a with
  | VInt x => match b with VInt y => Ok (test (Z.compare x y)) | _ => Err EIncompat end
  | VStr x => match b with VStr y => Ok (test (str_cmp x y)) | _ => Err EIncompat end
  | _ => if strict then Err EOther else Err EIncompat
  end.

Definition eval_pred (l : vexpr) (op : compop) (r : vexpr) (fs : list field) (rw : row) : res bool :=
  do a <- eval_primary l fs rw;
  do b <- eval_primary r fs rw;
  match op with
  | CEq => Ok (value_eqb a b)
  | CNeq => Ok (negb (value_eqb a b))
  | CGt => cmp_ord true (fun c => match c with Gt => true | _ => false end) a b
  | CGte => cmp_ord false (fun c => match c with Lt => false | _ => true end) a b
  | CLt => cmp_ord true (fun c => match c with Lt => true | _ => false end) a b
  | CLte => cmp_ord false (fun c => match c with Gt => false | _ => true end) a b
  end.

(* evaluate: the result is a Go value (bool from predicates, the literal itself for a bare
   literal; a bare column reference is "nothing to evaluate here") *)
Fixpoint evaluate (e : expr) (fs : list field) (rw : row) : res value :=
  match e with
  | EVal (XLit v) => Ok v
  | EVal (XCol _) => Err EOther
  | EPred l op r => do b <- eval_pred l op r fs rw; Ok (VBool b)
  | EAnd (l, op, r) rhs =>
      do a <- eval_pred l op r fs rw;
      do b <- evaluate rhs fs rw;
      match b with VBool y => Ok (VBool (a && y)) | _ => Err EIncompat end
  | EOr l r =>
      do a <- evaluate l fs rw;
      do b <- evaluate r fs rw;
      match a, b with
      | VBool x, VBool y => Ok (VBool (x || y))
      | _, _ => Err EIncompat
      end
  end.

(* filterRows over (rowid, row) pairs: keeps rows whose condition evaluates to true; a
   non-boolean result silently drops the row *)
Fixpoint filter_rows {A} (e : expr) (fs : list field) (rows : list (A * row)) : res (list (A * row)) :=
  match rows with
  | [] => Ok []
  | (a, rw) :: r =>
      do v <- evaluate e fs rw;
      do rest <- filter_rows e fs r;
      match v with VBool true => Ok ((a, rw) :: rest) | _ => Ok rest end
  end.

(* column names of a new table must be pairwise distinct (RelationService.createTable refuses a
   name used twice: a tuple is keyed by column name) *)
Fixpoint names_distinct (l : list string) : bool :=
  match l with
  | [] => true
  | a :: r => negb (existsb (String.eqb a) r) && names_distinct r
  end.

(* relation.go checkColumnList: the column list of an INSERT / the SET list of an UPDATE may only
   name columns of the table (ErrFieldNotFound), each at most once (ErrDuplicateColumn = EOther) *)
Fixpoint cols_err (names : list string) (cols seen : list string) : option err :=
  match cols with
  | [] => None
  | c :: r =>
      if negb (existsb (String.eqb c) names) then Some EFieldNotFound
      else if existsb (String.eqb c) seen then Some EOther
      else cols_err names r (c :: seen)
  end.
