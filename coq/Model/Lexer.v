(* Model of the token wrapper of sql/scanner.go: tokenScanner.Cur / Next, the keyword table and
   the loop of engine/session.go parseSQL

       for ts.Next() { tl.Add(ts.Cur()) }

   The forked text/scanner (sql/go_scanner.go) is NOT modelled: it is a raw-token oracle.
   A raw token is what Scanner.Scan() returned (its class), Scanner.TokenText(), and whether
   Scanner.Peek() == '=' right after that Scan (Cur() uses Peek for != >= <=).
   Token numbering and the Tokens table come from Gen/Params.v (generated from the Go source). *)
From Coq Require Export ZArith String Ascii List Bool.
From Mkdb Require Import Gen.Params.
Export ListNotations.
Local Open Scope string_scope.
Local Open Scope Z_scope.

(* what Scanner.Scan() returns: one of the negative token classes, or a Unicode character *)
Inductive rawclass :=
| RIdent | RInt | RFloat | RChar | RString | RRawString | RComment | RDelimIdent
| ROther.                                 (* any other rune ('(' ',' '!' '+' U+FFFD ...) *)

Record rawtok := mkRaw { r_class : rawclass; r_text : string; r_peek_eq : bool }.

(* sql.Token without Line/Column *)
Record token := mkTok { t_type : Z; t_text : string }.

(* ---- token numbers, by name, from the generated enumeration ---- *)
Definition lookup_code (name : string) : Z :=
  match find (fun p => String.eqb (fst p) name) token_codes with
  | Some p => snd p
  | None => -1000
  end.

Definition c_IDENT := Eval vm_compute in lookup_code "IDENT".
Definition c_INT := Eval vm_compute in lookup_code "INT".
Definition c_STR := Eval vm_compute in lookup_code "STR".
Definition c_BANG := Eval vm_compute in lookup_code "BANG".
Definition c_NEQ := Eval vm_compute in lookup_code "NEQ".
Definition c_GT := Eval vm_compute in lookup_code "GT".
Definition c_LT := Eval vm_compute in lookup_code "LT".
Definition c_LTE := Eval vm_compute in lookup_code "LTE".
Definition c_GTE := Eval vm_compute in lookup_code "GTE".

(* ---- scanner.go init(): keywords[Tokens[i]] = i for reserved_word_start < i < reserved_word_end.
        This includes the operator / punctuation entries "!" "*" "=" "," "." "(" ")" ";" ... ---- *)
Definition in_reserved (z : Z) : bool :=
  (tok_reserved_word_start <? z) && (z <? tok_reserved_word_end).

Definition keyword_entries : list (Z * string) :=
  Eval vm_compute in filter (fun p => in_reserved (fst p)) token_texts.

(* map semantics: a later assignment overwrites an earlier one (entries are in ascending order) *)
Definition kw_lookup (s : string) : option Z :=
  fold_left (fun acc p => if String.eqb (snd p) s then Some (fst p) else acc) keyword_entries None.

(* ---- strings.ToUpper, as far as keyword lookup can tell ----
   All keyword strings are ASCII. strings.ToUpper maps a..z to A..Z, and exactly two non-ASCII
   runes to ASCII letters: U+0131 (bytes C4 B1) -> 'I' and U+017F (bytes C5 BF) -> 'S'. Every
   other non-ASCII rune (and every invalid byte, which becomes U+FFFD) stays non-ASCII, so the
   result cannot equal a keyword; the model leaves those bytes unchanged. *)
Definition up_ascii (c : ascii) : ascii :=
  let n := N_of_ascii c in
  if ((97 <=? n) && (n <=? 122))%N then ascii_of_N (n - 32) else c.

Fixpoint kw_upper (s : string) : string :=
  match s with
  | EmptyString => EmptyString
  | String c r =>
      match r with
      | String d r' =>
          if (N.eqb (N_of_ascii c) 197 && N.eqb (N_of_ascii d) 191)%N then String "S"%char (kw_upper r')
          else if (N.eqb (N_of_ascii c) 196 && N.eqb (N_of_ascii d) 177)%N then String "I"%char (kw_upper r')
          else String (up_ascii c) (kw_upper r)
      | EmptyString => String (up_ascii c) EmptyString
      end
  end.

(* ---- strings.TrimPrefix / TrimSuffix with a one-character affix ---- *)
Definition trim_prefix1 (q : ascii) (s : string) : string :=
  match s with
  | String c r => if Ascii.eqb c q then r else s
  | EmptyString => s
  end.

Fixpoint trim_suffix1 (q : ascii) (s : string) : string :=
  match s with
  | EmptyString => EmptyString
  | String c EmptyString => if Ascii.eqb c q then EmptyString else s
  | String c r => String c (trim_suffix1 q r)
  end.

Definition strip_quotes (q : ascii) (s : string) : string := trim_suffix1 q (trim_prefix1 q s).

Definition dquote : ascii := ascii_of_N 34.
Definition squote : ascii := ascii_of_N 39.

(* ---- tokenScanner.Cur() for ts.cur <> EOF. The boolean says that Cur() called ts.Next()
        itself (two-character operator), i.e. one more raw token was consumed. ---- *)
Definition wrap_one (r : rawtok) : token * bool :=
  let text := r_text r in
  match r_class r with
  | RIdent =>
      match kw_lookup (kw_upper text) with
      | Some kw => (mkTok kw text, false)
      | None => (mkTok c_IDENT text, false)
      end
  | RInt => (mkTok c_INT text, false)
  | RDelimIdent => (mkTok c_IDENT (strip_quotes dquote text), false)
  | cls =>
      match kw_lookup (kw_upper text) with
      | Some kw =>
          if (kw =? c_BANG) && r_peek_eq r then (mkTok c_NEQ text, true)
          else if (kw =? c_GT) && r_peek_eq r then (mkTok c_GTE text, true)
          else if (kw =? c_LT) && r_peek_eq r then (mkTok c_LTE text, true)
          else (mkTok kw text, false)
      | None =>
          (mkTok c_STR (match cls with RString => strip_quotes squote text | _ => text end), false)
      end
  end.

(* parseSQL's loop. When Cur() consumed an extra raw token, the loop's own ts.Next() moves on to
   the token after it (if the stream ended there, the loop ends). *)
Fixpoint wrap (raws : list rawtok) : list token :=
  match raws with
  | [] => []
  | r :: rest =>
      let '(t, extra) := wrap_one r in
      t :: (if extra then match rest with [] => [] | _ :: rest' => wrap rest' end else wrap rest)
  end.

(* Assumption of the model about the raw-token oracle: none. (Quote stripping is
   TrimPrefix/TrimSuffix at HEAD, which is total; before commit c5408cf it needed texts of
   length >= 2.) The predicate is kept so that the driver has something to validate. *)
Definition raw_ok (raws : list rawtok) : bool := true.
