(* Model of sql/parser.go: every production of the recursive-descent parser, over the token list
   that engine/session.go parseSQL builds (Model/Lexer.v), plus Token.Val and strconv.Atoi.

   Conventions
   * A parser position is the list of remaining tokens: TokenList.Cur() = head (EOFToken when
     empty), Advance = tail, HasNext() (cur < len-1) = "at least two tokens remain",
     Prev() = the token just matched (every use of Prev() in parser.go follows a match).
   * Outcomes: POk | PErr kind | PPanic what | PFuel. Every Go type assertion without comma-ok is
     an explicit PPanic branch. Loops and the AND/OR recursion take fuel; `parse` supplies
     S (length toks) and Proofs/ParserTotal.v shows PFuel is unreachable.
   * Tokens are classified once (`classify`): the parser only ever inspects Token.Type, and
     Token.Text of IDENT / INT / STR tokens, so the text of every other token is dropped.
   * Errors are classes (errors.Is against the exported sentinels), not message texts.
   * The parser never checks for trailing tokens; neither does the model. *)
From Coq Require Export ZArith String Ascii List Bool.
From Mkdb Require Export Model.Value Model.Ast Model.Lexer.
Export ListNotations.
Local Open Scope string_scope.
Local Open Scope list_scope.
Local Open Scope Z_scope.

(* ---- token kinds the parser distinguishes; everything else (BANG, BEGIN, ..., SEMICOLON, EOF,
        fences, out-of-range numbers) is KOther ---- *)
Inductive tk :=
| KIdent | KInt | KStr | KResStart | KTrue | KFalse
| KAnd | KOr | KAstrsk | KEq | KNeq | KGt | KLt | KLte | KGte | KLparen | KRparen
| KAs | KAsc | KAvg | KBy | KComma | KCount | KCreate | KDatabase | KDelete | KDesc | KDot
| KFrom | KGroup | KInner | KInsert | KInto | KJoin | KLeft | KLimit | KOffset | KOn | KOrder
| KRight | KSelect | KSet | KShow | KTBool | KTInt | KTBigint | KTVarchar | KTable | KUpdate
| KUse | KValues | KWhere
| KOther.

Definition kind_table : list (Z * tk) := Eval vm_compute in [
  (lookup_code "IDENT", KIdent); (lookup_code "INT", KInt); (lookup_code "STR", KStr);
  (lookup_code "reserved_word_start", KResStart);
  (lookup_code "TRUE", KTrue); (lookup_code "FALSE", KFalse);
  (lookup_code "AND", KAnd); (lookup_code "OR", KOr); (lookup_code "ASTRSK", KAstrsk);
  (lookup_code "EQ", KEq); (lookup_code "NEQ", KNeq); (lookup_code "GT", KGt);
  (lookup_code "LT", KLt); (lookup_code "LTE", KLte); (lookup_code "GTE", KGte);
  (lookup_code "LPAREN", KLparen); (lookup_code "RPAREN", KRparen);
  (lookup_code "AS", KAs); (lookup_code "ASC", KAsc); (lookup_code "AVG", KAvg);
  (lookup_code "BY", KBy); (lookup_code "COMMA", KComma); (lookup_code "COUNT", KCount);
  (lookup_code "CREATE", KCreate); (lookup_code "DATABASE", KDatabase);
  (lookup_code "DELETE", KDelete); (lookup_code "DESC", KDesc); (lookup_code "DOT", KDot);
  (lookup_code "FROM", KFrom); (lookup_code "GROUP", KGroup); (lookup_code "INNER", KInner);
  (lookup_code "INSERT", KInsert); (lookup_code "INTO", KInto); (lookup_code "JOIN", KJoin);
  (lookup_code "LEFT", KLeft); (lookup_code "LIMIT", KLimit); (lookup_code "OFFSET", KOffset);
  (lookup_code "ON", KOn); (lookup_code "ORDER", KOrder); (lookup_code "RIGHT", KRight);
  (lookup_code "SELECT", KSelect); (lookup_code "SET", KSet); (lookup_code "SHOW", KShow);
  (lookup_code "T_BOOL", KTBool); (lookup_code "T_INT", KTInt);
  (lookup_code "T_BIGINT", KTBigint); (lookup_code "T_VARCHAR", KTVarchar);
  (lookup_code "TABLE", KTable); (lookup_code "UPDATE", KUpdate); (lookup_code "USE", KUse);
  (lookup_code "VALUES", KValues); (lookup_code "WHERE", KWhere)
].

Definition kind_of (z : Z) : tk :=
  match find (fun p => Z.eqb (fst p) z) kind_table with
  | Some p => snd p
  | None => KOther
  end.

Definition ptok := (tk * string)%type.

Definition has_text (k : tk) : bool :=
  match k with KIdent | KInt | KStr => true | _ => false end.

Definition classify (t : token) : ptok :=
  let k := kind_of (t_type t) in (k, if has_text k then t_text t else "").

(* ---- outcomes ---- *)
Inductive perr :=
| ESyntax               (* ErrSyntax *)
| EUnexpected           (* ErrUnexpectedToken *)
| ENegLimit             (* ErrNegativeLimit *)
| ENegOffset            (* ErrNegativeOffset *)
| EInvalidGroupBy       (* ErrInvalidGroupByColumn *)
| EAmbiguousGroupBy     (* ErrAmbiguousGroupByColumn *)
| EAtoi                 (* *strconv.NumError from Token.Val *)
| EAvgNeedsColumn       (* "avg() requires a column argument" *)
| ETmpUnsupported       (* ErrTmpUnsupportedSyntax: declared in parser.go, never returned by it *)
| EUnsupportedToken.    (* Token.Val on a token that is not INT/STR/TRUE/FALSE *)

Inductive pwhat :=
| PkRequireIntAssert.   (* requireInt: val.(int64) *)

Inductive pres (A : Type) :=
| POk (a : A)
| PErr (e : perr)
| PPanic (w : pwhat)
| PFuel.
Arguments POk {A} a.
Arguments PErr {A} e.
Arguments PPanic {A} w.
Arguments PFuel {A}.

Definition bind {A B} (r : pres A) (f : A -> pres B) : pres B :=
  match r with
  | POk a => f a
  | PErr e => PErr e
  | PPanic w => PPanic w
  | PFuel => PFuel
  end.

Notation "'let*' x ':=' r 'in' k" := (bind r (fun x => k))
  (at level 200, x pattern, r at level 100, k at level 200, right associativity).

(* ---- strconv.Atoi on a 64-bit platform: optional sign, one or more decimal digits, value
        within int64; anything else is an error ---- *)
Definition digit_of (c : ascii) : option Z :=
  let n := N_of_ascii c in
  if ((48 <=? n) && (n <=? 57))%N then Some (Z.of_N (n - 48)) else None.

Fixpoint all_digits (s : string) : bool :=
  match s with
  | EmptyString => true
  | String c r => match digit_of c with Some _ => all_digits r | None => false end
  end.

Fixpoint strip_zeros (s : string) : string :=
  match s with
  | String c r => if Ascii.eqb c "0"%char then strip_zeros r else s
  | EmptyString => s
  end.

Fixpoint digits_val (acc : Z) (s : string) : Z :=
  match s with
  | EmptyString => acc
  | String c r => match digit_of c with Some d => digits_val (acc * 10 + d) r | None => acc end
  end.

Definition max_int64 : Z := 9223372036854775807.
Definition min_int64 : Z := -9223372036854775808.

(* magnitude of a non-empty all-digit string, None if it certainly exceeds 2^63 (more than 19
   significant digits; avoids computing with 100 kB numerals) *)
Definition magnitude (s : string) : option Z :=
  match s with
  | EmptyString => None
  | _ =>
      if all_digits s then
        let t := strip_zeros s in
        if (19 <? String.length t)%nat then None else Some (digits_val 0 t)
      else None
  end.

Definition atoi (s : string) : option Z :=
  match s with
  | String c r =>
      if Ascii.eqb c "-"%char then
        match magnitude r with
        | Some m => if m <=? - min_int64 then Some (- m) else None
        | None => None
        end
      else if Ascii.eqb c "+"%char then
        match magnitude r with
        | Some m => if m <=? max_int64 then Some m else None
        | None => None
        end
      else
        match magnitude s with
        | Some m => if m <=? max_int64 then Some m else None
        | None => None
        end
  | EmptyString => None
  end.

(* ---- Token.Val ---- *)
Definition val_of (t : ptok) : pres value :=
  match fst t with
  | KStr => POk (VStr (snd t))
  | KInt => match atoi (snd t) with Some z => POk (VInt z) | None => PErr EAtoi end
  | KTrue => POk (VBool true)
  | KFalse => POk (VBool false)
  | _ => PErr EUnsupportedToken
  end.

(* scanner.go init(): literals = every number strictly between literal_start and literal_end =
   INT, STR, reserved_word_start, TRUE, FALSE *)
Definition is_literal (k : tk) : bool :=
  match k with KInt | KStr | KResStart | KTrue | KFalse => true | _ => false end.

Definition has_next (toks : list ptok) : bool :=
  match toks with _ :: _ :: _ => true | _ => false end.

(* ---- requireInt ---- *)
Definition require_int (toks : list ptok) : pres (Z * list ptok) :=
  match toks with
  | (KInt, s) :: rest =>
      match val_of (KInt, s) with
      | POk (VInt z) => POk (z, rest)
      | POk _ => PPanic PkRequireIntAssert          (* val.(int64) *)
      | PErr e => PErr e
      | PPanic w => PPanic w
      | PFuel => PFuel
      end
  | _ => PErr EUnexpected
  end.

(* ---- ColumnReference: (found, cr, err) ---- *)
Definition column_reference (toks : list ptok) : pres (option colref * list ptok) :=
  match toks with
  | (KIdent, a) :: rest =>
      match rest with
      | (KDot, _) :: rest2 =>
          match rest2 with
          | (KIdent, b) :: rest3 => POk (Some (mkCol a b), rest3)
          | _ => PErr EUnexpected
          end
      | _ => POk (Some (mkCol "" a), rest)
      end
  | _ => POk (None, toks)
  end.

(* ---- ValueExpression ---- *)
Definition value_expression (toks : list ptok) : pres (vexpr * list ptok) :=
  match toks with
  | t :: rest =>
      if is_literal (fst t) then
        let* v := val_of t in POk (XLit v, rest)
      else
        let* (ocr, rest') := column_reference toks in
        match ocr with
        | Some cr => POk (XCol cr, rest')
        | None => PErr EUnexpected
        end
  | [] => PErr EUnexpected
  end.

Definition compop_of (k : tk) : option compop :=
  match k with
  | KEq => Some CEq | KNeq => Some CNeq | KLt => Some CLt | KGt => Some CGt
  | KLte => Some CLte | KGte => Some CGte
  | _ => None
  end.

(* ---- ComparisonPredicate + Predicate: a bare value, or Predicate{ComparisonPredicate} ---- *)
Definition predicate (toks : list ptok) : pres (expr * list ptok) :=
  let* (lhs, rest) := value_expression toks in
  match rest with
  | (k, _) :: rest1 =>
      match compop_of k with
      | Some op =>
          let* (rhs, rest2) := value_expression rest1 in
          POk (EPred lhs op rhs, rest2)
      | None => POk (EVal lhs, rest)
      end
  | [] => POk (EVal lhs, rest)
  end.

(* ---- AndCondition: ret := Predicate(); for match(AND) { lhs, ok := ret.(Predicate);
        if !ok -> syntax error; ret = BooleanTerm{lhs, AndCondition()} } ---- *)
Fixpoint and_cond (fuel : nat) (toks : list ptok) : pres (expr * list ptok) :=
  match fuel with
  | O => PFuel
  | S f =>
      let* (ret, rest) := predicate toks in and_loop f ret rest
  end
with and_loop (fuel : nat) (ret : expr) (toks : list ptok) : pres (expr * list ptok) :=
  match fuel with
  | O => PFuel
  | S f =>
      match toks with
      | (KAnd, _) :: rest1 =>
          match ret with
          | EPred l op r =>
              let* (rhs, rest2) := and_cond f rest1 in
              and_loop f (EAnd (l, op, r) rhs) rest2
          | _ => PErr ESyntax
          end
      | _ => POk (ret, toks)
      end
  end.

(* ---- OrCondition: ret := AndCondition(); for match(OR) { ret = SearchCondition{ret, OrCondition()} } ---- *)
Fixpoint or_cond (fuel : nat) (toks : list ptok) : pres (expr * list ptok) :=
  match fuel with
  | O => PFuel
  | S f =>
      let* (ret, rest) := and_cond fuel toks in or_loop f ret rest
  end
with or_loop (fuel : nat) (ret : expr) (toks : list ptok) : pres (expr * list ptok) :=
  match fuel with
  | O => PFuel
  | S f =>
      match toks with
      | (KOr, _) :: rest1 =>
          let* (rhs, rest2) := or_cond f rest1 in
          or_loop f (EOr ret rhs) rest2
      | _ => POk (ret, toks)
      end
  end.

(* ---- SetFunctionSpecification: (found, setFunc, err) ---- *)
Definition set_function (toks : list ptok) : pres (option selprim * list ptok) :=
  match toks with
  | (KCount, _) :: rest =>
      match rest with
      | (KLparen, _) :: rest1 =>
          let* (ocr, rest2) := column_reference rest1 in
          let* (arg, rest3) :=
            match ocr with
            | Some cr => POk (Some cr, rest2)
            | None =>
                match rest2 with
                | (KAstrsk, _) :: r => POk (None, r)
                | _ => PErr EUnexpected
                end
            end in
          match rest3 with
          | (KRparen, _) :: rest4 => POk (Some (SPCount arg), rest4)
          | _ => PErr EUnexpected
          end
      | _ => PErr EUnexpected
      end
  | (KAvg, _) :: rest =>
      match rest with
      | (KLparen, _) :: rest1 =>
          let* (ocr, rest2) := column_reference rest1 in
          match ocr with
          | None => PErr EAvgNeedsColumn
          | Some cr =>
              match rest2 with
              | (KRparen, _) :: rest3 => POk (Some (SPAvg cr), rest3)
              | _ => PErr EUnexpected
              end
          end
      | _ => PErr EUnexpected
      end
  | _ => POk (None, toks)
  end.

(* ---- DerivedColumn (without the alias, which SelectList parses) ---- *)
Definition derived_column (fuel : nat) (toks : list ptok) : pres (selprim * list ptok) :=
  let* (osf, rest) := set_function toks in
  match osf with
  | Some sf => POk (sf, rest)
  | None => let* (e, rest') := or_cond fuel toks in POk (SPExpr e, rest')
  end.

(* ---- SelectList ---- *)
Fixpoint select_items (fuel : nat) (acc : list derivedcol) (toks : list ptok)
  : pres (list derivedcol * list ptok) :=
  match fuel with
  | O => PFuel
  | S f =>
      let* (prim, r1) := derived_column fuel toks in
      (* if p.match(AS) { if p.Cur().Type != IDENT { return sl, p.requireMatch(IDENT) } }
         - in that branch requireMatch(IDENT) looks at the same non-IDENT token and fails *)
      let* r2 :=
        match r1 with
        | (KAs, _) :: r =>
            match r with
            | (KIdent, _) :: _ => POk r
            | _ => PErr EUnexpected
            end
        | _ => POk r1
        end in
      (* if p.match(IDENT) { dc.AsClause = p.Prev().Text } *)
      let '(alias, r3) :=
        match r2 with
        | (KIdent, a) :: r => (a, r)
        | _ => ("", r2)
        end in
      let acc' := acc ++ [mkDC prim alias] in
      match r3 with
      | (KComma, _) :: r4 => select_items f acc' r4
      | _ => POk (acc', r3)
      end
  end.

Definition select_list (fuel : nat) (toks : list ptok) : pres (list derivedcol * list ptok) :=
  match toks with
  | (KAstrsk, _) :: rest => POk ([mkDC SPStar ""], rest)
  | _ => select_items fuel [] toks
  end.

(* ---- TableName ---- *)
Definition table_name (toks : list ptok) : pres (tableref * list ptok) :=
  match toks with
  | (KIdent, n) :: rest =>
      match rest with
      | (KIdent, a) :: rest' => POk (TRName n (Some a), rest')
      | _ => POk (TRName n None, rest)
      end
  | _ => PErr EUnexpected
  end.

(* ---- FromClause: the join loop ---- *)
Fixpoint join_loop (fuel : nat) (lhs : tableref) (toks : list ptok) : pres (tableref * list ptok) :=
  match fuel with
  | O => PFuel
  | S f =>
      let step (jt : jointype) (r : list ptok) : pres (tableref * list ptok) :=
        match r with
        | (KJoin, _) :: r1 =>
            let* (rhs, r2) := table_name r1 in
            match r2 with
            | (KOn, _) :: r3 =>
                let* (cond, r4) := or_cond fuel r3 in
                join_loop f (TRJoin lhs jt rhs cond) r4
            | _ => PErr EUnexpected
            end
        | _ => PErr EUnexpected
        end in
      match toks with
      | (KLeft, _) :: r => step JLeft r
      | (KRight, _) :: r => step JRight r
      | (KInner, _) :: r => step JInner r
      | (KJoin, _) :: _ => step JInner toks
      | _ => POk (lhs, toks)
      end
  end.

(* (FromClause, found, err) *)
Definition from_clause (fuel : nat) (toks : list ptok) : pres (option tableref * list ptok) :=
  match toks with
  | (KFrom, _) :: r =>
      let* (tn, r1) := table_name r in
      let* (tr, r2) := join_loop fuel tn r1 in
      POk (Some tr, r2)
  | _ => POk (None, toks)
  end.

(* ---- WhereClause ---- *)
Definition where_clause (fuel : nat) (toks : list ptok) : pres (option expr * list ptok) :=
  match toks with
  | (KWhere, _) :: r => let* (e, r1) := or_cond fuel r in POk (Some e, r1)
  | _ => POk (None, toks)
  end.

(* ---- GroupByClause ---- *)
Fixpoint group_loop (fuel : nat) (acc : list colref) (toks : list ptok) : pres (list colref * list ptok) :=
  match fuel with
  | O => PFuel
  | S f =>
      let* (ocr, r) := column_reference toks in
      match ocr with
      | None => POk (acc, r)
      | Some cr =>
          match r with
          | (KComma, _) :: r1 => group_loop f (acc ++ [cr]) r1
          | _ => group_loop f (acc ++ [cr]) r
          end
      end
  end.

Definition group_by_clause (fuel : nat) (toks : list ptok) : pres (list colref * list ptok) :=
  match toks with
  | (KGroup, _) :: r =>
      match r with
      | (KBy, _) :: r1 => group_loop fuel [] r1
      | _ => PErr EUnexpected
      end
  | _ => POk ([], toks)
  end.

(* ---- TableExpression: (te, found, err) ---- *)
Definition table_expression (fuel : nat) (toks : list ptok)
  : pres (option (tableref * option expr * list colref) * list ptok) :=
  let* (ofc, r) := from_clause fuel toks in
  match ofc with
  | None => POk (None, r)
  | Some tr =>
      let* (w, r1) := where_clause fuel r in
      let* (g, r2) := group_by_clause fuel r1 in
      POk (Some (tr, w, g), r2)
  end.

(* ---- ColumnReference.Equals, DerivedColumn.Matches (the fallthrough chain is a disjunction),
        SelectList.HasAggrFunc, validateGroupByFields ---- *)
Definition cr_equals (v rhs : colref) : bool :=
  if xorb (String.eqb (cr_qual v) "") (String.eqb (cr_qual rhs) "") then false
  else if negb (String.eqb (cr_qual v) (cr_qual rhs)) then false
  else String.eqb (cr_name v) (cr_name rhs).

Definition dc_colref (d : derivedcol) : option colref :=
  match dc_prim d with
  | SPExpr (EVal (XCol c)) => Some c
  | _ => None
  end.

Definition dc_matches (d : derivedcol) (rhs : colref) : bool :=
  match dc_colref d with
  | None => false
  | Some lhs =>
      cr_equals lhs rhs
      || String.eqb (dc_as d) (cr_name rhs)
      || (String.eqb (cr_name lhs) (cr_name rhs) && String.eqb (cr_qual rhs) "")
  end.

Definition has_aggr (sl : list derivedcol) : bool :=
  existsb (fun d => match dc_prim d with SPCount _ | SPAvg _ => true | _ => false end) sl.

Definition is_colref_dc (d : derivedcol) : bool :=
  match dc_colref d with Some _ => true | None => false end.

Definition validate_group_by (sl : list derivedcol) (g : list colref) : option perr :=
  if negb (has_aggr sl) && match g with [] => true | _ => false end then None
  else if negb (forallb (fun d => negb (is_colref_dc d) || existsb (dc_matches d) g) sl)
  then Some EInvalidGroupBy
  else if existsb (fun gc => (2 <=? length (filter (fun d => dc_matches d gc) sl))%nat) g
  then Some EAmbiguousGroupBy
  else None.

(* ---- SortSpecificationList ---- *)
Fixpoint sort_loop (fuel : nat) (acc : list sortspec) (toks : list ptok) : pres (list sortspec * list ptok) :=
  match fuel with
  | O => PFuel
  | S f =>
      let* (ocr, r) := column_reference toks in
      match ocr with
      | None => PErr EUnexpected
      | Some cr =>
          let '(dir, r1) :=
            match r with
            | (KAsc, _) :: r' => (SAsc, r')
            | (KDesc, _) :: r' => (SDesc, r')
            | _ => (SAsc, r)
            end in
          let acc' := acc ++ [mkSort cr dir] in
          match r1 with
          | (KComma, _) :: r2 => sort_loop f acc' r2
          | _ => POk (acc', r1)
          end
      end
  end.

Definition sort_spec_list (fuel : nat) (toks : list ptok) : pres (list sortspec * list ptok) :=
  match toks with
  | (KOrder, _) :: r =>
      match r with
      | (KBy, _) :: r1 => sort_loop fuel [] r1
      | _ => PErr EUnexpected
      end
  | _ => POk ([], toks)
  end.

(* ---- LimitOffsetClause ---- *)
Record limoff := mkLO { lo_la : bool; lo_oa : bool; lo_l : Z; lo_o : Z }.

Fixpoint limit_loop (fuel : nat) (lc : limoff) (toks : list ptok) : pres (limoff * list ptok) :=
  match fuel with
  | O => PFuel
  | S f =>
      match toks with
      | (KLimit, _) :: r =>
          if negb (lo_la lc) then
            let* (z, r1) := require_int r in
            limit_loop f (mkLO true (lo_oa lc) z (lo_o lc)) r1     (* lc.Limit = int(limit) *)
          else limit_loop f lc r
      | (KOffset, _) :: r =>
          if negb (lo_oa lc) then
            let* (z, r1) := require_int r in
            limit_loop f (mkLO (lo_la lc) true (lo_l lc) z) r1
          else limit_loop f lc r
      | _ => POk (lc, toks)
      end
  end.

Definition limit_offset (fuel : nat) (toks : list ptok) : pres (limoff * list ptok) :=
  let* (lc, r) := limit_loop fuel (mkLO false false 0 0) toks in
  if lo_l lc <? 0 then PErr ENegLimit
  else if lo_o lc <? 0 then PErr ENegOffset
  else POk (lc, r).

(* ---- Select ---- *)
Definition select_ (fuel : nat) (toks : list ptok) : pres stmt :=
  let* (sl, r1) := select_list fuel toks in
  let* (ote, r2) := table_expression fuel r1 in
  let has_from := match ote with Some _ => true | None => false end in
  if negb has_from && has_next r2 then
    (* return sel, p.requireMatch(FROM) *)
    match r2 with
    | (KFrom, _) :: _ => POk (SSelect (mkSelect sl [] None [] [] false false 0 0))
    | _ => PErr EUnexpected
    end
  else
    let '(fc, w, g) :=
      match ote with
      | Some (tr, w, g) => ([tr], w, g)
      | None => ([], None, [])
      end in
    match validate_group_by sl g with
    | Some e => PErr e
    | None =>
        let* (ss, r3) := sort_spec_list fuel r2 in
        let* (lc, _) := limit_offset fuel r3 in
        POk (SSelect (mkSelect sl fc w g ss (lo_la lc) (lo_oa lc) (lo_l lc) (lo_o lc)))
    end.

(* ---- CREATE ---- *)
Fixpoint table_elements_loop (fuel : nat) (acc : list coldef) (toks : list ptok)
  : pres (list coldef * list ptok) :=
  match fuel with
  | O => PFuel
  | S f =>
      match toks with
      | (KIdent, name) :: r =>
          let* (ty, r1) :=
            match r with
            | (KTInt, _) :: r' => POk (STNumeric, r')
            | (KTBigint, _) :: r' => POk (STBigInt, r')
            | (KTBool, _) :: r' => POk (STBoolean, r')
            | (KTVarchar, _) :: r' =>
                match r' with
                | (KLparen, _) :: r2 =>
                    let* (z, r3) := require_int r2 in
                    match r3 with
                    | (KRparen, _) :: r4 => POk (STVarchar z, r4)
                    | _ => PErr EUnexpected
                    end
                | _ => PErr EUnexpected
                end
            | _ => PErr ESyntax
            end in
          let acc' := acc ++ [mkColDef name ty] in
          match r1 with
          | (KComma, _) :: r2 => table_elements_loop f acc' r2
          | _ => POk (acc', r1)
          end
      | _ => POk (acc, toks)
      end
  end.

Definition table_elements (fuel : nat) (toks : list ptok) : pres (list coldef * list ptok) :=
  match toks with
  | (KLparen, _) :: r =>
      let* (els, r1) := table_elements_loop fuel [] r in
      match r1 with
      | (KRparen, _) :: r2 => POk (els, r2)
      | _ => PErr EUnexpected
      end
  | _ => PErr EUnexpected
  end.

Definition create_table (fuel : nat) (toks : list ptok) : pres stmt :=
  let '(name, r) :=
    match toks with
    | (KIdent, n) :: r => (n, r)
    | _ => ("", toks)
    end in
  let* (els, _) := table_elements fuel r in
  POk (SCreateTable name els).

Definition create_ (fuel : nat) (toks : list ptok) : pres stmt :=
  match toks with
  | (KDatabase, _) :: r =>
      match r with
      | (KIdent, n) :: _ => POk (SCreateDatabase n)
      | _ => PErr EUnexpected
      end
  | (KTable, _) :: r => create_table fuel r
  | _ => PErr ESyntax
  end.

(* ---- SHOW (strings.ToLower(cur.Text) == "databases": no non-ASCII rune lowers to one of the
        letters of "databases", so ASCII lower-casing is exact) ---- *)
Definition low_ascii (c : ascii) : ascii :=
  let n := N_of_ascii c in
  if ((65 <=? n) && (n <=? 90))%N then ascii_of_N (n + 32) else c.

Fixpoint lower_ascii (s : string) : string :=
  match s with
  | EmptyString => EmptyString
  | String c r => String (low_ascii c) (lower_ascii r)
  end.

Definition show_ (toks : list ptok) : pres stmt :=
  match toks with
  | (KDatabase, _) :: _ => POk SShowDatabase
  | (KIdent, t) :: _ => if String.eqb (lower_ascii t) "databases" then POk SShowDatabase else PErr ESyntax
  | _ => PErr ESyntax
  end.

(* ---- USE ---- *)
Definition use_ (toks : list ptok) : pres stmt :=
  match toks with
  | (KIdent, n) :: _ => POk (SUse n)
  | _ => PErr EUnexpected
  end.

(* ---- INSERT ---- *)
Fixpoint insert_cols_loop (fuel : nat) (acc : list string) (toks : list ptok) : pres (list string * list ptok) :=
  match fuel with
  | O => PFuel
  | S f =>
      match toks with
      | (KIdent, c) :: r =>
          match r with
          | (KComma, _) :: r1 => insert_cols_loop f (acc ++ [c]) r1
          | _ => POk (acc ++ [c], r)
          end
      | _ => POk (acc, toks)
      end
  end.

Fixpoint insert_vals_loop (fuel : nat) (acc : list value) (toks : list ptok) : pres (list value * list ptok) :=
  match fuel with
  | O => PFuel
  | S f =>
      match toks with
      | t :: r =>
          if is_literal (fst t) then
            let* v := val_of t in
            match r with
            | (KComma, _) :: r1 => insert_vals_loop f (acc ++ [v]) r1
            | _ => POk (acc ++ [v], r)
            end
          else POk (acc, toks)
      | [] => POk (acc, toks)
      end
  end.

Fixpoint insert_rows_loop (fuel : nat) (acc : list (list value)) (toks : list ptok)
  : pres (list (list value) * list ptok) :=
  match fuel with
  | O => PFuel
  | S f =>
      match toks with
      | (KLparen, _) :: r =>
          let* (vals, r1) := insert_vals_loop fuel [] r in
          match r1 with
          | (KRparen, _) :: r2 =>
              match r2 with
              | (KComma, _) :: r3 => insert_rows_loop f (acc ++ [vals]) r3
              | _ => POk (acc ++ [vals], r2)
              end
          | _ => PErr EUnexpected
          end
      | _ => POk (acc, toks)
      end
  end.

Definition insert_ (fuel : nat) (toks : list ptok) : pres stmt :=
  match toks with
  | (KInto, _) :: r =>
      match r with
      | (KIdent, tbl) :: r1 =>
          let* (cols, r2) :=
            match r1 with
            | (KLparen, _) :: r' =>
                let* (cs, r'') := insert_cols_loop fuel [] r' in
                match r'' with
                | (KRparen, _) :: r3 => POk (cs, r3)
                | _ => PErr EUnexpected
                end
            | _ => POk ([], r1)
            end in
          match r2 with
          | (KValues, _) :: r3 =>
              let* (rows, _) := insert_rows_loop fuel [] r3 in
              POk (SInsert tbl cols rows)
          | _ => PErr EUnexpected
          end
      | _ => PErr EUnexpected
      end
  | _ => PErr EUnexpected
  end.

(* ---- UPDATE ---- *)
Fixpoint update_set_loop (fuel : nat) (acc : list (string * vexpr)) (toks : list ptok)
  : pres (list (string * vexpr) * list ptok) :=
  match fuel with
  | O => PFuel
  | S f =>
      match toks with
      | (KIdent, c) :: r =>
          match r with
          | (KEq, _) :: r1 =>
              let* (v, r2) := value_expression r1 in
              match r2 with
              | (KComma, _) :: r3 => update_set_loop f (acc ++ [(c, v)]) r3
              | _ => POk (acc ++ [(c, v)], r2)
              end
          | _ => PErr EUnexpected
          end
      | _ => POk (acc, toks)
      end
  end.

Definition update_ (fuel : nat) (toks : list ptok) : pres stmt :=
  match toks with
  | (KIdent, tbl) :: r =>
      match r with
      | (KSet, _) :: r1 =>
          let* (sets, r2) := update_set_loop fuel [] r1 in
          let* (w, _) := where_clause fuel r2 in
          POk (SUpdate tbl sets w)
      | _ => PErr EUnexpected
      end
  | _ => PErr EUnexpected
  end.

(* ---- DELETE ---- *)
Definition delete_ (fuel : nat) (toks : list ptok) : pres stmt :=
  match toks with
  | (KFrom, _) :: r =>
      match r with
      | (KIdent, tbl) :: r1 =>
          let* (w, _) := where_clause fuel r1 in
          POk (SDelete tbl w)
      | _ => PErr EUnexpected
      end
  | _ => PErr EUnexpected
  end.

(* ---- Parse ---- *)
Definition parse_f (fuel : nat) (toks : list ptok) : pres stmt :=
  match toks with
  | (KCreate, _) :: r => create_ fuel r
  | (KSelect, _) :: r => select_ fuel r
  | (KInsert, _) :: r => insert_ fuel r
  | (KUpdate, _) :: r => update_ fuel r
  | (KUse, _) :: r => use_ r
  | (KDelete, _) :: r => delete_ fuel r
  | (KShow, _) :: r => show_ r
  | _ => PErr ESyntax
  end.

Definition parse (toks : list ptok) : pres stmt := parse_f (S (length toks)) toks.

(* the token list as the Go side holds it (numbered types) *)
Definition parse_tokens (toks : list token) : pres stmt := parse (map classify toks).

(* engine/session.go parseSQL, from the raw-token oracle's output *)
Definition parse_pipeline (raws : list rawtok) : pres stmt := parse_tokens (wrap raws).
