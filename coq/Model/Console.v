(* Model of cmd/console/go_terminal.go (a fork of golang.org/x/term): the part of
   Terminal.ReadLine that decides WHICH statements are handed to the engine.

   Modelled exactly: bytesToKey (control bytes, UTF-8 decoding incl. invalid/partial
   sequences, escape sequences, bracketed paste markers), the readLine loop (remainder
   buffer of 256 bytes, chunked reads, Ctrl-C / Ctrl-D, pasteActive, lineIsPasted),
   handleKey for printable keys, Enter, and every key while a paste is active,
   maxLineLength, splitStatements (quote state machine with backslash skipping,
   strings.TrimSpace = unicode.IsSpace on both ends), the []rune -> string conversion
   (surrogates / out-of-range runes become U+FFFD).
   NOT modelled (outcome Unmodelled): the editing and history keys outside a paste
   (Backspace, ^U, arrows, Home/End, ^W, ^K, ^L, Alt-arrows); the cursor is therefore
   always at the end of the line. Echo output (VT100 cursor movement) does not influence
   the returned lines and is not modelled. AutoCompleteCallback is nil in cmd/console.

   Runes, keys and bytes are numbers (N). No proofs in this file. *)
From Coq Require Export List NArith Bool Arith.
Export ListNotations.
Open Scope N_scope.

(* ---- key constants (go_terminal.go const block; keyUnknown = 0xd800 + iota, iota = 6) ---- *)
Definition keyCtrlC : N := 3.
Definition keyCtrlD : N := 4.
Definition keyCtrlU : N := 21.
Definition keyEnter : N := 13.
Definition keyEscape : N := 27.
Definition keyBackspace : N := 127.
Definition keyUnknown : N := 55302.
Definition keyUp : N := 55303.
Definition keyDown : N := 55304.
Definition keyLeft : N := 55305.
Definition keyRight : N := 55306.
Definition keyAltLeft : N := 55307.
Definition keyAltRight : N := 55308.
Definition keyHome : N := 55309.
Definition keyEnd : N := 55310.
Definition keyDeleteWord : N := 55311.
Definition keyDeleteLine : N := 55312.
Definition keyClearScreen : N := 55313.
Definition keyPasteStart : N := 55314.
Definition keyPasteEnd : N := 55315.
Definition runeError : N := 65533.          (* utf8.RuneError = U+FFFD *)
Definition inBufSize : nat := 256.

(* reported by the Go driver and compared on every run *)
Definition key_consts : list N :=
  [keyCtrlC; keyCtrlD; keyCtrlU; keyEnter; keyEscape; keyBackspace; keyUnknown; keyUp; keyDown;
   keyLeft; keyRight; keyAltLeft; keyAltRight; keyHome; keyEnd; keyDeleteWord; keyDeleteLine;
   keyClearScreen; keyPasteStart; keyPasteEnd; runeError; N.of_nat inBufSize].

(* isPrintable: key >= 32 && !(0xd800 <= key <= 0xdbff) *)
Definition is_printable (k : N) : bool := (32 <=? k) && negb ((55296 <=? k) && (k <=? 56319)).

(* string([]rune): surrogates and values above 0x10FFFF are encoded as U+FFFD *)
Definition fix_rune (r : N) : N :=
  if ((55296 <=? r) && (r <=? 57343)) || (1114111 <? r) then runeError else r.
Definition to_str (l : list N) : list N := map fix_rune l.

(* unicode.IsSpace (Latin-1 switch + White_Space table) *)
Definition is_space (r : N) : bool :=
  ((9 <=? r) && (r <=? 13)) || (r =? 32) || (r =? 133) || (r =? 160) || (r =? 5760) ||
  ((8192 <=? r) && (r <=? 8202)) || (r =? 8232) || (r =? 8233) || (r =? 8239) || (r =? 8287) ||
  (r =? 12288).

Fixpoint trim_left (l : list N) : list N :=
  match l with
  | [] => []
  | c :: r => if is_space c then trim_left r else l
  end.
Definition trim (l : list N) : list N := rev (trim_left (rev (trim_left l))).   (* strings.TrimSpace *)

(* ---- splitStatements ----
   Go walks the line with `quote` (0 = outside a literal) and skips the rune after a
   backslash inside a literal (cur++). The scanner state is (quote, skip-next). *)
Definition qstate := (N * bool)%type.
Definition q0 : qstate := (0, false).

(* one rune: new state, and whether a statement is cut after this rune *)
Definition step_q (s : qstate) (c : N) : qstate * bool :=
  let '(q, skip) := s in
  if skip then ((q, false), false)
  else if negb (q =? 0) then
    if c =? 92 then ((q, true), false)
    else if c =? q then ((0, false), false)
    else ((q, false), false)
  else if (c =? 39) || (c =? 34) then ((c, false), false)
  else if c =? 59 then ((0, false), true)
  else ((0, false), false).

(* closed pieces line[begin:cur+1], the open tail line[begin:], final scanner state *)
Definition push (c : N) (x : list (list N) * list N) : list (list N) * list N :=
  match fst x with
  | [] => ([], c :: snd x)
  | p :: ps => ((c :: p) :: ps, snd x)
  end.

Fixpoint pieces (s : qstate) (l : list N) : list (list N) * list N * qstate :=
  match l with
  | [] => ([], [], s)
  | c :: r =>
      let '(s', cut) := step_q s c in
      let '(pt, sf) := pieces s' r in
      if cut then (([c] :: fst pt, snd pt), sf) else (push c pt, sf)
  end.

Definition all_space (l : list N) : bool := forallb is_space l.

Definition split_statements (line : list N) : list (list N) * bool :=
  let '(ps, tl, sf) := pieces q0 line in
  (map (fun p => trim (to_str p)) ps, (fst sf =? 0) && all_space (to_str tl)).

(* ---- handleKey ---- *)
Record term := mkTerm { line : list N; paste : bool }.

Inductive hk_result :=
| HLine (stmts : list (list N)) (t : term)   (* ok = true: statements returned, buffer cleared *)
| HCont (t : term)
| HUnmodelled.

Definition add_key (t : term) (k : N) : term := mkTerm (line t ++ [k]) (paste t).

Definition is_edit_key (k : N) : bool :=
  (k =? keyBackspace) || (k =? keyCtrlU) || ((keyUp <=? k) && (k <=? keyClearScreen)).

Definition handle_key (t : term) (k : N) : hk_result :=
  if paste t && negb (k =? keyEnter) then HCont (add_key t k)
  else if k =? keyEnter then
    let '(stmts, complete) := split_statements (line t) in
    if complete then HLine stmts (mkTerm [] (paste t))
    else HCont (add_key t 32)
  else if is_edit_key k then HUnmodelled
  else if k =? keyCtrlD then HCont t            (* erases under the cursor: nothing at end of line *)
  else if negb (is_printable k) then HCont t
  else HCont (add_key t k).

(* ---- the body of readLine's inner loop for one key ---- *)
Inductive rl_out :=
| Line (stmts : list (list N)) (pasted : bool)   (* pasted: err = ErrPasteIndicator *)
| Eof
| Unmodelled.

Inductive pk_result :=
| PStop (o : rl_out)                       (* ReadLine returns without a line *)
| PCont (t : term) (lip : bool)
| PLine (stmts : list (list N)) (pasted : bool) (t : term).

Definition process_key (t : term) (lip : bool) (k : N) : pk_result :=
  let handle (lip' : bool) :=
    match handle_key t k with
    | HLine ss t' => PLine ss lip' t'
    | HCont t' => PCont t' lip'
    | HUnmodelled => PStop Unmodelled
    end in
  if negb (paste t) then
    if (k =? keyCtrlD) && (match line t with [] => true | _ => false end) then PStop Eof
    else if k =? keyCtrlC then PStop Eof
    else if k =? keyPasteStart then
      PCont (mkTerm (line t) true) (match line t with [] => true | _ => lip end)
    else handle false
  else if k =? keyPasteEnd then PCont (mkTerm (line t) false) lip
  else handle lip.

(* ---- key-level session: successive ReadLine calls over an already decoded key list,
   until the input is exhausted (Read returns io.EOF). Returns the lines and the final
   terminal state (with lineIsPasted); a stop (Ctrl-C, Ctrl-D on an empty line, unmodelled key) ends it. ---- *)
Fixpoint run (t : term) (lip : bool) (ks : list N) : list rl_out * (term * bool) :=
  match ks with
  | [] => ([], (t, lip))
  | k :: r =>
      match process_key t lip k with
      | PStop o => ([o], (t, lip))
      | PCont t' lip' => run t' lip' r
      | PLine ss p t' => let '(os, x) := run t' (paste t') r in (Line ss p :: os, x)
      end
  end.

Definition is_stop (o : rl_out) : bool := match o with Line _ _ => false | _ => true end.

Definition close_session (os : list rl_out) : list rl_out :=
  if existsb is_stop os then os else os ++ [Eof].

Definition init_term : term := mkTerm [] false.
Definition session_keys (ks : list N) : list rl_out := close_session (fst (run init_term false ks)).

Definition stmts_of (o : rl_out) : list (list N) := match o with Line ss _ => ss | _ => [] end.
Definition submitted (os : list rl_out) : list (list N) := concat (map stmts_of os).

(* ---- bytesToKey ---- *)
Inductive bk := BKey (k : N) (rest : list N) | BNone (rest : list N).   (* BNone: utf8.RuneError *)

Definition ctrl_key (b : N) : option N :=
  if b =? 1 then Some keyHome else if b =? 2 then Some keyLeft else if b =? 5 then Some keyEnd
  else if b =? 6 then Some keyRight else if b =? 8 then Some keyBackspace
  else if b =? 11 then Some keyDeleteLine else if b =? 12 then Some keyClearScreen
  else if b =? 23 then Some keyDeleteWord else if b =? 14 then Some keyDown
  else if b =? 16 then Some keyUp else None.

(* unicode/utf8 `first` table: None = ASCII or invalid lead byte (handled apart);
   Some (size, lo, hi) = sequence length and accept range of the second byte *)
Definition utf8_lead (b : N) : option (nat * N * N) :=
  if (194 <=? b) && (b <=? 223) then Some (2%nat, 128, 191)
  else if b =? 224 then Some (3%nat, 160, 191)
  else if ((225 <=? b) && (b <=? 236)) || (b =? 238) || (b =? 239) then Some (3%nat, 128, 191)
  else if b =? 237 then Some (3%nat, 128, 159)
  else if b =? 240 then Some (4%nat, 144, 191)
  else if (241 <=? b) && (b <=? 243) then Some (4%nat, 128, 191)
  else if b =? 244 then Some (4%nat, 128, 143)
  else None.

Definition cont (b : N) : bool := (128 <=? b) && (b <=? 191).
Definition in_rng (b lo hi : N) : bool := (lo <=? b) && (b <=? hi).

(* utf8.FullRune *)
Definition full_rune (p : list N) : bool :=
  match p with
  | [] => false
  | p0 :: r =>
      match utf8_lead p0 with
      | None => true
      | Some (sz, lo, hi) =>
          if (sz <=? length p)%nat then true
          else match r with
               | [] => false
               | p1 :: r2 =>
                   if negb (in_rng p1 lo hi) then true
                   else match r2 with
                        | [] => false
                        | p2 :: _ => negb (cont p2)
                        end
               end
      end
  end.

(* utf8.DecodeRune: (rune, width) *)
Definition decode_rune (p : list N) : N * nat :=
  match p with
  | [] => (runeError, 0%nat)
  | p0 :: r =>
      match utf8_lead p0 with
      | None => if p0 <? 128 then (p0, 1%nat) else (runeError, 1%nat)
      | Some (sz, lo, hi) =>
          if (length p <? sz)%nat then (runeError, 1%nat)
          else match r with
               | [] => (runeError, 1%nat)
               | p1 :: r2 =>
                   if negb (in_rng p1 lo hi) then (runeError, 1%nat)
                   else if (sz <=? 2)%nat then ((p0 mod 32) * 64 + (p1 mod 64), 2%nat)
                   else match r2 with
                        | [] => (runeError, 1%nat)
                        | p2 :: r3 =>
                            if negb (cont p2) then (runeError, 1%nat)
                            else if (sz <=? 3)%nat then
                              ((p0 mod 16) * 4096 + (p1 mod 64) * 64 + (p2 mod 64), 3%nat)
                            else match r3 with
                                 | [] => (runeError, 1%nat)
                                 | p3 :: _ =>
                                     if negb (cont p3) then (runeError, 1%nat)
                                     else ((p0 mod 8) * 262144 + (p1 mod 64) * 4096 +
                                           (p2 mod 64) * 64 + (p3 mod 64), 4%nat)
                                 end
                        end
               end
      end
  end.

Definition is_seq_end (c : N) : bool :=
  ((97 <=? c) && (c <=? 122)) || ((65 <=? c) && (c <=? 90)) || (c =? 126).

(* the remainder after the first byte in [a-zA-Z~], if any *)
Fixpoint after_seq_end (b : list N) : option (list N) :=
  match b with
  | [] => None
  | c :: r => if is_seq_end c then Some r else after_seq_end r
  end.

Definition paste_start_seq : list N := [27; 91; 50; 48; 48; 126].   (* ESC [ 2 0 0 ~ *)
Definition paste_end_seq : list N := [27; 91; 50; 48; 49; 126].     (* ESC [ 2 0 1 ~ *)

Fixpoint list_N_eqb (a b : list N) : bool :=
  match a, b with
  | [], [] => true
  | x :: a', y :: b' => (x =? y) && list_N_eqb a' b'
  | _, _ => false
  end.

Definition bytes_to_key (b : list N) (pasteActive : bool) : bk :=
  match b with
  | [] => BNone []
  | b0 :: r0 =>
      match (if pasteActive then None else ctrl_key b0) with
      | Some k => BKey k r0
      | None =>
          if negb (b0 =? keyEscape) then
            if negb (full_rune b) then BNone b
            else let '(r, l) := decode_rune b in
                 if r =? runeError then BNone (skipn l b) else BKey r (skipn l b)
          else
            let arrows :=
              if pasteActive then None else
              match b with
              | _ :: 91 :: c :: rest =>
                  if c =? 65 then Some (BKey keyUp rest) else if c =? 66 then Some (BKey keyDown rest)
                  else if c =? 67 then Some (BKey keyRight rest) else if c =? 68 then Some (BKey keyLeft rest)
                  else if c =? 72 then Some (BKey keyHome rest) else if c =? 70 then Some (BKey keyEnd rest)
                  else None
              | _ => None
              end in
            match arrows with
            | Some x => x
            | None =>
                let alt :=
                  if pasteActive then None else
                  match b with
                  | _ :: 91 :: 49 :: 59 :: 51 :: c :: rest =>
                      if c =? 67 then Some (BKey keyAltRight rest)
                      else if c =? 68 then Some (BKey keyAltLeft rest) else None
                  | _ => None
                  end in
                match alt with
                | Some x => x
                | None =>
                    if negb pasteActive && (6 <=? length b)%nat && list_N_eqb (firstn 6 b) paste_start_seq
                    then BKey keyPasteStart (skipn 6 b)
                    else if pasteActive && (6 <=? length b)%nat && list_N_eqb (firstn 6 b) paste_end_seq
                    then BKey keyPasteEnd (skipn 6 b)
                    else match after_seq_end b with
                         | Some rest => BKey keyUnknown rest
                         | None => BNone b
                         end
                end
            end
      end
  end.

(* ---- readLine over a chunked byte source ----
   The source is a list of chunks; Read(p) delivers min(len p, len chunk) bytes of the
   first chunk (0 bytes, nil error if len p = 0) and io.EOF when no chunk is left. *)
Inductive inner_result :=
| IStop (o : rl_out)
| IMore (t : term) (lip : bool) (rest : list N)             (* need more input *)
| ILine (stmts : list (list N)) (pasted : bool) (t : term) (rest : list N).

(* readLine (after fix commit f013140):
     before := len(rest); key, rest = bytesToKey(rest, t.pasteActive)
     if key == utf8.RuneError && before-len(rest) != utf8.RuneLen(utf8.RuneError) { break }
   bytesToKey answers utf8.RuneError (BNone) in three situations, told apart by the number of bytes it
   consumed: 0 = incomplete input (wait for the next Read), 1 = an invalid byte (dropped, wait), and
   3 = a well-formed U+FFFD that was really typed - since the fix that one is a key like any other.
   (Before the fix every RuneError ended the inner loop: a typed U+FFFD was silently dropped.) *)
Definition runeErrorLen : nat := 3.          (* utf8.RuneLen(utf8.RuneError) *)

Definition next_key (rest : list N) (pasteActive : bool) : bk :=
  match bytes_to_key rest pasteActive with
  | BKey k rest' => BKey k rest'
  | BNone rest' =>
      if (length rest - length rest' =? runeErrorLen)%nat then BKey runeError rest' else BNone rest'
  end.

Fixpoint inner (fuel : nat) (t : term) (lip : bool) (rest : list N) : inner_result :=
  match fuel with
  | O => IStop Unmodelled
  | S f =>
      match next_key rest (paste t) with
      | BNone rest' => IMore t lip rest'
      | BKey k rest' =>
          match process_key t lip k with
          | PStop o => IStop o
          | PCont t' lip' => inner f t' lip' rest'
          | PLine ss p t' => ILine ss p t' rest'
          end
      end
  end.

Definition src_read (cap : nat) (src : list (list N)) : option (list N * list (list N)) :=
  match src with
  | [] => None                                    (* io.EOF *)
  | c :: r =>
      if (length c <=? cap)%nat then Some (c, r) else Some (firstn cap c, skipn cap c :: r)
  end.

(* one ReadLine call; state = (terminal, remainder, source) *)
Fixpoint read_line (fuel : nat) (t : term) (lip : bool) (remainder : list N) (src : list (list N))
  : rl_out * term * list N * list (list N) :=
  match fuel with
  | O => (Unmodelled, t, remainder, src)          (* Go would spin: full buffer, no key *)
  | S f =>
      match inner (S (length remainder)) t lip remainder with
      | IStop o => (o, t, remainder, src)
      | ILine ss p t' rest => (Line ss p, t', rest, src)
      | IMore t' lip' rest =>
          match src_read (inBufSize - length rest) src with
          | None => (Eof, t', rest, src)
          | Some (data, src') => read_line f t' lip' (rest ++ data) src'
          end
      end
  end.

Fixpoint total_len (src : list (list N)) : nat :=
  match src with [] => 0%nat | c :: r => (length c + total_len r)%nat end.

Definition src_fuel (src : list (list N)) : nat := (2 * (total_len src + length src) + 4)%nat.

Fixpoint session_loop (n : nat) (t : term) (remainder : list N) (src : list (list N)) : list rl_out :=
  match n with
  | O => [Unmodelled]
  | S m =>
      let '(o, t', rem', src') := read_line (src_fuel src + 4) t (paste t) remainder src in
      match o with
      | Line _ _ => o :: session_loop m t' rem' src'
      | _ => [o]
      end
  end.

(* ReadLine until the first io.EOF; at most one line per input byte plus one *)
Definition session_bytes (src : list (list N)) : list rl_out :=
  session_loop (total_len src + 2) init_term [] src.
