(* Model of the write-ahead-log codec of storage/wal.go: WALEntry.encode / decode, wal.flush as
   the sequence of Write / Sync calls it issues on the log file, and wal.read as it is at /repo
   HEAD (after "fix: tolerate and drop a log record cut short by a crash"). No proofs here.

   A log record as Go holds it is `walrec`: the op is any byte (WALOp is a uint8; replay's
   switch ignores unknown codes). Page.walentry (three known ops) embeds by rec_of_entry. *)
From Mkdb Require Export Model.CodecBase Model.Page Gen.Params.
Open Scope N_scope.

Record walrec := mkWR { wr_op : N; wr_lsn : N; wr_page : N; wr_cell : N; wr_val : bytes }.

Definition op_code (o : walop) : N :=
  match o with OpInsert => code_OpInsert | OpUpdate => code_OpUpdate | OpDelete => code_OpDelete end.

Definition op_of_code (c : N) : option walop :=
  if c =? code_OpInsert then Some OpInsert
  else if c =? code_OpUpdate then Some OpUpdate
  else if c =? code_OpDelete then Some OpDelete
  else None.

Definition rec_of_entry (e : walentry) : walrec :=
  mkWR (op_code (w_op e)) (w_lsn e) (w_page e) (w_cell e) (w_val e).

Definition entry_of_rec (r : walrec) : option walentry :=
  match op_of_code (wr_op r) with
  | Some o => Some (mkWal o (wr_lsn r) (wr_page r) (wr_cell r) (wr_val r))
  | None => None
  end.

(* WALEntry.encode: op u8, LSN u64, pageID u64, cellID u32, uint32(len(val)), val *)
Definition wal_encode (r : walrec) : bytes :=
  le_enc 1 (wr_op r) ++ le_enc 8 (wr_lsn r) ++ le_enc 8 (wr_page r) ++ le_enc 4 (wr_cell r) ++
  le_enc 4 (N.of_nat (length (wr_val r))) ++ wr_val r.

Definition walFixedSize : N := 25.   (* 1 + 8 + 8 + 4 + 4 *)

(* WALEntry.decode on bytes.NewBuffer(body); bytes after the value are ignored *)
Definition wal_decode (body : bytes) : res walrec :=
  let* (op, bs) := rd_u 1 body in
  let* (lsn, bs) := rd_u 8 bs in
  let* (pg, bs) := rd_u 8 bs in
  let* (cell, bs) := rd_u 4 bs in
  let* (sz, bs) := rd_u 4 bs in
  let* (v, _) := read_blob sz bs in
  Ok (mkWR op lsn pg cell v).

(* ---- wal.flush: what it asks of the file, in order ---- *)
Inductive wal_call := WWrite (b : bytes) | WSync.

(* binary.LittleEndian.PutUint32(tupleLenBuf, uint32(tupleLen)) *)
Definition frame_len (r : walrec) : bytes := le_enc 4 (N.of_nat (length (wal_encode r))).

Definition frame (r : walrec) : bytes := frame_len r ++ wal_encode r.

Definition frame_calls (forceSync : bool) (r : walrec) : list wal_call :=
  WWrite (frame_len r) :: WWrite (wal_encode r) :: (if forceSync then [WSync] else []).

Definition flush_calls (forceSync : bool) (batch : list walrec) : list wal_call :=
  flat_map (frame_calls forceSync) batch.

(* the bytes appended to the file by a call sequence (O_APPEND) *)
Fixpoint written (calls : list wal_call) : bytes :=
  match calls with
  | [] => []
  | WWrite b :: r => b ++ written r
  | WSync :: r => written r
  end.

(* crash before call number j (0-based): the log holds what the earlier calls wrote ... *)
Definition cut_at_write (j : nat) (calls : list wal_call) : bytes := written (firstn j calls).

(* ... or, if unsynced writes are lost, only what was written before the last Sync *)
Fixpoint upto_last_sync (calls : list wal_call) : list wal_call :=
  match calls with
  | [] => []
  | c :: r =>
      match upto_last_sync r with
      | [] => match c with WSync => [WSync] | _ => [] end
      | l => c :: l
      end
  end.
Definition cut_at_sync (j : nat) (calls : list wal_call) : bytes := written (upto_last_sync (firstn j calls)).

(* ---- wal.read ---- *)

(* io.ReadFull(reader, make([]byte, n)): all n bytes or EOF / ErrUnexpectedEOF *)
Definition take_n (n : N) (bs : bytes) : option (bytes * bytes) :=
  if N.of_nat (length bs) <? n then None
  else Some (firstn (N.to_nat n) bs, skipn (N.to_nat n) bs).

Record wal_read_result := mkWRR {
  rr_entries : list walrec;      (* ret *)
  rr_valid : N;                  (* w.validLen (set by the deferred function on every path) *)
  rr_status : res unit           (* Ok: err == nil; Err: a record body failed to decode *)
}.

(* one loop iteration per step of fuel; every iteration that continues consumes at least 5
   bytes, so fuel = S (length of the log) never runs out *)
Fixpoint wal_read_loop (fuel : nat) (bs : bytes) (acc : list walrec) (valid : N) : wal_read_result :=
  match fuel with
  | O => mkWRR (rev acc) valid (Ok tt)
  | S fuel' =>
      match take 4 bs with
      | None => mkWRR (rev acc) valid (Ok tt)            (* EOF / a length cut short: end of log *)
      | Some (lb, rest) =>
          let len := le_dec lb in
          if len =? 0 then mkWRR (rev acc) valid (Ok tt) (* tupleLen == 0: end of log *)
          else match take_n len rest with
               | None => mkWRR (rev acc) valid (Ok tt)   (* body cut short: end of log *)
               | Some (body, rest') =>
                   match wal_decode body with
                   | Ok r => wal_read_loop fuel' rest' (r :: acc) (valid + 4 + len)
                   | Err e => mkWRR (rev acc) valid (Err e)
                   | Panic => mkWRR (rev acc) valid Panic
                   end
               end
      end
  end.

Definition wal_read (log : bytes) : wal_read_result := wal_read_loop (S (length log)) log [] 0.

(* ---- records the engine can produce ---- *)
Definition rec_ok (r : walrec) : bool :=
  (wr_op r <? w8) && (wr_lsn r <? w64) && (wr_page r <? w64) && (wr_cell r <? w32) &&
  (N.of_nat (length (wr_val r)) + walFixedSize <? w32).

Definition frames (rs : list walrec) : bytes := concat (map frame rs).
Definition frames_len (rs : list walrec) : N := N.of_nat (length (frames rs)).
