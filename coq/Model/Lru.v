(* Model of storage/lru.go: LRUCache.set / LRUCache.get, plus the two external
   transitions the page store performs on cached nodes (markDirty / markClean).
   The Go cache is a map + container/list; front of the list = most recently used.
   The model keeps the list only (front first); the map is the key projection. *)
From Coq Require Export List NArith Bool.
Export ListNotations.
Open Scope N_scope.

Record entry := mkEntry { ekey : N; eval : N; edirty : bool }.

Record lru := mkLru { cap : nat; entries : list entry }.   (* front first *)

Definition lru_init (c : nat) : lru := mkLru c [].

Fixpoint find_entry (k : N) (l : list entry) : option entry :=
  match l with
  | [] => None
  | e :: r => if N.eqb (ekey e) k then Some e else find_entry k r
  end.

Fixpoint remove_key (k : N) (l : list entry) : list entry :=
  match l with
  | [] => []
  | e :: r => if N.eqb (ekey e) k then r else e :: remove_key k r
  end.

(* Walk from the back of the list towards the front and pick the first clean
   entry (lru.go: cur := list.Back(); for { ... cur = cur.Prev() }).
   Implemented on the reversed list. *)
Fixpoint first_clean (l : list entry) : option entry :=
  match l with
  | [] => None
  | e :: r => if edirty e then first_clean r else Some e
  end.

Definition victim (l : list entry) : option entry := first_clean (rev l).

Inductive lru_op :=
| OSet (k v : N) (d : bool)      (* set(key, node) where node has dirty flag d *)
| OGet (k : N)
| ODirty (k : N)                 (* node stored under k: markDirty *)
| OClean (k : N).                (* node stored under k: markClean *)

Inductive lru_out :=
| RSet (ok : bool) (evicted : option N)
| RGet (r : option N)
| RNone.

Definition set_flag (k : N) (d : bool) (l : list entry) : list entry :=
  map (fun e => if N.eqb (ekey e) k then mkEntry (ekey e) (eval e) d else e) l.

Definition lru_step (s : lru) (o : lru_op) : lru * lru_out :=
  match o with
  | OSet k v d =>
      match find_entry k (entries s) with
      | Some _ =>
          (mkLru (cap s) (mkEntry k v d :: remove_key k (entries s)), RSet true None)
      | None =>
          if Nat.eqb (length (entries s)) (cap s) then
            match victim (entries s) with
            | None => (s, RSet false None)
            | Some ve =>
                (mkLru (cap s) (mkEntry k v d :: remove_key (ekey ve) (entries s)),
                 RSet true (Some (ekey ve)))
            end
          else (mkLru (cap s) (mkEntry k v d :: entries s), RSet true None)
      end
  | OGet k =>
      match find_entry k (entries s) with
      | Some e => (mkLru (cap s) (e :: remove_key k (entries s)), RGet (Some (eval e)))
      | None => (s, RGet None)
      end
  | ODirty k => (mkLru (cap s) (set_flag k true (entries s)), RNone)
  | OClean k => (mkLru (cap s) (set_flag k false (entries s)), RNone)
  end.

Fixpoint lru_run (s : lru) (ops : list lru_op) : lru * list lru_out :=
  match ops with
  | [] => (s, [])
  | o :: r => let '(s1, x) := lru_step s o in
              let '(s2, xs) := lru_run s1 r in (s2, x :: xs)
  end.

Definition lru_state (s : lru) (ops : list lru_op) : lru := fst (lru_run s ops).

(* ---- observation used by the correspondence check ---- *)
(* After every operation the Go driver reports the return value and the resident
   list front-to-back as (key, value id, dirty). *)
Definition resident (s : lru) : list (N * N * bool) :=
  map (fun e => (ekey e, eval e, edirty e)) (entries s).

Fixpoint lru_trace (s : lru) (ops : list lru_op) : list (lru_out * list (N * N * bool)) :=
  match ops with
  | [] => []
  | o :: r => let '(s1, x) := lru_step s o in (x, resident s1) :: lru_trace s1 r
  end.
