(* storage/relation.go: FieldDef.Validate, Tuple.Encode, Tuple.Decode.
   A Go tuple is map[string]interface{}; modelled as an association list with replacing
   insert (the map holds at most one value per name; a missing name reads as nil = NULL). *)
From Mkdb Require Export Model.Bytes Model.Value Model.Result.
From Mkdb Require Import Gen.Params.
From Coq Require Import Arith.
Local Open Scope N_scope.

Definition tuple := list (string * value).

Fixpoint tget (k : string) (m : tuple) : value :=
  match m with
  | [] => VNull
  | (k', v) :: r => if String.eqb k' k then v else tget k r
  end.

Fixpoint tset (k : string) (v : value) (m : tuple) : tuple :=
  match m with
  | [] => [(k, v)]
  | (k', v') :: r => if String.eqb k' k then (k, v) :: r else (k', v') :: tset k v r
  end.

Definition int32_ok (z : Z) : bool := ((-2147483648 <=? z) && (z <=? 2147483647))%Z.

(* FieldDef.Validate on a non-nil value *)
Definition validate (t : coltype) (v : value) : res unit :=
  match t, v with
  | TInt, VInt z => if int32_ok z then Ok tt else Err EIntRange
  | TInt, _ => Err ETypeMismatch
  | TBigInt, VInt _ => Ok tt
  | TBigInt, _ => Err ETypeMismatch
  | TVarchar, VStr _ => Ok tt
  | TVarchar, _ => Err ETypeMismatch
  | TBoolean, VBool _ => Ok tt
  | TBoolean, _ => Err ETypeMismatch
  end.

Definition enc_value (t : coltype) (v : value) : bytes :=
  match v with
  | VInt z => match t with
              | TInt => le_enc 4 (twos_enc 4 z)
              | _ => le_enc 8 (twos_enc 8 z)
              end
  | VBool b => enc_bool b
  | VStr s => le_enc 4 (N.of_nat (String.length s)) ++ bytes_of_string s
  | VNull => []
  end.

(* Tuple.Encode: field by field; stops at the first invalid value *)
Fixpoint encode_tuple (sch : schema) (m : tuple) : res bytes :=
  match sch with
  | [] => Ok []
  | fd :: r =>
      match tget (fd_name fd) m with
      | VNull => do rest <- encode_tuple r m; Ok (enc_bool true ++ rest)
      | v => do _ <- validate (fd_type fd) v;
             do rest <- encode_tuple r m;
             Ok (enc_bool false ++ enc_value (fd_type fd) v ++ rest)
      end
  end.

(* bytes.Buffer.Read into a buffer of k bytes: io.EOF if k > 0 and nothing is left; otherwise
   the available bytes are copied and the rest of the destination stays zero *)
Definition read_padded (k : nat) (bs : bytes) : option (bytes * bytes) :=
  match k, bs with
  | O, _ => Some ([], bs)
  | S _, [] => None
  | _, _ => Some (firstn k bs ++ zeros (k - length bs), skipn k bs)
  end.

Definition dec_value (t : coltype) (bs : bytes) : res (value * bytes) :=
  match t with
  | TInt => match read_u 4 bs with
            | Some (n, r) => Ok (VInt (twos_dec 4 n), r)
            | None => Err EDecode
            end
  | TBigInt => match read_u 8 bs with
               | Some (n, r) => Ok (VInt (twos_dec 8 n), r)
               | None => Err EDecode
               end
  | TVarchar => match read_u 4 bs with
                | Some (n, r) => match read_padded (N.to_nat n) r with
                                 | Some (s, r') => Ok (VStr (string_of_bytes s), r')
                                 | None => Err EDecode
                                 end
                | None => Err EDecode
                end
  | TBoolean => match read_bool bs with
                | Some (b, r) => Ok (VBool b, r)
                | None => Err EDecode
                end
  end.

(* Tuple.Decode into an (initially empty) map; NULL fields are left absent *)
Fixpoint decode_tuple (sch : schema) (bs : bytes) (m : tuple) : res tuple :=
  match sch with
  | [] => Ok m
  | fd :: r =>
      match read_bool bs with
      | None => Err EDecode
      | Some (true, bs') => decode_tuple r bs' m
      | Some (false, bs') =>
          do vr <- dec_value (fd_type fd) bs';
          decode_tuple r (snd vr) (tset (fd_name fd) (fst vr) m)
      end
  end.

(* scanRelation: decode, then read the row out of the map by field name, in schema order *)
Definition decode_row (sch : schema) (bs : bytes) : res row :=
  do m <- decode_tuple sch bs [];
  Ok (map (fun fd => tget (fd_name fd) m) sch).

(* the map RelationService.Insert builds from the column list and the values *)
Fixpoint zip_set (cols : list string) (vals : list value) (m : tuple) : tuple :=
  match cols, vals with
  | c :: cr, v :: vr => zip_set cr vr (tset c v m)
  | _, _ => m
  end.

(* ---- the two catalog schemas (relation.go pageTableSchema / schemaTableSchema) ---- *)
Definition pageTableSchema : schema :=
  [mkField TVarchar "table_name" 255; mkField TBigInt "file_offset" 0].

Definition schemaTableSchema : schema :=
  [mkField TVarchar "table_name" 255; mkField TVarchar "field_name" 255;
   mkField TInt "field_type" 0; mkField TInt "field_length" 255].

(* storage.DataType codes come from the generated constants *)
Definition coltype_of_code (z : Z) : option coltype :=
  if Z.eqb z code_TypeInt then Some TInt else if Z.eqb z code_TypeVarchar then Some TVarchar
  else if Z.eqb z code_TypeBoolean then Some TBoolean else if Z.eqb z code_TypeBigInt then Some TBigInt
  else None.

Definition code_of_coltype (t : coltype) : Z :=
  match t with TInt => code_TypeInt | TVarchar => code_TypeVarchar
             | TBoolean => code_TypeBoolean | TBigInt => code_TypeBigInt end.
