(* Little-endian integers over byte lists (encoding/binary.LittleEndian) and the stream
   reader idiom of bytes.Buffer / binary.Read. A byte is an `ascii`; a Go string / []byte is
   `bytes` = list ascii (so `string` and `bytes` convert with list_ascii_of_string). *)
From Coq Require Export Ascii String NArith ZArith Bool List.
Export ListNotations.
Open Scope N_scope.

Definition bytes := list ascii.

(* w little-endian bytes of n (truncating: n mod 256^w), as binary.Write of a uintW *)
Fixpoint le_enc (w : nat) (n : N) : bytes :=
  match w with
  | O => []
  | S w' => ascii_of_N (n mod 256) :: le_enc w' (n / 256)
  end.

Fixpoint le_dec (bs : bytes) : N :=
  match bs with
  | [] => 0
  | b :: r => N_of_ascii b + 256 * le_dec r
  end.

(* two's complement: Go int32/int64 <-> their unsigned bit pattern of width 8*w bits *)
Definition twos_enc (w : nat) (z : Z) : N := Z.to_N (z mod (2 ^ (8 * Z.of_nat w))).
Definition twos_dec (w : nat) (n : N) : Z :=
  let m := (2 ^ (8 * Z.of_nat w))%Z in
  if (Z.of_N n <? m / 2)%Z then Z.of_N n else (Z.of_N n - m)%Z.

(* split off the first k bytes; None = short read (binary.Read returns io.EOF /
   io.ErrUnexpectedEOF) *)
Definition take (k : nat) (bs : bytes) : option (bytes * bytes) :=
  if (length bs <? k)%nat then None else Some (firstn k bs, skipn k bs).

(* bytes.Buffer.Read(p) with len(p) = k: copies min(k, len) bytes; returns io.EOF only when
   the buffer is empty and k > 0. (The Go callers ignore the short count.) *)
Definition buf_read (k : nat) (bs : bytes) : option (bytes * bytes) :=
  match k, bs with
  | O, _ => Some ([], bs)
  | S _, [] => None
  | _, _ => Some (firstn k bs, skipn k bs)
  end.

Definition read_u (w : nat) (bs : bytes) : option (N * bytes) :=
  match take w bs with
  | Some (h, r) => Some (le_dec h, r)
  | None => None
  end.

(* binary.Read into a bool: any non-zero byte is true *)
Definition read_bool (bs : bytes) : option (bool * bytes) :=
  match bs with
  | [] => None
  | b :: r => Some (negb (N.eqb (N_of_ascii b) 0), r)
  end.

Definition enc_bool (b : bool) : bytes := [ascii_of_N (if b then 1 else 0)].

Definition bytes_of_string (s : string) : bytes := list_ascii_of_string s.
Definition string_of_bytes (b : bytes) : string := string_of_list_ascii b.

Definition zeros (k : nat) : bytes := repeat zero k.
