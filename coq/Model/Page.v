(* Logical content of one 4096-byte page (storage/page.go btreeNode), as stored: the slot
   array (`cells`, Go leafCells/internalCells) and the offsets array that orders it. *)
From Mkdb Require Export Model.Bytes.

Record leafcell := mkLC { lc_key : N; lc_deleted : bool; lc_val : bytes }.   (* valueSize = length lc_val *)
Record icell := mkIC { ic_key : N; ic_off : N }.

Inductive node :=
| NLeaf (off lsn : N) (hasL hasR : bool) (lsib rsib : N)
        (offsets : list N) (cells : list leafcell)
| NInternal (off lsn : N) (right : N) (offsets : list N) (cells : list icell).

Definition node_off (n : node) : N :=
  match n with NLeaf o _ _ _ _ _ _ _ => o | NInternal o _ _ _ _ => o end.
Definition node_lsn (n : node) : N :=
  match n with NLeaf _ l _ _ _ _ _ _ => l | NInternal _ l _ _ _ => l end.

(* the cells in key order, i.e. slot array read through the offsets array; None if an
   offset points outside the slot array (Go: index out of range panic) *)
Fixpoint through {A} (offsets : list N) (cells : list A) : option (list A) :=
  match offsets with
  | [] => Some []
  | o :: r => match nth_error cells (N.to_nat o), through r cells with
              | Some c, Some cs => Some (c :: cs)
              | _, _ => None
              end
  end.

(* file header, page.go fileStore.save/open: lastKey u32, pageTableRoot u64,
   nextFreeOffset u64, nextLSN u64 *)
Record header := mkHeader { h_lastKey : N; h_pageTableRoot : N; h_nextFree : N; h_nextLSN : N }.

(* WAL record, wal.go WALEntry *)
Inductive walop := OpInsert | OpUpdate | OpDelete.
Record walentry := mkWal { w_op : walop; w_lsn : N; w_page : N; w_cell : N; w_val : bytes }.
