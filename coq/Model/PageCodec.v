(* Model of the page codec of storage/page.go: btreeNode.encodeLeaf / encodeInternal,
   decodeLeaf / decodeInternal, the first-byte dispatch of fileStore.fetch, and the 28-byte file
   header written by fileStore.save and read by fileStore.open. No proofs here.

   Go field                         model
   n.offsets []uint16               offsets : list N   (each < 2^16)
   n.leafCells / n.internalCells    cells (the slot array, indexed THROUGH offsets)
   leafCell.valueSize               N.of_nat (length lc_val)  (every constructor keeps them equal)
   n.freeSize, n.dirty, leafCell.pg not part of the logical page content *)
From Mkdb Require Export Model.CodecBase Model.Page Gen.Params.
Open Scope N_scope.

(* ---------------------------------------------------------------- encode *)

Definition enc_leafcell (c : leafcell) : bytes :=
  le_enc 4 (lc_key c) ++ enc_bool (lc_deleted c) ++
  le_enc 4 (N.of_nat (length (lc_val c))) ++ lc_val c.

Definition enc_icell (c : icell) : bytes := le_enc 4 (ic_key c) ++ le_enc 8 (ic_off c).

Definition leaf_header (off lsn : N) (hasL hasR : bool) (lsib rsib : N) (offsets : list N) : bytes :=
  le_enc 1 tagLeafNode ++ le_enc 8 off ++ le_enc 8 lsn ++ enc_bool hasL ++ enc_bool hasR ++
  le_enc 8 lsib ++ le_enc 8 rsib ++
  le_enc 4 (N.of_nat (length offsets)) ++ flat_map (le_enc 2) offsets.

Definition internal_header (off lsn rgt : N) (offsets : list N) : bytes :=
  le_enc 1 tagInternalNode ++ le_enc 8 off ++ le_enc 8 lsn ++ le_enc 8 rgt ++
  le_enc 4 (N.of_nat (length offsets)) ++ flat_map (le_enc 2) offsets.

(* freeSize := uint16(pageSize - buf.Len() - bufFooter.Len() - 2): Go int arithmetic, then
   truncation to 16 bits (wraps when negative or >= 2^16) *)
Definition free_size (hdr footer : bytes) : N :=
  Z.to_N ((Z.of_N pageSize - Z.of_nat (length hdr) - Z.of_nat (length footer) - 2) mod 65536)%Z.

(* write freeSize, freeSize zero bytes, the footer; panic unless the total is pageSize *)
Definition finish_page (hdr footer : bytes) : res bytes :=
  let free := free_size hdr footer in
  let page := hdr ++ le_enc 2 free ++ zeros (N.to_nat free) ++ footer in
  if N.of_nat (length page) =? pageSize then Ok page else Panic.

(* the footer loop reads n.leafCells[n.offsets[i]]: index out of range = panic *)
Definition encode_leaf (off lsn : N) (hasL hasR : bool) (lsib rsib : N)
           (offsets : list N) (cells : list leafcell) : res bytes :=
  match through offsets cells with
  | None => Panic
  | Some cs => finish_page (leaf_header off lsn hasL hasR lsib rsib offsets) (flat_map enc_leafcell cs)
  end.

Definition encode_internal (off lsn rgt : N) (offsets : list N) (cells : list icell) : res bytes :=
  match through offsets cells with
  | None => Panic
  | Some cs => finish_page (internal_header off lsn rgt offsets) (flat_map enc_icell cs)
  end.

(* btreeNode.encode *)
Definition encode_node (n : node) : res bytes :=
  match n with
  | NLeaf off lsn hasL hasR lsib rsib offsets cells => encode_leaf off lsn hasL hasR lsib rsib offsets cells
  | NInternal off lsn rgt offsets cells => encode_internal off lsn rgt offsets cells
  end.

(* ---------------------------------------------------------------- decode *)

(* what decode leaves in memory: the slot array is make([]*cell, cellCount), so a slot that no
   offset names stays nil *)
Inductive rawnode :=
| RLeaf (off lsn : N) (hasL hasR : bool) (lsib rsib : N)
        (offsets : list N) (slots : list (option leafcell))
| RInternal (off lsn : N) (rgt : N) (offsets : list N) (slots : list (option icell)).

Definition rd_leafcell (bs : bytes) : res (leafcell * bytes) :=
  let* (k, bs) := rd_u 4 bs in
  let* (d, bs) := rd_bool bs in
  let* (sz, bs) := rd_u 4 bs in
  let* (v, bs) := read_blob sz bs in
  Ok (mkLC k d v, bs).

Definition rd_icell (bs : bytes) : res (icell * bytes) :=
  let* (k, bs) := rd_u 4 bs in
  let* (o, bs) := rd_u 8 bs in
  Ok (mkIC k o, bs).

(* for i < cellCount { read cell; n.cells[n.offsets[i]] = cell }: a read error comes first,
   then the store may panic with index out of range *)
Fixpoint dec_cells {A} (rd : bytes -> res (A * bytes)) (offs : list N)
         (slots : list (option A)) (bs : bytes) : res (list (option A)) :=
  match offs with
  | [] => Ok slots
  | o :: r =>
      let* (c, bs') := rd bs in
      if (N.to_nat o <? length slots)%nat
      then dec_cells rd r (set_nth (N.to_nat o) (Some c) slots) bs'
      else Panic
  end.

Definition decode_leaf_raw (bs : bytes) : res rawnode :=
  let* (tag, bs) := rd_u 1 bs in
  if negb (tag =? tagLeafNode) then Err BadNodeType else
  let* (off, bs) := rd_u 8 bs in
  let* (lsn, bs) := rd_u 8 bs in
  let* (hasL, bs) := rd_bool bs in
  let* (hasR, bs) := rd_bool bs in
  let* (lsib, bs) := rd_u 8 bs in
  let* (rsib, bs) := rd_u 8 bs in
  let* (cnt, bs) := rd_u 4 bs in
  let* (offs, bs) := rd_u_list 2 (length bs) cnt bs in
  let* (free, bs) := rd_u 2 bs in
  let bs := skipn (N.to_nat free) bs in                    (* buf.Next(int(n.freeSize)) *)
  let* slots := dec_cells rd_leafcell offs (repeat None (length offs)) bs in   (* length offs = cellCount *)
  Ok (RLeaf off lsn hasL hasR lsib rsib offs slots).

Definition decode_internal_raw (bs : bytes) : res rawnode :=
  let* (tag, bs) := rd_u 1 bs in
  if negb (tag =? tagInternalNode) then Err BadNodeType else
  let* (off, bs) := rd_u 8 bs in
  let* (lsn, bs) := rd_u 8 bs in
  let* (rgt, bs) := rd_u 8 bs in
  let* (cnt, bs) := rd_u 4 bs in
  let* (offs, bs) := rd_u_list 2 (length bs) cnt bs in
  let* (free, bs) := rd_u 2 bs in
  let bs := skipn (N.to_nat free) bs in
  let* slots := dec_cells rd_icell offs (repeat None (length offs)) bs in
  Ok (RInternal off lsn rgt offs slots).

(* a decoded node whose slot array has no nil entry is a `node`; otherwise Go still returns
   nil error, and every later access to the nil cell panics: Err NilSlot marks that outcome *)
Definition node_of_raw (r : rawnode) : res node :=
  match r with
  | RLeaf off lsn hasL hasR lsib rsib offs slots =>
      match sequence slots with
      | Some cells => Ok (NLeaf off lsn hasL hasR lsib rsib offs cells)
      | None => Err NilSlot
      end
  | RInternal off lsn rgt offs slots =>
      match sequence slots with
      | Some cells => Ok (NInternal off lsn rgt offs cells)
      | None => Err NilSlot
      end
  end.

Definition decode_leaf (bs : bytes) : res node := let* r := decode_leaf_raw bs in node_of_raw r.
Definition decode_internal (bs : bytes) : res node := let* r := decode_internal_raw bs in node_of_raw r.

(* fileStore.fetch after the cache miss: switch buf[0] { InternalNode / LeafNode / default: panic } *)
Definition decode_page_raw (buf : bytes) : res rawnode :=
  match buf with
  | [] => Panic                                  (* buf[0] on an empty slice; fetch always has pageSize bytes *)
  | b :: _ =>
      if N_of_ascii b =? tagInternalNode then decode_internal_raw buf
      else if N_of_ascii b =? tagLeafNode then decode_leaf_raw buf
      else Panic                                 (* panic("invalid node type value") *)
  end.

Definition decode_page (buf : bytes) : res node := let* r := decode_page_raw buf in node_of_raw r.

(* buf := make([]byte, pageSize); file.ReadAt(buf, offset) with io.EOF tolerated: the bytes the
   file has at that position, zero-filled to pageSize *)
Definition page_at (file : bytes) (offset : N) : bytes :=
  let avail := firstn (N.to_nat pageSize) (skipn (N.to_nat offset) file) in
  avail ++ zeros (N.to_nat pageSize - length avail).

(* file.WriteAt(page, offset): extends the file with zeros when offset is past the end *)
Definition write_at (file : bytes) (offset : N) (data : bytes) : bytes :=
  let o := N.to_nat offset in
  firstn o file ++ zeros (o - length file) ++ data ++ skipn (o + length data) file.

(* ---------------------------------------------------------------- file header *)

Definition headerSize : N := 28.    (* 4 + 8 + 8 + 8, fileStore.save *)

Definition encode_header (h : header) : bytes :=
  le_enc 4 (h_lastKey h) ++ le_enc 8 (h_pageTableRoot h) ++ le_enc 8 (h_nextFree h) ++ le_enc 8 (h_nextLSN h).

(* fileStore.open: four binary.Read calls on the file from position 0 *)
Definition decode_header (bs : bytes) : res header :=
  let* (k, bs) := rd_u 4 bs in
  let* (r, bs) := rd_u 8 bs in
  let* (f, bs) := rd_u 8 bs in
  let* (l, bs) := rd_u 8 bs in
  Ok (mkHeader k r f l).

(* ---------------------------------------------------------------- logical view, admissibility *)

(* what a page means: flags, links and the cells in key order (read through offsets) *)
Inductive lview :=
| LVLeaf (off lsn : N) (hasL hasR : bool) (lsib rsib : N) (cells : list leafcell)
| LVInternal (off lsn : N) (rgt : N) (cells : list icell).

Definition logical (n : node) : option lview :=
  match n with
  | NLeaf off lsn hasL hasR lsib rsib offsets cells =>
      option_map (LVLeaf off lsn hasL hasR lsib rsib) (through offsets cells)
  | NInternal off lsn rgt offsets cells =>
      option_map (LVInternal off lsn rgt) (through offsets cells)
  end.

Fixpoint nodupb (l : list N) : bool :=
  match l with
  | [] => true
  | x :: r => negb (existsb (N.eqb x) r) && nodupb r
  end.

(* offsets name pairwise distinct slots below the number of live cells (hence are a
   permutation of 0..k-1), and the slot array is at least that long *)
Definition offsets_ok {A} (offsets : list N) (cells : list A) : bool :=
  forallb (fun o => o <? N.of_nat (length offsets)) offsets && nodupb offsets &&
  (length offsets <=? length cells)%nat.

Definition leafcell_ok (c : leafcell) : bool :=
  (lc_key c <? w32) && (N.of_nat (length (lc_val c)) <=? maxValueSize).
Definition icell_ok (c : icell) : bool := (ic_key c <? w32) && (ic_off c <? w64).

(* the live cells (those an offset names) are within their limits *)
Definition live_ok {A} (ok : A -> bool) (offsets : list N) (cells : list A) : bool :=
  match through offsets cells with Some cs => forallb ok cs | None => false end.

(* a node that encode accepts and whose page decodes to the same logical content; the slot
   array may be longer than the offsets array (left half of a split keeps its old slots) *)
Definition encodable (n : node) : bool :=
  match n with
  | NLeaf off lsn hasL hasR lsib rsib offsets cells =>
      (off <? w64) && (lsn <? w64) && (lsib <? w64) && (rsib <? w64) &&
      (N.of_nat (length offsets) <=? maxLeafNodeCells) &&
      offsets_ok offsets cells && live_ok leafcell_ok offsets cells
  | NInternal off lsn rgt offsets cells =>
      (off <? w64) && (lsn <? w64) && (rgt <? w64) &&
      (N.of_nat (length offsets) <=? maxInternalNodeCells) &&
      offsets_ok offsets cells && live_ok icell_ok offsets cells
  end.

Definition slot_count (n : node) : nat :=
  match n with
  | NLeaf _ _ _ _ _ _ _ cells => length cells
  | NInternal _ _ _ _ cells => length cells
  end.
Definition cell_count (n : node) : nat :=
  match n with
  | NLeaf _ _ _ _ _ _ offsets _ => length offsets
  | NInternal _ _ _ offsets _ => length offsets
  end.

(* admissible = encodable and the slot array is exactly the live cells *)
Definition admissible (n : node) : bool := encodable n && (slot_count n =? cell_count n)%nat.

(* the slot array cut to the live cells *)
Definition truncate (n : node) : node :=
  match n with
  | NLeaf off lsn hasL hasR lsib rsib offsets cells =>
      NLeaf off lsn hasL hasR lsib rsib offsets (firstn (length offsets) cells)
  | NInternal off lsn rgt offsets cells =>
      NInternal off lsn rgt offsets (firstn (length offsets) cells)
  end.

Definition header_ok (h : header) : bool :=
  (h_lastKey h <? w32) && (h_pageTableRoot h <? w64) && (h_nextFree h <? w64) && (h_nextLSN h <? w64).
