(* engine/session.go (Session.ExecQuery dispatch, USE / CREATE DATABASE / SHOW DATABASES) and
   storage.CreateDB / OpenRelation / ShowDB over a set of databases, each with its own data
   file, log and - while selected - page cache. *)
From Mkdb Require Export Model.Engine.
Local Open Scope list_scope.

Record sess := mkSess {
  dbs : list (string * sys);      (* keyed by the lower-cased name = directory name *)
  cur : option string             (* Session.CurDB (lower-cased) when a service is open *)
}.

Inductive serr := SEDBExists | SEDBNotExist | SENoDB | SEStmt (e : err).
Inductive sout := SOOk | SOErr (e : serr) | SOPanic | SOShow (names : list string).

(* strings.ToLower on ASCII *)
Definition lower_ascii (c : ascii) : ascii :=
  let n := nat_of_ascii c in
  if (Nat.leb 65 n && Nat.leb n 90)%bool then ascii_of_nat (n + 32) else c.
Fixpoint lower (s : string) : string :=
  match s with EmptyString => EmptyString | String c r => String (lower_ascii c) (lower r) end.

(* storage/file.go validDBName: a database is a directory directly under data/, so its name is not
   ".", ".." and contains no path separator (ErrDBNameInvalid); a directory name longer than the
   file system allows (NAME_MAX = 255 bytes where the checks run: an oracle about the OS) makes
   MkdirAll / Stat fail, which CreateDB / OpenRelation return as an error *)
Fixpoint has_sep (s : string) : bool :=
  match s with
  | EmptyString => false
  | String c r => (Nat.eqb (nat_of_ascii c) 47 || Nat.eqb (nat_of_ascii c) 92)%bool || has_sep r
  end.
Definition valid_dbname (n : string) : bool :=
  negb (String.eqb n "." || String.eqb n ".." || has_sep n)%bool && Nat.leb (String.length n) 255.

Fixpoint get_db (n : string) (l : list (string * sys)) : option sys :=
  match l with [] => None | (m, y) :: r => if String.eqb m n then Some y else get_db n r end.

Fixpoint set_db (n : string) (y : sys) (l : list (string * sys)) : list (string * sys) :=
  match l with
  | [] => [(n, y)]
  | (m, x) :: r => if String.eqb m n then (n, y) :: r else (m, x) :: set_db n y r
  end.

(* sort.Strings of the directory names *)
Fixpoint insert_str (s : string) (l : list string) : list string :=
  match l with
  | [] => [s]
  | x :: r => match String.compare s x with Gt => x :: insert_str s r | _ => s :: x :: r end
  end.
Definition sort_strs (l : list string) : list string := fold_right insert_str [] l.

(* RelationService.Close: the log file is closed, the ticker stopped, pages and header flushed *)
Definition close_db (y : sys) : sys := do_flush y.

(* OpenRelation: a new file store with an empty cache reads the header *)
Definition open_db (y : sys) : sys := mkSys (disk y) (disk y) (wal y).

Definition sess_stmt (s : sess) (st : stmt) : sess * sout :=
  match st with
  | SCreateDatabase name =>
      let n := lower name in
      if String.eqb n "" then (s, SOErr (SEStmt EOther)) else
      if negb (valid_dbname n) then (s, SOErr (SEStmt EOther)) else
      match get_db n (dbs s) with
      | Some _ => (s, SOErr SEDBExists)
      | None => (mkSess (dbs s ++ [(n, init_sys)]) (cur s), SOOk)
      end
  | SUse name =>
      let n := lower name in
      match cur s with
      | Some c => if String.eqb c n then (s, SOOk) else
                  if negb (valid_dbname n) then (s, SOErr (SEStmt EOther)) else
                  match get_db n (dbs s), get_db c (dbs s) with
                  | Some y, Some yc =>
                      (mkSess (set_db c (close_db yc) (set_db n (open_db y) (dbs s))) (Some n), SOOk)
                  | None, _ => (s, SOErr SEDBNotExist)
                  | _, None => (s, SOPanic)
                  end
      | None => if negb (valid_dbname n) then (s, SOErr (SEStmt EOther)) else
                match get_db n (dbs s) with
                | Some y => (mkSess (set_db n (open_db y) (dbs s)) (Some n), SOOk)
                | None => (s, SOErr SEDBNotExist)
                end
      end
  | SShowDatabase => (s, SOShow (sort_strs (map fst (dbs s))))
  | _ =>
      match cur s with
      | None => (s, SOErr SENoDB)
      | Some c =>
          match get_db c (dbs s) with
          | None => (s, SOPanic)
          | Some y =>
              let '(y1, o) := exec y st in
              (mkSess (set_db c y1 (dbs s)) (cur s),
               match o with OOk _ => SOOk | OErr e => SOErr (SEStmt e) | OPanic => SOPanic end)
          end
      end
  end.

Inductive sevent :=
| SvStmt (st : stmt)
| SvTick                     (* the flush timer of the selected database fires *)
| SvRestart (clean : bool).  (* process exit (clean: Session.Close first) and restart: InitStorage *)

Fixpoint recover_all (l : list (string * sys)) : res (list (string * sys)) :=
  match l with
  | [] => Ok []
  | (n, y) :: r => do y1 <- recover y; do rest <- recover_all r; Ok ((n, y1) :: rest)
  end.

Definition sess_step (s : sess) (ev : sevent) : res sess * option sout :=
  match ev with
  | SvStmt st => let '(s1, o) := sess_stmt s st in
                 (match o with SOPanic => Panic | _ => Ok s1 end, Some o)
  | SvTick => match cur s with
              | Some c => match get_db c (dbs s) with
                          | Some y => (Ok (mkSess (set_db c (do_flush y) (dbs s)) (cur s)), None)
                          | None => (Ok s, None)
                          end
              | None => (Ok s, None)
              end
  | SvRestart clean =>
      let l := match clean, cur s with
               | true, Some c => match get_db c (dbs s) with
                                 | Some y => set_db c (close_db y) (dbs s)
                                 | None => dbs s
                                 end
               | _, _ => dbs s
               end in
      (match recover_all l with
       | Ok l' => Ok (mkSess l' None)
       | Err e => Err e
       | Panic => Panic
       end, None)
  end.

Definition init_sess : sess := mkSess [] None.
