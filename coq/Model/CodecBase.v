(* Common vocabulary of the byte-level codec models (PageCodec, TupleCodec, WalCodec):
   three-way outcomes (Go `error` return = Err, run-time panic = Panic), the error enum the
   correspondence compares (never message texts), and the stream-reader steps shared by all
   decoders (binary.Read on a bytes.Buffer, bytes.Buffer.Read into a fresh slice). *)
From Mkdb Require Export Model.Bytes Model.Result.
Open Scope N_scope.

(* Outcomes are the shared `res` of Model/Result.v. Error classes used by the codecs: *)
Notation ShortRead := EDecode (only parsing).    (* io.EOF / io.ErrUnexpectedEOF from binary.Read or bytes.Buffer.Read *)
Notation BadNodeType := EOther (only parsing).   (* "decoding error: expected node type %d, got %d" *)
Notation NilSlot := ECorrupt (only parsing).     (* model marker, see PageCodec.node_of_raw: Go returns nil error but the
                                                    decoded node holds a nil cell pointer (duplicate offsets in the page) *)

Notation "'let*' x := e 'in' f" :=
  (match e with Ok x => f | Err err_ => Err err_ | Panic => Panic end)
  (at level 200, x pattern, e at level 100, f at level 200, only parsing).

Definition res_eqb {A} (eqb : A -> A -> bool) (a b : res A) : bool :=
  match a, b with
  | Ok x, Ok y => eqb x y
  | Err x, Err y => err_eqb x y
  | Panic, Panic => true
  | _, _ => false
  end.

(* binary.Read(buf, LittleEndian, &uintW): a short read is an error *)
Definition rd_u (w : nat) (bs : bytes) : res (N * bytes) :=
  match read_u w bs with Some x => Ok x | None => Err ShortRead end.

Definition rd_bool (bs : bytes) : res (bool * bytes) :=
  match read_bool bs with Some x => Ok x | None => Err ShortRead end.

(* p := make([]byte, size); _, err := buf.Read(p): io.EOF iff the buffer is empty and size > 0;
   otherwise min(size, len) bytes are copied and the rest of p stays zero (the callers ignore
   the count). Same decision as Bytes.buf_read, plus the zero tail of p. *)
Definition read_blob (size : N) (bs : bytes) : res (bytes * bytes) :=
  match bs with
  | [] => if size =? 0 then Ok ([], []) else Err ShortRead
  | _ =>
      let k := N.to_nat (N.min size (N.of_nat (length bs))) in
      Ok (firstn k bs ++ zeros (N.to_nat (size - N.of_nat (length bs))), skipn k bs)
  end.

(* for i := 0; i < count; i++ { binary.Read(buf, &uintW); append }. `count` comes from the
   page (up to 2^32-1), so the recursion is on fuel; callers pass fuel = length bs, which can
   never run out before the reads fail (every read consumes w >= 1 bytes). *)
Fixpoint rd_u_list (w : nat) (fuel : nat) (count : N) (bs : bytes) : res (list N * bytes) :=
  if count =? 0 then Ok ([], bs)
  else match fuel with
       | O => Err ShortRead
       | S fuel' =>
           let* (x, bs1) := rd_u w bs in
           let* (xs, bs2) := rd_u_list w fuel' (count - 1) bs1 in
           Ok (x :: xs, bs2)
       end.

Fixpoint set_nth {A} (i : nat) (x : A) (l : list A) : list A :=
  match l, i with
  | [], _ => []
  | _ :: r, O => x :: r
  | y :: r, S i' => y :: set_nth i' x r
  end.

(* all slots filled? *)
Fixpoint sequence {A} (l : list (option A)) : option (list A) :=
  match l with
  | [] => Some []
  | Some x :: r => match sequence r with Some xs => Some (x :: xs) | None => None end
  | None :: _ => None
  end.

Definition w8  : N := 256.
Definition w16 : N := 65536.
Definition w32 : N := 4294967296.
Definition w64 : N := 18446744073709551616.
