(* The page store of storage/page.go (fileStore.fetch / append / flushPages and the way callers
   change pages through the *btreeNode they hold) on top of the LRU model (Model/Lru.v).
   A cached page is a Go object; callers modify the object they fetched. If the object has been
   evicted in the meantime the change reaches neither cache nor file: C16 is about that never
   happening for capacities above a few pages.

   Keys = page offsets, objects = N identities (the `eval` field of LRU entries), contents = N
   (an abstract page content). *)
From Mkdb Require Export Model.Lru.
Open Scope N_scope.

Definition amap := list (N * N).

Fixpoint aget (k : N) (m : amap) : option N :=
  match m with [] => None | (a, v) :: r => if N.eqb a k then Some v else aget k r end.

Fixpoint aset (k v : N) (m : amap) : amap :=
  match m with
  | [] => [(k, v)]
  | (a, x) :: r => if N.eqb a k then (k, v) :: r else (a, x) :: aset k v r
  end.

Record pstore := mkPS {
  ps_cache : lru;          (* key -> object id, with the object's dirty flag *)
  ps_heap : amap;          (* object id -> content, for every object ever created *)
  ps_file : amap;          (* key -> content on disk *)
  ps_next : N              (* next object identity *)
}.

Definition ps_init (cap : nat) : pstore := mkPS (lru_init cap) [] [] 1.

Inductive pop :=
| PFetch (k : N)                 (* fileStore.fetch(k) *)
| PAlloc (k c : N)               (* fileStore.append of a new node with content c *)
| PModify (k o c : N)            (* through the pointer o obtained for key k: content := c; markDirty *)
| PFlush (order : list N).       (* flushPages; `order` = the order in which the dirty pages are
                                   visited (Go map iteration order: arbitrary). Every dirty page
                                   is written, marked clean and - through fileStore.update ->
                                   setCache - moved to the front of the LRU list. *)

Inductive pout :=
| PObj (o c : N)                 (* the object handed to the caller and its content *)
| PRefused                       (* ErrLRUCacheFull *)
| PUnit.

(* a page that was never written reads as content 0 (all-zero page) *)
Definition file_get (k : N) (f : amap) : N := match aget k f with Some c => c | None => 0 end.
Definition heap_get (o : N) (h : amap) : N := match aget o h with Some c => c | None => 0 end.

Definition cached_obj (k : N) (s : pstore) : option N :=
  option_map eval (find_entry k (entries (ps_cache s))).

Definition ps_step (s : pstore) (op : pop) : pstore * pout :=
  match op with
  | PFetch k =>
      match lru_step (ps_cache s) (OGet k) with
      | (c1, RGet (Some o)) => (mkPS c1 (ps_heap s) (ps_file s) (ps_next s), PObj o (heap_get o (ps_heap s)))
      | _ =>
          let o := ps_next s in
          let cont := file_get k (ps_file s) in
          match lru_step (ps_cache s) (OSet k o false) with
          | (c1, RSet true _) => (mkPS c1 (aset o cont (ps_heap s)) (ps_file s) (o + 1), PObj o cont)
          | _ => (s, PRefused)
          end
      end
  | PAlloc k c =>
      let o := ps_next s in
      match lru_step (ps_cache s) (OSet k o false) with
      | (c1, RSet true _) => (mkPS c1 (aset o c (ps_heap s)) (ps_file s) (o + 1), PObj o c)
      | _ => (s, PRefused)
      end
  | PModify k o c =>
      let h := aset o c (ps_heap s) in
      (* markDirty sets the object's flag; the cache sees it only if that object is the one
         stored under k *)
      let cache := match cached_obj k s with
                   | Some o' => if N.eqb o' o then fst (lru_step (ps_cache s) (ODirty k)) else ps_cache s
                   | None => ps_cache s
                   end in
      (mkPS cache h (ps_file s) (ps_next s), PUnit)
  | PFlush order =>
      let todo := order ++ map ekey (filter edirty (entries (ps_cache s))) in
      let '(c, f) :=
        fold_left (fun (acc : lru * amap) k =>
                     let '(c, f) := acc in
                     match find_entry k (entries c) with
                     | Some e =>
                         if edirty e then
                           (mkLru (cap c) (mkEntry k (eval e) false :: remove_key k (entries c)),
                            aset k (heap_get (eval e) (ps_heap s)) f)
                         else (c, f)
                     | None => (c, f)
                     end) todo (ps_cache s, ps_file s) in
      (mkPS c (ps_heap s) f (ps_next s), PUnit)
  end.

(* what the page with key k holds, as a later fetch would see it *)
Definition ps_view (s : pstore) (k : N) : N :=
  match cached_obj k s with
  | Some o => heap_get o (ps_heap s)
  | None => file_get k (ps_file s)
  end.

Fixpoint ps_run (s : pstore) (ops : list pop) : pstore * list pout :=
  match ops with
  | [] => (s, [])
  | o :: r => let '(s1, x) := ps_step s o in let '(s2, xs) := ps_run s1 r in (s2, x :: xs)
  end.

(* ---- the discipline under which a bounded cache is invisible (checked along a run) ----
   - no fetch / allocation is refused;
   - every modification goes through the object that is currently cached for that page;
   - a page that was allocated and not yet modified (it exists nowhere but in the cache, and is
     still clean, hence evictable) is still resident after every step. *)
Definition resident (k : N) (s : pstore) : bool :=
  match cached_obj k s with Some _ => true | None => false end.

Fixpoint removeN (k : N) (l : list N) : list N :=
  match l with [] => [] | a :: r => if N.eqb a k then removeN k r else a :: removeN k r end.

Definition pend_step (pend : list N) (op : pop) : list N :=
  match op with
  | PAlloc k _ => k :: removeN k pend
  | PModify k _ _ => removeN k pend
  | _ => pend
  end.

Definition step_ok (s : pstore) (op : pop) : bool :=
  match op with
  | PFetch _ | PAlloc _ _ => match snd (ps_step s op) with PRefused => false | _ => true end
  | PModify k o _ => match cached_obj k s with Some o' => N.eqb o' o | None => false end
  | PFlush _ => true
  end.

Fixpoint ok_run (s : pstore) (pend : list N) (ops : list pop) : bool :=
  match ops with
  | [] => true
  | op :: r =>
      let s1 := fst (ps_step s op) in
      let pend1 := pend_step pend op in
      step_ok s op && forallb (fun k => resident k s1) pend1 && ok_run s1 pend1 r
  end.
