(* One B+ tree of storage/btree.go as an inductive tree whose nodes carry what their page
   stores: own file offset, last LSN, dirty flag, and (leaves) the sibling fields exactly as
   insertLeaf assigns them. Keys are row ids (uint32 in Go, N here).

   ml / mi = maxLeafNodeCells / maxInternalNodeCells, ps = pageSize: passed explicitly so that
   the theorems hold for every value of the constants (the current values come from
   Gen/Params.v).

   Only the code path taken for keys larger than every key in the tree (which is what
   fileStore.lastKey+1 and log replay produce) is modelled for insertion; the other path of
   insertLeaf (split of a non-rightmost leaf, which patches the old right sibling) yields
   `Unmodelled`. *)
From Mkdb Require Export Model.Page.
From Coq Require Import Arith.

Inductive tree :=
| TLeaf (off lsn : N) (dirty : bool) (cells : list leafcell)
        (hasL hasR : bool) (lsib rsib : N)
| TNode (off lsn : N) (dirty : bool) (kids : list (N * tree)) (rgt : tree).

Definition t_off (t : tree) : N :=
  match t with TLeaf o _ _ _ _ _ _ _ => o | TNode o _ _ _ _ => o end.

Inductive terr := KeyExists | RowTooLarge | NotFound | Unmodelled | Corrupt.

Inductive tres (A : Type) := TOk (a : A) | TErr (e : terr).
Arguments TOk {A} a.
Arguments TErr {A} e.

Section Params.
Variables (ml mi : nat) (ps : N) (maxval : nat).

(* ---- findCellOffsetByKey on a sorted key list: (number of keys < k, k present) ---- *)
Fixpoint pos_of (k : N) (ks : list N) : nat * bool :=
  match ks with
  | [] => (O, false)
  | x :: r => if N.eqb x k then (O, true)
              else if N.ltb x k then let '(p, f) := pos_of k r in (S p, f)
              else (O, false)
  end.

(* ---- the descent of insertKey / findCell: which child receives key k ---- *)
Fixpoint child_for (k : N) (kids : list (N * tree)) (rgt : tree) : tree :=
  match kids with
  | [] => rgt
  | (sep, c) :: r => if N.ltb k sep then c else child_for k r rgt
  end.

Fixpoint sep_hit (k : N) (kids : list (N * tree)) : bool :=
  match kids with
  | [] => false
  | (sep, _) :: r => N.eqb sep k || sep_hit k r
  end.

(* does insertKey fail with errKeyAlreadyExists: k equals a separator on the descent path
   (insertInternal: found) or a cell key in the leaf reached (insertLeaf: found) *)
Fixpoint key_exists (k : N) (t : tree) : bool :=
  match t with
  | TLeaf _ _ _ cells _ _ _ _ => existsb (fun c => N.eqb (lc_key c) k) cells
  | TNode _ _ _ kids rgt =>
      sep_hit k kids ||
      (fix go (l : list (N * tree)) : bool :=
         match l with
         | [] => key_exists k rgt
         | (sep, c) :: r => if N.ltb k sep then key_exists k c else go r
         end) kids
  end.

(* is k routed to the rightmost leaf at every level? *)
Fixpoint on_right_spine (k : N) (t : tree) : bool :=
  match t with
  | TLeaf _ _ _ _ _ _ _ _ => true
  | TNode _ _ _ kids rgt =>
      forallb (fun sc => negb (N.ltb k (fst sc))) kids && on_right_spine k rgt
  end.

(* ---- insertion along the right spine ---- *)
Inductive ins_res :=
| IFit (t : tree)
| ISplit (l : tree) (sep : N) (r : tree).

Definition first_key (cells : list leafcell) : N :=
  match cells with [] => 0 | c :: _ => lc_key c end.

(* insertLeafCell at the position found by the binary search: for k larger than all keys
   this is an append; in general a sorted insert *)
Fixpoint insert_cell (c : leafcell) (cells : list leafcell) : list leafcell :=
  match cells with
  | [] => [c]
  | x :: r => if N.ltb (lc_key x) (lc_key c) then x :: insert_cell c r else c :: x :: r
  end.

Fixpoint ins_right (t : tree) (k lsn : N) (v : bytes) (free : N) : ins_res * N :=
  match t with
  | TLeaf off _ _ cells hasL hasR ls rs =>
      let cells' := insert_cell (mkLC k false v) cells in
      if (length cells' <? ml)%nat then
        (IFit (TLeaf off lsn true cells' hasL hasR ls rs), free)
      else
        let mid := (length cells' / 2)%nat in
        let lo := firstn mid cells' in
        let hi := skipn mid cells' in
        (ISplit (TLeaf off lsn true lo hasL true ls free)
                (first_key hi)
                (TLeaf free lsn true hi true false off 0),
         free + ps)
  | TNode off l d kids rgt =>
      match ins_right rgt k lsn v free with
      | (IFit r', f) => (IFit (TNode off l d kids r'), f)
      | (ISplit lft sep r', f) =>
          let kids' := kids ++ [(sep, lft)] in
          if (length kids' <? mi)%nat then
            (IFit (TNode off lsn true kids' r'), f)
          else
            let mid := (length kids' / 2)%nat in
            match nth_error kids' mid with
            | Some (msep, mchild) =>
                (ISplit (TNode off lsn true (firstn mid kids') mchild)
                        msep
                        (TNode f lsn true (skipn (S mid) kids') r'),
                 f + ps)
            | None => (IFit t, f)      (* unreachable: mid < length kids' *)
            end
      end
  end.

(* BTree.insertKey; returns the new tree (whose root may be a new page) and the new
   nextFreeOffset. A row over the size limit fails in insertLeafCell before any change. *)
Definition tree_insert (t : tree) (k lsn : N) (v : bytes) (free : N) : tres (tree * N) :=
  if key_exists k t then TErr KeyExists
  else if negb (on_right_spine k t) then TErr Unmodelled
  else if (maxval <? length v)%nat then TErr RowTooLarge
  else match ins_right t k lsn v free with
       | (IFit t', f) => TOk (t', f)
       | (ISplit l sep r, f) => TOk (TNode f lsn true [(sep, l)] r, f + ps)
       end.

(* ---- in-order views ---- *)
Fixpoint leaves (t : tree) : list tree :=
  match t with
  | TLeaf _ _ _ _ _ _ _ _ => [t]
  | TNode _ _ _ kids rgt =>
      (fix go (l : list (N * tree)) : list tree :=
         match l with [] => [] | (_, c) :: r => leaves c ++ go r end) kids ++ leaves rgt
  end.

Definition leaf_cells (t : tree) : list leafcell :=
  match t with TLeaf _ _ _ cells _ _ _ _ => cells | TNode _ _ _ _ _ => [] end.

Definition all_cells (t : tree) : list leafcell := flat_map leaf_cells (leaves t).

Definition live (cs : list leafcell) : list leafcell := filter (fun c => negb (lc_deleted c)) cs.

(* rows a full scan visits: live cells in tree order *)
Definition scan_tree (t : tree) : list leafcell := live (all_cells t).

Fixpoint nodes (t : tree) : list tree :=
  match t with
  | TLeaf _ _ _ _ _ _ _ _ => [t]
  | TNode _ _ _ kids rgt =>
      t :: (fix go (l : list (N * tree)) : list tree :=
              match l with [] => [] | (_, c) :: r => nodes c ++ go r end) kids ++ nodes rgt
  end.

Definition offsets_of (t : tree) : list N := map t_off (nodes t).

(* ---- scans as the Go code performs them: by stored sibling pointers ---- *)
Definition find_leaf (off : N) (t : tree) : option tree :=
  find (fun l => N.eqb (t_off l) off) (leaves t).

(* scanRight descends through internalCells[offsets[0]] - the FIRST separator's child;
   an internal node without cells makes Go panic (index out of range) *)
Fixpoint leftmost (t : tree) : option tree :=
  match t with
  | TLeaf _ _ _ _ _ _ _ _ => Some t
  | TNode _ _ _ kids _ => match kids with [] => None | (_, c) :: _ => leftmost c end
  end.

Fixpoint rightmost (t : tree) : tree :=
  match t with
  | TLeaf _ _ _ _ _ _ _ _ => t
  | TNode _ _ _ _ rgt => rightmost rgt
  end.

Fixpoint chain_right (fuel : nat) (root : tree) (cur : tree) : tres (list tree) :=
  match fuel with
  | O => TErr Corrupt
  | S f =>
      match cur with
      | TLeaf _ _ _ _ _ hasR _ rs =>
          if hasR then
            match find_leaf rs root with
            | Some nxt => match chain_right f root nxt with
                          | TOk l => TOk (cur :: l)
                          | TErr e => TErr e
                          end
            | None => TErr Corrupt
            end
          else TOk [cur]
      | TNode _ _ _ _ _ => TErr Corrupt
      end
  end.

Fixpoint chain_left (fuel : nat) (root : tree) (cur : tree) : tres (list tree) :=
  match fuel with
  | O => TErr Corrupt
  | S f =>
      match cur with
      | TLeaf _ _ _ _ hasL _ ls _ =>
          if hasL then
            match find_leaf ls root with
            | Some nxt => match chain_left f root nxt with
                          | TOk l => TOk (cur :: l)
                          | TErr e => TErr e
                          end
            | None => TErr Corrupt
            end
          else TOk [cur]
      | TNode _ _ _ _ _ => TErr Corrupt
      end
  end.

Definition scan_right_leaves (t : tree) : tres (list tree) :=
  match leftmost t with
  | Some l => chain_right (S (length (leaves t))) t l
  | None => TErr Corrupt
  end.

Definition scan_left_leaves (t : tree) : tres (list tree) :=
  chain_left (S (length (leaves t))) t (rightmost t).

(* BTree.scanRight: live cells in chain order *)
Definition scan_right (t : tree) : tres (list leafcell) :=
  match scan_right_leaves t with
  | TOk ls => TOk (live (flat_map leaf_cells ls))
  | TErr e => TErr e
  end.

(* ---- point lookup: BTree.findCell (None also for a tombstoned cell) ---- *)
Fixpoint descend (k : N) (t : tree) : tree :=
  match t with
  | TLeaf _ _ _ _ _ _ _ _ => t
  | TNode _ _ _ kids rgt =>
      (fix go (l : list (N * tree)) : tree :=
         match l with
         | [] => descend k rgt
         | (sep, c) :: r => if N.ltb k sep then descend k c else go r
         end) kids
  end.

Definition find_cell (k : N) (t : tree) : option (N * leafcell) :=   (* (leaf offset, cell) *)
  match descend k t with
  | TLeaf off _ _ cells _ _ _ _ =>
      match find (fun c => N.eqb (lc_key c) k) cells with
      | Some c => if lc_deleted c then None else Some (off, c)
      | None => None
      end
  | TNode _ _ _ _ _ => None
  end.

(* ---- in-place cell changes on the leaf stored at page `pg` ---- *)
Definition map_cell (k : N) (f : leafcell -> leafcell) (cells : list leafcell) : list leafcell :=
  map (fun c => if N.eqb (lc_key c) k then f c else c) cells.

(* apply g to the cell with key k in the leaf whose offset is pg, stamping the page with lsn
   and marking it dirty; every other node is unchanged *)
Fixpoint touch_leaf (pg k lsn : N) (g : leafcell -> leafcell) (t : tree) : tree :=
  match t with
  | TLeaf off l d cells hasL hasR ls rs =>
      if N.eqb off pg then TLeaf off lsn true (map_cell k g cells) hasL hasR ls rs else t
  | TNode off l d kids rgt =>
      TNode off l d
        ((fix go (ks : list (N * tree)) : list (N * tree) :=
            match ks with [] => [] | (s, c) :: r => (s, touch_leaf pg k lsn g c) :: go r end) kids)
        (touch_leaf pg k lsn g rgt)
  end.

Definition has_page (pg : N) (t : tree) : bool := existsb (N.eqb pg) (offsets_of t).

End Params.
