(* Model of engine/select.go (EvaluateSelect and everything it calls) and of the two field
   lookups of storage/relation.go. Executable Gallina, no proofs inside.

   Conventions
   - storage is abstract: a database is a list of (table name, column names, rows in scan
     order); rm.Fetch of an unknown name is Err ETableNotExist; Fetch builds a fresh Field per
     column (relation.go:642), so field lists are values here, with ONE exception that is
     modelled explicitly: projectColumns writes the alias into the *Field it shares with the
     field list it was given (see project_header).
   - every Go `error` return is `Err kind` (kind = errors.Is class), every type assertion,
     slice index and explicit panic that can fail is `Panic what`.
   - int64 overflow is out of scope (Z arithmetic). AVG: math.Round(float64(a)/float64(n)) is
     modelled by exact rounding half away from zero (round_div); they agree while |a| and n
     stay below 2^52 (assumption listed in tools/props/c07.py).
   - sort.Slice is modelled by a STABLE insertion sort that calls the Go comparison function
     exactly like Go's insertionSortLessFunc (used by pdqsort for n <= 12); for longer inputs
     Go's result may order ties differently, results are therefore compared through a checker.
   - the group key fmt.Sprintf("%#v,") per grouping value is modelled by the list of values
     itself (Proofs/SelectGroupKey.v proves the rendering injective for the modelled quoting). *)
From Coq Require Export ZArith String Bool List Ascii.
From Mkdb Require Export Model.Ast Model.CaseLib.
Export ListNotations.

Inductive errkind :=
| EFieldNotFound | EFieldAmbiguous | ESortFieldNotFound | EIncompatTypeCompare
| ENonBoolJoinCond | ETableNotExist | ETmpUnsupported | EOther.

Inductive outcome (A : Type) :=
| Ok (a : A)
| Err (e : errkind)
| Panic (what : string).
Arguments Ok {A} a.
Arguments Err {A} e.
Arguments Panic {A} what.

Definition obind {A B} (r : outcome A) (f : A -> outcome B) : outcome B :=
  match r with Ok a => f a | Err e => Err e | Panic w => Panic w end.

Notation "x <~ r ;; k" := (obind r (fun x => k))
  (at level 61, r at next level, right associativity).
Notation "' p <~ r ;; k" := (obind r (fun x => match x with p => k end))
  (at level 61, p pattern, r at next level, right associativity).

(* storage.Field{TableID, Column} *)
Definition field := (string * string)%type.
Definition f_table (f : field) : string := fst f.
Definition f_col (f : field) : string := snd f.

Definition table := (string * list string * list row)%type.
Definition db := list table.

Fixpoint fetch (d : db) (name : string) : option (list string * list row) :=
  match d with
  | [] => None
  | (n, cols, rows) :: r => if String.eqb n name then Some (cols, rows) else fetch r name
  end.

(* ---------------------------------------------------------------------------------- *)
(* storage/relation.go: Fields.LookupFieldIdx / Fields.LookupColIdxByID                 *)

Fixpoint match_idxs_from (p : field -> bool) (fs : list field) (i : nat) : list nat :=
  match fs with
  | [] => []
  | f :: r => if p f then i :: match_idxs_from p r (S i) else match_idxs_from p r (S i)
  end.
Definition match_idxs (p : field -> bool) (fs : list field) : list nat := match_idxs_from p fs 0.

(* unique field with that column name; a second hit is ErrFieldAmbiguous *)
Definition lookup_field_idx (name : string) (fs : list field) : outcome nat :=
  match match_idxs (fun f => String.eqb (f_col f) name) fs with
  | [] => Err EFieldNotFound
  | [i] => Ok i
  | _ => Err EFieldAmbiguous
  end.

(* first field with that column name and table id *)
Definition lookup_col_idx_by_id (tid name : string) (fs : list field) : outcome nat :=
  match match_idxs (fun f => String.eqb (f_col f) name && String.eqb (f_table f) tid) fs with
  | [] => Err EFieldNotFound
  | i :: _ => Ok i
  end.

Definition find_column (c : colref) (fs : list field) : outcome nat :=
  if String.eqb (cr_qual c) "" then lookup_field_idx (cr_name c) fs
  else lookup_col_idx_by_id (cr_qual c) (cr_name c) fs.

(* ---------------------------------------------------------------------------------- *)
(* evaluate / evalOr / evalAnd / evalComparisonPredicate / evalPrimary                  *)

Definition idx_row (r : row) (i : nat) : outcome value :=
  match nth_error r i with
  | Some v => Ok v
  | None => Panic "index out of range"
  end.

Definition eval_primary (x : vexpr) (fs : list field) (r : row) : outcome value :=
  match x with
  | XLit v => Ok v
  | XCol c => i <~ find_column c fs ;; idx_row r i
  end.

Definition cmp_gt (c : comparison) : bool := match c with Gt => true | _ => false end.
Definition cmp_ge (c : comparison) : bool := match c with Lt => false | _ => true end.
Definition cmp_lt (c : comparison) : bool := match c with Lt => true | _ => false end.
Definition cmp_le (c : comparison) : bool := match c with Gt => false | _ => true end.

(* the GT and LT switches have no default case: a bool or nil left operand falls through to
   the final "nothing to compare here" (EOther); GTE and LTE answer ErrIncompatTypeCompare *)
Definition cmp_ord (strict : bool) (test : comparison -> bool) (a b : value) : outcome bool :=
  match a with
  | VInt x => match b with VInt y => Ok (test (Z.compare x y)) | _ => Err EIncompatTypeCompare end
  | VStr x => match b with VStr y => Ok (test (String.compare x y)) | _ => Err EIncompatTypeCompare end
  | _ => if strict then Err EOther else Err EIncompatTypeCompare
  end.

Definition eval_cmp (l : vexpr) (op : compop) (r : vexpr) (fs : list field) (rw : row) : outcome bool :=
  a <~ eval_primary l fs rw ;;
  b <~ eval_primary r fs rw ;;
  match op with
  | CEq => Ok (value_eqb a b)            (* Go interface equality *)
  | CNeq => Ok (negb (value_eqb a b))
  | CGt => cmp_ord true cmp_gt a b
  | CGte => cmp_ord false cmp_ge a b
  | CLt => cmp_ord true cmp_lt a b
  | CLte => cmp_ord false cmp_le a b
  end.

(* evaluate returns a Go value: a bool for predicates / AND / OR, the literal itself for a
   bare literal; a bare column reference (or nil) is "nothing to evaluate here" *)
Fixpoint evaluate (e : expr) (fs : list field) (rw : row) : outcome value :=
  match e with
  | EVal (XLit VNull) => Err EOther
  | EVal (XLit v) => Ok v
  | EVal (XCol _) => Err EOther
  | EPred l op r => b <~ eval_cmp l op r fs rw ;; Ok (VBool b)
  | EAnd (l, op, r) rhs =>
      a <~ eval_cmp l op r fs rw ;;
      b <~ evaluate rhs fs rw ;;
      match b with
      | VBool y => Ok (VBool (a && y))
      | _ => Err EIncompatTypeCompare
      end
  | EOr l r =>
      a <~ evaluate l fs rw ;;
      b <~ evaluate r fs rw ;;
      match a with
      | VBool x => match b with
                   | VBool y => Ok (VBool (x || y))
                   | _ => Err EIncompatTypeCompare
                   end
      | _ => Err EIncompatTypeCompare
      end
  end.

(* filterRows: a non-boolean result silently drops the row *)
Fixpoint filter_rows (e : expr) (fs : list field) (rows : list row) : outcome (list row) :=
  match rows with
  | [] => Ok []
  | rw :: rest =>
      v <~ evaluate e fs rw ;;
      keep <~ filter_rows e fs rest ;;
      Ok (match v with VBool true => rw :: keep | _ => keep end)
  end.

(* ---------------------------------------------------------------------------------- *)
(* nestedLoopJoin                                                                       *)

Definition nulls (n : nat) : row := repeat VNull n.

(* the inner loop for one outer row: merged rows that satisfy the condition, in order *)
Fixpoint join_scan (cond : expr) (tf : list field) (mk : row -> row) (inner : list row)
  : outcome (list row) :=
  match inner with
  | [] => Ok []
  | x :: rest =>
      v <~ evaluate cond tf (mk x) ;;
      match v with
      | VBool b => ms <~ join_scan cond tf mk rest ;; Ok (if b then mk x :: ms else ms)
      | _ => Err ENonBoolJoinCond
      end
  end.

(* outer loop; `pad` is the row emitted for an outer row without a match (None for INNER) *)
Fixpoint join_outer (cond : expr) (tf : list field) (mk : row -> row -> row)
         (pad : option (row -> row)) (outer inner : list row) : outcome (list row) :=
  match outer with
  | [] => Ok []
  | o :: rest =>
      ms <~ join_scan cond tf (mk o) inner ;;
      more <~ join_outer cond tf mk pad rest inner ;;
      Ok (match ms, pad with
          | [], Some p => p o :: more
          | _, _ => ms ++ more
          end)
  end.

Fixpoint nested_loop_join (d : db) (t : tableref) : outcome (list field * list row) :=
  match t with
  | TRName name alias =>
      match fetch d name with
      | None => Err ETableNotExist
      | Some (cols, rows) =>
          let tid := match alias with Some a => a | None => name end in
          Ok (map (fun c => (tid, c)) cols, rows)
      end
  | TRJoin l jt r cond =>
      '(lf, lrows) <~ nested_loop_join d l ;;
      '(rf, rrows) <~ nested_loop_join d r ;;
      let tf := lf ++ rf in
      match jt with
      | JInner =>
          rows <~ join_outer cond tf (fun lr rr => lr ++ rr) None lrows rrows ;; Ok (tf, rows)
      | JLeft =>
          rows <~ join_outer cond tf (fun lr rr => lr ++ rr)
                  (Some (fun lr => lr ++ nulls (List.length rf))) lrows rrows ;; Ok (tf, rows)
      | JRight =>
          rows <~ join_outer cond tf (fun rr lr => lr ++ rr)
                  (Some (fun rr => nulls (List.length lf) ++ rr)) rrows lrows ;; Ok (tf, rows)
      | JFull => Ok (tf, [])            (* no case in the Go switch: tmpRows stays nil *)
      end
  end.

(* ---------------------------------------------------------------------------------- *)
(* projectColumns                                                                       *)

Definition cr_string (c : colref) : string :=            (* ColumnReference.String() *)
  if String.eqb (cr_qual c) "" then cr_name c
  else (cr_qual c ++ "." ++ cr_name c)%string.

Definition colref_eqb (a b : colref) : bool :=
  String.eqb (cr_qual a) (cr_qual b) && String.eqb (cr_name a) (cr_name b).

(* the column references the first loop of projectColumns resolves (lookup map) *)
Definition prim_col (p : selprim) : option colref :=
  match p with
  | SPAvg c => Some c
  | SPExpr (EVal (XCol c)) => Some c
  | SPCount (Some c) => Some c
  | _ => None
  end.

Fixpoint build_lookup (sl : list derivedcol) (qf : list field) : outcome unit :=
  match sl with
  | [] => Ok tt
  | d :: rest =>
      match prim_col (dc_prim d) with
      | Some c => _ <~ find_column c qf ;; build_lookup rest qf
      | None => build_lookup rest qf
      end
  end.

(* lookup[c]: every key read later was stored by build_lookup with the index find_column
   returns, so the map read is find_column again (a missing key would read 0) *)
Definition lookup_idx (c : colref) (qf : list field) : nat :=
  match find_column c qf with Ok i => i | _ => 0%nat end.

Definition project_cell (p : selprim) (qf : list field) (rw : row) : outcome value :=
  match p with
  | SPAvg c =>
      v <~ idx_row rw (lookup_idx c qf) ;;
      match v with
      | VInt _ => Ok v
      | _ => Err EIncompatTypeCompare       (* "avg() requires integer values" *)
      end
  | SPCount (Some c) =>
      v <~ idx_row rw (lookup_idx c qf) ;;
      Ok (match v with VNull => VInt 0 | _ => VInt 1 end)
  | SPCount None => Ok (VInt 1)
  | SPExpr (EVal (XCol c)) => idx_row rw (lookup_idx c qf)
  | SPExpr e => evaluate e qf rw
  | SPStar => Err EOther                    (* evaluate(Asterisk{}): nothing to evaluate here *)
  end.

Fixpoint project_row (sl : list derivedcol) (qf : list field) (rw : row) : outcome row :=
  match sl with
  | [] => Ok []
  | d :: rest =>
      v <~ project_cell (dc_prim d) qf rw ;;
      vs <~ project_row rest qf rw ;;
      Ok (v :: vs)
  end.

Fixpoint project_rows (sl : list derivedcol) (qf : list field) (rows : list row) : outcome (list row) :=
  match rows with
  | [] => Ok []
  | rw :: rest =>
      r1 <~ project_row sl qf rw ;;
      rs <~ project_rows sl qf rest ;;
      Ok (r1 :: rs)
  end.

(* header row: a plain column copies the source field (TableID kept), aggregates and
   expressions get a fresh field with an empty TableID; an alias replaces the column name *)
Definition header_cell (d : derivedcol) (qf : list field) : outcome field :=
  let al := dc_as d in
  let named (f : field) : field := if String.eqb al "" then f else (f_table f, al) in
  match dc_prim d with
  | SPAvg c => Ok (named (""%string, ("avg(" ++ cr_string c ++ ")")%string))
  | SPCount (Some c) => Ok (named (""%string, ("count(" ++ cr_string c ++ ")")%string))
  | SPCount None => Ok (named (""%string, "count(*)"%string))
  | SPExpr (EVal (XCol c)) =>
      match nth_error qf (lookup_idx c qf) with
      | Some f => Ok (named f)
      | None => Panic "index out of range"
      end
  | _ => Ok (named (""%string, "?"%string))
  end.

Fixpoint project_header (sl : list derivedcol) (qf : list field) : outcome (list field) :=
  match sl with
  | [] => Ok []
  | d :: rest =>
      f <~ header_cell d qf ;;
      fs <~ project_header rest qf ;;
      Ok (f :: fs)
  end.

Definition project_columns (sl : list derivedcol) (qf : list field) (rows : list row)
  : outcome (list field * list row) :=
  match sl with
  | [] => Panic "index out of range [0] with length 0"         (* selectList[0] *)
  | d :: _ =>
      match dc_prim d with
      | SPStar => Ok (qf, rows)
      | _ =>
          _ <~ build_lookup sl qf ;;
          rows' <~ project_rows sl qf rows ;;
          hdr <~ project_header sl qf ;;
          Ok (hdr, rows')
      end
  end.

(* ---------------------------------------------------------------------------------- *)
(* aggregateRows / emptyAggregateRow                                                    *)

Definition is_aggr (p : selprim) : bool :=
  match p with SPCount _ | SPAvg _ => true | _ => false end.

Definition has_aggr (sl : list derivedcol) : bool := existsb (fun d => is_aggr (dc_prim d)) sl.

(* math.Round(float64(a) / float64(n)) for n > 0: nearest integer, halves away from zero *)
Definition round_div (a n : Z) : Z :=
  if (0 <=? a)%Z then ((2 * a + n) / (2 * n))%Z
  else (- ((2 * (- a) + n) / (2 * n)))%Z.

Fixpoint empty_aggregate_row (sl : list derivedcol) : outcome row :=
  match sl with
  | [] => Ok []
  | d :: rest =>
      v <~ (match dc_prim d with
            | SPCount _ | SPAvg _ => Ok (VInt 0)
            | SPExpr e => evaluate e [] []       (* a bare column reference: EOther *)
            | SPStar => Err EOther
            end) ;;
      vs <~ empty_aggregate_row rest ;;
      Ok (v :: vs)
  end.

(* DerivedColumn.Matches (sql/parser.go): the select column is a plain column reference and
   the GROUP BY column names it by identical reference, by alias, or by bare column name *)
Definition dc_matches (d : derivedcol) (g : colref) : bool :=
  match dc_prim d with
  | SPExpr (EVal (XCol c)) =>
      colref_eqb c g
      || String.eqb (dc_as d) (cr_name g)
      || (String.eqb (cr_name c) (cr_name g) && String.eqb (cr_qual g) "")
  | _ => false
  end.

(* colToIdx[groupByCol]: first select-list position that Matches; None = key absent *)
Fixpoint col_to_idx_from (sl : list derivedcol) (g : colref) (i : nat) : option nat :=
  match sl with
  | [] => None
  | d :: rest => if dc_matches d g then Some i else col_to_idx_from rest g (S i)
  end.
Definition col_to_idx (sl : list derivedcol) (g : colref) : option nat := col_to_idx_from sl g 0.

Definition gkey := list value.
Definition gkey_eqb (a b : gkey) : bool := list_eqb value_eqb a b.

(* groupKey: GROUP BY columns that match no select column are skipped *)
Fixpoint group_key (sl : list derivedcol) (gb : list colref) (rw : row) : outcome gkey :=
  match gb with
  | [] => Ok []
  | g :: rest =>
      match col_to_idx sl g with
      | None => group_key sl rest rw
      | Some i =>
          v <~ idx_row rw i ;;
          vs <~ group_key sl rest rw ;;
          Ok (v :: vs)
      end
  end.

(* state of the aggregation loop. Go keeps rows[0..rowIdx) (the representatives, compacted in
   place), groupKeyToRow (group key -> index of the representative) and counts, a map keyed by
   "representative index : select-list position : column text". Here: one entry per
   representative, in order of first appearance, holding its group key, its current Vals and
   the counts of that representative by select-list position (the column text is determined
   by the position). *)
Definition gstate := (row * list (nat * Z))%type.

Fixpoint find_group (k : gkey) (gs : list (gkey * gstate)) : option gstate :=
  match gs with
  | [] => None
  | (k', s) :: rest => if gkey_eqb k' k then Some s else find_group k rest
  end.

Fixpoint set_group (k : gkey) (s : gstate) (gs : list (gkey * gstate)) : list (gkey * gstate) :=
  match gs with
  | [] => []
  | (k', s') :: rest => if gkey_eqb k' k then (k', s) :: rest else (k', s') :: set_group k s rest
  end.

Fixpoint get_count (ci : nat) (cs : list (nat * Z)) : Z :=
  match cs with
  | [] => 0%Z
  | (i, n) :: rest => if Nat.eqb i ci then n else get_count ci rest
  end.

Fixpoint set_count (ci : nat) (n : Z) (cs : list (nat * Z)) : list (nat * Z) :=
  match cs with
  | [] => [(ci, n)]
  | (i, m) :: rest => if Nat.eqb i ci then (i, n) :: rest else (i, m) :: set_count ci n rest
  end.

Definition as_int (v : value) : outcome Z :=
  match v with
  | VInt z => Ok z
  | _ => Panic "interface conversion: interface {} is not int64"
  end.

Definition set_nth (r : row) (i : nat) (v : value) : outcome row :=
  match nth_error r i with
  | Some _ => Ok (firstn i r ++ v :: skipn (S i) r)
  | None => Panic "index out of range"
  end.

(* the loop over the select list for one input row; `rep` is the representative's current
   Vals, `first` tells whether the input row IS the representative (pointer equality) *)
Fixpoint agg_cols (sl : list derivedcol) (ci : nat) (first : bool) (rw : row)
         (rep : row) (cs : list (nat * Z)) : outcome gstate :=
  match sl with
  | [] => Ok (rep, cs)
  | d :: rest =>
      match dc_prim d with
      | SPCount _ =>
          if first then agg_cols rest (S ci) first rw rep cs
          else
            a <~ (x <~ idx_row rep ci ;; as_int x) ;;
            b <~ (x <~ idx_row rw ci ;; as_int x) ;;
            rep' <~ set_nth rep ci (VInt (a + b)) ;;
            agg_cols rest (S ci) first rw rep' cs
      | SPAvg c =>
          let n := (get_count ci cs + 1)%Z in
          let cs' := set_count ci n cs in
          a <~ (x <~ idx_row rep ci ;; as_int x) ;;
          b <~ (x <~ idx_row rw ci ;; as_int x) ;;
          rep' <~ set_nth rep ci (VInt (round_div (a * (n - 1) + b) n)) ;;
          agg_cols rest (S ci) first rw rep' cs'
      | _ => agg_cols rest (S ci) first rw rep cs
      end
  end.

Definition agg_step (sl : list derivedcol) (gb : list colref) (gs : list (gkey * gstate)) (rw : row)
  : outcome (list (gkey * gstate)) :=
  key <~ group_key sl gb rw ;;
  match find_group key gs with
  | None => s <~ agg_cols sl 0 true rw rw [] ;; Ok (gs ++ [(key, s)])
  | Some (rep, cs) => s <~ agg_cols sl 0 false rw rep cs ;; Ok (set_group key s gs)
  end.

Fixpoint agg_loop (sl : list derivedcol) (gb : list colref) (gs : list (gkey * gstate)) (rows : list row)
  : outcome (list (gkey * gstate)) :=
  match rows with
  | [] => Ok gs
  | rw :: rest => gs' <~ agg_step sl gb gs rw ;; agg_loop sl gb gs' rest
  end.

Definition aggregate_rows (sl : list derivedcol) (gb : list colref) (rows : list row)
  : outcome (list row) :=
  if negb (has_aggr sl) && match gb with [] => true | _ => false end then Ok rows
  else match gb, rows with
       | [], [] => r <~ empty_aggregate_row sl ;; Ok [r]
       | _, _ => gs <~ agg_loop sl gb [] rows ;; Ok (map (fun g => fst (snd g)) gs)
       end.

(* ---------------------------------------------------------------------------------- *)
(* sortColumns                                                                          *)

Fixpoint sort_idxs (ssl : list sortspec) (fs : list field) : outcome (list (nat * sortdir)) :=
  match ssl with
  | [] => Ok []
  | s :: rest =>
      match find_column (ss_key s) fs with
      | Ok i => more <~ sort_idxs rest fs ;; Ok ((i, ss_dir s) :: more)
      | Err EFieldNotFound => Err ESortFieldNotFound
      | Err e => Err e
      | Panic w => Panic w
      end
  end.

Definition dir_flip (d : sortdir) (b : bool) : bool :=
  match d with SAsc => b | SDesc => negb b end.

(* the less function handed to sort.Slice *)
Fixpoint go_less (keys : list (nat * sortdir)) (r1 r2 : row) : outcome bool :=
  match keys with
  | [] => Ok false
  | (i, d) :: rest =>
      a <~ idx_row r1 i ;;
      b <~ idx_row r2 i ;;
      if value_eqb a b then go_less rest r1 r2
      else match a, b with
           | VNull, _ => Ok (dir_flip d true)
           | _, VNull => Ok (dir_flip d false)
           | VInt x, VInt y => Ok (dir_flip d (x <? y)%Z)
           | VStr x, VStr y => Ok (dir_flip d (cmp_lt (String.compare x y)))
           | VBool x, VBool y => Ok (dir_flip d (negb x && y))
           | _, _ => Panic "interface conversion in sort comparison"
           end
  end.

(* insertionSortLessFunc: element i moves left while it is less than its predecessor.
   `sorted_rev` is the already sorted prefix, last element first. *)
Fixpoint sort_insert (keys : list (nat * sortdir)) (x : row) (sorted_rev : list row)
  : outcome (list row) :=
  match sorted_rev with
  | [] => Ok [x]
  | y :: rest =>
      lt <~ go_less keys x y ;;
      if lt then r <~ sort_insert keys x rest ;; Ok (y :: r)
      else Ok (x :: y :: rest)
  end.

Fixpoint sort_loop (keys : list (nat * sortdir)) (todo : list row) (sorted_rev : list row)
  : outcome (list row) :=
  match todo with
  | [] => Ok (rev sorted_rev)
  | x :: rest => s <~ sort_insert keys x sorted_rev ;; sort_loop keys rest s
  end.

Definition sort_rows (keys : list (nat * sortdir)) (rows : list row) : outcome (list row) :=
  sort_loop keys rows [].

(* ---------------------------------------------------------------------------------- *)
(* limit / offset                                                                       *)

Definition apply_offset (off : Z) (rows : list row) : outcome (list row) :=
  if (Z.of_nat (List.length rows) <=? off)%Z then Ok []
  else if (off <? 0)%Z then Panic "slice bounds out of range"
  else Ok (skipn (Z.to_nat off) rows).

Definition apply_limit (lim : Z) (rows : list row) : outcome (list row) :=
  if (Z.of_nat (List.length rows) <? lim)%Z then Ok rows
  else if (lim <? 0)%Z then Panic "slice bounds out of range"
  else Ok (firstn (Z.to_nat lim) rows).

(* ---------------------------------------------------------------------------------- *)
(* EvaluateSelect                                                                       *)

(* everything up to and including the resolution of the sort keys *)
Definition select_core (q : select_stmt) (d : db) (tr : tableref)
  : outcome (list field * list row * list (nat * sortdir)) :=
  '(fields, rows) <~ nested_loop_join d tr ;;
  rows1 <~ (match sel_where q with
            | Some w => filter_rows w fields rows
            | None => Ok rows
            end) ;;
  '(hdr, rows2) <~ project_columns (sel_list q) fields rows1 ;;
  rows3 <~ aggregate_rows (sel_list q) (sel_group q) rows2 ;;
  keys <~ sort_idxs (sel_sort q) hdr ;;
  Ok (hdr, rows3, keys).

Definition select_window (q : select_stmt) (rows : list row) : outcome (list row) :=
  rows1 <~ (if sel_offset_active q then apply_offset (sel_offset q) rows else Ok rows) ;;
  if sel_limit_active q then apply_limit (sel_limit q) rows1 else Ok rows1.

Definition select (q : select_stmt) (d : db) : outcome (list field * list row) :=
  match sel_from q with
  | [] => project_columns (sel_list q) [] [[]]
  | tr :: _ =>
      '(hdr, rows, keys) <~ select_core q d tr ;;
      sorted <~ sort_rows keys rows ;;
      out <~ select_window q sorted ;;
      Ok (hdr, out)
  end.
