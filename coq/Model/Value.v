(* Values of the four column types as the engine sees them (Go: int64, string, bool, nil).
   Strings are byte strings (Coq `string` = list of 8-bit `ascii`). *)
From Coq Require Export ZArith String Bool List.
Export ListNotations.

Inductive value :=
| VInt (z : Z)          (* Go int64; INT columns hold the 32-bit subset *)
| VStr (s : string)
| VBool (b : bool)
| VNull.                (* Go nil *)

Inductive coltype := TInt | TVarchar | TBoolean | TBigInt.   (* storage.DataType 0,1,2,3 *)

Record fielddef := mkField { fd_type : coltype; fd_name : string; fd_len : Z }.

Definition schema := list fielddef.
Definition row := list value.

Definition value_eqb (a b : value) : bool :=
  match a, b with
  | VInt x, VInt y => Z.eqb x y
  | VStr x, VStr y => String.eqb x y
  | VBool x, VBool y => Bool.eqb x y
  | VNull, VNull => true
  | _, _ => false
  end.

Lemma value_eqb_spec a b : value_eqb a b = true <-> a = b.
Proof.
  destruct a, b; cbn; try (split; [discriminate|discriminate]); try tauto.
  - rewrite Z.eqb_eq. split; [intros ->; auto | intros H; inversion H; auto].
  - rewrite String.eqb_eq. split; [intros ->; auto | intros H; inversion H; auto].
  - rewrite Bool.eqb_true_iff. split; [intros ->; auto | intros H; inversion H; auto].
Qed.

Definition coltype_eqb (a b : coltype) : bool :=
  match a, b with
  | TInt, TInt | TVarchar, TVarchar | TBoolean, TBoolean | TBigInt, TBigInt => true
  | _, _ => false
  end.

Definition coltype_code (t : coltype) : Z :=
  match t with TInt => 0 | TVarchar => 1 | TBoolean => 2 | TBigInt => 3 end.
