(* Model of cmd/csvimport/main.go: doBatchInsert, csvToSql, colDataTypes, and of the part of
   storage.RelationService.Insert / Tuple.Encode / FieldDef.Validate / checkRowSizeLimit that
   decides whether one INSERT of one row is accepted and which row it stores.

   encoding/csv is an ORACLE: the model consumes the sequence of results that csv.Reader.Read
   delivered (record | *csv.ParseError | any other error).
   strconv.Atoi / strconv.ParseInt(s, 10, 64) are modelled exactly (optional sign, one or more
   ASCII digits, value within int64); the Go driver reports what strconv returned for the
   fields of every case and the check compares.
   The storage layer is ABSTRACT: a table is the list of its rows in scan order; an accepted
   insert appends one row. `insert_row` below is written from relation.go/page.go for this
   check (to be replaced by the storage model's own function; the two must agree):
     - an empty column list means all schema columns; column/value count mismatch -> error
     - tuple.Vals[col] = val for each column in order (a later duplicate wins; a column that is
       not in the schema is never read: silently dropped)
     - for each schema field in order: NULL if unset/nil, else Validate (kind check, INT within
       int32), first failure is the error
     - encoded size = sum over schema fields of 1 + (0 if NULL | 4 INT | 8 BIGINT | 1 BOOLEAN |
       4 + byte length VARCHAR); more than maxValueSize = 400 -> ErrRowTooLarge
   Go slice indexing that can fail is an explicit Panic outcome (cfg.colTypes[i]).
   Source column indexes are natural numbers (a negative -src-cols index makes csvToSql panic
   in the import goroutine and kills the process; not representable here).
   No proofs in this file. *)
From Coq Require Export List ZArith String Ascii Bool Arith.
From Mkdb Require Export Model.Value.
Export ListNotations.
Open Scope Z_scope.

(* ---- strconv ---- *)
Definition digit_of (a : ascii) : option Z :=
  let n := Z.of_nat (nat_of_ascii a) in
  if (48 <=? n) && (n <=? 57) then Some (n - 48) else None.

Fixpoint parse_digits (acc : Z) (s : string) : option Z :=
  match s with
  | EmptyString => Some acc
  | String a r => match digit_of a with
                  | Some d => parse_digits (acc * 10 + d) r
                  | None => None
                  end
  end.

Definition int64_min : Z := - 9223372036854775808.
Definition int64_max : Z := 9223372036854775807.
Definition int32_min : Z := - 2147483648.
Definition int32_max : Z := 2147483647.

(* strconv.ParseInt(s, 10, 64) and strconv.Atoi(s) on a 64-bit platform: Some v / None = error *)
Definition parse_int (s : string) : option Z :=
  let '(neg, body) :=
    match s with
    | String "-"%char r => (true, r)
    | String "+"%char r => (false, r)
    | _ => (false, s)
    end in
  match body with
  | EmptyString => None
  | _ => match parse_digits 0 body with
         | None => None
         | Some u => let v := if neg then - u else u in
                     if (int64_min <=? v) && (v <=? int64_max) then Some v else None
         end
  end.

(* strings.ToLower restricted to what matters: ASCII letters are lowered; a string with any
   byte >= 0x80 never lowers to one of the pure-ASCII boolean spellings *)
Definition lower_ascii (a : ascii) : ascii :=
  let n := nat_of_ascii a in
  if (65 <=? n)%nat && (n <=? 90)%nat then ascii_of_nat (n + 32) else a.
Fixpoint to_lower (s : string) : string :=
  match s with EmptyString => EmptyString | String a r => String (lower_ascii a) (to_lower r) end.

Definition parse_bool (s : string) : option bool :=
  let l := to_lower s in
  if String.eqb l "1" || String.eqb l "true" || String.eqb l "t" then Some true
  else if String.eqb l "0" || String.eqb l "false" || String.eqb l "f" then Some false
  else None.

(* ---- csvToSql ---- *)
Definition null_marker : string := String "\"%char (String "N"%char EmptyString).   (* \N *)

(* conversion of one non-\N field for a destination type *)
Definition conv (ty : coltype) (f : string) : option value :=
  match ty with
  | TInt => option_map VInt (parse_int f)          (* strconv.Atoi; int64(val) *)
  | TBigInt => option_map VInt (parse_int f)       (* strconv.ParseInt(f, 10, 64) *)
  | TBoolean => option_map VBool (parse_bool f)
  | TVarchar => Some (VStr f)
  end.

Inductive csv_result := CsvOk (vals : list value) | CsvErr | CsvPanic.

Definition csv_prepend (v : value) (r : csv_result) : csv_result :=
  match r with CsvOk vs => CsvOk (v :: vs) | x => x end.

(* for i, csvIdx := range cfg.srcCols: tys is cfg.colTypes[i:], rec the csv record *)
Fixpoint csv_to_sql (tys : list coltype) (srcs : list nat) (rec : list string) : csv_result :=
  match srcs with
  | [] => CsvOk []
  | ix :: srcs' =>
      match nth_error rec ix with
      | None => CsvPanic                                       (* csvRow[csvIdx] out of range *)
      | Some f =>
          if String.eqb f null_marker then csv_prepend VNull (csv_to_sql (tl tys) srcs' rec)
          else match tys with
               | [] => CsvPanic                                (* cfg.colTypes[i] out of range *)
               | ty :: _ =>
                   match conv ty f with
                   | None => CsvErr
                   | Some v => csv_prepend v (csv_to_sql (tl tys) srcs' rec)
                   end
               end
      end
  end.

(* ---- storage: one INSERT of one row ---- *)
Inductive err_class := ErrMalformed | ErrColCount | ErrType | ErrIntRange | ErrTooLarge
                     | ErrColumns.   (* checkColumnList: unknown (ErrFieldNotFound) or repeated (ErrDuplicateColumn) name *)

Inductive ins_result := InsOk (r : row) | InsErr (e : err_class).

(* the value left in tuple.Vals[name] by `for i, col := range cols { tuple.Vals[col] = vals[i] }` *)
Fixpoint tuple_get (name : string) (cols : list string) (vals : list value) : option value :=
  match cols, vals with
  | c :: cs, v :: vs =>
      match tuple_get name cs vs with
      | Some x => Some x
      | None => if String.eqb c name then Some v else None
      end
  | _, _ => None
  end.

(* FieldDef.Validate on a non-nil value *)
Definition validate (ty : coltype) (v : value) : option err_class :=
  match ty, v with
  | _, VNull => None
  | TInt, VInt z => if (z >? int32_max) || (z <? int32_min) then Some ErrIntRange else None
  | TBigInt, VInt _ => None
  | TVarchar, VStr _ => None
  | TBoolean, VBool _ => None
  | _, _ => Some ErrType
  end.

Fixpoint first_invalid (sch : schema) (r : row) : option err_class :=
  match sch, r with
  | fd :: sch', v :: r' =>
      match validate (fd_type fd) v with
      | Some e => Some e
      | None => first_invalid sch' r'
      end
  | _, _ => None
  end.

Definition enc_size_val (v : value) : Z :=
  1 + match v with
      | VNull => 0
      | VInt _ => 0        (* width depends on the column type: see enc_size *)
      | VStr s => 4 + Z.of_nat (String.length s)
      | VBool _ => 1
      end.

Fixpoint enc_size (sch : schema) (r : row) : Z :=
  match sch, r with
  | fd :: sch', v :: r' =>
      enc_size_val v +
      (match v, fd_type fd with VInt _, TInt => 4 | VInt _, _ => 8 | _, _ => 0 end) +
      enc_size sch' r'
  | _, _ => 0
  end.

Definition maxValueSize : Z := 400.

Definition eff_cols (sch : schema) (cols : list string) : list string :=
  match cols with [] => map fd_name sch | _ => cols end.

Definition build_row (sch : schema) (cols : list string) (vals : list value) : row :=
  map (fun fd => match tuple_get (fd_name fd) cols vals with Some v => v | None => VNull end) sch.

(* relation.go checkColumnList: every name is a column of the table and occurs once *)
Fixpoint cols_ok (names : list string) (cols seen : list string) : bool :=
  match cols with
  | [] => true
  | c :: r => existsb (String.eqb c) names && negb (existsb (String.eqb c) seen) && cols_ok names r (c :: seen)
  end.

Definition insert_row (sch : schema) (cols : list string) (vals : list value) : ins_result :=
  let cols' := eff_cols sch cols in
  if negb (Nat.eqb (List.length cols') (List.length vals)) then InsErr ErrColCount
  else if negb (cols_ok (map fd_name sch) cols' []) then InsErr ErrColumns
  else
    let r := build_row sch cols' vals in
    match first_invalid sch r with
    | Some e => InsErr e
    | None => if enc_size sch r >? maxValueSize then InsErr ErrTooLarge else InsOk r
    end.

Definition insert_ok (sch : schema) (cols : list string) (vals : list value) : bool :=
  match insert_row sch cols vals with InsOk _ => true | InsErr _ => false end.

(* ---- doBatchInsert ---- *)
Inductive rd_event :=
| RRecord (fields : list string)
| RParseErr            (* *csv.ParseError: reported, loop continues *)
| ROtherErr.           (* any other non-EOF error: reported, loop stops *)

Inductive out_event := EvOk | EvErr (e : err_class) | EvPanic.

Record cfg := mkCfg { colTypes : list coltype; dstCols : list string; srcCols : list nat }.

Definition max_idx (srcs : list nat) : nat := fold_left Nat.max srcs 0%nat.

(* the events sent on chOk / chErr in order, and the table afterwards *)
Fixpoint import (c : cfg) (sch : schema) (evs : list rd_event) (tbl : list row) : list out_event * list row :=
  match evs with
  | [] => ([], tbl)
  | RParseErr :: r => let '(os, t) := import c sch r tbl in (EvErr ErrMalformed :: os, t)
  | ROtherErr :: _ => ([EvErr ErrMalformed], tbl)
  | RRecord rec :: r =>
      if (List.length rec <=? max_idx (srcCols c))%nat then
        let '(os, t) := import c sch r tbl in (EvErr ErrMalformed :: os, t)
      else
        match csv_to_sql (colTypes c) (srcCols c) rec with
        | CsvPanic => ([EvPanic], tbl)
        | CsvErr => let '(os, t) := import c sch r tbl in (EvErr ErrMalformed :: os, t)
        | CsvOk vals =>
            match insert_row sch (dstCols c) vals with
            | InsErr e => let '(os, t) := import c sch r tbl in (EvErr e :: os, t)
            | InsOk row => let '(os, t) := import c sch r (tbl ++ [row]) in (EvOk :: os, t)
            end
        end
  end.

(* ---- colDataTypes: destination column types looked up in the catalog (sys_schema) ---- *)
Fixpoint field_type (sch : schema) (name : string) : option coltype :=
  match sch with
  | [] => None
  | fd :: r =>
      match field_type r name with              (* m[row.Vals[0]] = ...: a later row wins *)
      | Some t => Some t
      | None => if String.eqb (fd_name fd) name then Some (fd_type fd) else None
      end
  end.

Fixpoint col_data_types (sch : schema) (dst : list string) : option (list coltype) :=
  match dst with
  | [] => Some []
  | d :: r =>
      match field_type sch d, col_data_types sch r with
      | Some t, Some ts => Some (t :: ts)
      | _, _ => None                            (* "didn't find column" *)
      end
  end.

(* ---- makeConfig: the column mapping given on the command line (-dest-cols, -src-cols) ----
   source indexes are parsed with strconv.Atoi (here: integers); a negative index and more source
   than destination columns are refused (each source column takes its type from the destination
   column at the same position), then the destination columns are looked up in the catalog *)
Definition make_config (sch : schema) (dst : list string) (src : list Z) : option cfg :=
  if existsb (fun z => (z <? 0)%Z) src then None
  else if (List.length dst <? List.length src)%nat then None
  else match col_data_types sch dst with
       | Some ts => Some (mkCfg ts dst (map Z.to_nat src))
       | None => None
       end.
