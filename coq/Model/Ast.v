(* The statement trees of sql/parser.go, one constructor per Go struct / interface case.
   Source positions (Token.Line/Column) are not part of the tree. *)
From Coq Require Export ZArith String Bool List.
From Mkdb Require Export Model.Value.
Export ListNotations.

(* sql.ColumnReference{Qualifier, ColumnName}; Qualifier "" = unqualified *)
Record colref := mkCol { cr_qual : string; cr_name : string }.

(* ValueExpression: literal (int64 | string | bool, from Token.Val) or ColumnReference *)
Inductive vexpr :=
| XLit (v : value)            (* only VInt / VStr / VBool occur *)
| XCol (c : colref).

Inductive compop := CEq | CNeq | CGt | CLt | CLte | CGte.   (* sql.EQ NEQ GT LT LTE GTE *)

(* what OrCondition / AndCondition / Predicate return (interface{} in Go) *)
Inductive expr :=
| EVal (v : vexpr)                                  (* bare value: no comparison operator followed *)
| EPred (l : vexpr) (op : compop) (r : vexpr)       (* Predicate{ComparisonPredicate{LHS,CompOp,RHS}} *)
| EAnd (l : vexpr * compop * vexpr) (r : expr)      (* BooleanTerm{LHS Predicate, RHS interface{}} *)
| EOr (l r : expr).                                 (* SearchCondition{LHS, RHS interface{}} *)

(* DerivedColumn.ValueExpressionPrimary *)
Inductive selprim :=
| SPStar                                            (* Asterisk{} *)
| SPCount (c : option colref)                       (* Count{ValueExpression}: None = count( * ) *)
| SPAvg (c : colref)                                (* Average{ValueExpression: ColumnReference} *)
| SPExpr (e : expr).                                (* result of OrCondition *)

Record derivedcol := mkDC { dc_prim : selprim; dc_as : string }.   (* AsClause "" = none *)

Inductive jointype := JFull | JLeft | JRight | JInner.   (* FULL_JOIN=0 LEFT_JOIN RIGHT_JOIN INNER_JOIN *)

(* TableReference: TableName{CorrelationName, Name} | QualifiedJoin{LHS, JoinType, RHS, JoinCondition} *)
Inductive tableref :=
| TRName (name : string) (alias : option string)
| TRJoin (l : tableref) (jt : jointype) (r : tableref) (cond : expr).

Inductive sortdir := SAsc | SDesc.
Record sortspec := mkSort { ss_key : colref; ss_dir : sortdir }.

Record select_stmt := mkSelect {
  sel_list : list derivedcol;
  sel_from : list tableref;          (* FromClause: [] or one (possibly joined) reference *)
  sel_where : option expr;           (* WhereClause: nil or WhereClause{SearchCondition} *)
  sel_group : list colref;
  sel_sort : list sortspec;
  sel_limit_active : bool;
  sel_offset_active : bool;
  sel_limit : Z;
  sel_offset : Z
}.

Inductive sqltype :=
| STNumeric                          (* NumericType{}: INT *)
| STBigInt
| STVarchar (len : Z)                (* CharacterStringType{Len, Type: T_VARCHAR} *)
| STBoolean.

Record coldef := mkColDef { cd_name : string; cd_type : sqltype }.

Inductive stmt :=
| SSelect (s : select_stmt)
| SCreateTable (name : string) (cols : list coldef)
| SCreateDatabase (name : string)
| SShowDatabase
| SUse (name : string)
| SInsert (table : string) (cols : list string) (rows : list (list value))
| SUpdate (table : string) (sets : list (string * vexpr)) (where_ : option expr)
| SDelete (table : string) (where_ : option expr).
