(* C01 - Table contents always equal what the statement history implies: the end-to-end
   refinement theorem through the catalog encoding (sys_pages / sys_schema trees, tuple codec,
   sibling-chain scans, root moves recorded in the catalog / header).

   C01_full_statement (Properties/C01.v) quantifies over ALL statement histories, including
   histories with failing statements. It is FALSE for the code as it is: a multi-row INSERT /
   UPDATE failing at row k > 1 and a CREATE TABLE failing at column k > 1 leave a prefix of
   their effects behind (recorded findings F11a-c, Properties/C14.v); C01_full_refuted below
   derives the contradiction from the F11a witness by vm_compute.

   What IS proved, for all histories of any length over any number of tables, any row counts
   and value sizes (hence any pattern of leaf / internal / root splits of user tables and of
   both catalog trees): C01_refines_partial_early. Its hypotheses are boolean predicates on the
   history:
     (i)   early_failures: every FAILING statement of the history fails before its first page
           change (Proofs/Atomic.v fails_early: unknown / duplicate table, catalog table as DML
           target, column-count / type / range / size error in the FIRST row or first matching
           row, SET from a column, unevaluable WHERE). Successful statements are unrestricted.
           This is exactly the complement of findings F11a-c.
     (ii)  (removed) column names of a CREATE TABLE need not be assumed pairwise distinct any
           more: this hypothesis, forced by the proof (a tuple is a map by column name), was the
           signal of a genuine defect - CREATE TABLE t (a int, a int); INSERT INTO t VALUES (1, 2)
           succeeded and SELECT * returned (2, 2). /repo e322443 makes createTable refuse a name
           used twice (model: st_create_table / names_distinct); such a statement now fails
           before any change and is covered by (i);
     (iii) ev_ok: literals are Go values: integers within int64, strings shorter than 2^32
           bytes (the model's Z / string are unbounded; Go's int64 / len are not);
     (iv)  the data file stays below 2^63 bytes (offsets are stored as BIGINT);
   and the observed table name n is not sys_pages / sys_schema (the specification has no
   catalog tables). No hypothesis on table / column name lengths or row sizes: an oversized
   catalog or data row makes its statement fail, which is covered by (i). Statements that
   target sys_pages / sys_schema need no exclusion (the code refuses them before any change).

   Without (i), for ALL histories: C01_refines_partial_lax - the contents equal those of some
   database the specification allows when each FAILED statement may leave a row-operation
   prefix (TableSpec.stmt_prefixes) behind; this is exactly what findings F11a-c do.
   C01_refines_partial_all_succeed is the property text's own quantifier (every statement of
   the history succeeded). C01_refines_partial_rep exposes the invariant itself. *)
From Coq Require Import List NArith ZArith String Sorted Bool Lia.
From Mkdb Require Import Spec.HistObs Proofs.TreeProofs Proofs.StoreInv Proofs.TupleProofs
  Proofs.RefineForest Proofs.RefineCodec Proofs.RefineRep Proofs.RefineCat Proofs.RefineDML
  Proofs.RefineDDL Proofs.Atomic Proofs.RefineMain Proofs.RefineFail Properties.C01.
Import ListNotations.
Local Open Scope N_scope.
Local Open Scope string_scope.
Local Open Scope list_scope.

(* the representation relation gives the observable agreement of C01 *)
Lemma Rep_table_agrees s d n : Rep s d -> is_sys n = false -> table_agrees s d n.
Proof.
  intros HR Hsys. unfold table_agrees, spec_table.
  destruct (find_tbl n d) as [t|] eqn:Hf.
  - destruct (st_fetch_user s d n t HR Hsys Hf) as (o & tr & Eo & Hr & Es & Ht & Hfetch).
    rewrite Hfetch. pose proof (Forall2_length' _ _ _ Ht) as Hlen.
    assert (Hl : List.length (keys_of (scan_tree tr)) = List.length (tb_rows t))
      by (unfold keys_of; rewrite map_length; exact Hlen).
    split; [|split].
    + unfold fields_of. rewrite map_map. reflexivity.
    + apply map_snd_combine. exact Hl.
    + rewrite (map_fst_combine _ _ Hl). eapply scan_keys_sorted; [apply (r_sinv _ _ HR) | exact Hr].
  - rewrite (st_fetch_missing s d n HR Hsys Hf). exact I.
Qed.

Theorem C01_refines_partial_early : forall evs y os n,
  stmts_only evs = true ->
  run_events init_sys evs = (SOk y, os) ->
  early_failures init_sys evs = true ->            (* (i) *)
  forallb ev_ok evs = true ->                      (* (ii), (iii) *)
  N.leb (nextFree (mem y)) OFFMAX = true ->        (* (iv) *)
  is_sys n = false ->
  table_agrees (mem y) (spec_run [] (acked_stmts evs os)) n.
Proof.
  intros evs y os n Hso Hrun Hearly Hok Hmax Hsys. apply N.leb_le in Hmax.
  destruct (run_events_rep evs init_sys [] y os Rep_init Hso Hok Hearly Hrun Hmax) as [HR _].
  apply Rep_table_agrees; assumption.
Qed.
Print Assumptions C01_refines_partial_early.

(* the representation relation itself (catalog invariant + per-table content invariant + C11's
   structural invariant) holds in every such state: rows are stored as the canonical encoding
   of the specification's rows, in insertion order, each table in its own tree *)
Theorem C01_refines_partial_rep : forall evs y os,
  stmts_only evs = true -> run_events init_sys evs = (SOk y, os) ->
  early_failures init_sys evs = true -> forallb ev_ok evs = true ->
  N.leb (nextFree (mem y)) OFFMAX = true ->
  Rep (mem y) (spec_run [] (acked_stmts evs os)).
Proof.
  intros evs y os Hso Hrun Hearly Hok Hmax. apply N.leb_le in Hmax.
  exact (proj1 (run_events_rep evs init_sys [] y os Rep_init Hso Hok Hearly Hrun Hmax)).
Qed.
Print Assumptions C01_refines_partial_rep.

(* the property text's own quantifier: histories in which every statement succeeds *)
Lemma all_ok_early evs : forall y0 y os,
  stmts_only evs = true -> run_events y0 evs = (SOk y, os) ->
  (forall o, In (Some o) os -> is_ok o = true) -> early_failures y0 evs = true.
Proof.
  induction evs as [|ev r IH]; intros y0 y os Hso Hrun Hall; [reflexivity|].
  cbn [stmts_only forallb] in Hso. apply andb_true_iff in Hso as [A B]. destruct ev; try discriminate.
  cbn [run_events step early_failures] in *. unfold exec in *. cbn [fst].
  destruct (e_out (run_stmt (mem y0) st)) as [c|e|] eqn:Eo; try discriminate.
  - match type of Hrun with context [run_events ?yy r] => destruct (run_events yy r) as [f o] eqn:E end.
    inversion Hrun; subst. eapply IH; eauto. intros o' Ho'. apply Hall. right. exact Ho'.
  - exfalso. match type of Hrun with context [run_events ?yy r] => destruct (run_events yy r) as [f o] eqn:E end.
    inversion Hrun; subst. specialize (Hall (OErr e) (or_introl eq_refl)). discriminate.
Qed.

Theorem C01_refines_partial_all_succeed : forall evs y os n,
  stmts_only evs = true ->
  run_events init_sys evs = (SOk y, os) ->
  (forall o, In (Some o) os -> is_ok o = true) ->  (* every statement of the history succeeded *)
  forallb ev_ok evs = true ->
  N.leb (nextFree (mem y)) OFFMAX = true ->
  is_sys n = false ->
  table_agrees (mem y) (spec_run [] (acked_stmts evs os)) n.
Proof.
  intros evs y os n Hso Hrun Hall Hok Hmax Hsys.
  eapply C01_refines_partial_early; eauto. eapply all_ok_early; eauto.
Qed.
Print Assumptions C01_refines_partial_all_succeed.

(* ---------- ALL histories: no hypothesis on how statements fail ----------
   Whatever statements fail and however (the recorded findings included), the table contents
   equal those of SOME database the specification derives from the history when every failed
   statement is allowed to leave a row-operation prefix behind (lax_dbs: acknowledged statement =
   spec_exec; failed statement = unchanged or one of TableSpec.stmt_prefixes). This is the oracle
   `spec_accepts_prefix_on_error` of Spec/HistObs.v as a theorem about the model. *)
Theorem C01_refines_partial_lax : forall evs y os,
  stmts_only evs = true ->
  run_events init_sys evs = (SOk y, os) ->
  forallb ev_ok evs = true ->                      (* (ii), (iii) *)
  N.leb (nextFree (mem y)) OFFMAX = true ->        (* (iv) *)
  exists d, In d (lax_dbs [[]] evs os) /\ Rep (mem y) d /\
            forall n, is_sys n = false -> table_agrees (mem y) d n.
Proof.
  intros evs y os Hso Hrun Hok Hmax. apply N.leb_le in Hmax.
  destruct (run_events_lax evs init_sys [] [[]] y os Rep_init (or_introl eq_refl) Hso Hok Hrun Hmax) as (d & Hd & HR).
  exists d. split; [exact Hd|]. split; [exact HR|]. intros n Hn. apply Rep_table_agrees; assumption.
Qed.
Print Assumptions C01_refines_partial_lax.

(* ---------- the full statement is false for the code as it is (finding F11a) ---------- *)
Definition evs_F11a : list event :=
  [EvStmt (SCreateTable "t" [mkColDef "a" STNumeric]);
   EvStmt (SInsert "t" [] [[VInt 1]; [VInt 2147483648]])].

(* everything the refutation needs, decided by one vm_compute: the history runs without panic,
   the model's table t holds a row, the specification's table t is empty *)
Definition F11a_check : bool :=
  match run_events init_sys evs_F11a with
  | (SOk y, os) =>
      forallb (fun o => match o with Some OPanic => false | _ => true end) os &&
      match st_fetch (mem y) "t", spec_table (spec_run [] (acked_stmts evs_F11a os)) "t" with
      | Ok (_ :: _, _), Some (_, []) => true
      | _, _ => false
      end
  | _ => false
  end.

Lemma F11a_check_true : F11a_check = true.
Proof. vm_compute. reflexivity. Qed.

Theorem C01_full_refuted : ~ C01_full_statement.
Proof.
  intros H. pose proof F11a_check_true as Hc. unfold F11a_check in Hc.
  destruct (run_events init_sys evs_F11a) as [[y| |] os] eqn:E; try discriminate Hc.
  apply andb_true_iff in Hc as [Hnp Hc].
  assert (Hnp' : forall o, In (Some o) os -> o <> OPanic).
  { intros o Ho. rewrite forallb_forall in Hnp. specialize (Hnp _ Ho). intros ->. discriminate Hnp. }
  pose proof (H evs_F11a y os "t" eq_refl E Hnp') as Ht. unfold table_agrees in Ht.
  destruct (st_fetch (mem y) "t") as [[[|r1 idrows] fs]|e|]; try discriminate Hc.
  destruct (spec_table (spec_run [] (acked_stmts evs_F11a os)) "t") as [[cols [|r rows]]|]; try discriminate Hc.
  destruct Ht as (_ & X & _). discriminate X.
Qed.
Print Assumptions C01_full_refuted.

(* ---------- non-vacuity: a history with DDL, multi-row DML with column lists, UPDATE, DELETE and
   early failures of several kinds meets every hypothesis ---------- *)
Definition evs_demo : list event :=
  [EvStmt (SCreateTable "t" [mkColDef "a" STNumeric; mkColDef "b" (STVarchar 20); mkColDef "c" STBoolean]);
   EvStmt (SCreateTable "u" [mkColDef "x" STBigInt]);
   EvStmt (SCreateTable "t" [mkColDef "z" STNumeric]);                               (* duplicate table *)
   EvStmt (SInsert "t" [] [[VInt 1; VStr "one"; VBool true]; [VInt 2; VStr "two"; VNull]]);
   EvStmt (SInsert "t" ["b"; "a"] [[VStr "three"; VInt 3]]);
   EvStmt (SInsert "t" [] [[VInt 2147483648; VStr "x"; VNull]]);                     (* INT out of range, row 1 *)
   EvStmt (SInsert "nosuch" [] [[VInt 1]]);                                          (* unknown table *)
   EvStmt (SInsert "sys_pages" [] [[VStr "t"; VInt 0]]);                             (* catalog is read-only *)
   EvStmt (SInsert "u" [] [[VInt 9223372036854775807]; [VInt (-9223372036854775808)]]);
   EvStmt (SUpdate "t" [("b", XLit (VStr "TWO"))] (Some (EPred (XCol (mkCol "" "a")) CEq (XLit (VInt 2)))));
   EvStmt (SUpdate "t" [("a", XCol (mkCol "" "a"))] None);                           (* SET from a column *)
   EvStmt (SDelete "t" (Some (EPred (XCol (mkCol "" "a")) CLt (XLit (VInt 2)))));
   EvStmt (SDelete "t" (Some (EPred (XCol (mkCol "" "nosuch")) CEq (XLit (VInt 2)))))].  (* unevaluable WHERE *)

Example C01_demo_hyps :
  stmts_only evs_demo = true /\ early_failures init_sys evs_demo = true /\ forallb ev_ok evs_demo = true /\
  match run_events init_sys evs_demo with
  | (SOk y, os) =>
      N.leb (nextFree (mem y)) OFFMAX = true /\
      map (fun o => match o with Some (OOk _) => true | _ => false end) os =
        [true; true; false; true; true; false; false; false; true; true; false; true; false] /\
      obs_table (mem y) "t" = TRows ["a"; "b"; "c"] [(16, [VInt 2; VStr "TWO"; VNull]); (17, [VInt 3; VStr "three"; VNull])]
  | _ => False
  end.
Proof. vm_compute. repeat split; reflexivity. Qed.
