(* C01 - Table contents always equal what the statement history implies: the end-to-end
   refinement theorem through the catalog encoding (sys_pages / sys_schema trees, tuple codec,
   sibling-chain scans, root moves recorded in the catalog / header).

   STATUS after the repair of findings F11a-c (EvaluateInsert / EvaluateUpdate check every row,
   createTable checks every catalog row, before the first change): C01_refines holds for ALL
   statement histories - failing statements of any kind anywhere in the history - of any length
   over any number of tables, any row counts and value sizes (hence any pattern of leaf /
   internal / root splits of user tables and of both catalog trees). The former hypothesis
     (i)   early_failures: every FAILING statement of the history fails before its first page
           change (Proofs/Atomic.v fails_early)
   is no longer assumed: Proofs/FailsEarly.v derives it from the refinement invariant
   (stmt_err_unchanged: under `Rep s d` a statement that returns an error returns the store it
   was given; "no late failure": BTree.insert of a row that fits, updatePageTable on a registered
   table, Update of a row whose check passed on the store the statement started from, and
   MarkDeleted of a collected id cannot fail). The former refutation C01_full_refuted (F11a
   witness) is gone - that history now satisfies the agreement (C01_former_witness_agrees).
   The remaining hypotheses of C01_refines are boolean predicates on the history:
     (ii)  (removed earlier) column names of a CREATE TABLE need not be assumed pairwise
           distinct: /repo e322443 makes createTable refuse a name used twice;
     (iii) ev_ok: literals are Go values: integers within int64, strings shorter than 2^32
           bytes (the model's Z / string are unbounded; Go's int64 / len are not);
     (iv)  the data file stays below 2^63 bytes (offsets are stored as BIGINT);
   and the observed table name n is not sys_pages / sys_schema (the specification has no
   catalog tables; C01_full_statement of Properties/C01.v has none of these three side
   conditions and is therefore not the statement proved here). No hypothesis on table / column
   name lengths or row sizes: an oversized catalog or data row makes its statement fail, and a
   failing statement changes nothing. Statements that target sys_pages / sys_schema need no
   exclusion (the code refuses them before any change).

   Still here, still true: C01_refines_partial_early / C01_refines_partial_rep (the same under
   (i)), C01_refines_partial_all_succeed (the property text's own quantifier),
   C01_refines_partial_lax (every failed statement may leave a row-operation prefix behind; now
   subsumed by C01_refines, where it leaves nothing). *)
From Coq Require Import List NArith ZArith String Sorted Bool Lia.
From Mkdb Require Import Spec.HistObs Proofs.TreeProofs Proofs.StoreInv Proofs.TupleProofs
  Proofs.RefineForest Proofs.RefineCodec Proofs.RefineRep Proofs.RefineCat Proofs.RefineDML
  Proofs.RefineDDL Proofs.Atomic Proofs.RefineMain Proofs.RefineFail Proofs.FailsEarly Properties.C01.
Import ListNotations.
Local Open Scope N_scope.
Local Open Scope string_scope.
Local Open Scope list_scope.

(* the representation relation gives the observable agreement of C01 *)
Lemma Rep_table_agrees s d n : Rep s d -> is_sys n = false -> table_agrees s d n.
Proof.
  intros HR Hsys. unfold table_agrees, spec_table.
  destruct (find_tbl n d) as [t|] eqn:Hf.
  - destruct (st_fetch_user s d n t HR Hsys Hf) as (o & tr & Eo & Hr & Es & Ht & Hfetch).
    rewrite Hfetch. pose proof (Forall2_length' _ _ _ Ht) as Hlen.
    assert (Hl : List.length (keys_of (scan_tree tr)) = List.length (tb_rows t))
      by (unfold keys_of; rewrite map_length; exact Hlen).
    split; [|split].
    + unfold fields_of. rewrite map_map. reflexivity.
    + apply map_snd_combine. exact Hl.
    + rewrite (map_fst_combine _ _ Hl). eapply scan_keys_sorted; [apply (r_sinv _ _ HR) | exact Hr].
  - rewrite (st_fetch_missing s d n HR Hsys Hf). exact I.
Qed.

Theorem C01_refines_partial_early : forall evs y os n,
  stmts_only evs = true ->
  run_events init_sys evs = (SOk y, os) ->
  early_failures init_sys evs = true ->            (* (i) *)
  forallb ev_ok evs = true ->                      (* (ii), (iii) *)
  N.leb (nextFree (mem y)) OFFMAX = true ->        (* (iv) *)
  is_sys n = false ->
  table_agrees (mem y) (spec_run [] (acked_stmts evs os)) n.
Proof.
  intros evs y os n Hso Hrun Hearly Hok Hmax Hsys. apply N.leb_le in Hmax.
  destruct (run_events_rep evs init_sys [] y os Rep_init Hso Hok Hearly Hrun Hmax) as [HR _].
  apply Rep_table_agrees; assumption.
Qed.
Print Assumptions C01_refines_partial_early.

(* the representation relation itself (catalog invariant + per-table content invariant + C11's
   structural invariant) holds in every such state: rows are stored as the canonical encoding
   of the specification's rows, in insertion order, each table in its own tree *)
Theorem C01_refines_partial_rep : forall evs y os,
  stmts_only evs = true -> run_events init_sys evs = (SOk y, os) ->
  early_failures init_sys evs = true -> forallb ev_ok evs = true ->
  N.leb (nextFree (mem y)) OFFMAX = true ->
  Rep (mem y) (spec_run [] (acked_stmts evs os)).
Proof.
  intros evs y os Hso Hrun Hearly Hok Hmax. apply N.leb_le in Hmax.
  exact (proj1 (run_events_rep evs init_sys [] y os Rep_init Hso Hok Hearly Hrun Hmax)).
Qed.
Print Assumptions C01_refines_partial_rep.

(* the property text's own quantifier: histories in which every statement succeeds *)
Lemma all_ok_early evs : forall y0 y os,
  stmts_only evs = true -> run_events y0 evs = (SOk y, os) ->
  (forall o, In (Some o) os -> is_ok o = true) -> early_failures y0 evs = true.
Proof.
  induction evs as [|ev r IH]; intros y0 y os Hso Hrun Hall; [reflexivity|].
  cbn [stmts_only forallb] in Hso. apply andb_true_iff in Hso as [A B]. destruct ev; try discriminate.
  cbn [run_events step early_failures] in *. unfold exec in *. cbn [fst].
  destruct (e_out (run_stmt (mem y0) st)) as [c|e|] eqn:Eo; try discriminate.
  - match type of Hrun with context [run_events ?yy r] => destruct (run_events yy r) as [f o] eqn:E end.
    inversion Hrun; subst. eapply IH; eauto. intros o' Ho'. apply Hall. right. exact Ho'.
  - exfalso. match type of Hrun with context [run_events ?yy r] => destruct (run_events yy r) as [f o] eqn:E end.
    inversion Hrun; subst. specialize (Hall (OErr e) (or_introl eq_refl)). discriminate.
Qed.

Theorem C01_refines_partial_all_succeed : forall evs y os n,
  stmts_only evs = true ->
  run_events init_sys evs = (SOk y, os) ->
  (forall o, In (Some o) os -> is_ok o = true) ->  (* every statement of the history succeeded *)
  forallb ev_ok evs = true ->
  N.leb (nextFree (mem y)) OFFMAX = true ->
  is_sys n = false ->
  table_agrees (mem y) (spec_run [] (acked_stmts evs os)) n.
Proof.
  intros evs y os n Hso Hrun Hall Hok Hmax Hsys.
  eapply C01_refines_partial_early; eauto. eapply all_ok_early; eauto.
Qed.
Print Assumptions C01_refines_partial_all_succeed.

(* ---------- ALL histories: no hypothesis on how statements fail ----------
   Whatever statements fail and however (the recorded findings included), the table contents
   equal those of SOME database the specification derives from the history when every failed
   statement is allowed to leave a row-operation prefix behind (lax_dbs: acknowledged statement =
   spec_exec; failed statement = unchanged or one of TableSpec.stmt_prefixes). This is the oracle
   `spec_accepts_prefix_on_error` of Spec/HistObs.v as a theorem about the model. *)
Theorem C01_refines_partial_lax : forall evs y os,
  stmts_only evs = true ->
  run_events init_sys evs = (SOk y, os) ->
  forallb ev_ok evs = true ->                      (* (ii), (iii) *)
  N.leb (nextFree (mem y)) OFFMAX = true ->        (* (iv) *)
  exists d, In d (lax_dbs [[]] evs os) /\ Rep (mem y) d /\
            forall n, is_sys n = false -> table_agrees (mem y) d n.
Proof.
  intros evs y os Hso Hrun Hok Hmax. apply N.leb_le in Hmax.
  destruct (run_events_lax evs init_sys [] [[]] y os Rep_init (or_introl eq_refl) Hso Hok Hrun Hmax) as (d & Hd & HR).
  exists d. split; [exact Hd|]. split; [exact HR|]. intros n Hn. apply Rep_table_agrees; assumption.
Qed.
Print Assumptions C01_refines_partial_lax.

(* ---------- ALL histories, exact agreement: (H1) is derived, not assumed ---------- *)
Theorem C01_refines : forall evs y os n,
  stmts_only evs = true ->
  run_events init_sys evs = (SOk y, os) ->
  forallb ev_ok evs = true ->                      (* (iii) *)
  N.leb (nextFree (mem y)) OFFMAX = true ->        (* (iv) *)
  is_sys n = false ->
  table_agrees (mem y) (spec_run [] (acked_stmts evs os)) n.
Proof.
  intros evs y os n Hso Hrun Hok Hmax Hsys. apply N.leb_le in Hmax.
  destruct (run_events_rep_all evs init_sys [] y os Rep_init Hso Hok Hrun Hmax) as [HR _].
  apply Rep_table_agrees; assumption.
Qed.
Print Assumptions C01_refines.

Theorem C01_refines_rep : forall evs y os,
  stmts_only evs = true -> run_events init_sys evs = (SOk y, os) ->
  forallb ev_ok evs = true -> N.leb (nextFree (mem y)) OFFMAX = true ->
  Rep (mem y) (spec_run [] (acked_stmts evs os)).
Proof.
  intros evs y os Hso Hrun Hok Hmax. apply N.leb_le in Hmax.
  exact (proj1 (run_events_rep_all evs init_sys [] y os Rep_init Hso Hok Hrun Hmax)).
Qed.
Print Assumptions C01_refines_rep.

(* the former F11a witness of C01_full_refuted: the 2-row INSERT whose second row is out of range
   now leaves table t empty, as the specification says *)
Definition evs_F11a : list event :=
  [EvStmt (SCreateTable "t" [mkColDef "a" STNumeric]);
   EvStmt (SInsert "t" [] [[VInt 1]; [VInt 2147483648]])].

Example C01_former_witness_agrees :
  match run_events init_sys evs_F11a with
  | (SOk y, os) =>
      os = [Some (OOk 0); Some (OErr EIntRange)] /\
      st_fetch (mem y) "t" = Ok ([], [mkFld "" "a"]) /\
      spec_table (spec_run [] (acked_stmts evs_F11a os)) "t" = Some (["a"], [])
  | _ => False
  end.
Proof. vm_compute. repeat split; reflexivity. Qed.

(* non-vacuity of C01_refines: a history with a FAILING multi-row INSERT (second row out of INT
   range), a failing multi-row UPDATE (the second matching row would exceed 400 bytes) and a
   failing CREATE TABLE (second column VARCHAR(3000000000)) - none of which fails_early admits -
   meets the hypotheses, and the tables read as if those statements had never been issued *)
Fixpoint rep_x (n : nat) : string := match n with O => "" | S k => String "x" (rep_x k) end.

Definition evs_late : list event :=
  [EvStmt (SCreateTable "t" [mkColDef "a" STNumeric; mkColDef "b" (STVarchar 400); mkColDef "c" (STVarchar 400)]);
   EvStmt (SInsert "t" [] [[VInt 1; VStr "x"; VStr "y"]; [VInt 2; VStr "x"; VStr (rep_x 300)]]);
   EvStmt (SInsert "t" [] [[VInt 3; VStr "p"; VStr "q"]; [VInt 2147483648; VStr "p"; VStr "q"]]);   (* row 2: INT range *)
   EvStmt (SUpdate "t" [("b", XLit (VStr (rep_x 200)))] None);                                        (* row 2: too large *)
   EvStmt (SCreateTable "u" [mkColDef "a" STNumeric; mkColDef "b" (STVarchar 3000000000)]);          (* column 2 *)
   EvStmt (SInsert "u" [] [[VInt 1; VStr "z"]])].                                                     (* u does not exist *)

Example C01_refines_nonvacuous :
  stmts_only evs_late = true /\ forallb ev_ok evs_late = true /\ early_failures init_sys evs_late = false /\
  match run_events init_sys evs_late with
  | (SOk y, os) =>
      N.leb (nextFree (mem y)) OFFMAX = true /\
      os = [Some (OOk 0); Some (OOk 2); Some (OErr EIntRange); Some (OErr ERowTooLarge); Some (OErr EIntRange);
            Some (OErr ETableNotExist)] /\
      (match obs_table (mem y) "t" with TRows cols rows => (cols, map fst rows) | _ => ([], []) end) =
        (["a"; "b"; "c"], [13; 14]%N) /\
      st_fetch (mem y) "u" = Err ETableNotExist
  | _ => False
  end.
Proof. vm_compute. repeat split; reflexivity. Qed.

(* ---------- non-vacuity: a history with DDL, multi-row DML with column lists, UPDATE, DELETE and
   early failures of several kinds meets every hypothesis ---------- *)
Definition evs_demo : list event :=
  [EvStmt (SCreateTable "t" [mkColDef "a" STNumeric; mkColDef "b" (STVarchar 20); mkColDef "c" STBoolean]);
   EvStmt (SCreateTable "u" [mkColDef "x" STBigInt]);
   EvStmt (SCreateTable "t" [mkColDef "z" STNumeric]);                               (* duplicate table *)
   EvStmt (SInsert "t" [] [[VInt 1; VStr "one"; VBool true]; [VInt 2; VStr "two"; VNull]]);
   EvStmt (SInsert "t" ["b"; "a"] [[VStr "three"; VInt 3]]);
   EvStmt (SInsert "t" [] [[VInt 2147483648; VStr "x"; VNull]]);                     (* INT out of range, row 1 *)
   EvStmt (SInsert "nosuch" [] [[VInt 1]]);                                          (* unknown table *)
   EvStmt (SInsert "sys_pages" [] [[VStr "t"; VInt 0]]);                             (* catalog is read-only *)
   EvStmt (SInsert "u" [] [[VInt 9223372036854775807]; [VInt (-9223372036854775808)]]);
   EvStmt (SUpdate "t" [("b", XLit (VStr "TWO"))] (Some (EPred (XCol (mkCol "" "a")) CEq (XLit (VInt 2)))));
   EvStmt (SUpdate "t" [("a", XCol (mkCol "" "a"))] None);                           (* SET from a column *)
   EvStmt (SDelete "t" (Some (EPred (XCol (mkCol "" "a")) CLt (XLit (VInt 2)))));
   EvStmt (SDelete "t" (Some (EPred (XCol (mkCol "" "nosuch")) CEq (XLit (VInt 2)))))].  (* unevaluable WHERE *)

Example C01_demo_hyps :
  stmts_only evs_demo = true /\ early_failures init_sys evs_demo = true /\ forallb ev_ok evs_demo = true /\
  match run_events init_sys evs_demo with
  | (SOk y, os) =>
      N.leb (nextFree (mem y)) OFFMAX = true /\
      map (fun o => match o with Some (OOk _) => true | _ => false end) os =
        [true; true; false; true; true; false; false; false; true; true; false; true; false] /\
      obs_table (mem y) "t" = TRows ["a"; "b"; "c"] [(16, [VInt 2; VStr "TWO"; VNull]); (17, [VInt 3; VStr "three"; VNull])]
  | _ => False
  end.
Proof. vm_compute. repeat split; reflexivity. Qed.

(* ====================== the observation oracle accepts the model ======================
   The link between the two halves of the C01 check: whatever the model does on a history of
   statements, flushes, table read-backs and page dumps, the oracles `spec_accepts` /
   `spec_accepts_strict` of Spec/HistObs.v accept it (Proofs/OracleSound.v). With
   OracleSound.agreement_implies_acceptance: an implementation that agrees with the model on a
   history (MM = []) is accepted by the oracle on it (SM = []): no false alarm is possible on
   conforming behaviour, and every SM verdict is tied to C01_refines through the model.
   Hypotheses (booleans on the history): hist_shape (the events of the C01 check), hev_ok (iii),
   frontier_ok (iv, after every statement), hev_stmt_shape (no INSERT without rows, no UPDATE /
   DELETE on sys_pages / sys_schema) and reads_cover (a read-back does not return to a table that
   the previous read-back skipped): without either of the last two the oracle REJECTS the model's
   own behaviour (the oracle_needs_ examples of OracleSound.v). Strict mode needs strict_hev in addition: every
   CREATE TABLE names a non-catalog table and passes check_catalog_rows. *)
From Mkdb Require Import Proofs.OracleIds Proofs.OracleSound.

Theorem C01_oracle_accepts_model : forall hevs,
  hist_shape hevs = true ->
  forallb hev_ok hevs = true ->
  forallb hev_stmt_shape hevs = true ->
  frontier_ok init_sys hevs = true ->
  reads_cover [] [] [] hevs = true ->
  spec_accepts (hevs, run_h init_sys hevs) = true.
Proof. exact model_passes_oracle. Qed.
Print Assumptions C01_oracle_accepts_model.

Theorem C01_strict_oracle_accepts_model : forall hevs,
  hist_shape hevs = true ->
  forallb hev_ok hevs = true ->
  forallb hev_stmt_shape hevs = true ->
  frontier_ok init_sys hevs = true ->
  reads_cover [] [] [] hevs = true ->
  forallb strict_hev hevs = true ->
  spec_accepts_strict (hevs, run_h init_sys hevs) = true.
Proof. exact model_passes_oracle_strict. Qed.
Print Assumptions C01_strict_oracle_accepts_model.

(* in strict mode: a statement the model refuses is one the specification refuses *)
Theorem C01_model_refusal_justified : forall s d st e,
  Rep s d -> stmt_ok st = true -> strict_stmt st = true ->
  nextFree (e_store (run_stmt s st)) <= OFFMAX -> e_out (run_stmt s st) = OErr e ->
  exists e', spec_exec d st = SpecErr e'.
Proof. exact model_refusal_justified. Qed.
Print Assumptions C01_model_refusal_justified.

(* agreement with the model (MM) implies acceptance by the oracle (SM) *)
Theorem C01_agreement_implies_acceptance : forall c,
  model_agrees c = true ->
  hist_shape (fst c) = true -> forallb hev_ok (fst c) = true -> forallb hev_stmt_shape (fst c) = true ->
  frontier_ok init_sys (fst c) = true -> reads_cover [] [] [] (fst c) = true ->
  spec_accepts c = true.
Proof. exact agreement_implies_acceptance. Qed.
Print Assumptions C01_agreement_implies_acceptance.

(* row ids along one acknowledged statement: an id a user table shows afterwards was an id of the
   same table before, or is above the row-id counter the statement started from *)
Theorem C01_ids_fresh_or_kept : forall s d st c,
  Rep s d -> stmt_ok st = true -> nextFree (e_store (run_stmt s st)) <= OFFMAX ->
  e_out (run_stmt s st) = OOk c ->
  lastKey s <= lastKey (e_store (run_stmt s st)) /\
  forall m i, is_sys m = false -> In i (ids (e_store (run_stmt s st)) m) -> In i (ids s m) \/ lastKey s < i.
Proof. exact run_stmt_idext. Qed.
Print Assumptions C01_ids_fresh_or_kept.

(* non-vacuity: read-backs before and after a leaf split with a root move (12 rows, 9-cell
   leaves: the dump shows 5 pages), an UPDATE, a flush, a DELETE, a failing INSERT (INT range), a
   second table; every hypothesis of both theorems holds and both oracles accept *)
Definition oracle_row (i : Z) : list value := [VInt i; VStr "r"].

Definition hevs_oracle_demo : list hevent :=
  [HEv (EvStmt (SCreateTable "t" [mkColDef "a" STNumeric; mkColDef "b" (STVarchar 20)]));
   HReadTables ["t"; "sys_schema"];
   HEv (EvStmt (SInsert "t" [] (map oracle_row [1;2;3;4;5;6;7;8;9;10;11;12]%Z)));
   HReadTables ["t"; "sys_schema"]; HDumpPages;
   HEv (EvStmt (SUpdate "t" [("b", XLit (VStr "u"))] (Some (EPred (XCol (mkCol "" "a")) CLt (XLit (VInt 4))))));
   HEv EvFlush;
   HEv (EvStmt (SDelete "t" (Some (EPred (XCol (mkCol "" "a")) CEq (XLit (VInt 2))))));
   HEv (EvStmt (SInsert "t" [] [[VInt 2147483648; VStr "x"]]));                          (* fails: INT range *)
   HEv (EvStmt (SCreateTable "u" [mkColDef "x" STBigInt]));
   HEv (EvStmt (SInsert "u" [] [[VInt 7]]));
   HReadTables ["t"; "u"; "sys_schema"]].

Example C01_oracle_demo_hyps :
  hist_shape hevs_oracle_demo = true /\ forallb hev_ok hevs_oracle_demo = true /\
  forallb hev_stmt_shape hevs_oracle_demo = true /\ frontier_ok init_sys hevs_oracle_demo = true /\
  reads_cover [] [] [] hevs_oracle_demo = true /\ forallb strict_hev hevs_oracle_demo = true /\
  map (fun o => match o with HOut x => Some x | _ => None end) (run_h init_sys hevs_oracle_demo) =
    [Some OBok; None; Some OBok; None; None; Some OBok; Some OBok; Some OBok; Some (OBerr EIntRange);
     Some OBok; Some OBok; None] /\
  map (fun o => match o with HDump _ ps => Some (List.length ps) | _ => None end) (run_h init_sys hevs_oracle_demo) =
    [None; None; None; None; Some 5%nat; None; None; None; None; None; None; None] /\
  (match nth 11 (run_h init_sys hevs_oracle_demo) HNone with
   | HTables (("t", TRows _ rows) :: ("u", TRows _ rows2) :: _) => (map fst rows, map fst rows2)
   | _ => ([], [])
   end) = ([12; 14; 15; 16; 17; 18; 19; 20; 21; 22; 23]%N, [26]%N) /\
  spec_accepts (hevs_oracle_demo, run_h init_sys hevs_oracle_demo) = true /\
  spec_accepts_strict (hevs_oracle_demo, run_h init_sys hevs_oracle_demo) = true.
Proof. vm_compute. repeat split; reflexivity. Qed.

(* ====================== the same with crash-restarts in the history ======================
   hist_shape_c = hist_shape + HEv EvCrash (crash and recovery at a statement boundary). Recovery
   never fails on such a history and gives back every table with the same rows and the same ids;
   ids handed out after it are above every id the oracle has seen (Proofs/OracleCrash.v,
   OracleKeys.v; C02's crash invariant through MovesFromRep.RInv). Same hypotheses. *)
From Mkdb Require Import Proofs.OracleKeys Proofs.OracleCrash.

Theorem C01_oracle_accepts_model_with_crashes : forall hevs,
  hist_shape_c hevs = true ->
  forallb hev_ok hevs = true ->
  forallb hev_stmt_shape hevs = true ->
  frontier_ok init_sys hevs = true ->
  reads_cover [] [] [] hevs = true ->
  spec_accepts (hevs, run_h init_sys hevs) = true.
Proof. exact model_passes_oracle_crash. Qed.
Print Assumptions C01_oracle_accepts_model_with_crashes.

Theorem C01_strict_oracle_accepts_model_with_crashes : forall hevs,
  hist_shape_c hevs = true ->
  forallb hev_ok hevs = true ->
  forallb hev_stmt_shape hevs = true ->
  frontier_ok init_sys hevs = true ->
  reads_cover [] [] [] hevs = true ->
  forallb strict_hev hevs = true ->
  spec_accepts_strict (hevs, run_h init_sys hevs) = true.
Proof. exact model_passes_oracle_crash_strict. Qed.
Print Assumptions C01_strict_oracle_accepts_model_with_crashes.

Theorem C01_agreement_implies_acceptance_with_crashes : forall c,
  model_agrees c = true ->
  hist_shape_c (fst c) = true -> forallb hev_ok (fst c) = true -> forallb hev_stmt_shape (fst c) = true ->
  frontier_ok init_sys (fst c) = true -> reads_cover [] [] [] (fst c) = true ->
  spec_accepts c = true.
Proof. exact agreement_implies_acceptance_crash. Qed.
Print Assumptions C01_agreement_implies_acceptance_with_crashes.

(* a row id that some leaf holds is held by some leaf after every statement *)
Theorem C01_keys_never_disappear : forall s st k,
  SInv s -> has_key (forest s) k -> has_key (forest (e_store (run_stmt s st))) k.
Proof. intros s st k H. exact (run_stmt_keys s st H k). Qed.
Print Assumptions C01_keys_never_disappear.

(* non-vacuity: a crash while the 12 rows and the root move of t are only in the log, a failing
   INSERT, a flush followed by a crash, an INSERT and an UPDATE lost from the cache by a third
   crash and redone from the log; read-backs in between *)
Definition hevs_oracle_crash : list hevent :=
  [HEv (EvStmt (SCreateTable "t" [mkColDef "a" STNumeric; mkColDef "b" (STVarchar 20)]));
   HEv (EvStmt (SInsert "t" [] (map oracle_row [1;2;3;4;5;6;7;8;9;10;11;12]%Z)));
   HReadTables ["t"; "sys_schema"];
   HEv EvCrash;
   HReadTables ["t"; "sys_schema"]; HDumpPages;
   HEv (EvStmt (SDelete "t" (Some (EPred (XCol (mkCol "" "a")) CEq (XLit (VInt 2))))));
   HEv (EvStmt (SInsert "t" [] [[VInt 2147483648; VStr "x"]]));                          (* fails: INT range *)
   HEv EvFlush; HEv EvCrash;
   HEv (EvStmt (SInsert "t" [] [[VInt 13; VStr "n"]]));
   HEv (EvStmt (SUpdate "t" [("b", XLit (VStr "u"))] (Some (EPred (XCol (mkCol "" "a")) CLt (XLit (VInt 4))))));
   HEv EvCrash;
   HReadTables ["t"; "sys_schema"]].

Example C01_oracle_crash_demo_hyps :
  hist_shape_c hevs_oracle_crash = true /\ hist_shape hevs_oracle_crash = false /\
  forallb hev_ok hevs_oracle_crash = true /\ forallb hev_stmt_shape hevs_oracle_crash = true /\
  frontier_ok init_sys hevs_oracle_crash = true /\ reads_cover [] [] [] hevs_oracle_crash = true /\
  forallb strict_hev hevs_oracle_crash = true /\
  map (fun o => match o with HOut x => Some x | _ => None end) (run_h init_sys hevs_oracle_crash) =
    [Some OBok; Some OBok; None; Some OBok; None; None; Some OBok; Some (OBerr EIntRange); Some OBok;
     Some OBok; Some OBok; Some OBok; Some OBok; None] /\
  (match nth 13 (run_h init_sys hevs_oracle_crash) HNone with
   | HTables ((_, TRows _ rows) :: _) => map fst rows | _ => [] end) =
    [12; 14; 15; 16; 17; 18; 19; 20; 21; 22; 23; 24]%N /\
  spec_accepts (hevs_oracle_crash, run_h init_sys hevs_oracle_crash) = true /\
  spec_accepts_strict (hevs_oracle_crash, run_h init_sys hevs_oracle_crash) = true.
Proof. vm_compute. repeat split; reflexivity. Qed.
