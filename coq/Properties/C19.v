(* C19 - CSV import stores every accepted record faithfully.
   Statements only; every proof is `exact <lemma from Proofs/CsvProofs.v>`.

   Vocabulary (Model/Csv.v, Spec/CsvSpec.v):
   * `import c sch evs tbl` = (events sent on chOk/chErr in order, table afterwards) for
     doBatchInsert with configuration c = (colTypes, dstCols, srcCols) over the reader results
     evs (record | *csv.ParseError | other error; encoding/csv is an oracle), the destination
     table having schema sch and holding the rows tbl (scan order) before.
   * `until_stop evs`: the reader results the loop looks at (it stops after the first error that
     is not a *csv.ParseError).
   * `accepted c sch rec`: the record is long enough for every source index, every mapped field
     is \N or convertible for its destination type (INT: strconv.Atoi; BIGINT: ParseInt(.,10,64);
     BOOLEAN: lower-case in {1,true,t,0,false,f}; VARCHAR: any), the value count matches the
     column count, every value fits its column (INT within 32 bits), and the encoded row is at
     most 400 bytes.
   * `convert c sch rec`: one value per table column in schema order - the converted field of
     the LAST destination column with that name (\N -> NULL), NULL for unmapped columns.
   * `no_panic c`: len(srcCols) <= len(colTypes) (true for every configuration makeConfig builds
     with as many -dest-cols as -src-cols; otherwise cfg.colTypes[i] panics). *)
From Coq Require Import List ZArith String Bool.
From Mkdb Require Import Model.Value Model.Csv Spec.CsvSpec Proofs.CsvProofs.
Import ListNotations.
Open Scope Z_scope.

(* the table afterwards is the table before followed by the converted accepted records, each
   exactly once, in input order - and nothing else; there is one event per reader result looked
   at, `ok` exactly for the accepted records; the import goroutine does not panic *)
Theorem C19_exact : forall c sch, no_panic c = true -> forall evs tbl,
  snd (import c sch evs tbl) = tbl ++ map (convert c sch) (accepted_records c sch (until_stop evs)) /\
  map is_ok (fst (import c sch evs tbl)) = map (event_accepted c sch) (until_stop evs) /\
  ~ In EvPanic (fst (import c sch evs tbl)).
Proof. exact import_exact. Qed.
Print Assumptions C19_exact.

(* for EVERY column mapping the command line accepts (makeConfig): no hypothesis left. Until /repo
   validated the mapping, a negative source index or more source than destination columns made
   csvToSql index out of range in the import goroutine and the process died at the first record;
   `no_panic` above was the hypothesis that excluded it. *)
Theorem C19_exact_for_every_accepted_mapping : forall sch dst src c,
  make_config sch dst src = Some c -> forall evs tbl,
  snd (import c sch evs tbl) = tbl ++ map (convert c sch) (accepted_records c sch (until_stop evs)) /\
  map is_ok (fst (import c sch evs tbl)) = map (event_accepted c sch) (until_stop evs) /\
  ~ In EvPanic (fst (import c sch evs tbl)).
Proof. exact import_exact_configured. Qed.
Print Assumptions C19_exact_for_every_accepted_mapping.

Theorem C19_accepted_mapping_cannot_panic : forall sch dst src c,
  make_config sch dst src = Some c -> no_panic c = true.
Proof. exact make_config_no_panic. Qed.
Print Assumptions C19_accepted_mapping_cannot_panic.

(* a bad record (malformed, short, unconvertible, refused by the storage layer) never prevents,
   alters or duplicates the others: removing it from the stream gives the same table *)
Theorem C19_rejected_leaves_no_trace : forall c sch evs1 bad evs2 tbl,
  no_panic c = true -> event_accepted c sch bad = false -> bad <> ROtherErr ->
  snd (import c sch (evs1 ++ bad :: evs2) tbl) = snd (import c sch (evs1 ++ evs2) tbl).
Proof. exact rejected_invisible. Qed.
Print Assumptions C19_rejected_leaves_no_trace.

(* one event per reader result; as many rows appended as `ok` events *)
Theorem C19_counts : forall c sch evs tbl, no_panic c = true ->
  List.length (fst (import c sch evs tbl)) = List.length (until_stop evs) /\
  (List.length (filter is_ok (fst (import c sch evs tbl))) + List.length tbl =
   List.length (snd (import c sch evs tbl)))%nat.
Proof. exact import_counts. Qed.
Print Assumptions C19_counts.

(* per record: stored iff accepted, and then as `convert` says *)
Theorem C19_record : forall c sch rec, no_panic c = true ->
  match record_step c sch rec with
  | RoStored r => accepted c sch rec = true /\ r = convert c sch rec
  | RoRejected _ => accepted c sch rec = false
  | RoPanic => False
  end.
Proof. exact record_spec. Qed.
Print Assumptions C19_record.

(* ---- non-vacuity: a mixed stream into (a int, b bigint, c varchar, d boolean) with the
   mapping dst = [c; a; d; b], src = [4; 1; 2; 3] (field 0 is not imported). A destination list
   naming a column twice, or a column the table does not have, is refused record by record
   (ErrColumns, relation.go checkColumnList): C19_bad_destination_refused ---- *)
Definition ex_sch : schema :=
  [mkField TInt "a" 0; mkField TBigInt "b" 0; mkField TVarchar "c" 255; mkField TBoolean "d" 0].
Definition ex_dst : list string := ["c"; "a"; "d"; "b"]%string.
Definition ex_cfg : cfg :=
  match col_data_types ex_sch ex_dst with
  | Some ts => mkCfg ts ex_dst [4; 1; 2; 3]%nat
  | None => mkCfg [] [] []
  end.
Definition bs : string := String "\"%char "N".     (* \N *)
Definition ex_evs : list rd_event :=
  [ RRecord ["x"; "1"; "TRUE"; "5000000000"; "y"]%string;       (* stored: c = "y" *)
    RRecord ["x"; "2147483648"; "t"; "1"; "y"]%string;          (* INT out of 32-bit range *)
    RParseErr;                                                   (* bare quote *)
    RRecord ["x"; "2"; "f"]%string;                              (* short *)
    RRecord [bs; bs; bs; bs; bs];                                (* stored: all NULL *)
    RRecord ["x"; "3"; "maybe"; "1"; "y"]%string;               (* bad boolean *)
    RRecord ["x"; "-7"; "0"; "9223372036854775808"; "y"]%string; (* BIGINT overflow *)
    RRecord ["x"; "+4"; "F"; "-9223372036854775808"; ""]%string; (* stored *)
    ROtherErr;                                                   (* read error: stop *)
    RRecord ["x"; "9"; "1"; "9"; "never"]%string ].

Example C19_nonvacuous :
  no_panic ex_cfg = true /\
  import ex_cfg ex_sch ex_evs [[VInt 0; VNull; VNull; VNull]] =
  ( [EvOk; EvErr ErrIntRange; EvErr ErrMalformed; EvErr ErrMalformed; EvOk; EvErr ErrMalformed;
     EvErr ErrMalformed; EvOk; EvErr ErrMalformed],
    [ [VInt 0; VNull; VNull; VNull];
      [VInt 1; VInt 5000000000; VStr "y"; VBool true];
      [VNull; VNull; VNull; VNull];
      [VInt 4; VInt (-9223372036854775808); VStr ""; VBool false] ] ).
Proof. vm_compute. split; reflexivity. Qed.

(* until /repo 7956a4c a destination column named twice silently kept the later source only, and an
   unknown destination column silently dropped its source *)
Example C19_bad_destination_refused :
  let evs := [RRecord ["1"; "2"]%string] in
  import (mkCfg [TInt; TInt] ["a"; "a"]%string [0; 1]%nat) ex_sch evs [] = ([EvErr ErrColumns], []) /\
  import (mkCfg [TInt; TInt] ["a"; "zz"]%string [0; 1]%nat) ex_sch evs [] = ([EvErr ErrColumns], []).
Proof. vm_compute. split; reflexivity. Qed.

(* a row of exactly 400 encoded bytes is accepted, 401 is not *)
Example C19_size_limit :
  let sch := [mkField TVarchar "c" 255] in
  let c := mkCfg [TVarchar] ["c"%string] [0%nat] in
  let s395 := String.concat "" (repeat "vwxyz"%string 79) in
  accepted c sch [s395] = true /\ accepted c sch [String "v" s395] = false.
Proof. vm_compute. split; reflexivity. Qed.
