(* C19 - CSV import stores every accepted record faithfully.
   Statements only; every proof is `exact <lemma from Proofs/CsvProofs.v>`.

   Vocabulary (Model/Csv.v, Spec/CsvSpec.v):
   * `import c sch evs tbl` = (events sent on chOk/chErr in order, table afterwards) for
     doBatchInsert with configuration c = (colTypes, dstCols, srcCols) over the reader results
     evs (record | *csv.ParseError | other error; encoding/csv is an oracle), the destination
     table having schema sch and holding the rows tbl (scan order) before.
   * `until_stop evs`: the reader results the loop looks at (it stops after the first error that
     is not a *csv.ParseError).
   * `accepted c sch rec`: the record is long enough for every source index, every mapped field
     is \N or convertible for its destination type (INT: strconv.Atoi; BIGINT: ParseInt(.,10,64);
     BOOLEAN: lower-case in {1,true,t,0,false,f}; VARCHAR: any), the value count matches the
     column count, every value fits its column (INT within 32 bits), and the encoded row is at
     most 400 bytes.
   * `convert c sch rec`: one value per table column in schema order - the converted field of
     the LAST destination column with that name (\N -> NULL), NULL for unmapped columns.
   * `no_panic c`: len(srcCols) <= len(colTypes) (true for every configuration makeConfig builds
     with as many -dest-cols as -src-cols; otherwise cfg.colTypes[i] panics). *)
From Coq Require Import List ZArith String Bool.
From Mkdb Require Import Model.Value Model.Csv Spec.CsvSpec Proofs.CsvProofs.
Import ListNotations.
Open Scope Z_scope.

(* the table afterwards is the table before followed by the converted accepted records, each
   exactly once, in input order - and nothing else; there is one event per reader result looked
   at, `ok` exactly for the accepted records; the import goroutine does not panic *)
Theorem C19_exact : forall c sch, no_panic c = true -> forall evs tbl,
  snd (import c sch evs tbl) = tbl ++ map (convert c sch) (accepted_records c sch (until_stop evs)) /\
  map is_ok (fst (import c sch evs tbl)) = map (event_accepted c sch) (until_stop evs) /\
  ~ In EvPanic (fst (import c sch evs tbl)).
Proof. exact import_exact. Qed.
Print Assumptions C19_exact.

(* for EVERY column mapping the command line accepts (makeConfig): no hypothesis left. Until /repo
   validated the mapping, a negative source index or more source than destination columns made
   csvToSql index out of range in the import goroutine and the process died at the first record;
   `no_panic` above was the hypothesis that excluded it. *)
Theorem C19_exact_for_every_accepted_mapping : forall sch dst src c,
  make_config sch dst src = Some c -> forall evs tbl,
  snd (import c sch evs tbl) = tbl ++ map (convert c sch) (accepted_records c sch (until_stop evs)) /\
  map is_ok (fst (import c sch evs tbl)) = map (event_accepted c sch) (until_stop evs) /\
  ~ In EvPanic (fst (import c sch evs tbl)).
Proof. exact import_exact_configured. Qed.
Print Assumptions C19_exact_for_every_accepted_mapping.

Theorem C19_accepted_mapping_cannot_panic : forall sch dst src c,
  make_config sch dst src = Some c -> no_panic c = true.
Proof. exact make_config_no_panic. Qed.
Print Assumptions C19_accepted_mapping_cannot_panic.

(* a bad record (malformed, short, unconvertible, refused by the storage layer) never prevents,
   alters or duplicates the others: removing it from the stream gives the same table *)
Theorem C19_rejected_leaves_no_trace : forall c sch evs1 bad evs2 tbl,
  no_panic c = true -> event_accepted c sch bad = false -> bad <> ROtherErr ->
  snd (import c sch (evs1 ++ bad :: evs2) tbl) = snd (import c sch (evs1 ++ evs2) tbl).
Proof. exact rejected_invisible. Qed.
Print Assumptions C19_rejected_leaves_no_trace.

(* one event per reader result; as many rows appended as `ok` events *)
Theorem C19_counts : forall c sch evs tbl, no_panic c = true ->
  List.length (fst (import c sch evs tbl)) = List.length (until_stop evs) /\
  (List.length (filter is_ok (fst (import c sch evs tbl))) + List.length tbl =
   List.length (snd (import c sch evs tbl)))%nat.
Proof. exact import_counts. Qed.
Print Assumptions C19_counts.

(* per record: stored iff accepted, and then as `convert` says *)
Theorem C19_record : forall c sch rec, no_panic c = true ->
  match record_step c sch rec with
  | RoStored r => accepted c sch rec = true /\ r = convert c sch rec
  | RoRejected _ => accepted c sch rec = false
  | RoPanic => False
  end.
Proof. exact record_spec. Qed.
Print Assumptions C19_record.

(* ---- non-vacuity: a mixed stream into (a int, b bigint, c varchar, d boolean) with the
   mapping dst = [c; a; d; b], src = [4; 1; 2; 3] (field 0 is not imported). A destination list
   naming a column twice, or a column the table does not have, is refused record by record
   (ErrColumns, relation.go checkColumnList): C19_bad_destination_refused ---- *)
Definition ex_sch : schema :=
  [mkField TInt "a" 0; mkField TBigInt "b" 0; mkField TVarchar "c" 255; mkField TBoolean "d" 0].
Definition ex_dst : list string := ["c"; "a"; "d"; "b"]%string.
Definition ex_cfg : cfg :=
  match col_data_types ex_sch ex_dst with
  | Some ts => mkCfg ts ex_dst [4; 1; 2; 3]%nat
  | None => mkCfg [] [] []
  end.
Definition bs : string := String "\"%char "N".     (* \N *)
Definition ex_evs : list rd_event :=
  [ RRecord ["x"; "1"; "TRUE"; "5000000000"; "y"]%string;       (* stored: c = "y" *)
    RRecord ["x"; "2147483648"; "t"; "1"; "y"]%string;          (* INT out of 32-bit range *)
    RParseErr;                                                   (* bare quote *)
    RRecord ["x"; "2"; "f"]%string;                              (* short *)
    RRecord [bs; bs; bs; bs; bs];                                (* stored: all NULL *)
    RRecord ["x"; "3"; "maybe"; "1"; "y"]%string;               (* bad boolean *)
    RRecord ["x"; "-7"; "0"; "9223372036854775808"; "y"]%string; (* BIGINT overflow *)
    RRecord ["x"; "+4"; "F"; "-9223372036854775808"; ""]%string; (* stored *)
    ROtherErr;                                                   (* read error: stop *)
    RRecord ["x"; "9"; "1"; "9"; "never"]%string ].

Example C19_nonvacuous :
  no_panic ex_cfg = true /\
  import ex_cfg ex_sch ex_evs [[VInt 0; VNull; VNull; VNull]] =
  ( [EvOk; EvErr ErrIntRange; EvErr ErrMalformed; EvErr ErrMalformed; EvOk; EvErr ErrMalformed;
     EvErr ErrMalformed; EvOk; EvErr ErrMalformed],
    [ [VInt 0; VNull; VNull; VNull];
      [VInt 1; VInt 5000000000; VStr "y"; VBool true];
      [VNull; VNull; VNull; VNull];
      [VInt 4; VInt (-9223372036854775808); VStr ""; VBool false] ] ).
Proof. vm_compute. split; reflexivity. Qed.

(* until /repo 7956a4c a destination column named twice silently kept the later source only, and an
   unknown destination column silently dropped its source *)
Example C19_bad_destination_refused :
  let evs := [RRecord ["1"; "2"]%string] in
  import (mkCfg [TInt; TInt] ["a"; "a"]%string [0; 1]%nat) ex_sch evs [] = ([EvErr ErrColumns], []) /\
  import (mkCfg [TInt; TInt] ["a"; "zz"]%string [0; 1]%nat) ex_sch evs [] = ([EvErr ErrColumns], []).
Proof. vm_compute. split; reflexivity. Qed.

(* a row of exactly 400 encoded bytes is accepted, 401 is not *)
Example C19_size_limit :
  let sch := [mkField TVarchar "c" 255] in
  let c := mkCfg [TVarchar] ["c"%string] [0%nat] in
  let s395 := String.concat "" (repeat "vwxyz"%string 79) in
  accepted c sch [s395] = true /\ accepted c sch [String "v" s395] = false.
Proof. vm_compute. split; reflexivity. Qed.

(* ====================== the oracle and the theorems (Proofs/CsvOracle.v) ======================
   The correspondence check evaluates on every case (a schema and a list of imports with what Go
   did) `model_agrees` (MM: the model predicts Go's column types, strconv results, channel events
   and table) and `spec_accepts` (SM: the table after each import is the table before followed by
   the converted accepted records, ok exactly for the accepted records - C19_exact read on Go's
   observations, for the configuration with the TABLE'S OWN column types when the destination
   columns resolve in the schema and the types Go reported otherwise (`judged_types`); an import
   whose configuration has no_panic = false is skipped, as C19_exact says nothing about it). *)
From Mkdb Require Import Proofs.CsvOracle.

(* the oracle accepts the model's own behaviour: for every schema, table before and list of
   import requests (destination columns, source indexes, explicit column types, reader results),
   the case whose observations are what `import` computes is accepted - no hypothesis, requests
   whose configuration panics included *)
Theorem C19_oracle_accepts_model : forall sch qs tbl,
  spec_imports sch tbl (model_icases sch tbl qs) = true.
Proof. exact oracle_accepts_model. Qed.
Print Assumptions C19_oracle_accepts_model.

(* agreement with the model (MM) implies acceptance by the oracle (SM): every schema, every list
   of imports, every reader event list; no hypothesis on the case is needed *)
Theorem C19_agreement_implies_acceptance : forall c,
  model_agrees c = true -> spec_accepts c = true.
Proof. exact agreement_implies_acceptance. Qed.
Print Assumptions C19_agreement_implies_acceptance.

(* the makeConfig route: if Go accepted the mapping exactly when make_config does, then an
   accepted mapping has no negative source index and no more source than destination columns *)
Theorem C19_config_agreement_implies_safe : forall c,
  config_agrees c = true -> config_safe c = true.
Proof. exact config_agreement_implies_safe. Qed.
Print Assumptions C19_config_agreement_implies_safe.

(* the other direction on that route: what the oracle calls safe, with destination columns the
   table has, is a mapping make_config accepts (config_safe is not laxer than make_config) *)
Theorem C19_safe_mapping_accepted : forall sch dst src,
  forallb (fun z => (0 <=? z)%Z) src = true -> (List.length src <=? List.length dst)%nat = true ->
  col_data_types sch dst <> None -> make_config sch dst src <> None.
Proof. exact config_safe_accepted. Qed.
Print Assumptions C19_safe_mapping_accepted.

(* non-vacuity: two imports into the same table (the second starts from the first's table): the
   mixed stream above, then a one-column mapping (a record with an extra field is accepted, a non-number is not); the model
   agrees with the case, the oracle accepts it, and the table ends with 5 rows. *)
Definition ex_reqs : list ireq :=
  [ (ex_dst, [4; 1; 2; 3]%nat, [], ex_evs);
    (["a"]%string, [0]%nat, [], [RRecord ["7"]%string; RParseErr; RRecord ["seven"]%string; RRecord ["-8"; "extra"]%string]) ].
Definition ex_case : ccase := mkCase ex_sch (model_icases ex_sch [] ex_reqs).

Example C19_oracle_demo :
  model_agrees ex_case = true /\ spec_accepts ex_case = true /\
  map (fun i => (i_events i, List.length (i_table i))) (c_imports ex_case) =
    [ ([GOk; GErr ErrIntRange; GErr ErrMalformed; GErr ErrMalformed; GOk; GErr ErrMalformed;
        GErr ErrMalformed; GOk; GErr ErrMalformed], 3%nat);
      ([GOk; GErr ErrMalformed; GErr ErrMalformed; GOk], 5%nat) ] /\
  config_agrees (ex_sch, ex_dst, [4; 1; 2; 3], true) = true /\
  config_safe (ex_sch, ex_dst, [4; 1; 2; 3], true) = true.
Proof. vm_compute. repeat split; reflexivity. Qed.

(* the oracle is not trivially true: the same case with the last stored row missing from the
   table Go showed, or with an `ok` reported for the rejected record, is rejected by both; and a
   mapping with more source than destination columns that Go accepted is rejected by both *)
Definition tamper_last (f : icase -> icase) (c : ccase) : ccase :=
  mkCase (c_schema c) (removelast (c_imports c) ++ map f (skipn (List.length (c_imports c) - 1) (c_imports c))).
Example C19_oracle_rejects :
  let drop_row i := mkImport (i_dst i) (i_src i) (i_explicit i) (i_reader i) (i_catalog i) (i_coltypes i)
                             (i_events i) (removelast (i_table i)) (i_atoi i) in
  let all_ok i := mkImport (i_dst i) (i_src i) (i_explicit i) (i_reader i) (i_catalog i) (i_coltypes i)
                           (map (fun _ => GOk) (i_events i)) (i_table i) (i_atoi i) in
  spec_accepts (tamper_last drop_row ex_case) = false /\ model_agrees (tamper_last drop_row ex_case) = false /\
  spec_accepts (tamper_last all_ok ex_case) = false /\ model_agrees (tamper_last all_ok ex_case) = false /\
  config_safe (ex_sch, ["a"]%string, [0; 1], true) = false /\
  config_agrees (ex_sch, ["a"]%string, [0; 1], true) = false.
Proof. vm_compute. repeat split; reflexivity. Qed.

(* the oracle does not trust the column types Go reports when the table has the destination
   columns: had colDataTypes answered VARCHAR for the BOOLEAN column d, "true" would become a
   string and be refused by the storage layer; judged with the table's types the record is an
   accepted one, and the oracle REJECTS the refusal (until the oracle used `judged_types` it
   computed `accepted` with the reported types and expected exactly that refusal). The same
   import done right - with either type report - is accepted. *)
Example C19_oracle_judges_with_table_coltypes :
  let bad := mkCase ex_sch [mkImport ["d"]%string [0]%nat [] [RRecord ["true"]%string] true
                                     [TVarchar] [GErr ErrType] [] []] in
  let good tys := mkCase ex_sch [mkImport ["d"]%string [0]%nat [] [RRecord ["true"]%string] true
                                          tys [GOk] [[VNull; VNull; VNull; VBool true]] []] in
  spec_accepts bad = false /\ model_agrees bad = false /\
  spec_accepts (good [TBoolean]) = true /\ model_agrees (good [TBoolean]) = true /\
  spec_accepts (good [TVarchar]) = true /\ model_agrees (good [TVarchar]) = false.
Proof. vm_compute. repeat split; reflexivity. Qed.

(* what is left of the reported types: when the destination columns do NOT resolve in the schema
   (the only case in which the oracle reads i_coltypes) no record is an accepted one, whatever the
   types - one destination column is not a column of the table (ErrColumns) - so the reported
   types reach the verdict only through their number (no_panic) *)
Theorem C19_unresolved_destination_never_accepted : forall sch dst,
  col_data_types sch dst = None -> forall tys src rec, accepted (mkCfg tys dst src) sch rec = false.
Proof. exact unresolved_never_accepted. Qed.
Print Assumptions C19_unresolved_destination_never_accepted.

(* the explicit-types route in a case: destination "zz" is not a column; every record is refused,
   the table is unchanged; both checks accept, and both reject an `ok` *)
Example C19_oracle_explicit_route :
  let c evs tbl := mkCase ex_sch [mkImport ["d"; "zz"]%string [0; 1]%nat [TBoolean; TInt]
                                           [RRecord ["true"; "1"]%string; RRecord ["x"; "y"]%string] false
                                           [TBoolean; TInt] evs tbl []] in
  spec_accepts (c [GErr ErrColumns; GErr ErrMalformed] []) = true /\
  model_agrees (c [GErr ErrColumns; GErr ErrMalformed] []) = true /\
  spec_accepts (c [GOk; GErr ErrMalformed] [[VNull; VNull; VNull; VBool true]]) = false /\
  model_agrees (c [GOk; GErr ErrMalformed] [[VNull; VNull; VNull; VBool true]]) = false.
Proof. vm_compute. repeat split; reflexivity. Qed.
