(* C10 - placeholder while the proofs are being written *)
From Coq Require Import List ZArith String.
From Mkdb Require Import Model.Lexer Model.Parser Spec.ParseSpec.
