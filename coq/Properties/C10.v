(* C10 - Parsing is faithful: the text of a statement yields that statement.
   Statements only; proofs are `exact <lemma of Proofs/ParserFaithful*.v / LexerFacts.v>`.

   Level of the theorems: token lists as the parser sees them (kind, and the text of IDENT / INT /
   STR tokens). `render o s` (Spec/ParseSpec.v) writes the tree s as tokens; `o : ropts` holds the
   optional spellings, chosen PER OCCURRENCE: INNER written or not for each inner join, AS written
   or not for each alias, ASC written or not for each ascending key, commas or blanks between GROUP
   BY columns (per separator), LIMIT/OFFSET in either order, `()` for an empty INSERT column list,
   SHOW DATABASE / SHOW <any spelling of "databases">, a trailing semicolon, and the spelling of
   every numeral (any text strconv.Atoi reads back: "7", "007", ...). Keyword case, white space,
   line breaks, tabs and quoting of identifiers are below this level: C10_keyword_case covers the
   wrapper, and the correspondence run (tools/props/c10.py) renders to TEXT and goes through the
   real scanner, checking in Coq that the text lexes to exactly `render o s`.

   `wf_stmt o s` is the grammar: no NULL literal, numerals that read back (hence within int64),
   LIMIT/OFFSET >= 0 when present and 0 when absent, the asterisk only as the whole select list,
   a non-empty select list, AND chains of comparisons nested to the right whose last element may be
   a bare value, OR of AND chains nested to the right, left-deep joins with a table name on the
   right and no FULL join, nothing after the select list when there is no FROM, and the GROUP BY
   consistency that validateGroupByFields enforces. Names are arbitrary IDENT texts (also "" and
   keywords, which the text level writes as delimited identifiers). *)
From Coq Require Import List ZArith String Bool.
From Mkdb Require Import Model.Lexer Model.Parser Spec.ParseSpec Spec.ParseObs
  Proofs.ParserFaithful Proofs.ParserFaithful2 Proofs.LexerFacts Proofs.ParseObsFacts.
Import ListNotations.

(* every spelling of every statement of the grammar parses to that statement *)
Theorem C10_roundtrip : forall o s toks,
  wf_stmt o s = true -> renders o s toks -> parse toks = POk s.
Proof. exact roundtrip_renders. Qed.
Print Assumptions C10_roundtrip.

(* the same from the numbered tokens of the Go TokenList *)
Theorem C10_roundtrip_tokens : forall o s toks,
  wf_stmt o s = true -> renders o s (map classify toks) -> parse_tokens toks = POk s.
Proof. exact roundtrip_tokens. Qed.
Print Assumptions C10_roundtrip_tokens.

(* No clause written in standard form is silently cut short: for a statement in standard form
   (wf_stmt_syn = wf_stmt without the GROUP BY consistency) the parser returns exactly that
   statement - every element of the select list, VALUES rows and values, SET assignments,
   GROUP BY, ORDER BY, column definitions, insert column list - or an error (the GROUP BY
   validation error); never another statement. *)
Theorem C10_lists_complete : forall o s,
  wf_stmt_syn o s = true ->
  parse (render o s) = POk s \/ exists e, parse (render o s) = PErr e.
Proof. exact lists_complete. Qed.
Print Assumptions C10_lists_complete.

Theorem C10_no_silent_change : forall o s s',
  wf_stmt_syn o s = true -> parse (render o s) = POk s' -> s' = s.
Proof. exact no_silent_change. Qed.
Print Assumptions C10_no_silent_change.

(* the token wrapper does not depend on the letter case of keyword texts: changing the ASCII case
   of any raw token whose upper-cased text is a keyword leaves the classified token list - hence
   the parse - unchanged *)
Theorem C10_keyword_case : forall raws raws',
  Forall2 kwcase_variant raws raws' -> map classify (wrap raws) = map classify (wrap raws').
Proof. exact keyword_case. Qed.
Print Assumptions C10_keyword_case.

Corollary C10_keyword_case_parse : forall raws raws',
  Forall2 kwcase_variant raws raws' -> parse_pipeline raws = parse_pipeline raws'.
Proof. exact keyword_case_parse. Qed.
Print Assumptions C10_keyword_case_parse.

(* a word in any letter case of a keyword string of the generated table becomes that keyword *)
Theorem C10_keyword_any_case : forall code kw t peek,
  In (code, kw) keyword_entries -> supper t = kw ->
  fst (wrap_one (mkRaw RIdent t peek)) = mkTok code t.
Proof. exact keyword_any_case. Qed.
Print Assumptions C10_keyword_any_case.

(* facts about the CURRENT generated table, by computation *)
Theorem C10_keywords_upper_case_and_distinct :
  forallb (fun p => no_lower_ascii (snd p) && String.eqb (kw_upper (snd p)) (snd p)) keyword_entries = true /\
  distinct_strings (map snd keyword_entries) = true.
Proof. exact (conj keywords_upper_case keywords_distinct). Qed.
Print Assumptions C10_keywords_upper_case_and_distinct.

(* AND groups tighter than OR: `p1 AND p2 OR p3` is (p1 AND p2) OR p3, and `p1 OR p2 AND p3` is
   p1 OR (p2 AND p3), for all comparisons p1 p2 p3 *)
Theorem C10_and_binds_tighter : forall o p1 p2 p3 fuel rest,
  wf_cmp o p1 = true -> wf_cmp o p2 = true -> wf_cmp o p3 = true -> ext_or (hdk rest) = false ->
  length (r_cmp o p1 ++ K KAnd :: r_cmp o p2 ++ K KOr :: r_cmp o p3 ++ rest) < fuel ->
  or_cond fuel (r_cmp o p1 ++ K KAnd :: r_cmp o p2 ++ K KOr :: r_cmp o p3 ++ rest)
    = POk (EOr (EAnd p1 (pred_of p2)) (pred_of p3), rest) /\
  or_cond fuel (r_cmp o p1 ++ K KOr :: r_cmp o p2 ++ K KAnd :: r_cmp o p3 ++ rest)
    = POk (EOr (pred_of p1) (EAnd p2 (pred_of p3)), rest).
Proof. exact and_binds_tighter. Qed.
Print Assumptions C10_and_binds_tighter.

(* the comparison used by the correspondence runs is Leibniz equality of trees *)
Theorem C10_stmt_eqb_is_equality : forall a b, stmt_eqb a b = true <-> a = b.
Proof. exact stmt_eqb_spec. Qed.
Print Assumptions C10_stmt_eqb_is_equality.

(* ---- non-vacuity ---- *)
Local Open Scope string_scope.
Local Open Scope Z_scope.

Definition ex_opts : ropts :=
  mkOpts (num_of [(5, "005"); (10, "10"); (1, "1")]) [false; true] [true; false] [true] [false] true false None true.

(* SELECT u.name, count( * ) AS n FROM users u INNER JOIN orders o ON u.id = o.uid AND o.total > 10 OR o.x = 1
   LEFT JOIN t ON a = b WHERE u.id != 5 GROUP BY u.name ORDER BY n ASC, u.name DESC OFFSET 5 LIMIT 10 ; *)
Definition ex_stmt : stmt :=
  SSelect (mkSelect
    [mkDC (SPExpr (EVal (XCol (mkCol "u" "name")))) ""; mkDC (SPCount None) "n"]
    [TRJoin (TRJoin (TRName "users" (Some "u")) JInner (TRName "orders" (Some "o"))
               (EOr (EAnd (XCol (mkCol "u" "id"), CEq, XCol (mkCol "o" "uid"))
                          (EPred (XCol (mkCol "o" "total")) CGt (XLit (VInt 10))))
                    (EPred (XCol (mkCol "o" "x")) CEq (XLit (VInt 1)))))
            JLeft (TRName "t" None) (EPred (XCol (mkCol "" "a")) CEq (XCol (mkCol "" "b")))]
    (Some (EPred (XCol (mkCol "u" "id")) CNeq (XLit (VInt 5))))
    [mkCol "u" "name"]
    [mkSort (mkCol "" "n") SAsc; mkSort (mkCol "u" "name") SDesc]
    true true 10 5).

Example C10_ex_wf : wf_stmt ex_opts ex_stmt = true.
Proof. vm_compute. reflexivity. Qed.

Example C10_ex_tokens : length (render ex_opts ex_stmt) = 70%nat.
Proof. vm_compute. reflexivity. Qed.

Example C10_ex_roundtrip : parse (render ex_opts ex_stmt) = POk ex_stmt.
Proof. vm_compute. reflexivity. Qed.

(* a statement in standard form that the GROUP BY validation rejects: an error, not a cut list *)
Example C10_ex_rejected :
  let s := SSelect (mkSelect [mkDC (SPCount None) ""; mkDC (SPExpr (EVal (XCol (mkCol "" "a")))) ""]
                             [TRName "t" None] None [mkCol "" "b"] [] false false 0 0) in
  wf_stmt_syn ex_opts s = true /\ parse (render ex_opts s) = PErr EInvalidGroupBy.
Proof. vm_compute. split; reflexivity. Qed.

Example C10_ex_group_by_commas :
  let s := SSelect (mkSelect [mkDC (SPExpr (EVal (XCol (mkCol "" "a")))) ""; mkDC (SPExpr (EVal (XCol (mkCol "" "b")))) ""]
                             [TRName "t" None] None [mkCol "" "a"; mkCol "" "b"] [] false false 0 0) in
  wf_stmt (mkOpts (num_of []) [] [] [] [true] false false None true) s = true /\
  render (mkOpts (num_of []) [] [] [] [true] false false None true) s = [K KSelect; r_ident "a"; K KComma; r_ident "b"; K KFrom; r_ident "t"; K KGroup; K KBy;
                      r_ident "a"; K KComma; r_ident "b"; K KOther] /\
  parse (render (mkOpts (num_of []) [] [] [] [true] false false None true) s) = POk s.
Proof. vm_compute. repeat split; reflexivity. Qed.

(* ---- the converse direction, for the facts other properties rely on (C18's `parser_shape`): EVERY
        SELECT the parser returns, from ANY token list with ANY fuel, has a select list that is
        exactly [*] or is non-empty without any asterisk, and LIMIT / OFFSET >= 0 (0 when absent).
        The grammar has no subqueries: SSelect is built only by the top-level SELECT branch.
        Proofs/ParserShape.v. ---- *)
From Mkdb Require Import Model.Select Spec.SelectSpec Proofs.ParserShape.

Theorem C10_select_shape : forall fuel toks q,
  parse_f fuel toks = POk (SSelect q) ->
  (sel_list q = [mkDC SPStar ""] \/ (sel_list q <> [] /\ forallb nostar_dc (sel_list q) = true)) /\
  0 <= sel_limit q /\ 0 <= sel_offset q.
Proof. exact parse_f_select_facts. Qed.
Print Assumptions C10_select_shape.

Theorem C10_select_shape_tokens : forall toks q,
  parse_tokens toks = POk (SSelect q) -> parser_shape q = true.
Proof. exact parse_select_shape. Qed.
Print Assumptions C10_select_shape_tokens.

Theorem C10_select_shape_pipeline : forall raws q,
  parse_pipeline raws = POk (SSelect q) -> parser_shape q = true.
Proof. exact pipeline_select_shape. Qed.
Print Assumptions C10_select_shape_pipeline.

(* an asterisk anywhere else is refused, and so is a negative LIMIT / OFFSET in a hand-made TokenList *)
Example C10_ex_star_mixed_rejected :
  parse [K KSelect; r_ident "a"; K KComma; K KAstrsk; K KFrom; r_ident "t"] = PErr EUnexpected /\
  parse [K KSelect; K KAstrsk; K KComma; r_ident "a"; K KFrom; r_ident "t"] = PErr EUnexpected /\
  parse [K KSelect; K KAstrsk; K KFrom; r_ident "t"; K KLimit; (KInt, "-1")] = PErr ENegLimit.
Proof. vm_compute. repeat split; reflexivity. Qed.

(* ---- oracle soundness (Proofs/ParseOracle.v): the SM oracle of the correspondence run
        (tools/props/c10.py: c10_spec, "Go parsed the text to exactly the generated tree" - stmt_eqb,
        which is Leibniz equality of the WHOLE tree by C10_stmt_eqb_is_equality) accepts the model's
        own behaviour on every case inside the scope of C10_roundtrip; hence on such a case, if the
        model agrees with Go (MM) then the oracle accepts what Go did (SM). The hypothesis is the
        check's own SCOPE function `c10_in_scope`: wf_stmt o s, and the text the generator wrote lexes
        (Go scanner, then the modelled wrapper) to exactly `render o s`. It is needed: outside it the
        generated tree and the written text are unrelated (C10_scope_needed). ---- *)
From Mkdb Require Import Proofs.ParseOracle.

Theorem C10_agreement_implies_acceptance : forall c,
  c10_in_scope c = true -> c10_model c = true -> c10_spec c = true.
Proof. exact c10_agreement_implies_acceptance. Qed.
Print Assumptions C10_agreement_implies_acceptance.

Theorem C10_oracle_accepts_model : forall s o raws g,
  c10_in_scope (s, o, raws, g) = true ->
  c10_model (s, o, raws, gout_of (parse_pipeline raws)) = true /\
  c10_spec (s, o, raws, gout_of (parse_pipeline raws)) = true.
Proof. exact c10_oracle_accepts_model. Qed.
Print Assumptions C10_oracle_accepts_model.

Example C10_scope_needed :
  let o := mkOpts (num_of []) [] [] [] [] false false None false in
  let raws := [mkRaw RIdent "use" false; mkRaw RIdent "b" false] in
  let c : c10_case := (SUse "a", o, raws, gout_of (parse_pipeline raws)) in
  c10_model c = true /\ c10_spec c = false /\ c10_in_scope c = false.
Proof. exact c10_scope_needed. Qed.

(* non-vacuity: SELECT a, count( * ) AS n FROM t INNER JOIN u ON a = b WHERE a != 007 GROUP BY a
   ORDER BY n LIMIT 10 ;  as raw tokens of the Go scanner; observed: the tree. In scope, the model
   agrees, the oracle accepts; an observation with ONE literal changed deep in the tree (10 -> 11 in
   LIMIT, or the WHERE literal) is rejected by the oracle. *)
Definition ex_c10_opts : ropts :=
  mkOpts (num_of [(7, "007"); (10, "10")]) [false; true] [true] [false] [] false false None true.
Definition ex_c10_sel (w lim : Z) : stmt :=
  SSelect (mkSelect
    [mkDC (SPExpr (EVal (XCol (mkCol "" "a")))) ""; mkDC (SPCount None) "n"]
    [TRJoin (TRName "t" None) JInner (TRName "u" None) (EPred (XCol (mkCol "" "a")) CEq (XCol (mkCol "" "b")))]
    (Some (EPred (XCol (mkCol "" "a")) CNeq (XLit (VInt w))))
    [mkCol "" "a"] [mkSort (mkCol "" "n") SAsc] true false lim 0).
Definition ex_c10_raws : list rawtok :=
  [mkRaw RIdent "SELECT" false; mkRaw RIdent "a" false; mkRaw ROther "," false;
   mkRaw RIdent "count" false; mkRaw ROther "(" false; mkRaw ROther "*" false; mkRaw ROther ")" false;
   mkRaw RIdent "As" false; mkRaw RIdent "n" false; mkRaw RIdent "from" false; mkRaw RIdent "t" false;
   mkRaw RIdent "inner" false; mkRaw RIdent "JOIN" false; mkRaw RIdent "u" false; mkRaw RIdent "on" false;
   mkRaw RIdent "a" false; mkRaw ROther "=" false; mkRaw RIdent "b" false;
   mkRaw RIdent "where" false; mkRaw RIdent "a" false; mkRaw ROther "!" true; mkRaw ROther "=" false;
   mkRaw RInt "007" false; mkRaw RIdent "group" false; mkRaw RIdent "by" false; mkRaw RIdent "a" false;
   mkRaw RIdent "order" false; mkRaw RIdent "by" false; mkRaw RIdent "n" false;
   mkRaw RIdent "limit" false; mkRaw RInt "10" false; mkRaw ROther ";" false].

Example C10_ex_agreement :
  let c g : c10_case := (ex_c10_sel 7 10, ex_c10_opts, ex_c10_raws, g) in
  c10_in_scope (c (GOk (ex_c10_sel 7 10))) = true /\
  c10_model (c (GOk (ex_c10_sel 7 10))) = true /\ c10_spec (c (GOk (ex_c10_sel 7 10))) = true /\
  c10_spec (c (GOk (ex_c10_sel 7 11))) = false /\ c10_spec (c (GOk (ex_c10_sel 8 10))) = false /\
  c10_model (c (GOk (ex_c10_sel 7 11))) = false /\
  c10_spec (c (GErr 1)) = false /\ c10_spec (c GPanic) = false /\ c10_spec (c GUnrep) = false.
Proof. vm_compute. repeat split; reflexivity. Qed.
