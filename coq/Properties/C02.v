(* C02 - Acknowledged statements survive a crash between statements.
   Statements only (proofs: Proofs/Crash{Base,Pages,Redo,Log,Main}.v; section E: Proofs/MovesFromRep.v).

   The durable system is `sys` = (page cache `mem`, data file `disk`, log `wal`) of Model/Engine.v;
   `run_events init_sys evs` runs ANY finite history of statements (CREATE TABLE, multi-row INSERT,
   UPDATE, DELETE, successful or failing), page flushes (`EvFlush`: any placement - never, after any
   subset of statements, always; clean shutdown = flush then crash) and crash-restarts (`EvCrash`:
   InitStorage = read the log, replay it on the data file with the page-LSN skip test, flush) on a
   freshly created database, any number of crash cycles with statements in between. (`hist_ok`
   also admits `EvCrashInLog` - a crash inside a statement's log append, property C03 - and
   `EvTornFlush` - a crash inside flushPages, property C04, in-place case - so the theorems below
   hold after those as well.)

   `seq a b`: a and b have the same pages up to dirty flags (same cells, LSNs, sibling links,
   separators), the same catalog root and the same allocation frontier. The row-id and LSN counters
   are NOT compared: recovery may leave them smaller than before the crash (a failed statement
   consumes ids / LSNs without logging anything), but never below a stored key / page LSN
   (C02_ids_never_reused). `abs s` = what SELECT * returns for every table of the catalog.

   Hypothesis `hist_ok` (decidable, evaluated statement by statement in the store the statement
   runs on; see C02_nonvacuous / C02_hyp_* below):
   (H1) `stmt_atomic`: a statement that returns an error changed no page. Before the repair of the
        recorded findings F11a-c (property C14) this excluded real behaviour: a multi-row INSERT /
        UPDATE, or a CREATE TABLE, failing after its first row kept the earlier rows in the cache
        without logging them - after a crash they were gone. Since the repair (every row / catalog
        row is checked before the first change) (H1) is NO LONGER ASSUMED for histories of
        statements, flushes and crash-restarts: section F derives it from the refinement invariant
        (Proofs/FailsEarly.v stmt_err_unchanged, Proofs/HistNoH1.v rep_stmt_atomic) and restates the
        main theorems under the boolean `hist_ok2` = literals are Go values + allocation frontier
        <= 2^63 only (no H1, no H2): the `_noH1H2` theorems. C02_former_atomicity_witness: the
        history that used to show (H1) necessary now recovers to what SELECT showed.
   (H2) `stmt_moves_ok`: whenever an INSERT moves the root of its table, the sys_pages row that
        updatePageTable rewrites (found by table name) is the first live sys_pages row holding the
        old root offset - the row redoRootMove rewrites during replay. True as long as no two live
        catalog rows carry the same file_offset. (Found by this proof: with DML on sys_pages a user
        could create two rows with one offset, and recovery then rewrote the wrong row; the engine
        now refuses INSERT / UPDATE / DELETE on the catalog tables - /repo c7d1b36, modelled by
        `is_sys_table` - so only CREATE TABLE and root moves write offsets, always fresh ones.)
        (H2) is an explicit hypothesis of the theorems of sections B-D (`hist_ok`), which also admit
        the C03 / C04 crash events. For histories of statements, flushes and crash-restarts (the
        quantifier of C02) it is NO LONGER ASSUMED: section E derives it from C01's refinement
        invariant `Rep` plus `SelfOk` (Proofs/MovesFromRep.v: `rep_moves_ok`; both invariants hold
        after every such history, `hist_ok1_rep`) and restates the main theorems under `hist_ok1`
        = (H1) + literals are Go values + allocation frontier <= 2^63: C02_recovery_restores_noH2,
        C02_recover_idempotent_noH2, C02_ids_never_reused_noH2, C02_crash_cycles_noH2,
        C02_later_statements_partial_noH2, C02_clean_shutdown_noH2, C02_recovery_total_noH2.
        Still assuming (H2): C02_do_redo (one statement on arbitrary Good stores; use
        C02_moves_from_rep to discharge it in a store satisfying Rep and SelfOk) and the `hist_ok`
        versions of the C03 / C04 theorems (their `_noH1H2` versions in C03.v / C04.v assume neither
        (H1) nor (H2): `hist_ok1` / `hist_ok2` admit EvCrashInLog / EvTornFlush too). `Rep` alone does not give (H2):
        it leaves the offset stored in sys_pages' own, never-maintained catalog row unconstrained;
        `SelfOk` (that row holds the first page's offset, every other root lies above) closes the
        gap and is an invariant of every reachable store. *)
From Coq Require Import List NArith ZArith String.
From Mkdb Require Import Model.Engine Proofs.TreeProofs Proofs.StoreInv Proofs.CrashBase Proofs.CrashPages
  Proofs.CrashRedo Proofs.CrashLog Proofs.CrashMain Proofs.CrashPrefix Proofs.CrashHist Proofs.CrashCongr.
Import ListNotations.
Local Open Scope N_scope.

(* ---- A. equality up to dirty flags is invisible to queries ---- *)
Theorem C02_seq_abs : forall a b, seq a b -> abs a = abs b.
Proof. exact seq_abs. Qed.
Print Assumptions C02_seq_abs.

(* ---- B. do = redo, one successful INSERT / UPDATE / DELETE statement of any number of rows, with
   leaf splits, internal splits and root moves; `a` is any store equal to `b` up to dirty flags
   (whatever its counters), both satisfying C11's invariant and the LSN discipline ---- *)
Theorem C02_do_redo : forall a b st m,
  seq a b -> Good a -> Good b -> is_dml st = true -> stmt_moves_ok b st ->
  e_out (run_stmt b st) = OOk m ->
  exists a', replay a (e_batch (run_stmt b st)) = RCont a' /\ seq a' (e_store (run_stmt b st)) /\ Good a'.
Proof.
  intros a b st m S Ga Gb Hd Hm Ho.
  destruct (redo_stmt a b st m (mkRel _ _ S Ga Gb) Hd Hm Ho) as (a' & Hr & [S' Ga' _] & _). eauto.
Qed.
Print Assumptions C02_do_redo.

(* ---- C. records already reflected in a store are inert: replaying them changes nothing (not even
   the counters). `rec_inert s w`: w's page has LSN >= w's, or w is an insert whose page is still
   the root of its tree and whose key is stored in that tree. Every record is inert in the store
   right after its statement and stays inert under every later statement, flush and recovery
   (Proofs/CrashLog.v log_stmt, CrashMain.v Inv). ---- *)
Theorem C02_old_records_inert : forall s log, Good s -> LogInv s log -> replay s log = RCont s.
Proof. exact replay_inert. Qed.
Print Assumptions C02_old_records_inert.

(* ---- D. the main theorems ---- *)
Theorem C02_recovery_restores : forall evs y os,
  hist_ok init_sys evs -> run_events init_sys evs = (SOk y, os) ->
  exists y', recover y = Ok y' /\ seq (mem y') (mem y) /\ abs (mem y') = abs (mem y) /\
             disk y' = mem y' /\ wal y' = wal y.
Proof. intros evs y os H R. apply recovery_restores. exists evs, os. auto. Qed.
Print Assumptions C02_recovery_restores.

(* running recovery again changes nothing: same cache, same file, same log *)
Theorem C02_recover_idempotent : forall evs y os y1,
  hist_ok init_sys evs -> run_events init_sys evs = (SOk y, os) ->
  recover y = Ok y1 -> recover y1 = Ok y1.
Proof. intros evs y os y1 H R. apply recover_idempotent. exists evs, os. auto. Qed.
Print Assumptions C02_recover_idempotent.

(* after recovery the row-id counter is at least every key and separator of every tree, and the
   LSN counter is above every page LSN: the next INSERT gets a fresh id, the next record is not
   skipped by a later replay *)
Theorem C02_ids_never_reused : forall evs y os y1,
  hist_ok init_sys evs -> run_events init_sys evs = (SOk y, os) -> recover y = Ok y1 ->
  Forall (fun t => Forall (fun k => k <= lastKey (mem y1)) (tree_keys t)) (forest (mem y1)) /\
  Forall (fun t => Forall (fun n => t_lsn n < nextLSN (mem y1)) (nodes t)) (forest (mem y1)).
Proof. intros evs y os y1 H R. apply ids_never_reused. exists evs, os. auto. Qed.
Print Assumptions C02_ids_never_reused.

(* the recovered database keeps working: a crash is an event like any other, so every theorem
   above holds again after any further statements, flushes and crashes ... *)
Theorem C02_crash_cycles : forall evs y os,
  hist_ok init_sys evs -> run_events init_sys evs = (SOk y, os) ->
  exists y1 os1, run_events init_sys (evs ++ [EvCrash]) = (SOk y1, os1) /\ hist_ok init_sys (evs ++ [EvCrash]) /\
                 recover y = Ok y1.
Proof.
  intros evs y os H R.
  destruct (recovery_restores y (ex_intro _ evs (ex_intro _ os (conj H R)))) as (y1 & Hrec & _).
  destruct (reachable_after_crash y y1 (ex_intro _ evs (ex_intro _ os (conj H R))) Hrec) as (evs' & os' & A & B).
  clear evs' os' A B.
  assert (G : forall evs y0 os0, hist_ok y0 evs -> run_events y0 evs = (SOk y, os0) ->
              exists os', hist_ok y0 (evs ++ [EvCrash]) /\ run_events y0 (evs ++ [EvCrash]) = (SOk y1, os')).
  { clear evs os H R. induction evs as [|ev r IH]; intros y0 os0 Hok Hr.
    - cbn in Hr. inversion Hr; subst y0. cbn [app hist_ok run_events step ev_ok]. rewrite Hrec.
      eexists. split; [split; [exact I | exact I] | reflexivity].
    - cbn [hist_ok] in Hok. destruct Hok as [Hev Hrest]. cbn [run_events] in Hr.
      destruct (step y0 ev) as [[y2|e|] o] eqn:Es; try discriminate.
      destruct (run_events y2 r) as [fin os'] eqn:Er. inversion Hr; subst.
      destruct (IH y2 os' Hrest Er) as (os2 & A & B).
      cbn [app hist_ok run_events]. rewrite Es, B. eexists. split; [split; [exact Hev | exact A] | reflexivity]. }
  destruct (G evs init_sys os H R) as (os' & A & B). exists y1, os'. auto.
Qed.
Print Assumptions C02_crash_cycles.

(* later statements behave as on the uncrashed cache. (1) Statements never look at dirty flags:
   two stores equal up to dirty flags with the same counters run any sequence of statements with
   the same outcomes and the same tables. (2) Hence, whenever recovery restores the counters too -
   in particular after a clean shutdown, where restart returns the flushed system itself - the
   recovered database is indistinguishable from the uncrashed one by any later statements. When a
   failed statement had consumed row ids / LSNs after the last flush the recovered counters are
   smaller (never too small: C02_ids_never_reused), and later INSERTs get smaller ids than they
   would have: that case is covered by C02_crash_cycles, not by an id-renaming theorem (see
   C02_full_statement). *)
Theorem C02_later_statements_partial : forall evs y os y' sts,
  hist_ok init_sys evs -> run_events init_sys evs = (SOk y, os) -> recover y = Ok y' ->
  lastKey (mem y') = lastKey (mem y) -> nextLSN (mem y') = nextLSN (mem y) ->
  snd (run_stmts (mem y') sts) = snd (run_stmts (mem y) sts) /\
  abs (fst (run_stmts (mem y') sts)) = abs (fst (run_stmts (mem y) sts)) /\
  seq (fst (run_stmts (mem y') sts)) (fst (run_stmts (mem y) sts)).
Proof.
  intros evs y os y' sts H R Hrec Hk Hl.
  destruct (recovery_restores y (ex_intro _ evs (ex_intro _ os (conj H R)))) as (y2 & Hrec2 & S & _).
  rewrite Hrec in Hrec2. inversion Hrec2; subst y2.
  destruct (run_stmts_congr sts (mem y') (mem y) (mkSeqc _ _ S Hk Hl)) as [A B].
  split; [exact B|]. split; [apply seqc_abs; exact A | apply A].
Qed.
Print Assumptions C02_later_statements_partial.

Theorem C02_clean_shutdown : forall evs y os,
  hist_ok init_sys evs -> run_events init_sys evs = (SOk y, os) -> recover (do_flush y) = Ok (do_flush y).
Proof. intros evs y os H R. apply clean_shutdown. exists evs, os. auto. Qed.
Print Assumptions C02_clean_shutdown.

(* ... and recovery never fails or panics on such a history *)
Theorem C02_recovery_total : forall evs y os,
  hist_ok init_sys evs -> run_events init_sys evs = (SOk y, os) ->
  exists y1, step y EvCrash = (SOk y1, None).
Proof. intros evs y os H R. apply step_crash_ok. apply reachable_inv_c. exists evs, os. auto. Qed.
Print Assumptions C02_recovery_total.

(* ---- full statement (not proved as such): no hypothesis on the history, and the continuation
   clause for arbitrary counters: after recovery every later statement has the same outcome and
   leaves the same tables as on the uncrashed cache, row ids compared up to an order-preserving
   renaming. What is proved instead: the theorems above under `hist_ok` (both parts of which are
   necessary, see the two Examples at the end), and the continuation clause in the form "the
   recovered system is again a reachable system of the same theorems" (C02_crash_cycles).
   C02_needs_atomicity: the full statement is FALSE in the model without (H1) - that is finding
   F11a seen through a crash. ---- *)
Definition only_c02_events (evs : list event) : Prop :=
  Forall (fun ev => match ev with EvStmt _ | EvFlush | EvCrash => True | _ => False end) evs.

Definition same_tables_up_to_ids
  (a b : res (list (string * (list (N * row) * list field)))) : Prop :=
  match a, b with
  | Ok ta, Ok tb =>
      Forall2 (fun x y => fst x = fst y /\ snd (snd x) = snd (snd y) /\
                          map snd (fst (snd x)) = map snd (fst (snd y))) ta tb
  | Err e1, Err e2 => e1 = e2
  | Panic, Panic => True
  | _, _ => False
  end.

Definition C02_full_statement : Prop :=
  forall evs y os, only_c02_events evs -> run_events init_sys evs = (SOk y, os) ->
  exists y', recover y = Ok y' /\ abs (mem y') = abs (mem y) /\
    forall sts, let run := fold_left (fun s st => e_store (run_stmt s st)) sts in
      same_tables_up_to_ids (abs (run (mem y'))) (abs (run (mem y))).

(* ---- non-vacuity ---- *)
Local Open Scope string_scope.
Definition ins (t : string) (i : nat) : event := EvStmt (SInsert t [] [[VInt (Z.of_nat i)]]).

(* CREATE TABLE; 8 single-row inserts; flush; a 3-row insert that splits the root leaf (root move
   logged, nothing flushed); an UPDATE and a DELETE with WHERE; a failing INSERT (unknown table);
   crash; 10 more inserts; flush; 2 inserts; crash *)
Definition ex_history : list event :=
  EvStmt (SCreateTable "t" [mkColDef "a" STNumeric]) ::
  map (ins "t") (List.seq 0 8) ++
  [EvFlush;
   EvStmt (SInsert "t" [] [[VInt 100]; [VInt 101]; [VInt 102]]);
   EvStmt (SUpdate "t" [("a", XLit (VInt 7))] (Some (EPred (XCol (mkCol "" "a")) CEq (XLit (VInt 3)))));
   EvStmt (SDelete "t" (Some (EPred (XCol (mkCol "" "a")) CGt (XLit (VInt 100)))));
   EvStmt (SInsert "nosuch" [] [[VInt 1]]);
   EvCrash] ++
  map (ins "t") (List.seq 20 10) ++ [EvFlush] ++ map (ins "t") (List.seq 40 2) ++ [EvCrash].

Ltac hist_tac :=
  vm_compute;
  repeat (first [ exact I | split | (intros; discriminate) | reflexivity ]).

Example C02_nonvacuous :
  exists y os, run_events init_sys ex_history = (SOk y, os) /\ hist_ok init_sys ex_history /\
               (length (wal y) >= 20)%nat /\
               exists t, In t (forest (mem y)) /\ (length (leaves t) >= 3)%nat.
Proof.
  destruct (run_events init_sys ex_history) as [fin os] eqn:E.
  vm_compute in E. inversion E; subst. eexists _, _. split; [reflexivity|].
  split; [hist_tac|]. split; [vm_compute; repeat constructor|].
  eexists. split; [right; right; left; reflexivity|]. vm_compute. repeat constructor.
Qed.

(* the hypothesis is not "nothing happened": before the first crash of ex_history the data file is
   behind the cache (the table's root on disk is still the single leaf) *)
Definition ex_prefix : list event := firstn 14 ex_history.
Example C02_nonvacuous_unflushed :
  exists y os, run_events init_sys ex_prefix = (SOk y, os) /\ hist_ok init_sys ex_prefix /\
               abs (disk y) <> abs (mem y) /\
               exists y', recover y = Ok y' /\ abs (mem y') = abs (mem y) /\
                          lastKey (mem y') = lastKey (mem y).
Proof.
  destruct (run_events init_sys ex_prefix) as [fin os] eqn:E.
  vm_compute in E. inversion E; subst. eexists _, _. split; [reflexivity|].
  split; [hist_tac|]. split; [vm_compute; discriminate|].
  eexists. split; [vm_compute; reflexivity|]. split; vm_compute; reflexivity.
Qed.

(* the history that used to show (H1) necessary - F11a: a 2-row INSERT whose second row is out of
   range kept row 1 in the cache, unlogged, and a crash lost the row SELECT had shown - now
   recovers to exactly what SELECT showed before the crash (the failing INSERT stored nothing) *)
Definition ex_f11 : list event :=
  [EvStmt (SCreateTable "t" [mkColDef "a" STNumeric]);
   EvStmt (SInsert "t" [] [[VInt 1]; [VInt 2147483648]])].

Example C02_former_atomicity_witness :
  exists y os y', run_events init_sys ex_f11 = (SOk y, os) /\ only_c02_events ex_f11 /\
                  os = [Some (OOk 0); Some (OErr EIntRange)] /\
                  recover y = Ok y' /\ abs (mem y') = abs (mem y).
Proof.
  destruct (run_events init_sys ex_f11) as [fin os] eqn:E.
  vm_compute in E. inversion E; subst. eexists _, _, _. split; [reflexivity|].
  split; [repeat constructor|]. split; [reflexivity|]. split; [vm_compute; reflexivity|]. vm_compute. reflexivity.
Qed.

(* ---- E. the same theorems WITHOUT (H2) ----
   (H2) is derived from C01's refinement invariant (Proofs/MovesFromRep.v): in every store that
   represents a database of the specification (`Rep`, whose catalog part says that distinct tables
   have distinct root offsets, all different from the page-table root) and in which sys_pages' own,
   never-maintained catalog row still holds the offset of the first page of the file while every
   other root lies above it (`SelfOk`), the row found by table name is the ONLY live row holding the
   old root offset. Both invariants hold initially and survive every statement satisfying (H1),
   every flush and every crash-restart, so `hist_ok1` (no H2) implies `hist_ok`.
   `hist_ok1` per statement: (H1) stmt_atomic; RefineMain.stmt_ok (literals are Go values: integers
   within int64, strings shorter than 2^32 bytes); the allocation frontier after the statement is
   <= OFFMAX = 2^63 (file offsets are int64). Events: statements, flushes, crash-restarts - the
   whole quantifier of C02 - and also EvCrashInLog st j (asks of st what EvStmt st asks) and
   EvTornFlush W (asks nothing): MovesFromRep.RInv_step re-establishes both invariants after the
   recovery these C03 / C04 events perform (C03.v / C04.v: the `_noH1H2` theorems).
   `hist_ok1b` is the same as a boolean, with (H1) replaced by Atomic.fails_early (the failing
   statement fails before its first page change - the condition of C01's theorems). *)
From Mkdb Require Import Proofs.RefineRep Proofs.RefineCat Proofs.RefineMain Proofs.MovesFromRep.

(* (H2) in one store *)
Theorem C02_moves_from_rep : forall s d st,
  Rep s d -> SelfOk s -> RefineMain.stmt_ok st = true -> nextFree (e_store (run_stmt s st)) <= OFFMAX ->
  stmt_moves_ok s st.
Proof. exact rep_moves_ok. Qed.
Print Assumptions C02_moves_from_rep.

Theorem C02_hyp_without_H2 : forall evs, hist_ok1 init_sys evs -> hist_ok init_sys evs.
Proof. exact hist_ok1_sound. Qed.
Print Assumptions C02_hyp_without_H2.

Theorem C02_hyp_boolean : forall evs, hist_ok1b init_sys evs = true -> hist_ok1 init_sys evs.
Proof. intros evs. apply hist_ok1b_sound. Qed.
Print Assumptions C02_hyp_boolean.

(* along such a history - crash-restarts included - the cache always represents a database of
   the specification *)
Theorem C02_rep_along_history : forall evs y os,
  hist_ok1 init_sys evs -> run_events init_sys evs = (SOk y, os) ->
  SelfOk (mem y) /\ exists d, Rep (mem y) d.
Proof. exact hist_ok1_rep. Qed.
Print Assumptions C02_rep_along_history.

Theorem C02_recovery_restores_noH2 : forall evs y os,
  hist_ok1 init_sys evs -> run_events init_sys evs = (SOk y, os) ->
  exists y', recover y = Ok y' /\ seq (mem y') (mem y) /\ abs (mem y') = abs (mem y) /\
             disk y' = mem y' /\ wal y' = wal y.
Proof. intros evs y os H R. exact (C02_recovery_restores evs y os (hist_ok1_sound evs H) R). Qed.
Print Assumptions C02_recovery_restores_noH2.

Theorem C02_recover_idempotent_noH2 : forall evs y os y1,
  hist_ok1 init_sys evs -> run_events init_sys evs = (SOk y, os) ->
  recover y = Ok y1 -> recover y1 = Ok y1.
Proof. intros evs y os y1 H R. exact (C02_recover_idempotent evs y os y1 (hist_ok1_sound evs H) R). Qed.
Print Assumptions C02_recover_idempotent_noH2.

Theorem C02_ids_never_reused_noH2 : forall evs y os y1,
  hist_ok1 init_sys evs -> run_events init_sys evs = (SOk y, os) -> recover y = Ok y1 ->
  Forall (fun t => Forall (fun k => k <= lastKey (mem y1)) (tree_keys t)) (forest (mem y1)) /\
  Forall (fun t => Forall (fun n => t_lsn n < nextLSN (mem y1)) (nodes t)) (forest (mem y1)).
Proof. intros evs y os y1 H R. exact (C02_ids_never_reused evs y os y1 (hist_ok1_sound evs H) R). Qed.
Print Assumptions C02_ids_never_reused_noH2.

(* the recovered system is again reached by a history satisfying the H2-free hypothesis *)
Theorem C02_crash_cycles_noH2 : forall evs y os,
  hist_ok1 init_sys evs -> run_events init_sys evs = (SOk y, os) ->
  exists y1 os1, run_events init_sys (evs ++ [EvCrash]) = (SOk y1, os1) /\
                 hist_ok1 init_sys (evs ++ [EvCrash]) /\ recover y = Ok y1.
Proof.
  intros evs y os H R.
  destruct (C02_crash_cycles evs y os (hist_ok1_sound evs H) R) as (y1 & os1 & A & _ & C).
  exists y1, os1. split; [exact A|]. split; [exact (hist_ok1_snoc evs init_sys y os EvCrash H R I) | exact C].
Qed.
Print Assumptions C02_crash_cycles_noH2.

Theorem C02_later_statements_partial_noH2 : forall evs y os y' sts,
  hist_ok1 init_sys evs -> run_events init_sys evs = (SOk y, os) -> recover y = Ok y' ->
  lastKey (mem y') = lastKey (mem y) -> nextLSN (mem y') = nextLSN (mem y) ->
  snd (run_stmts (mem y') sts) = snd (run_stmts (mem y) sts) /\
  abs (fst (run_stmts (mem y') sts)) = abs (fst (run_stmts (mem y) sts)) /\
  seq (fst (run_stmts (mem y') sts)) (fst (run_stmts (mem y) sts)).
Proof. intros evs y os y' sts H. exact (C02_later_statements_partial evs y os y' sts (hist_ok1_sound evs H)). Qed.
Print Assumptions C02_later_statements_partial_noH2.

Theorem C02_clean_shutdown_noH2 : forall evs y os,
  hist_ok1 init_sys evs -> run_events init_sys evs = (SOk y, os) -> recover (do_flush y) = Ok (do_flush y).
Proof. intros evs y os H. exact (C02_clean_shutdown evs y os (hist_ok1_sound evs H)). Qed.
Print Assumptions C02_clean_shutdown_noH2.

Theorem C02_recovery_total_noH2 : forall evs y os,
  hist_ok1 init_sys evs -> run_events init_sys evs = (SOk y, os) ->
  exists y1, step y EvCrash = (SOk y1, None).
Proof. intros evs y os H. exact (C02_recovery_total evs y os (hist_ok1_sound evs H)). Qed.
Print Assumptions C02_recovery_total_noH2.

(* ---- non-vacuity of the H2-free hypothesis: ex_history (CREATE TABLE, 8 inserts, flush, a 3-row
   insert that splits the root leaf - a root move -, UPDATE, DELETE, a failing INSERT, crash, 10
   inserts, flush, 2 inserts, crash) satisfies hist_ok1b, hence hist_ok1 ---- *)
Example C02_noH2_nonvacuous : hist_ok1b init_sys ex_history = true.
Proof. vm_compute. reflexivity. Qed.

(* the 3-row insert (event 10) really moves the root of "t": the catalog offset of "t" changes *)
Example C02_noH2_root_move :
  exists y0 os0 y1 os1,
    run_events init_sys (firstn 10 ex_history) = (SOk y0, os0) /\
    run_events init_sys (firstn 11 ex_history) = (SOk y1, os1) /\
    hist_ok1 init_sys (firstn 11 ex_history) /\
    rel_offset (mem y0) "t" <> rel_offset (mem y1) "t".
Proof.
  destruct (run_events init_sys (firstn 10 ex_history)) as [f0 os0] eqn:E0.
  destruct (run_events init_sys (firstn 11 ex_history)) as [f1 os1] eqn:E1.
  vm_compute in E0. vm_compute in E1. inversion E0; subst. inversion E1; subst.
  eexists _, _, _, _. split; [reflexivity|]. split; [reflexivity|].
  split; [apply hist_ok1b_sound; vm_compute; reflexivity|]. vm_compute. discriminate.
Qed.


(* ---- F. the same theorems WITHOUT (H1) and WITHOUT (H2) ----
   (H1) is derived from the refinement invariant as well (Proofs/FailsEarly.v: under `Rep s d` a
   statement that returns an error returns the store it was given, because EvaluateInsert /
   EvaluateUpdate / createTable check every row / catalog row before the first change and nothing
   can fail afterwards; Proofs/HistNoH1.v: `rep_stmt_atomic`). `hist_ok2` is a BOOLEAN on the
   history, per statement: RefineMain.stmt_ok (literals are Go values) and the allocation frontier
   after the statement is <= OFFMAX = 2^63; events: statements - successful or failing in ANY way -,
   flushes, crash-restarts, and the C03 / C04 events (EvCrashInLog st j: the same two conditions on
   st; EvTornFlush W: none). hist_ok2 -> hist_ok1 -> hist_ok. *)
From Mkdb Require Import Proofs.FailsEarly Proofs.HistNoH1.

(* (H1) in one store *)
Theorem C02_atomic_from_rep : forall s d st,
  Rep s d -> RefineMain.stmt_ok st = true -> nextFree (e_store (run_stmt s st)) <= OFFMAX ->
  stmt_atomic s st.
Proof. exact rep_stmt_atomic. Qed.
Print Assumptions C02_atomic_from_rep.

Theorem C02_hyp_without_H1_H2 : forall evs, hist_ok2 init_sys evs = true -> hist_ok1 init_sys evs.
Proof. exact hist_ok2_sound. Qed.
Print Assumptions C02_hyp_without_H1_H2.

Theorem C02_rep_along_history_noH1H2 : forall evs y os,
  hist_ok2 init_sys evs = true -> run_events init_sys evs = (SOk y, os) ->
  SelfOk (mem y) /\ exists d, Rep (mem y) d.
Proof. exact hist_ok2_rep. Qed.
Print Assumptions C02_rep_along_history_noH1H2.

Theorem C02_recovery_restores_noH1H2 : forall evs y os,
  hist_ok2 init_sys evs = true -> run_events init_sys evs = (SOk y, os) ->
  exists y', recover y = Ok y' /\ seq (mem y') (mem y) /\ abs (mem y') = abs (mem y) /\
             disk y' = mem y' /\ wal y' = wal y.
Proof. intros evs y os H R. exact (C02_recovery_restores_noH2 evs y os (hist_ok2_sound evs H) R). Qed.
Print Assumptions C02_recovery_restores_noH1H2.

Theorem C02_recover_idempotent_noH1H2 : forall evs y os y1,
  hist_ok2 init_sys evs = true -> run_events init_sys evs = (SOk y, os) ->
  recover y = Ok y1 -> recover y1 = Ok y1.
Proof. intros evs y os y1 H R. exact (C02_recover_idempotent_noH2 evs y os y1 (hist_ok2_sound evs H) R). Qed.
Print Assumptions C02_recover_idempotent_noH1H2.

Theorem C02_ids_never_reused_noH1H2 : forall evs y os y1,
  hist_ok2 init_sys evs = true -> run_events init_sys evs = (SOk y, os) -> recover y = Ok y1 ->
  Forall (fun t => Forall (fun k => k <= lastKey (mem y1)) (tree_keys t)) (forest (mem y1)) /\
  Forall (fun t => Forall (fun n => t_lsn n < nextLSN (mem y1)) (nodes t)) (forest (mem y1)).
Proof. intros evs y os y1 H R. exact (C02_ids_never_reused_noH2 evs y os y1 (hist_ok2_sound evs H) R). Qed.
Print Assumptions C02_ids_never_reused_noH1H2.

(* the recovered system is again reached by a history satisfying the hypothesis *)
Theorem C02_crash_cycles_noH1H2 : forall evs y os,
  hist_ok2 init_sys evs = true -> run_events init_sys evs = (SOk y, os) ->
  exists y1 os1, run_events init_sys (evs ++ [EvCrash]) = (SOk y1, os1) /\
                 hist_ok2 init_sys (evs ++ [EvCrash]) = true /\ recover y = Ok y1.
Proof.
  intros evs y os H R.
  destruct (C02_crash_cycles_noH2 evs y os (hist_ok2_sound evs H) R) as (y1 & os1 & A & _ & C).
  exists y1, os1. split; [exact A|]. split; [exact (hist_ok2_snoc evs init_sys y os EvCrash H R eq_refl) | exact C].
Qed.
Print Assumptions C02_crash_cycles_noH1H2.

Theorem C02_later_statements_partial_noH1H2 : forall evs y os y' sts,
  hist_ok2 init_sys evs = true -> run_events init_sys evs = (SOk y, os) -> recover y = Ok y' ->
  lastKey (mem y') = lastKey (mem y) -> nextLSN (mem y') = nextLSN (mem y) ->
  snd (run_stmts (mem y') sts) = snd (run_stmts (mem y) sts) /\
  abs (fst (run_stmts (mem y') sts)) = abs (fst (run_stmts (mem y) sts)) /\
  seq (fst (run_stmts (mem y') sts)) (fst (run_stmts (mem y) sts)).
Proof. intros evs y os y' sts H. exact (C02_later_statements_partial_noH2 evs y os y' sts (hist_ok2_sound evs H)). Qed.
Print Assumptions C02_later_statements_partial_noH1H2.

Theorem C02_clean_shutdown_noH1H2 : forall evs y os,
  hist_ok2 init_sys evs = true -> run_events init_sys evs = (SOk y, os) -> recover (do_flush y) = Ok (do_flush y).
Proof. intros evs y os H. exact (C02_clean_shutdown_noH2 evs y os (hist_ok2_sound evs H)). Qed.
Print Assumptions C02_clean_shutdown_noH1H2.

Theorem C02_recovery_total_noH1H2 : forall evs y os,
  hist_ok2 init_sys evs = true -> run_events init_sys evs = (SOk y, os) ->
  exists y1, step y EvCrash = (SOk y1, None).
Proof. intros evs y os H. exact (C02_recovery_total_noH2 evs y os (hist_ok2_sound evs H)). Qed.
Print Assumptions C02_recovery_total_noH1H2.

(* ---- non-vacuity: ex_history satisfies hist_ok2, and so does a history with a FAILING multi-row
   INSERT (second row out of INT range), a failing multi-row UPDATE (the second matching row would
   exceed 400 bytes) and a failing CREATE TABLE (second column VARCHAR(3000000000)) - which the
   boolean with (H1) as fails_early, hist_ok1b, rejects -, a flush and crash-restarts in between;
   after the last crash the table reads as before it ---- *)
Example C02_noH1H2_nonvacuous : hist_ok2 init_sys ex_history = true.
Proof. vm_compute. reflexivity. Qed.

Fixpoint rep_x (n : nat) : string := match n with O => "" | S k => String "x" (rep_x k) end.

Definition ex_late : list event :=
  [EvStmt (SCreateTable "t" [mkColDef "a" STNumeric; mkColDef "b" (STVarchar 400); mkColDef "c" (STVarchar 400)]);
   EvStmt (SInsert "t" [] [[VInt 1; VStr "x"; VStr "y"]; [VInt 2; VStr "x"; VStr (rep_x 300)]]);
   EvStmt (SInsert "t" [] [[VInt 3; VStr "p"; VStr "q"]; [VInt 2147483648; VStr "p"; VStr "q"]]);
   EvCrash;
   EvStmt (SUpdate "t" [("b", XLit (VStr (rep_x 200)))] None);
   EvFlush;
   EvStmt (SCreateTable "u" [mkColDef "a" STNumeric; mkColDef "b" (STVarchar 3000000000)]);
   EvStmt (SUpdate "t" [("b", XLit (VStr "z"))] None);
   EvCrash].

Example C02_noH1H2_late_failures :
  hist_ok2 init_sys ex_late = true /\ hist_ok1b init_sys ex_late = false /\
  match run_events init_sys ex_late with
  | (SOk y, os) =>
      os = [Some (OOk 0); Some (OOk 2); Some (OErr EIntRange); None; Some (OErr ERowTooLarge); None;
            Some (OErr EIntRange); Some (OOk 1); None] /\
      (match st_fetch (mem y) "t" with
       | Ok (rows, _) => map (fun r => (fst r, firstn 2 (snd r))) rows
       | _ => []
       end) = [(13%N, [VInt 1; VStr "z"]); (14%N, [VInt 2; VStr "z"])] /\
      st_fetch (mem y) "u" = Err ETableNotExist
  | _ => False
  end.
Proof.
  split; [vm_compute; reflexivity|]. split; [vm_compute; reflexivity|].
  vm_compute. split; [reflexivity|]. split; reflexivity.
Qed.

(* ---- the oracle of the C02 check (Spec/HistObs.v) ----
   Every run of the check evaluates, per history of statements, flushes, crash-restarts, read-backs
   and page dumps, `model_agrees` (Go's observations equal run_h's) and the strict oracle
   `spec_accepts_strict` (at every read-back every table holds exactly what the acknowledged
   statements put there, whatever flushes and crash-restarts happened in between; ids are never
   reused, also across recoveries; no recovery fails; refusals only where the specification
   refuses). Agreement implies acceptance for EVERY such case, under the boolean hypotheses of
   C01full.v on the events alone - no (H1), no (H2): the crash invariant comes from
   MovesFromRep.RInv (Proofs/OracleCrash.v; re-exported here with the hypotheses first). *)
From Mkdb Require Import Spec.HistObs Proofs.OracleSound Proofs.OracleCrash Proofs.OracleTorn.

Theorem C02_agreement_implies_acceptance : forall c,
  hist_shape_c (fst c) = true -> forallb hev_ok (fst c) = true -> forallb hev_stmt_shape (fst c) = true ->
  frontier_ok init_sys (fst c) = true -> reads_cover [] [] [] (fst c) = true -> forallb strict_hev (fst c) = true ->
  model_agrees c = true -> spec_accepts_strict c = true.
Proof. exact agreement_implies_strict_acceptance_crash'. Qed.
Print Assumptions C02_agreement_implies_acceptance.

Theorem C02_oracle_accepts_model : forall hevs,
  hist_shape_c hevs = true -> forallb hev_ok hevs = true -> forallb hev_stmt_shape hevs = true ->
  frontier_ok init_sys hevs = true -> reads_cover [] [] [] hevs = true -> forallb strict_hev hevs = true ->
  spec_accepts_strict (hevs, run_h init_sys hevs) = true.
Proof. exact model_passes_oracle_crash_strict. Qed.
Print Assumptions C02_oracle_accepts_model.

(* the same statement is an instance of the theorem for all event kinds (C03 / C04): a history
   without torn flushes and crashes inside a log append satisfies torn_ok *)
Theorem C02_histories_are_torn_ok : forall hevs y, hist_shape_c hevs = true -> torn_ok y hevs = true.
Proof. intros hevs y H. exact (torn_ok_of_shape_c hevs H y). Qed.
Print Assumptions C02_histories_are_torn_ok.

(* non-vacuity: a crash while the 12 rows and the root move of t are only in the log, a refused
   INSERT, a flush followed by a crash, an INSERT and an UPDATE lost from the cache by a third crash
   and redone from the log, two recoveries in a row; read-backs in between *)
Definition hx_row2 (i : Z) : list value := [VInt i; VStr "r"].
Definition hx_crash : list hevent :=
  [HEv (EvStmt (SCreateTable "t" [mkColDef "a" STNumeric; mkColDef "b" (STVarchar 20)]));
   HEv (EvStmt (SInsert "t" [] (map hx_row2 [1;2;3;4;5;6;7;8;9;10;11;12]%Z)));
   HReadTables ["t"; "sys_schema"];
   HEv EvCrash;
   HReadTables ["t"; "sys_schema"]; HDumpPages;
   HEv (EvStmt (SDelete "t" (Some (EPred (XCol (mkCol "" "a")) CEq (XLit (VInt 2))))));
   HEv (EvStmt (SInsert "t" [] [[VInt 2147483648; VStr "x"]]));
   HEv EvFlush; HEv EvCrash;
   HEv (EvStmt (SInsert "t" [] [[VInt 13; VStr "n"]]));
   HEv (EvStmt (SUpdate "t" [("b", XLit (VStr "u"))] (Some (EPred (XCol (mkCol "" "a")) CLt (XLit (VInt 4))))));
   HEv EvCrash; HEv EvCrash;
   HReadTables ["t"; "sys_schema"]].

Example C02_agreement_nonvacuous :
  hist_shape_c hx_crash = true /\ forallb hev_ok hx_crash = true /\ forallb hev_stmt_shape hx_crash = true /\
  frontier_ok init_sys hx_crash = true /\ reads_cover [] [] [] hx_crash = true /\ forallb strict_hev hx_crash = true /\
  model_agrees (hx_crash, run_h init_sys hx_crash) = true /\
  spec_accepts_strict (hx_crash, run_h init_sys hx_crash) = true /\
  map (fun o => match o with HOut x => Some x | _ => None end) (run_h init_sys hx_crash) =
    [Some OBok; Some OBok; None; Some OBok; None; None; Some OBok; Some (OBerr EIntRange); Some OBok;
     Some OBok; Some OBok; Some OBok; Some OBok; Some OBok; None] /\
  (match nth 14 (run_h init_sys hx_crash) HNone with
   | HTables ((_, TRows _ rows) :: _) => map (fun r => (fst r, snd r)) rows | _ => [] end) =
    [(12, [VInt 1; VStr "u"]); (14, [VInt 3; VStr "u"]); (15, [VInt 4; VStr "r"]); (16, [VInt 5; VStr "r"]);
     (17, [VInt 6; VStr "r"]); (18, [VInt 7; VStr "r"]); (19, [VInt 8; VStr "r"]); (20, [VInt 9; VStr "r"]);
     (21, [VInt 10; VStr "r"]); (22, [VInt 11; VStr "r"]); (23, [VInt 12; VStr "r"]); (24, [VInt 13; VStr "n"])]%N.
Proof. vm_compute. repeat split; reflexivity. Qed.

(* the oracle is not the constant true on such cases: after the first crash, a read-back that lost
   the last row (which only the log had), or shows it with another value, or a failed recovery, is rejected *)
Definition hx_crash_short : list hevent := firstn 5 hx_crash.
Definition hx_crash_rows : list (N * row) :=
  map (fun i => (N.of_nat (11 + i), hx_row2 (Z.of_nat i))) (List.seq 1 12).
Definition hx_crash_obs (rows : list (N * row)) : list hobs :=
  firstn 4 (run_h init_sys hx_crash_short) ++ [HTables [("t", TRows ["a"; "b"] rows); nth 1 (match nth 2 (run_h init_sys hx_crash_short) HNone with HTables l => l | _ => [] end) ("", TPanic)]].
Example C02_oracle_rejects :
  run_h init_sys hx_crash_short = hx_crash_obs hx_crash_rows /\
  spec_accepts_strict (hx_crash_short, hx_crash_obs hx_crash_rows) = true /\
  spec_accepts_strict (hx_crash_short, hx_crash_obs (firstn 11 hx_crash_rows)) = false /\
  spec_accepts_strict (hx_crash_short, hx_crash_obs (firstn 11 hx_crash_rows ++ [(23%N, hx_row2 13)])) = false /\
  spec_accepts_strict (hx_crash_short, firstn 3 (run_h init_sys hx_crash_short) ++ [HOut (OBerr ECorrupt); HDead]) = false.
Proof. vm_compute. repeat split; reflexivity. Qed.
