(* C20 - The console submits exactly the statements that were typed.
   Statements only; every proof is `exact <lemma from Proofs/ConsoleProofs.v>`.

   Vocabulary (Spec/ConsoleSpec.v, Model/Console.v):
   * keys are numbers: a rune, keyEnter = 13, keyPasteStart / keyPasteEnd (what bytesToKey
     yields for ESC[200~ / ESC[201~).  `run t lip ks` is the sequence of successive ReadLine
     results over the key list ks; `submitted` flattens the returned statement lists.
   * a typed text is a key list in which 13 marks a line break (Enter); `text_of` replaces
     every break by ONE space, `normalise m = TrimSpace (text_of m)`.
   * `wf_stmt m` (= `wf_from 0 false m`, the scanner state of splitStatements being quote kind and
     "previous rune was a backslash inside a literal"): m ends with its only ';' outside literals.
     Single- or double-quoted literals may contain ';', the other quote kind, spaces and BACKSLASH
     ESCAPES: inside a literal a backslash and the next rune form a pair, the second rune being ANY
     valid rune (the literal's own quote kind, a backslash, ';', ...); it neither closes the literal
     nor ends the statement - exactly the `cur++` of splitStatements. A literal is closed by the first
     unescaped occurrence of its own quote kind (so 'C:\\' is a literal, 'C:\' is not closed by that quote).
     What is assumed about literals now: NO LINE BREAK inside a literal (hence none between a
     backslash and the rune it escapes) - an Enter there is entered as a space and alters the literal
     (Example C20_break_inside_literal_alters_it) - and every literal is closed before the final ';'.
     Outside literals a backslash is an ordinary rune (splitStatements gives it no meaning there: it
     does not escape a following quote) and is allowed, as it always was.
     Breaks may stand ANYWHERE outside literals (also inside a token: the theorem still holds, the
     token is then split by the space); every rune is valid (printable for the terminal, not DEL, not
     a surrogate; any Unicode code point >= 32 otherwise - not only ASCII).
     The former hypothesis "literals contain no backslash" is `wf_plain_stmt`; it implies `wf_stmt`
     (C20_backslash_free_in_scope), so every theorem below covers the old scope.
   * a script is a list of units (statement, separator); separators are breaks and printable
     white space (several statements per line = separators without break).
   * a delivery `pcs` cuts the script's keys into chunks, each typed or bracketed-pasted.
   * NO hypothesis on statement or line length any more: until /repo removed it, handleKey silently
     dropped a typed printable key while the line buffer held exactly 4096 runes (maxLineLength,
     inherited from x/term), so a typed statement longer than that reached the engine altered; the
     theorems carried a hypothesis `fits` excluding it, which was the signal of that defect. *)
From Coq Require Import List NArith Bool.
From Mkdb Require Import Model.Console Spec.ConsoleSpec Proofs.ConsoleProofs.
Import ListNotations.
Open Scope N_scope.

(* splitStatements on well-formed statements with their separators: exactly the normalised
   statements, and the line is complete *)
Theorem C20_split_concat : forall us,
  forallb wf_unit us = true ->
  split_statements (concat (map unit_text us)) = (map (fun u => normalise (fst u)) us, true).
Proof. exact split_concat. Qed.
Print Assumptions C20_split_concat.

(* after a complete buffer b, any proper prefix p of a well-formed statement submits nothing
   new, and Enter does not return as soon as p contains a non-blank rune *)
Theorem C20_incomplete_never_submits : forall b m p x,
  complete b = true -> wf_stmt m = true -> m = p ++ x -> x <> [] ->
  pending (b ++ text_of p) = pending b /\
  (all_space (text_of p) = false -> complete (b ++ text_of p) = false).
Proof. exact incomplete_never_submits. Qed.
Print Assumptions C20_incomplete_never_submits.

(* the session over ANY keys the model covers (typed printable or ignored keys, Enter at any
   place - also inside literals or tokens -, paste markers, every key during a paste) equals
   splitting the flat buffer text: nothing lost, duplicated or reordered *)
Theorem C20_session_is_split : forall ks t lip,
  clean (paste t) ks = true ->
  submitted (fst (run t lip ks)) ++ pending (line (fst (snd (run t lip ks)))) =
    pending (line t ++ flat (paste t) ks) /\
  complete (line (fst (snd (run t lip ks)))) = complete (line t ++ flat (paste t) ks) /\
  all_lines (fst (run t lip ks)) = true.
Proof. exact run_general. Qed.
Print Assumptions C20_session_is_split.

(* THE PROPERTY: for every script of well-formed statements, every placement of line breaks
   outside literals, every cutting into typed / bracketed-pasted chunks, followed by a final
   Enter: the statements returned by the successive ReadLine calls are exactly the normalised
   statements, once each, in order; no call fails; the buffer ends empty *)
Theorem C20_submitted : forall us pcs,
  forallb wf_unit us = true ->
  concat (map snd pcs) = script_keys us ->
  submitted (fst (run init_term false (deliver pcs ++ [keyEnter]))) = map (fun u => normalise (fst u)) us /\
  all_lines (fst (run init_term false (deliver pcs ++ [keyEnter]))) = true /\
  line (fst (snd (run init_term false (deliver pcs ++ [keyEnter])))) = [].
Proof. exact console_script. Qed.
Print Assumptions C20_submitted.

(* the literals of the submitted statement are exactly those of the typed statement (breaks, which
   stand outside literals, deleted); `literals` follows the scanner of splitStatements, so a literal
   includes its escape pairs: 'it\'s; ok' is ONE literal *)
Theorem C20_literal_intact : forall m,
  wf_stmt m = true -> literals (normalise m) = literals (nobrk m).
Proof. exact literal_intact. Qed.
Print Assumptions C20_literal_intact.

(* the former scope (no backslash inside literals) is a special case of the present one *)
Theorem C20_backslash_free_in_scope : forall m, wf_plain_stmt m = true -> wf_stmt m = true.
Proof. exact wf_plain_extends. Qed.
Print Assumptions C20_backslash_free_in_scope.

(* what is proved about spaces: a break becomes one extra space; if every break touches white
   space (or the start) on at least one side, the word sequence (runs without white space
   outside literals) of the submitted statement is that of the typed statement *)
Theorem C20_words_intact : forall m,
  wf_stmt m = true -> breaks_at_spaces true m = true -> words (normalise m) = words (nobrk m).
Proof. exact words_intact. Qed.
Print Assumptions C20_words_intact.

(* bytes -> keys for the ASCII subset: printable ASCII / '\r' bytes and the two paste markers
   decode to exactly the keys used above; a marker cut by a Read boundary waits for more input.
   (The read loop itself - 256-byte buffer, chunking, multi-byte UTF-8 - is tied to Go by the
   correspondence run only.) *)
Theorem C20_bytes_to_key_ascii : forall k tail p,
  ascii_key k = true -> bytes_to_key (k :: tail) p = BKey k tail.
Proof. exact bytes_to_key_ascii. Qed.
Print Assumptions C20_bytes_to_key_ascii.

Theorem C20_bytes_to_key_markers : forall tail,
  bytes_to_key (paste_start_seq ++ tail) false = BKey keyPasteStart tail /\
  bytes_to_key (paste_end_seq ++ tail) true = BKey keyPasteEnd tail.
Proof. intro tail. split; [exact (bytes_to_key_paste_start tail) | exact (bytes_to_key_paste_end tail)]. Qed.

Theorem C20_partial_marker_waits : forall n, (0 < n < 6)%nat ->
  bytes_to_key (firstn n paste_start_seq) false = BNone (firstn n paste_start_seq) /\
  bytes_to_key (firstn n paste_end_seq) true = BNone (firstn n paste_end_seq).
Proof. exact bytes_to_key_partial_marker. Qed.

(* ---- non-vacuity ---- *)
From Coq Require Import String Ascii.
Definition str (s : string) : list N := List.map N_of_ascii (list_ascii_of_string s).
Definition br : list N := [keyEnter].

(* two statements; the first typed over three lines with a ';' and a double quote inside its literal, the
   second pasted on the same line as the end of the first; hypotheses hold, and the result is
   the two statements with one space per break *)
Definition ex_units : list (list N * list N) :=
  [ (str "insert into t " ++ br ++ str "values ('a;""b' ," ++ br ++ str " 2) ;", str "  ");
    (str "select ""x'y;"" from t;", br) ].
Definition ex_pcs : list (bool * list N) :=
  [ (false, str "insert into t " ++ br ++ str "values ('a;""b' ," ++ br ++ str " 2) ;  ");
    (true, str "select ""x'y;"" from t;" ++ br) ].

Example C20_nonvacuous_hyps :
  forallb wf_unit ex_units = true /\ List.concat (List.map snd ex_pcs) = script_keys ex_units /\
  forallb (fun u => breaks_at_spaces true (fst u)) ex_units = true.
Proof. vm_compute. repeat split; reflexivity. Qed.

Example C20_nonvacuous_result :
  fst (run init_term false (deliver ex_pcs ++ [keyEnter])) =
  [ Line [str "insert into t  values ('a;""b' ,  2) ;"; str "select ""x'y;"" from t;"] false;
    Line [] false ].
Proof. vm_compute. reflexivity. Qed.

(* literals with backslash escapes: an escaped quote of the literal's own kind and a ';' after it stay
   inside ('it\'s; ok'); a literal ending in an escaped backslash IS closed by the quote after it and the
   next statement on the same line is separate ('C:\\'); escaped double quotes and a ';' inside a
   double-quoted literal ("say \"hi\";"). The first statement is typed over two lines, the third
   and fourth are pasted. *)
Definition esc_units : list (list N * list N) :=
  [ (str "insert into t " ++ br ++ str "values ('it\'s; ok');", br);
    (str "select 'C:\\';", str " ");
    (str "select 2;", br);
    (str "select ""say \""hi\"";"" from t;", br) ].
Definition esc_pcs : list (bool * list N) :=
  [ (false, str "insert into t " ++ br ++ str "values ('it\'s; ok');" ++ br ++ str "select 'C:\\'; ");
    (true, str "select 2;" ++ br ++ str "select ""say \""hi\"";"" from t;" ++ br) ].

Example C20_escapes_hyps :
  forallb wf_unit esc_units = true /\ List.concat (List.map snd esc_pcs) = script_keys esc_units /\
  forallb (fun u => breaks_at_spaces true (fst u)) esc_units = true /\
  forallb (fun u => wf_plain_stmt (fst u)) esc_units = false.
Proof. vm_compute. repeat split; reflexivity. Qed.

Example C20_escapes_result :
  fst (run init_term false (deliver esc_pcs ++ [keyEnter])) =
  [ Line [str "insert into t  values ('it\'s; ok');"] false;
    Line [str "select 'C:\\';"; str "select 2;"] false;
    Line [str "select ""say \""hi\"";"" from t;"] true;   (* typed entirely inside the paste *)
    Line [] false ] /\
  submitted (fst (run init_term false (deliver esc_pcs ++ [keyEnter]))) =
    List.map (fun u => normalise (fst u)) esc_units /\
  List.map (fun u => literals (normalise (fst u))) esc_units =
  [ [str "'it\'s; ok'"]; [str "'C:\\'"]; []; [str """say \""hi\"";"""] ].
Proof. vm_compute. repeat split; reflexivity. Qed.

(* the boolean hypothesis check and the oracle of the correspondence run (Spec/ConsoleSpec.v hyps_hold,
   spec_accepts) accept this script - here with the model's own answer as the observation *)
Example C20_escapes_in_scope_for_the_check :
  let c := mkCase [encode_keys (final_enter esc_pcs)] (Some (esc_units, esc_pcs)) key_consts
                  (session_keys (final_enter esc_pcs)) in
  hyps_hold c = true /\ spec_accepts c = true /\ model_agrees c = true.
Proof. vm_compute. repeat split; reflexivity. Qed.

(* still outside the hypotheses: a break inside a literal; a break between a backslash and the rune
   it escapes; a literal whose only closing quote is escaped (it is not closed: nothing is submitted,
   the console keeps waiting). A backslash OUTSIDE quotes is inside the hypotheses as an ordinary
   rune - but it escapes nothing there: in `select \'a;b';` the quote after it opens a literal
   (that is what splitStatements does, and what the theorem says). *)
Example C20_outside_hypotheses :
  wf_stmt (str "select 'a" ++ br ++ str "b';") = false /\
  wf_stmt (str "select 'a\" ++ br ++ str "'b';") = false /\
  wf_stmt (str "select 'abc\';") = false /\
  fst (run init_term false (str "select 'abc\';" ++ br)) = [] /\
  wf_stmt (str "select 1 \ 2;") = true /\
  wf_stmt (str "select \'a;") = false /\
  wf_stmt (str "select \'a;b';") = true /\
  fst (run init_term false (str "select \'a;b';" ++ br)) = [Line [str "select \'a;b';"] false].
Proof. vm_compute. repeat split; reflexivity. Qed.

(* Enter before the ';' does not submit; the prefix is kept and completed later *)
Example C20_nonvacuous_incomplete :
  fst (run init_term false (str "select 1" ++ br)) = [] /\
  line (fst (snd (run init_term false (str "select 1" ++ br)))) = str "select 1 ".
Proof. vm_compute. split; reflexivity. Qed.

(* why literals must not contain a break: Enter inside a literal is entered as a space *)
Example C20_break_inside_literal_alters_it :
  fst (run init_term false (str "select 'a" ++ br ++ str "b';" ++ br)) = [Line [str "select 'a b';"] false].
Proof. vm_compute. reflexivity. Qed.

(* runTerminal (modelled by hand, see Spec/ConsoleSpec.v handed_to_engine): a line that is pasted
   entirely, Enter included, between ESC[200~ and ESC[201~ is returned by ReadLine together with
   ErrPasteIndicator. Before fix commit 0ba2bad runTerminal treated that as a fatal error (the
   statement was never executed and the console exited); now it is handed to the engine. *)
Example C20_pasted_line_reaches_engine :
  let ks := keyPasteStart :: str "select 1;" ++ br ++ [keyPasteEnd] in
  fst (run init_term false ks) = [Line [str "select 1;"] true] /\
  handed_to_engine (fst (run init_term false ks)) = [str "select 1;"].
Proof. vm_compute. split; reflexivity. Qed.
