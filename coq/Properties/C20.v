(* C20 - The console submits exactly the statements that were typed.
   Statements only; every proof is `exact <lemma from Proofs/ConsoleProofs.v>`.

   Vocabulary (Spec/ConsoleSpec.v, Model/Console.v):
   * keys are numbers: a rune, keyEnter = 13, keyPasteStart / keyPasteEnd (what bytesToKey
     yields for ESC[200~ / ESC[201~).  `run t lip ks` is the sequence of successive ReadLine
     results over the key list ks; `submitted` flattens the returned statement lists.
   * a typed text is a key list in which 13 marks a line break (Enter); `text_of` replaces
     every break by ONE space, `normalise m = TrimSpace (text_of m)`.
   * `wf_stmt m` (= `wf_from 0 false m`, the scanner state of splitStatements being quote kind and
     "previous rune was a backslash inside a literal"): m ends with its only ';' outside literals.
     Single- or double-quoted literals may contain ';', the other quote kind, spaces and BACKSLASH
     ESCAPES: inside a literal a backslash and the next rune form a pair, the second rune being ANY
     valid rune (the literal's own quote kind, a backslash, ';', ...); it neither closes the literal
     nor ends the statement - exactly the `cur++` of splitStatements. A literal is closed by the first
     unescaped occurrence of its own quote kind (so 'C:\\' is a literal, 'C:\' is not closed by that quote).
     What is assumed about literals now: NO LINE BREAK inside a literal (hence none between a
     backslash and the rune it escapes) - an Enter there is entered as a space and alters the literal
     (Example C20_break_inside_literal_alters_it) - and every literal is closed before the final ';'.
     Outside literals a backslash is an ordinary rune (splitStatements gives it no meaning there: it
     does not escape a following quote) and is allowed, as it always was.
     Breaks may stand ANYWHERE outside literals (also inside a token: the theorem still holds, the
     token is then split by the space); every rune is valid (printable for the terminal, not DEL, not
     a surrogate; any Unicode code point >= 32 otherwise - not only ASCII).
     The former hypothesis "literals contain no backslash" is `wf_plain_stmt`; it implies `wf_stmt`
     (C20_backslash_free_in_scope), so every theorem below covers the old scope.
   * a script is a list of units (statement, separator); separators are breaks and printable
     white space (several statements per line = separators without break).
   * a delivery `pcs` cuts the script's keys into chunks, each typed or bracketed-pasted.
   * NO hypothesis on statement or line length any more: until /repo removed it, handleKey silently
     dropped a typed printable key while the line buffer held exactly 4096 runes (maxLineLength,
     inherited from x/term), so a typed statement longer than that reached the engine altered; the
     theorems carried a hypothesis `fits` excluding it, which was the signal of that defect. *)
From Coq Require Import List NArith Bool.
From Mkdb Require Import Model.Console Spec.ConsoleSpec Proofs.ConsoleProofs.
Import ListNotations.
Open Scope N_scope.

(* splitStatements on well-formed statements with their separators: exactly the normalised
   statements, and the line is complete *)
Theorem C20_split_concat : forall us,
  forallb wf_unit us = true ->
  split_statements (concat (map unit_text us)) = (map (fun u => normalise (fst u)) us, true).
Proof. exact split_concat. Qed.
Print Assumptions C20_split_concat.

(* after a complete buffer b, any proper prefix p of a well-formed statement submits nothing
   new, and Enter does not return as soon as p contains a non-blank rune *)
Theorem C20_incomplete_never_submits : forall b m p x,
  complete b = true -> wf_stmt m = true -> m = p ++ x -> x <> [] ->
  pending (b ++ text_of p) = pending b /\
  (all_space (text_of p) = false -> complete (b ++ text_of p) = false).
Proof. exact incomplete_never_submits. Qed.
Print Assumptions C20_incomplete_never_submits.

(* the session over ANY keys the model covers (typed printable or ignored keys, Enter at any
   place - also inside literals or tokens -, paste markers, every key during a paste) equals
   splitting the flat buffer text: nothing lost, duplicated or reordered *)
Theorem C20_session_is_split : forall ks t lip,
  clean (paste t) ks = true ->
  submitted (fst (run t lip ks)) ++ pending (line (fst (snd (run t lip ks)))) =
    pending (line t ++ flat (paste t) ks) /\
  complete (line (fst (snd (run t lip ks)))) = complete (line t ++ flat (paste t) ks) /\
  all_lines (fst (run t lip ks)) = true.
Proof. exact run_general. Qed.
Print Assumptions C20_session_is_split.

(* THE PROPERTY: for every script of well-formed statements, every placement of line breaks
   outside literals, every cutting into typed / bracketed-pasted chunks, followed by a final
   Enter: the statements returned by the successive ReadLine calls are exactly the normalised
   statements, once each, in order; no call fails; the buffer ends empty *)
Theorem C20_submitted : forall us pcs,
  forallb wf_unit us = true ->
  concat (map snd pcs) = script_keys us ->
  submitted (fst (run init_term false (deliver pcs ++ [keyEnter]))) = map (fun u => normalise (fst u)) us /\
  all_lines (fst (run init_term false (deliver pcs ++ [keyEnter]))) = true /\
  line (fst (snd (run init_term false (deliver pcs ++ [keyEnter])))) = [].
Proof. exact console_script. Qed.
Print Assumptions C20_submitted.

(* the literals of the submitted statement are exactly those of the typed statement (breaks, which
   stand outside literals, deleted); `literals` follows the scanner of splitStatements, so a literal
   includes its escape pairs: 'it\'s; ok' is ONE literal *)
Theorem C20_literal_intact : forall m,
  wf_stmt m = true -> literals (normalise m) = literals (nobrk m).
Proof. exact literal_intact. Qed.
Print Assumptions C20_literal_intact.

(* the former scope (no backslash inside literals) is a special case of the present one *)
Theorem C20_backslash_free_in_scope : forall m, wf_plain_stmt m = true -> wf_stmt m = true.
Proof. exact wf_plain_extends. Qed.
Print Assumptions C20_backslash_free_in_scope.

(* what is proved about spaces: a break becomes one extra space; if every break touches white
   space (or the start) on at least one side, the word sequence (runs without white space
   outside literals) of the submitted statement is that of the typed statement *)
Theorem C20_words_intact : forall m,
  wf_stmt m = true -> breaks_at_spaces true m = true -> words (normalise m) = words (nobrk m).
Proof. exact words_intact. Qed.
Print Assumptions C20_words_intact.

(* bytes -> keys for the ASCII subset: printable ASCII / '\r' bytes and the two paste markers
   decode to exactly the keys used above; a marker cut by a Read boundary waits for more input.
   (The read loop itself - 256-byte buffer, chunking, multi-byte UTF-8 - is tied to Go by the
   correspondence run only.) *)
Theorem C20_bytes_to_key_ascii : forall k tail p,
  ascii_key k = true -> bytes_to_key (k :: tail) p = BKey k tail.
Proof. exact bytes_to_key_ascii. Qed.
Print Assumptions C20_bytes_to_key_ascii.

Theorem C20_bytes_to_key_markers : forall tail,
  bytes_to_key (paste_start_seq ++ tail) false = BKey keyPasteStart tail /\
  bytes_to_key (paste_end_seq ++ tail) true = BKey keyPasteEnd tail.
Proof. intro tail. split; [exact (bytes_to_key_paste_start tail) | exact (bytes_to_key_paste_end tail)]. Qed.
Print Assumptions C20_bytes_to_key_markers.

Theorem C20_partial_marker_waits : forall n, (0 < n < 6)%nat ->
  bytes_to_key (firstn n paste_start_seq) false = BNone (firstn n paste_start_seq) /\
  bytes_to_key (firstn n paste_end_seq) true = BNone (firstn n paste_end_seq).
Proof. exact bytes_to_key_partial_marker. Qed.
Print Assumptions C20_partial_marker_waits.

(* ---- non-vacuity ---- *)
From Coq Require Import String Ascii.
Definition str (s : string) : list N := List.map N_of_ascii (list_ascii_of_string s).
Definition br : list N := [keyEnter].

(* two statements; the first typed over three lines with a ';' and a double quote inside its literal, the
   second pasted on the same line as the end of the first; hypotheses hold, and the result is
   the two statements with one space per break *)
Definition ex_units : list (list N * list N) :=
  [ (str "insert into t " ++ br ++ str "values ('a;""b' ," ++ br ++ str " 2) ;", str "  ");
    (str "select ""x'y;"" from t;", br) ].
Definition ex_pcs : list (bool * list N) :=
  [ (false, str "insert into t " ++ br ++ str "values ('a;""b' ," ++ br ++ str " 2) ;  ");
    (true, str "select ""x'y;"" from t;" ++ br) ].

Example C20_nonvacuous_hyps :
  forallb wf_unit ex_units = true /\ List.concat (List.map snd ex_pcs) = script_keys ex_units /\
  forallb (fun u => breaks_at_spaces true (fst u)) ex_units = true.
Proof. vm_compute. repeat split; reflexivity. Qed.

Example C20_nonvacuous_result :
  fst (run init_term false (deliver ex_pcs ++ [keyEnter])) =
  [ Line [str "insert into t  values ('a;""b' ,  2) ;"; str "select ""x'y;"" from t;"] false;
    Line [] false ].
Proof. vm_compute. reflexivity. Qed.

(* literals with backslash escapes: an escaped quote of the literal's own kind and a ';' after it stay
   inside ('it\'s; ok'); a literal ending in an escaped backslash IS closed by the quote after it and the
   next statement on the same line is separate ('C:\\'); escaped double quotes and a ';' inside a
   double-quoted literal ("say \"hi\";"). The first statement is typed over two lines, the third
   and fourth are pasted. *)
Definition esc_units : list (list N * list N) :=
  [ (str "insert into t " ++ br ++ str "values ('it\'s; ok');", br);
    (str "select 'C:\\';", str " ");
    (str "select 2;", br);
    (str "select ""say \""hi\"";"" from t;", br) ].
Definition esc_pcs : list (bool * list N) :=
  [ (false, str "insert into t " ++ br ++ str "values ('it\'s; ok');" ++ br ++ str "select 'C:\\'; ");
    (true, str "select 2;" ++ br ++ str "select ""say \""hi\"";"" from t;" ++ br) ].

Example C20_escapes_hyps :
  forallb wf_unit esc_units = true /\ List.concat (List.map snd esc_pcs) = script_keys esc_units /\
  forallb (fun u => breaks_at_spaces true (fst u)) esc_units = true /\
  forallb (fun u => wf_plain_stmt (fst u)) esc_units = false.
Proof. vm_compute. repeat split; reflexivity. Qed.

Example C20_escapes_result :
  fst (run init_term false (deliver esc_pcs ++ [keyEnter])) =
  [ Line [str "insert into t  values ('it\'s; ok');"] false;
    Line [str "select 'C:\\';"; str "select 2;"] false;
    Line [str "select ""say \""hi\"";"" from t;"] true;   (* typed entirely inside the paste *)
    Line [] false ] /\
  submitted (fst (run init_term false (deliver esc_pcs ++ [keyEnter]))) =
    List.map (fun u => normalise (fst u)) esc_units /\
  List.map (fun u => literals (normalise (fst u))) esc_units =
  [ [str "'it\'s; ok'"]; [str "'C:\\'"]; []; [str """say \""hi\"";"""] ].
Proof. vm_compute. repeat split; reflexivity. Qed.

(* the boolean hypothesis check and the oracle of the correspondence run (Spec/ConsoleSpec.v hyps_hold,
   spec_accepts) accept this script - here with the model's own answer as the observation *)
Example C20_escapes_in_scope_for_the_check :
  let c := mkCase [encode_keys (final_enter esc_pcs)] (Some (esc_units, esc_pcs)) key_consts
                  (session_keys (final_enter esc_pcs)) in
  hyps_hold c = true /\ spec_accepts c = true /\ model_agrees c = true.
Proof. vm_compute. repeat split; reflexivity. Qed.

(* still outside the hypotheses: a break inside a literal; a break between a backslash and the rune
   it escapes; a literal whose only closing quote is escaped (it is not closed: nothing is submitted,
   the console keeps waiting). A backslash OUTSIDE quotes is inside the hypotheses as an ordinary
   rune - but it escapes nothing there: in `select \'a;b';` the quote after it opens a literal
   (that is what splitStatements does, and what the theorem says). *)
Example C20_outside_hypotheses :
  wf_stmt (str "select 'a" ++ br ++ str "b';") = false /\
  wf_stmt (str "select 'a\" ++ br ++ str "'b';") = false /\
  wf_stmt (str "select 'abc\';") = false /\
  fst (run init_term false (str "select 'abc\';" ++ br)) = [] /\
  wf_stmt (str "select 1 \ 2;") = true /\
  wf_stmt (str "select \'a;") = false /\
  wf_stmt (str "select \'a;b';") = true /\
  fst (run init_term false (str "select \'a;b';" ++ br)) = [Line [str "select \'a;b';"] false].
Proof. vm_compute. repeat split; reflexivity. Qed.

(* Enter before the ';' does not submit; the prefix is kept and completed later *)
Example C20_nonvacuous_incomplete :
  fst (run init_term false (str "select 1" ++ br)) = [] /\
  line (fst (snd (run init_term false (str "select 1" ++ br)))) = str "select 1 ".
Proof. vm_compute. split; reflexivity. Qed.

(* why literals must not contain a break: Enter inside a literal is entered as a space *)
Example C20_break_inside_literal_alters_it :
  fst (run init_term false (str "select 'a" ++ br ++ str "b';" ++ br)) = [Line [str "select 'a b';"] false].
Proof. vm_compute. reflexivity. Qed.

(* runTerminal (modelled by hand, see Spec/ConsoleSpec.v handed_to_engine): a line that is pasted
   entirely, Enter included, between ESC[200~ and ESC[201~ is returned by ReadLine together with
   ErrPasteIndicator. Before fix commit 0ba2bad runTerminal treated that as a fatal error (the
   statement was never executed and the console exited); now it is handed to the engine. *)
Example C20_pasted_line_reaches_engine :
  let ks := keyPasteStart :: str "select 1;" ++ br ++ [keyPasteEnd] in
  fst (run init_term false ks) = [Line [str "select 1;"] true] /\
  handed_to_engine (fst (run init_term false ks)) = [str "select 1;"].
Proof. vm_compute. split; reflexivity. Qed.

(* ---- the oracle of the correspondence run and the model (Proofs/ConsoleOracle.v) ----
   `spec_accepts` (Spec/ConsoleSpec.v) judges what Go's successive ReadLine calls returned on a
   scripted case: exactly the normalised statements, in order, then end of input (cases without a
   script are accepted); `hyps_hold` are the hypotheses of C20_submitted as booleans plus "the byte
   chunks are the encoding of the delivered keys"; `model_agrees` compares the observation with the
   byte-level model and, on scripted cases, with the key-level model. *)
From Mkdb Require Import Model.CaseLib Proofs.ConsoleOracle.

(* the oracle accepts the model's own answer on every in-scope script and delivery *)
Theorem C20_oracle_accepts_model : forall chunks us pcs consts,
  forallb wf_unit us = true ->
  List.concat (List.map snd pcs) = script_keys us ->
  spec_accepts (mkCase chunks (Some (us, pcs)) consts (session_keys (final_enter pcs))) = true.
Proof. exact oracle_accepts_model. Qed.
Print Assumptions C20_oracle_accepts_model.

(* hence: the model agrees with Go on a case that satisfies the hypotheses => the oracle accepts
   what Go did. (Only the first two conjuncts of hyps_hold are used here: model_agrees already
   contains the comparison with the key-level model.) *)
Theorem C20_agreement_implies_acceptance : forall c,
  hyps_hold c = true -> model_agrees c = true -> spec_accepts c = true.
Proof. exact agreement_implies_acceptance. Qed.
Print Assumptions C20_agreement_implies_acceptance.

(* hyps_hold is needed. (1) a literal whose only closing quote is escaped is outside the hypotheses:
   nothing is submitted (the console keeps waiting), the model agrees, the oracle - which expects
   the statement - rejects. (2) a delivery that is not a cutting of the script (here it lacks the
   second statement). In both cases the model's own answer is the observation. *)
Example C20_hyps_needed :
  let us1 := [ (str "select 'abc\';", br) ] in
  let pcs1 := [ (false, str "select 'abc\';" ++ br) ] in
  let c1 := mkCase [encode_keys (final_enter pcs1)] (Some (us1, pcs1)) key_consts
                   (session_keys (final_enter pcs1)) in
  let us2 := [ (str "select 1;", br); (str "select 2;", br) ] in
  let pcs2 := [ (false, str "select 1;" ++ br) ] in
  let c2 := mkCase [encode_keys (final_enter pcs2)] (Some (us2, pcs2)) key_consts
                   (session_keys (final_enter pcs2)) in
  hyps_hold c1 = false /\ model_agrees c1 = true /\ spec_accepts c1 = false /\
  hyps_hold c2 = false /\ model_agrees c2 = true /\ spec_accepts c2 = false.
Proof. vm_compute. repeat split; reflexivity. Qed.

(* ---- bytes -> keys, for ALL encodable runes and every cutting into Read chunks ----
   enc_rune r: r is Enter (13) or >= 32, not a surrogate, <= 0x10FFFF (U+FFFD included).
   `next_key` is what readLine takes from bytesToKey: the key, or "no key" when bytesToKey answers
   utf8.RuneError - unless that answer consumed exactly three bytes, which is a typed U+FFFD (fix
   commit f013140). The UTF-8 encoding of an encodable rune (1, 2, 3 or 4 bytes) followed by anything
   yields that rune, in either paste mode; a proper prefix of the encoding is "no key yet". *)
Theorem C20_bytes_to_key_utf8 : forall r tail p,
  enc_rune r = true -> next_key (utf8_encode r ++ tail) p = BKey r tail.
Proof. exact rune_key. Qed.
Print Assumptions C20_bytes_to_key_utf8.

(* bytesToKey itself: the rune, except for U+FFFD where it answers RuneError with 3 bytes consumed *)
Theorem C20_bytes_to_key_utf8_raw : forall r tail p,
  enc_rune r = true ->
  bytes_to_key (utf8_encode r ++ tail) p = if r =? runeError then BNone tail else BKey r tail.
Proof. exact rune_btk. Qed.
Print Assumptions C20_bytes_to_key_utf8_raw.

Theorem C20_partial_rune_waits : forall r a b p,
  enc_rune r = true -> utf8_encode r = a ++ b -> b <> [] ->
  bytes_to_key a p = BNone a /\ next_key a p = BNone a.
Proof. intros r a b p H E B. split; [exact (rune_partial_btk r a b p H E B) | exact (rune_partial r a b p H E B)]. Qed.
Print Assumptions C20_partial_rune_waits.

(* the read loop (256-byte buffer, remainder, chunked Reads of any sizes incl. empty ones and cuts
   inside a rune or a paste marker): on the encoding of an encodable key list (enc_ok: encodable
   runes, ESC[200~ outside and ESC[201~ inside a paste) the byte-level session IS the key-level
   session - this supersedes "tied to Go by the correspondence run only" above for the model side *)
Theorem C20_bytes_are_keys : forall chunks ks,
  enc_ok false ks = true -> List.concat chunks = encode_keys ks ->
  session_bytes chunks = session_keys ks.
Proof. exact bytes_session_is_key_session. Qed.
Print Assumptions C20_bytes_are_keys.

(* so the agreement of the BYTE-level model alone with Go implies the oracle's acceptance *)
Theorem C20_byte_agreement_implies_acceptance : forall c,
  hyps_hold c = true ->
  list_eqb out_eqb (session_bytes (c_chunks c)) (c_obs c) = true -> spec_accepts c = true.
Proof. exact byte_agreement_implies_acceptance. Qed.
Print Assumptions C20_byte_agreement_implies_acceptance.

(* U+FFFD. `valid_rune` admits it, so `select '<U+FFFD>';` is inside the hypotheses of C20_submitted.
   OLD BEHAVIOUR (before fix commit f013140; this theorem then carried a hypothesis `no_fffd` and the
   Example here was C20_fffd_is_dropped): bytesToKey answers utf8.RuneError both for "no key yet" and
   for a decoded U+FFFD, and readLine ended its inner loop on every RuneError - a typed or pasted
   U+FFFD was silently dropped and the bytes after it waited for the next Read: on one chunk followed
   by end of input the byte-level session was [Eof] (nothing submitted), with one more Read it was
   [Line ["select '';"]; Line []; Eof] - the statement WITHOUT the rune; the key-level model submitted
   it with the rune, so the two conjuncts of model_agrees could not both hold.
   NOW readLine compares the number of bytes bytesToKey consumed (3 = a real U+FFFD): the statement is
   submitted intact on the byte level, typed or pasted, also when a Read boundary cuts the three bytes;
   a single invalid byte (1 consumed) still ends the inner loop and is dropped, as before. *)
Example C20_fffd_is_submitted :
  let stmt := str "select '" ++ [65533] ++ str "';" in
  let us := [ (stmt, br); (stmt, br) ] in
  let pcs := [ (false, stmt ++ br); (true, stmt ++ br) ] in
  let b := encode_keys (final_enter pcs) in
  let chunks := [firstn 9 b; firstn 1 (skipn 9 b); skipn 10 b] in     (* EF | BF | BD ... *)
  let c := mkCase chunks (Some (us, pcs)) key_consts (session_bytes chunks) in
  hyps_hold c = true /\ enc_ok false (final_enter pcs) = true /\
  encode_key 65533 = [239; 191; 189] /\ firstn 2 (skipn 8 b) = [239; 191] /\
  session_bytes [b] = [Line [stmt] false; Line [stmt] true; Line [] false; Eof] /\
  session_bytes chunks = session_keys (final_enter pcs) /\
  session_bytes chunks = session_bytes [b] /\
  model_agrees c = true /\ spec_accepts c = true /\
  (* an invalid byte is still dropped and still ends the inner loop: the rest waits for the next Read *)
  session_bytes [[255] ++ str "a;" ++ br] = [Eof] /\
  session_bytes [[255] ++ str "a;" ++ br; []] = [Line [str "a;"] false; Eof].
Proof. vm_compute. repeat split; reflexivity. Qed.

(* non-vacuity: 2-, 3- and 4-byte runes (e-acute, euro sign, U+1F600), a backslash escape, one typed
   and one pasted chunk; the 72 bytes cut into Read chunks inside the 2-, 3- and 4-byte runes and inside both paste
   markers, with an empty Read in between.
   All hypotheses hold, the byte-level and the key-level model agree, the oracle accepts. *)
Definition utf_units : list (list N * list N) :=
  [ (str "insert into t " ++ br ++ str "values ('" ++ [233; 8364] ++ str "\';" ++ [128512] ++ str "');", br);
    (str "select " ++ [233] ++ str " from t;", str " " ++ br) ].
Definition utf_pcs : list (bool * list N) :=
  [ (false, str "insert into t " ++ br ++ str "values ('" ++ [233; 8364] ++ str "\';" ++ [128512] ++ str "');" ++ br);
    (true, str "select " ++ [233] ++ str " from t; " ++ br) ].
Definition utf_chunks : list (list N) :=
  let b := encode_keys (final_enter utf_pcs) in
  [firstn 25 b; firstn 2 (skipn 25 b); []; firstn 7 (skipn 27 b); firstn 9 (skipn 34 b);
   firstn 11 (skipn 43 b); firstn 14 (skipn 54 b); skipn 68 b].

Example C20_byte_oracle_demo :
  let c := mkCase utf_chunks (Some (utf_units, utf_pcs)) key_consts (session_bytes utf_chunks) in
  hyps_hold c = true /\ enc_ok false (final_enter utf_pcs) = true /\
  List.map (@List.length N) utf_chunks = [25; 2; 0; 7; 9; 11; 14; 4]%nat /\
  List.map (fun k => List.length (encode_key k)) [233; 8364; 128512; keyPasteStart] = [2; 3; 4; 6]%nat /\
  session_bytes utf_chunks = session_keys (final_enter utf_pcs) /\
  submitted (session_bytes utf_chunks) = List.map (fun u => normalise (fst u)) utf_units /\
  model_agrees c = true /\ spec_accepts c = true.
Proof. vm_compute. repeat split; reflexivity. Qed.
