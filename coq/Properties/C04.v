(* C04 - placeholder, theorems follow *)
From Mkdb Require Import Spec.HistObs.
