(* C04 - A crash while the page cache is being flushed loses nothing.
   Statements only (proofs: Proofs/CrashTorn.v, Proofs/CrashTornInv.v).

   Event `EvTornFlush W` of Model/Engine.v: flushPages dies after writing exactly the dirty pages
   in W (any subset, any order) and before the header; then InitStorage runs on that file and the
   complete log. `torn_disk y W` is the file such a flush leaves. The model defines it only when
   cache and file differ inside leaves alone - no page allocated and no internal node changed
   since the last completed flush (inserts without split, updates, deletes); any other torn flush
   has half of a structural change on disk and `torn_disk` is None (step: SFail EUnmodelled).

   FULL STATEMENT: REFUTED for structural flushes. The log is logical for inserts (a record names
   the root and the key; the split it caused is not logged), so a flush that wrote the left half
   of a split but not the new right sibling / new root cannot be redone. On the Go side this is
   the recorded finding F15 (known_findings.json: torn_structural_flush; the check replays it:
   8 rows, flush, 9th insert, then writing {left leaf, new root} loses rows 5-9, writing {left
   leaf} alone makes SELECT panic). In the MODEL such a flush is outside `torn_disk`; what is
   stated here (C04_refuted) is exactly that: a reachable system and a page set for which the
   model has no torn file - not a stronger claim about the Go code.

   PARTIAL (C04_partial): for EVERY reachable system (any history of statements, flushes,
   crash-recoveries and crashes inside log appends satisfying C02's `hist_ok`) and EVERY W for
   which the torn file exists, recovery succeeds and restores every table exactly: the recovered
   cache equals the pre-crash cache up to dirty flags. Proof = the per-page LSN argument:
   records whose leaf is in W are skipped (page LSN) or tolerated (key exists, when the skip test
   looked at an unwritten internal root), records whose leaf is not in W are redone on the old
   leaf in log order with the original result; records older than the file are inert on the mix.

   The recovered system also satisfies C02's invariants again - every key and separator is at
   most the row-id counter, every page LSN is below the LSN counter, every log record is inert
   on it - so C02's and C03's theorems (no id reuse, idempotent recovery, further statements,
   further crashes, further torn flushes) apply after it (C04_ids_after_torn_flush,
   C04_continues; C04_second_crash: a crash inside the flush that ends that very recovery): `hist_ok` admits `EvTornFlush W` for any W; if the model has no torn file
   for W the step fails and the history ends there.

   DEFECT FOUND BY THIS PROOF ATTEMPT AND REPAIRED (/repo commit fd49896, model: `bump_key` in
   Model/Engine.v): replay used to advance the row-id counter only for insert records it actually
   re-applied or found present; a record SKIPPED by the page-LSN test (its leaf - being the root -
   was written by the torn flush, the header was not) left lastKey at the stale header value, and
   the next INSERT was refused once with "record already exists" (history: CREATE TABLE t;
   INSERT 1; flush; INSERT 2; torn flush writing t's leaf only; recovery; INSERT 3 -> error). The
   invariant "keys <= lastKey after recovery" was unprovable for the torn state, which exposed it.
   Now the counter is raised for every insert record before the skip test, and the invariant is
   proved (C04_ids_after_torn_flush); C04_no_stale_ids replays the old failing history.

   The last section of the file restates C04_partial / C04_ids_after_torn_flush / C04_continues /
   C04_second_crash WITHOUT the hypotheses (H1) / (H2) of `hist_ok`, under the boolean `hist_ok2`
   (the `_noH1H2` theorems). *)
From Coq Require Import List NArith ZArith String.
From Mkdb Require Import Model.Engine Proofs.TreeProofs Proofs.StoreInv Proofs.CrashBase Proofs.CrashPages
  Proofs.CrashRedo Proofs.CrashLog Proofs.CrashMain Proofs.CrashPrefix Proofs.CrashHist Proofs.CrashTorn
  Proofs.CrashTornInv.
Import ListNotations.
Local Open Scope N_scope.

Theorem C04_partial : forall evs y os W d,
  hist_ok init_sys evs -> run_events init_sys evs = (SOk y, os) -> torn_disk y W = Some d ->
  exists y', recover (mkSys d d (wal y)) = Ok y' /\ step y (EvTornFlush W) = (SOk y', None) /\
             seq (mem y') (mem y) /\ abs (mem y') = abs (mem y).
Proof.
  intros evs y os W d H R T.
  destruct (torn_flush_recovers y W d (ex_intro _ evs (ex_intro _ os (conj H R))) T) as (y' & A & B & C & D & _).
  eauto 6.
Qed.
Print Assumptions C04_partial.

(* after the torn-flush recovery: C11's invariant, every key and separator <= lastKey (the next
   INSERT gets a fresh id), every page LSN < nextLSN (the next record is not skipped) *)
Theorem C04_ids_after_torn_flush : forall evs y os W y',
  hist_ok init_sys evs -> run_events init_sys evs = (SOk y, os) -> step y (EvTornFlush W) = (SOk y', None) ->
  SInv (mem y') /\
  Forall (fun t => Forall (fun k => k <= lastKey (mem y')) (tree_keys t)) (forest (mem y')) /\
  Forall (fun t => Forall (fun n => t_lsn n < nextLSN (mem y')) (nodes t)) (forest (mem y')).
Proof.
  intros evs y os W y' H R Hs. cbn [step] in Hs. destruct (torn_disk y W) as [d|] eqn:T; [|discriminate].
  destruct (torn_flush_recovers y W d (ex_intro _ evs (ex_intro _ os (conj H R))) T) as (y2 & A & _ & _ & _ & G & _).
  rewrite A in Hs. inversion Hs; subst y2. destruct G as [[Gw Gn Gk] [_ Gl]].
  split; [constructor; assumption|]. split; assumption.
Qed.
Print Assumptions C04_ids_after_torn_flush.

(* the recovered system is a system of C02's / C03's / C04's theorems again *)
Theorem C04_continues : forall evs y os W y',
  hist_ok init_sys evs -> run_events init_sys evs = (SOk y, os) -> step y (EvTornFlush W) = (SOk y', None) ->
  exists os', hist_ok init_sys (evs ++ [EvTornFlush W]) /\ run_events init_sys (evs ++ [EvTornFlush W]) = (SOk y', os').
Proof.
  intros evs y os W y' H R Hs.
  assert (G : forall evs y0 os0, hist_ok y0 evs -> run_events y0 evs = (SOk y, os0) ->
              exists os', hist_ok y0 (evs ++ [EvTornFlush W]) /\ run_events y0 (evs ++ [EvTornFlush W]) = (SOk y', os')).
  { clear evs os H R. induction evs as [|ev r IH]; intros y0 os0 Hok Hr.
    - cbn in Hr. inversion Hr; subst y0. cbn [app hist_ok run_events ev_ok]. rewrite Hs.
      eexists. split; [split; [exact I | exact I] | reflexivity].
    - cbn [hist_ok] in Hok. destruct Hok as [Hev Hrest]. cbn [run_events] in Hr.
      destruct (step y0 ev) as [[y2|e|] o] eqn:Es; try discriminate.
      destruct (run_events y2 r) as [fin os'] eqn:Er. inversion Hr; subst.
      destruct (IH y2 os' Hrest Er) as (os2 & A1 & B1).
      cbn [app hist_ok run_events]. rewrite Es, B1. eexists. split; [split; [exact Hev | exact A1] | reflexivity]. }
  exact (G evs init_sys os H R).
Qed.
Print Assumptions C04_continues.

(* a second crash, inside the flush that ends that recovery (InitStorage = replay, then flushPages
   of the replayed cache g' onto the torn file d): the file it leaves after writing the pages W2 is
   the file a single torn flush of the original system would have left with W ++ W2 written - so
   C04_partial covers the restart after it *)
Theorem C04_second_crash : forall evs y os W d g' W2 d2,
  hist_ok init_sys evs -> run_events init_sys evs = (SOk y, os) ->
  torn_disk y W = Some d -> replay d (wal y) = RCont g' ->
  torn_disk (mkSys g' d (wal y)) W2 = Some d2 ->
  torn_disk y (W ++ W2) = Some d2 /\
  exists y', recover (mkSys d2 d2 (wal y)) = Ok y' /\ seq (mem y') (mem y) /\ abs (mem y') = abs (mem y).
Proof.
  intros evs y os W d g' W2 d2 H R T Hr T2.
  pose proof (ex_intro _ evs (ex_intro _ os (conj H R)) : reachable_c y) as Hy.
  destruct (reachable_inv2 y Hy) as [HI HT].
  pose proof (torn_twice y W d g' W2 d2 HI HT T Hr T2) as T3. split; [exact T3|].
  destruct (torn_flush_recovers y (W ++ W2) d2 Hy T3) as (y' & A & B & C & _). eauto.
Qed.
Print Assumptions C04_second_crash.

(* the replay-level core, for any store pair: dsk = the old file (clean pages, C11's invariant, LSN
   discipline), m = the cache, `old` = records inert on dsk, `new` = records whose in-place replay
   from dsk gives the cache, each with an LSN above every page LSN at its turn; fd = any mix of
   the leaves of dsk and m. Replaying the whole log on the mix gives the cache. *)
Theorem C04_torn_replay : forall W dsk m old new r fd,
  Good dsk -> fclean (forest dsk) = forest dsk -> NoDup (all_offsets (forest m)) ->
  LogInv dsk old -> replay dsk new = RCont r -> seq r m -> fresh_run dsk new ->
  nextFree m = nextFree dsk -> ptRoot m = ptRoot dsk ->
  merge_forest W (forest dsk) (forest m) = Some fd ->
  exists g', replay (set_forest dsk fd) (old ++ new) = RCont g' /\ seq g' m.
Proof. exact torn_recover. Qed.
Print Assumptions C04_torn_replay.

(* ---- full statement ---- *)
Definition C04_full_statement : Prop :=
  forall evs y os W,
  Forall (fun ev => match ev with EvStmt _ | EvFlush | EvCrash | EvTornFlush _ => True | _ => False end) evs ->
  run_events init_sys evs = (SOk y, os) ->
  exists y', step y (EvTornFlush W) = (SOk y', None) /\ abs (mem y') = abs (mem y).

Local Open Scope string_scope.
Definition ins (t : string) (i : nat) : event := EvStmt (SInsert t [] [[VInt (Z.of_nat i)]]).

Ltac hist_tac :=
  vm_compute;
  repeat (first [ exact I | split | (intros; discriminate) | reflexivity ]).

(* refutation witness, in the model's terms: 8 rows, flush, the 9th insert splits the leaf (pages
   12288 = old leaf, 16384 = new right leaf, 20480 = new root, 4096 = sys_pages leaf are dirty);
   no subset of a structural flush is a modelled torn file, e.g. "old leaf and new root written" *)
Definition ex_struct : list event :=
  EvStmt (SCreateTable "t" [mkColDef "a" STNumeric]) :: map (ins "t") (List.seq 0 8) ++ [EvFlush; ins "t" 8].

Example C04_refuted :
  exists y os W, run_events init_sys ex_struct = (SOk y, os) /\ hist_ok init_sys ex_struct /\
                 W = [12288; 20480]%N /\ torn_disk y W = None /\
                 step y (EvTornFlush W) = (SFail EUnmodelled, None) /\
                 nextFree (disk y) <> nextFree (mem y).
Proof.
  destruct (run_events init_sys ex_struct) as [fin os] eqn:E.
  vm_compute in E. inversion E; subst. eexists _, _, _. split; [reflexivity|].
  split; [hist_tac|]. split; [reflexivity|]. split; [vm_compute; reflexivity|].
  split; [vm_compute; reflexivity | vm_compute; discriminate].
Qed.

(* ---- non-vacuity of the partial theorem: two tables (t with an internal root: 11 rows; u a
   single leaf), flush, then an insert, an update and a delete on t and an insert on u; the dirty
   leaves are t's rightmost leaf (16384), t's first leaf (12288) and u's leaf; W = one of them ---- *)
Definition ex_inplace : list event :=
  EvStmt (SCreateTable "t" [mkColDef "a" STNumeric]) :: map (ins "t") (List.seq 0 11) ++
  [EvStmt (SCreateTable "u" [mkColDef "b" STNumeric]); ins "u" 1; EvFlush;
   ins "t" 50;
   EvStmt (SUpdate "t" [("a", XLit (VInt 7))] (Some (EPred (XCol (mkCol "" "a")) CEq (XLit (VInt 2)))));
   EvStmt (SDelete "t" (Some (EPred (XCol (mkCol "" "a")) CEq (XLit (VInt 10)))));
   ins "u" 2].

Example C04_nonvacuous :
  exists y os, run_events init_sys ex_inplace = (SOk y, os) /\ hist_ok init_sys ex_inplace /\
    abs (disk y) <> abs (mem y) /\
    forall W, In W [[]; [12288]; [16384]; [12288; 16384]; [16384; 24576]; [12288; 16384; 24576]]%N ->
      exists d, torn_disk y W = Some d.
Proof.
  destruct (run_events init_sys ex_inplace) as [fin os] eqn:E.
  vm_compute in E. inversion E; subst. eexists _, _. split; [reflexivity|].
  split; [hist_tac|]. split; [vm_compute; discriminate|].
  intros W HW. repeat (destruct HW as [<-|HW]; [eexists; vm_compute; reflexivity|]). destruct HW.
Qed.

(* ---- the history that exposed the stale row-id counter, now correct: after the torn flush that
   wrote t's only leaf but not the header, the counter is restored from the (skipped) insert
   record and the next INSERT succeeds ---- *)
Definition ex_stale : list event :=
  [EvStmt (SCreateTable "t" [mkColDef "a" STNumeric]); ins "t" 1; EvFlush; ins "t" 2].

Example C04_no_stale_ids :
  exists y os y', run_events init_sys ex_stale = (SOk y, os) /\ hist_ok init_sys ex_stale /\
    step y (EvTornFlush [12288]%N) = (SOk y', None) /\
    abs (mem y') = abs (mem y) /\
    lastKey (disk y) = 11 /\ lastKey (mem y) = 12 /\ lastKey (mem y') = 12 /\
    e_out (run_stmt (mem y') (SInsert "t" [] [[VInt 3]])) = OOk 1.
Proof.
  destruct (run_events init_sys ex_stale) as [fin os] eqn:E.
  vm_compute in E. inversion E; subst. eexists _, _, _. split; [reflexivity|].
  split; [hist_tac|]. split; [vm_compute; reflexivity|].
  repeat split; vm_compute; reflexivity.
Qed.

(* ---- the oracle of the C04 check (Spec/HistObs.v) and C04_partial ----
   Every run of the check evaluates, per torn image, the case (events, observations) with events =
   the history so far, `HEv (EvTornFlush W)`, a read-back of every table, and `model_agrees` (Go's
   observations equal run_h's) and the strict oracle `spec_accepts_strict` (a torn flush changes
   nothing the specification can see: every table holds exactly what the acknowledged statements
   put there, ids never reused, recovery does not fail). Agreement implies acceptance
   (Proofs/OracleTorn.v) for EVERY case built from statements, flushes, crash-restarts, torn flushes,
   crashes inside a log append, read-backs and page dumps, under boolean hypotheses on the events:
   those of C01 (C01full.v) and `torn_ok`: every `EvTornFlush W` is one for which the model has a
   torn file (the in-place case of C04_partial; for any other W the model's step fails, run_h ends
   with [HOut (OBerr EUnmodelled); HDead] and the oracle REJECTS that - OracleTorn.
   oracle_needs_torn_defined; the check leaves those images to the recorded finding F15), and every
   `EvCrashInLog st j` is as in C03_agreement_implies_acceptance. *)
From Mkdb Require Import Spec.HistObs Proofs.OracleSound Proofs.OracleCrash Proofs.OracleTorn.

Theorem C04_agreement_implies_acceptance : forall c,
  forallb hev_ok (fst c) = true -> forallb hev_stmt_shape (fst c) = true ->
  frontier_ok init_sys (fst c) = true -> reads_cover [] [] [] (fst c) = true ->
  forallb strict_hev (fst c) = true -> torn_ok init_sys (fst c) = true ->
  model_agrees c = true -> spec_accepts_strict c = true.
Proof. exact agreement_implies_strict_acceptance_torn. Qed.
Print Assumptions C04_agreement_implies_acceptance.

Theorem C04_oracle_accepts_model : forall hevs,
  forallb hev_ok hevs = true -> forallb hev_stmt_shape hevs = true ->
  frontier_ok init_sys hevs = true -> reads_cover [] [] [] hevs = true ->
  forallb strict_hev hevs = true -> torn_ok init_sys hevs = true ->
  spec_accepts_strict (hevs, run_h init_sys hevs) = true.
Proof. exact model_passes_oracle_torn_strict. Qed.
Print Assumptions C04_oracle_accepts_model.

(* non-vacuity: ex_inplace (two tables, t with an internal root; after the flush an insert, an
   update and a delete on t and an insert on u are only in the cache and the log), a torn flush that
   writes t's rightmost leaf and u's leaf but not t's first leaf, read-back, a further insert, a
   second torn flush that writes nothing, a refused INSERT, a crash-restart, read-back *)
Definition hx_torn : list hevent :=
  map HEv ex_inplace ++
  [HReadTables ["t"; "u"];
   HEv (EvTornFlush [16384; 24576]%N);
   HReadTables ["t"; "u"];
   HEv (ins "u" 3);
   HEv (EvTornFlush []);
   HEv (EvStmt (SInsert "t" [] [[VInt 2147483648]]));
   HEv EvCrash;
   HReadTables ["t"; "u"; "sys_pages"]].

Example C04_agreement_nonvacuous :
  forallb hev_ok hx_torn = true /\ forallb hev_stmt_shape hx_torn = true /\
  frontier_ok init_sys hx_torn = true /\ reads_cover [] [] [] hx_torn = true /\
  forallb strict_hev hx_torn = true /\ torn_ok init_sys hx_torn = true /\ hist_shape_c hx_torn = false /\
  model_agrees (hx_torn, run_h init_sys hx_torn) = true /\
  spec_accepts_strict (hx_torn, run_h init_sys hx_torn) = true /\
  skipn 19 (map (fun o => match o with HOut x => Some x | _ => None end) (run_h init_sys hx_torn)) =
    [None; Some OBok; None; Some OBok; Some OBok; Some (OBerr EIntRange); Some OBok; None] /\
  (* the read-backs before and after the first torn flush are equal *)
  nth 19 (run_h init_sys hx_torn) HNone = nth 21 (run_h init_sys hx_torn) HNone /\
  match nth 21 (run_h init_sys hx_torn) HNone with
  | HTables [(_, TRows _ r1); (_, TRows _ r2)] => (List.length r1, List.length r2) = (11%nat, 2%nat)
  | _ => False
  end.
Proof. vm_compute. repeat split; reflexivity. Qed.

(* the oracle is not the constant true on such cases: a recovery after the torn flush that lost the
   row only the cache and the log had (u's second row), or that fails, is rejected *)
Definition hx_torn_short : list hevent := map HEv ex_inplace ++ [HEv (EvTornFlush [16384]%N); HReadTables ["u"]].
Example C04_oracle_rejects :
  run_h init_sys hx_torn_short =
    firstn 19 (run_h init_sys hx_torn_short) ++ [HOut OBok; HTables [("u", TRows ["b"] [(24, [VInt 1]); (26, [VInt 2])]%N)]] /\
  spec_accepts_strict (hx_torn_short, run_h init_sys hx_torn_short) = true /\
  spec_accepts_strict (hx_torn_short,
    firstn 19 (run_h init_sys hx_torn_short) ++ [HOut OBok; HTables [("u", TRows ["b"] [(24%N, [VInt 1])])]]) = false /\
  spec_accepts_strict (hx_torn_short, firstn 19 (run_h init_sys hx_torn_short) ++ [HOut (OBerr ECorrupt); HDead]) = false.
Proof. vm_compute. repeat split; reflexivity. Qed.

(* ---- the theorems above WITHOUT (H1) and WITHOUT (H2) ----
   C04_partial / C04_ids_after_torn_flush / C04_continues / C04_second_crash assume C02's `hist_ok`
   of the history: (H1) `stmt_atomic` and (H2) `stmt_moves_ok` for every statement. Both are derived
   here, as in C02's sections E / F and in C03's section (3), from the refinement invariant
   `SelfOk (mem y) /\ exists d, Rep (mem y) d`, which Proofs/MovesFromRep.v RInv_step re-establishes
   after the recovery that `EvTornFlush W` performs (the recovered cache equals the lost one up to
   dirty flags) and after the one of `EvCrashInLog st j`. So both events are events of the boolean,
   H-free histories `hist_ok2` (Proofs/HistNoH1.v), with `ev_ok2 y (EvTornFlush W) = true`: a torn
   flush asks nothing (when the model has no torn file for W the step fails and the history ends
   there). No further side condition is needed. C04_continues_noH1H2 returns `hist_ok2` of the
   extended history, so the theorems chain. *)
From Mkdb Require Import Proofs.RefineRep Proofs.MovesFromRep Proofs.HistNoH1 Proofs.CrashNoH.

Theorem C04_partial_noH1H2 : forall evs y os W d,
  hist_ok2 init_sys evs = true -> run_events init_sys evs = (SOk y, os) -> torn_disk y W = Some d ->
  exists y', recover (mkSys d d (wal y)) = Ok y' /\ step y (EvTornFlush W) = (SOk y', None) /\
             CrashBase.seq (mem y') (mem y) /\ abs (mem y') = abs (mem y).
Proof. intros evs y os W d H. exact (C04_partial evs y os W d (hist_ok2_hist_ok evs H)). Qed.
Print Assumptions C04_partial_noH1H2.

Theorem C04_ids_after_torn_flush_noH1H2 : forall evs y os W y',
  hist_ok2 init_sys evs = true -> run_events init_sys evs = (SOk y, os) -> step y (EvTornFlush W) = (SOk y', None) ->
  SInv (mem y') /\
  Forall (fun t => Forall (fun k => k <= lastKey (mem y')) (tree_keys t)) (forest (mem y')) /\
  Forall (fun t => Forall (fun n => t_lsn n < nextLSN (mem y')) (nodes t)) (forest (mem y')).
Proof. intros evs y os W y' H. exact (C04_ids_after_torn_flush evs y os W y' (hist_ok2_hist_ok evs H)). Qed.
Print Assumptions C04_ids_after_torn_flush_noH1H2.

Theorem C04_continues_noH1H2 : forall evs y os W y',
  hist_ok2 init_sys evs = true -> run_events init_sys evs = (SOk y, os) -> step y (EvTornFlush W) = (SOk y', None) ->
  exists os', hist_ok2 init_sys (evs ++ [EvTornFlush W]) = true /\
              run_events init_sys (evs ++ [EvTornFlush W]) = (SOk y', os').
Proof. exact torn_flush_continues_noH. Qed.
Print Assumptions C04_continues_noH1H2.

Theorem C04_second_crash_noH1H2 : forall evs y os W d g' W2 d2,
  hist_ok2 init_sys evs = true -> run_events init_sys evs = (SOk y, os) ->
  torn_disk y W = Some d -> replay d (wal y) = RCont g' ->
  torn_disk (mkSys g' d (wal y)) W2 = Some d2 ->
  torn_disk y (W ++ W2) = Some d2 /\
  exists y', recover (mkSys d2 d2 (wal y)) = Ok y' /\ CrashBase.seq (mem y') (mem y) /\ abs (mem y') = abs (mem y).
Proof. intros evs y os W d g' W2 d2 H. exact (C04_second_crash evs y os W d g' W2 d2 (hist_ok2_hist_ok evs H)). Qed.
Print Assumptions C04_second_crash_noH1H2.

(* ... and after it the cache represents a database of the specification again *)
Theorem C04_rep_after_torn_flush : forall evs y os,
  hist_ok2 init_sys evs = true -> run_events init_sys evs = (SOk y, os) ->
  SelfOk (mem y) /\ exists d, Rep (mem y) d.
Proof. exact hist_ok2_rep_all. Qed.
Print Assumptions C04_rep_after_torn_flush.

(* non-vacuity: ex_inplace, a torn flush that writes t's rightmost leaf and u's leaf but not t's
   first leaf (the model has a torn file for it, and the file differs from the cache), a further
   insert, a second torn flush that writes nothing, a refused INSERT, a crash inside the log append
   of a DELETE, a crash-restart: the history satisfies the boolean hypothesis and no step fails *)
Definition ex_torn_hist : list event :=
  ex_inplace ++
  [EvTornFlush [16384; 24576]%N;
   ins "u" 3;
   EvTornFlush [];
   EvStmt (SInsert "t" [] [[VInt 2147483648]]);
   EvCrashInLog (SDelete "t" (Some (EPred (XCol (mkCol "" "a")) CLt (XLit (VInt 3))))) 1;
   EvCrash].

Example C04_noH1H2_nonvacuous :
  hist_ok2 init_sys ex_torn_hist = true /\
  (exists y os d, run_events init_sys ex_inplace = (SOk y, os) /\
                  torn_disk y [16384; 24576]%N = Some d /\ abs d <> abs (mem y)) /\
  match run_events init_sys ex_torn_hist with
  | (SOk y, os) =>
      skipn 19 os = [None; Some (OOk 1); None; Some (OErr EIntRange); None; None] /\
      (match st_fetch (mem y) "t" with Ok (rows, _) => List.length rows | _ => O end) = 10%nat /\
      (match st_fetch (mem y) "u" with Ok (rows, _) => List.length rows | _ => O end) = 3%nat
  | _ => False
  end.
Proof.
  split; [vm_compute; reflexivity|]. split.
  - destruct (run_events init_sys ex_inplace) as [fin os] eqn:E.
    vm_compute in E. inversion E; subst. eexists _, _, _. split; [reflexivity|].
    split; [vm_compute; reflexivity | vm_compute; discriminate].
  - vm_compute. repeat split; reflexivity.
Qed.
