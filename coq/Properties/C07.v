(* C07 - COUNT, AVG and GROUP BY compute true aggregates.
   Statements only; proofs are `exact`/one-line uses of lemmas in Proofs/SelectC07*.v.

   agg_run sl gb fs base : the two aggregate steps of EvaluateSelect (projectColumns seeding +
                           aggregateRows) of Model/Select.v on the rows `base` left by FROM/WHERE
                           (fields fs), select list sl, GROUP BY list gb
   AggSpec               : Spec/SelectSpec.v - without GROUP BY one row over the whole input
                           (all zeros when it is empty); with GROUP BY rows with pairwise
                           different grouping values, exactly the grouping values of the input,
                           each row computed over the input rows with its grouping values:
                           COUNT( * ) = size, COUNT(c) = non-NULL count, AVG(c) = an integer
                           nearest to sum/size
   agg_typed (boolean)   : every select item is a plain column, COUNT or AVG; grouping columns
                           = plain columns of the select list (named by name, qualifier or
                           alias); columns resolve; AVG arguments are integers
   grp_for .. o          : the input rows output row o stands for
   KNOWN FINDING: AVG is a running rounded average; the full statement is refuted below. *)
From Coq Require Import ZArith String Bool List Permutation.
From Mkdb Require Import Model.Select Spec.SelectSpec Proofs.SelectAggCols Proofs.SelectC07 Proofs.SelectC07Main
     Proofs.SelectGroupKey.
Import ListNotations.

Definition C07_full_statement : Prop :=
  forall sl gb fs base, agg_typed sl gb fs base = true ->
    exists out, agg_run sl gb fs base = Ok out /\ AggSpec sl gb fs base out.

(* what IS proved: everything except AVG cells of groups with three or more rows *)
Theorem C07_model_meets_spec_partial : forall sl gb fs base,
  agg_typed sl gb fs base = true ->
  exists out, agg_run sl gb fs base = Ok out /\ AggSpecLenient sl gb fs base out.
Proof. exact agg_model_lenient. Qed.
Print Assumptions C07_model_meets_spec_partial.

(* COUNT( * ) = group size, COUNT(col) = non-NULL count, grouping columns carry the group's
   values - for every group size *)
Theorem C07_count : forall sl gb fs base,
  agg_typed sl gb fs base = true ->
  exists out, agg_run sl gb fs base = Ok out /\
    forall o, In o out ->
      Forall2 (fun d v => (is_avg d = false \/ (List.length (grp_for sl gb fs base o) <= 2)%nat) ->
                          cell_ok d fs (grp_for sl gb fs base o) v = true) sl o.
Proof. exact agg_cells_correct. Qed.
Print Assumptions C07_count.

(* exactly one result row per distinct combination of grouping values: two input rows fall
   into the same output row iff all their grouping values are equal (the rows of out have
   pairwise different grouping values, and these are exactly the ones that occur in base) *)
Theorem C07_groups : forall sl gb fs base,
  gb <> [] -> agg_typed sl gb fs base = true ->
  exists out, agg_run sl gb fs base = Ok out /\
    NoDup (map (key_of_out sl) out) /\
    (forall k, In k (map (key_of_out sl) out) <-> In k (map (key_of_base sl fs) base)).
Proof. exact agg_groups. Qed.
Print Assumptions C07_groups.

(* without GROUP BY an empty input gives one all-zero row *)
Theorem C07_empty : forall sl fs,
  agg_typed sl [] fs [] = true -> agg_run sl [] fs [] = Ok [map (fun _ => VInt 0) sl].
Proof. exact agg_empty. Qed.
Print Assumptions C07_empty.

(* AVG over a group of one or two rows is the correctly rounded mean *)
Theorem C07_avg_two_rows : forall sl gb fs base,
  agg_typed sl gb fs base = true ->
  exists out, agg_run sl gb fs base = Ok out /\
    forall o, In o out -> (List.length (grp_for sl gb fs base o) <= 2)%nat ->
      Forall2 (fun d v => cell_ok d fs (grp_for sl gb fs base o) v = true) sl o.
Proof. exact agg_avg_two_rows. Qed.
Print Assumptions C07_avg_two_rows.

(* queries without AVG meet the full specification, and their result (as a multiset) does
   not depend on the order of the input rows *)
Theorem C07_no_avg_meets_spec : forall sl gb fs base,
  no_avg sl = true -> agg_typed sl gb fs base = true ->
  exists out, agg_run sl gb fs base = Ok out /\ AggSpec sl gb fs base out.
Proof. exact agg_no_avg_full. Qed.
Print Assumptions C07_no_avg_meets_spec.

Theorem C07_perm_invariant : forall sl gb fs base base',
  no_avg sl = true -> agg_typed sl gb fs base = true -> Permutation base base' ->
  exists out out', agg_run sl gb fs base = Ok out /\ agg_run sl gb fs base' = Ok out' /\ Permutation out out'.
Proof. exact agg_perm_invariant. Qed.
Print Assumptions C07_perm_invariant.

(* the checker run on Go's rows decides AggSpec *)
Theorem C07_checker_sound : forall sl gb fs base out, check_agg sl gb fs base out = true -> AggSpec sl gb fs base out.
Proof. intros. apply check_agg_iff. assumption. Qed.
Theorem C07_checker_complete : forall sl gb fs base out, AggSpec sl gb fs base out -> check_agg sl gb fs base out = true.
Proof. intros. apply check_agg_iff. assumption. Qed.
Print Assumptions C07_checker_sound.
Print Assumptions C07_checker_complete.

(* the model keys groups by the list of grouping values, the code by the concatenation of
   Sprintf("%#v,", v): that string determines the list, for the quoting of strings modelled in
   Proofs/SelectGroupKey.v (quote = strconv.Quote on printable ASCII) and any rendering of
   integers that is injective, comma-free and starts with a digit or '-' *)
Theorem C07_group_key_injective : forall render_int : Z -> string,
  (forall x y, render_int x = render_int y -> x = y) ->
  (forall x, no_comma (render_int x)) ->
  (forall x, match render_int x with
             | String c _ => c <> dq /\ c <> "t"%char /\ c <> "f"%char /\ c <> "<"%char
             | EmptyString => False end) ->
  forall vs vs', key_string (render render_int) vs = key_string (render render_int) vs' -> vs = vs'.
Proof. exact group_key_injective. Qed.
Print Assumptions C07_group_key_injective.

(* ---- the refutation: AVG over [1;0;0] is 1, the mean is 1/3 ---- *)
Open Scope string_scope.
Example C07_witness_typed : agg_typed w_sl [] w_fs w_base = true.
Proof. vm_compute. reflexivity. Qed.

Example C07_witness_result : agg_run w_sl [] w_fs w_base = Ok [[VInt 1]].
Proof. vm_compute. reflexivity. Qed.

Theorem C07_avg_refuted : ~ C07_full_statement.
Proof. exact full_statement_refuted. Qed.
Print Assumptions C07_avg_refuted.

(* and it depends on the order of the rows: the same rows, reversed, give 0 *)
Example C07_avg_order_dependent :
  agg_run w_sl [] w_fs (rev w_base) = Ok [[VInt 0]] /\ agg_run w_sl [] w_fs w_base = Ok [[VInt 1]].
Proof. vm_compute. split; reflexivity. Qed.

(* non-vacuity: a grouped query by alias with COUNT( * ), COUNT(col) and AVG over groups of
   two rows, adversarial keys (1,23)/(12,3); typed, and the model's answer is the expected one *)
Definition nv_fs : list field := [("t", "a"); ("t", "b"); ("t", "c")].
Definition nv_sl : list derivedcol :=
  [mkDC (SPCount None) ""; mkDC (SPExpr (EVal (XCol (mkCol "t" "a")))) "k"; mkDC (SPExpr (EVal (XCol (mkCol "" "b")))) "";
   mkDC (SPCount (Some (mkCol "" "c"))) ""; mkDC (SPAvg (mkCol "" "b")) ""].
Definition nv_gb : list colref := [mkCol "" "b"; mkCol "" "k"].
Definition nv_base : list row :=
  [[VInt 1; VInt 23; VNull]; [VInt 12; VInt 3; VStr "x"]; [VInt 1; VInt 23; VStr "y"]; [VInt 12; VInt 3; VNull]; [VInt 1; VInt 2; VNull]].

Example C07_nonvacuous :
  agg_typed nv_sl nv_gb nv_fs nv_base = true /\
  agg_run nv_sl nv_gb nv_fs nv_base =
    Ok [[VInt 2; VInt 1; VInt 23; VInt 1; VInt 23]; [VInt 2; VInt 12; VInt 3; VInt 1; VInt 3]; [VInt 1; VInt 1; VInt 2; VInt 0; VInt 2]].
Proof. vm_compute. split; reflexivity. Qed.

(* ====================================================================================================
   ORACLE vs. THEOREM (Proofs/SelectOracle.v). The correspondence run judges what Go returned with
   sm_c07 (Spec/SelectObs.v): on an aggregate query without LIMIT / OFFSET whose input (FROM: any join tree,
   then WHERE: agg_input) is defined and agg_typed,
     - if some ORDER BY column has to be rejected in the header of the result (sort_must_reject: unknown, or
       unqualified and ambiguous - SelectObs.must_reject), Go must refuse (an error value, no rows);
     - otherwise Go must return rows that check_agg accepts against that input, under the declarative header,
       sorted by the ORDER BY keys (when every key names exactly one column);
   other queries are outside C07 and accepted. sm_c07_lenient is the same with the lenient cell test (an AVG
   cell of a group of three or more rows only has to be an integer). mm_select is the comparison of Go's answer
   with `select`.

   Hypotheses (booleans on the case, Proofs/SelectOracle.v):
     hyp_c07  = db_wf d (tables as storage.Fetch returns them: needed for ORDER BY on the result)
     f8b_free = no avg() in the select list, or every group of the declarative input has at most two rows.
                This excludes exactly the recorded finding F8b (C07_avg_refuted: AVG is a running rounded
                average); the oracle sm_c07 rejects the model there, rightly (C07_agreement_needs_f8b_free).
   Under hyp_c07 alone agreement implies acceptance by sm_c07_lenient - COUNT, grouping, AVG over at most two
   rows, refusal of unresolvable ORDER BY columns, for ALL aggregate queries; under hyp_c07 and f8b_free it
   implies acceptance by sm_c07.
   The link to the theorems above: select_core = agg_run on a permutation of the declarative input (the model's
   join order) followed by the resolution of the sort keys, C07_model_meets_spec_partial / C07_no_avg_meets_spec
   on that permutation, and AggSpec(Lenient) depends neither on the order of the input rows nor on the order of
   the result rows. *)
From Mkdb Require Import Spec.SelectObs Proofs.SelectOracle.

Theorem C07_agreement_implies_acceptance : forall c,
  hyp_c07 c = true -> f8b_free c = true -> mm_select c = true -> sm_c07 c = true.
Proof. exact c07_agreement_implies_acceptance. Qed.
Print Assumptions C07_agreement_implies_acceptance.

Theorem C07_agreement_implies_lenient_acceptance : forall c,
  hyp_c07 c = true -> mm_select c = true -> sm_c07_lenient c = true.
Proof. exact c07_agreement_implies_lenient_acceptance. Qed.
Print Assumptions C07_agreement_implies_lenient_acceptance.

(* non-vacuity: the grouped query nv_sl / nv_gb over a table, ORDER BY k DESC (two groups tie on k = 1), with
   AVG over groups of two rows: Go returns the tie group in the other order; the case is in the oracle's scope
   (wt_c07), agrees and is accepted; with a count changed it neither agrees nor is accepted *)
Definition ag_db : db := [("t", ["a"; "b"; "c"], nv_base)].
Definition ag_q : select_stmt :=
  mkSelect nv_sl [TRName "t" None] None nv_gb [mkSort (mkCol "" "k") SDesc] false false 0 0.
Definition ag_hdr : list field := [("", "count(*)"); ("t", "k"); ("t", "b"); ("", "count(c)"); ("", "avg(b)")].

Example C07_agreement_nonvacuous :
  let good := (ag_db, ag_q, GOk ag_hdr [[VInt 2; VInt 12; VInt 3; VInt 1; VInt 3]; [VInt 1; VInt 1; VInt 2; VInt 0; VInt 2];
                                        [VInt 2; VInt 1; VInt 23; VInt 1; VInt 23]]) in
  let bad := (ag_db, ag_q, GOk ag_hdr [[VInt 2; VInt 12; VInt 3; VInt 1; VInt 3]; [VInt 1; VInt 1; VInt 2; VInt 0; VInt 2];
                                       [VInt 2; VInt 1; VInt 23; VInt 2; VInt 23]]) in
  hyp_c07 good = true /\ f8b_free good = true /\ no_avg (sel_list ag_q) = false /\ wt_c07 good = true /\
  mm_select good = true /\ sm_c07 good = true /\ mm_select bad = false /\ sm_c07 bad = false.
Proof. vm_compute. repeat split; reflexivity. Qed.

(* an aggregate over a RIGHT join (the model's row order is not the declarative one), AVG over a group of six
   rows: outside f8b_free, inside the lenient theorem *)
Definition ag_db2 : db :=
  [("t", ["a"; "b"; "c"], nv_base); ("u", ["a"; "z"], [[VInt 1; VInt 5]; [VInt 1; VInt 6]; [VInt 7; VInt 7]])].
Definition ag_q2 : select_stmt :=
  mkSelect [mkDC (SPExpr (EVal (XCol (mkCol "t" "a")))) "k"; mkDC (SPCount None) ""; mkDC (SPCount (Some (mkCol "t" "c"))) "n";
            mkDC (SPAvg (mkCol "u" "z")) ""]
           [TRJoin (TRName "t" None) JRight (TRName "u" None) (EPred (XCol (mkCol "t" "a")) CEq (XCol (mkCol "u" "a")))]
           None [mkCol "" "k"] [mkSort (mkCol "" "n") SAsc] false false 0 0.

Example C07_agreement_nonvacuous_join :
  let c := (ag_db2, ag_q2, GOk [("t", "k"); ("", "count(*)"); ("", "n"); ("", "avg(u.z)")]
                               [[VNull; VInt 1; VInt 0; VInt 7]; [VInt 1; VInt 6; VInt 2; VInt 5]]) in
  hyp_c07 c = true /\ f8b_free c = false /\ wt_c07 c = true /\ mm_select c = true /\ sm_c07_lenient c = true.
Proof. vm_compute. repeat split; reflexivity. Qed.

(* each hypothesis is needed: without it the oracle rejects the model's own behaviour.
   (1) f8b_free: the witness of C07_avg_refuted. Here the oracle is RIGHT and the model (= the code) wrong:
   this is the known finding F8b, and the only disagreement between sm_c07 and the model inside hyp_c07. *)
Example C07_agreement_needs_f8b_free :
  let c := ([("t", ["v"], w_base)], mkSelect w_sl [TRName "t" None] None [] [] false false 0 0, GOk [("", "avg(v)")] [[VInt 1]]) in
  hyp_c07 c = true /\ f8b_free c = false /\ mm_select c = true /\ sm_c07 c = false /\ sm_c07_lenient c = true.
Proof. vm_compute. repeat split; reflexivity. Qed.

(* an ORDER BY column that is not in the result (and one that is ambiguous in it): the engine refuses
   (ErrSortFieldNotFound / ErrFieldAmbiguous), model and Go agree, and the oracle accepts the refusal - it needs
   no hypothesis on the sort keys; rows for such a query (here: the rows of the query without ORDER BY) neither
   agree with the model nor are accepted *)
Example C07_agreement_sort_key_refusal :
  let q_unknown := mkSelect nv_sl [TRName "t" None] None nv_gb [mkSort (mkCol "" "nosuch") SAsc] false false 0 0 in
  let sl2 := [mkDC (SPExpr (EVal (XCol (mkCol "" "a")))) "k"; mkDC (SPExpr (EVal (XCol (mkCol "" "b")))) "k"; mkDC (SPCount None) ""] in
  let q_ambig := mkSelect sl2 [TRName "t" None] None [mkCol "" "a"; mkCol "" "b"] [mkSort (mkCol "" "k") SAsc] false false 0 0 in
  let c1 := (ag_db, q_unknown, GErr ESortFieldNotFound) in
  let c2 := (ag_db, q_ambig, GErr EFieldAmbiguous) in
  let rows := (ag_db, q_unknown, GOk ag_hdr [[VInt 2; VInt 1; VInt 23; VInt 1; VInt 23]; [VInt 2; VInt 12; VInt 3; VInt 1; VInt 3];
                                             [VInt 1; VInt 1; VInt 2; VInt 0; VInt 2]]) in
  hyp_c07 c1 = true /\ f8b_free c1 = true /\ wt_c07 c1 = true /\ mm_select c1 = true /\ sm_c07 c1 = true /\ sm_c07_lenient c1 = true /\
  hyp_c07 c2 = true /\ wt_c07 c2 = true /\ mm_select c2 = true /\ sm_c07 c2 = true /\
  mm_select rows = false /\ sm_c07 rows = false /\ sm_c07_lenient rows = false.
Proof. vm_compute. repeat split; reflexivity. Qed.

(* (2) db_wf: a grouping column holding an int and a string under ORDER BY: the sort comparison panics *)
Example C07_agreement_needs_db_wf :
  let c := ([("t", ["a"], [[VInt 1]; [VStr "x"]])],
            mkSelect [mkDC (SPExpr (EVal (XCol (mkCol "" "a")))) ""; mkDC (SPCount None) ""] [TRName "t" None] None
                     [mkCol "" "a"] [mkSort (mkCol "" "a") SAsc] false false 0 0, GPanic) in
  hyp_c07 c = false /\ f8b_free c = true /\ wt_c07 c = true /\ mm_select c = true /\ sm_c07 c = false.
Proof. vm_compute. repeat split; reflexivity. Qed.
