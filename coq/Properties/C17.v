(* C17 - placeholder, theorems follow *)
From Mkdb Require Import Spec.SessionObs.
