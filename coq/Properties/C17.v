(* C17 - Databases are isolated and survive any USE / restart pattern.
   Statements only; proofs are in Proofs/SessionStore.v (one database) and Proofs/SessionProofs.v
   (the session), built on the refinement development (Proofs/Refine*.v: `Rep s d`, store s
   represents specification database d) and on the crash development (Proofs/Crash*.v: `Inv y`,
   replaying the log on the data file gives the cache).

   Model/Session.v: sess = (dbs : name -> (cache, data file, log), cur : selected name);
   sess_step runs ONE event: a statement (CREATE DATABASE / USE / SHOW DATABASES / CREATE TABLE /
   INSERT / UPDATE / DELETE / SELECT), a timer tick of the selected database's flusher, or a
   restart (clean: Session.Close first; unclean: every cache is lost) which runs recovery on every
   database. `sess_run init_sess evs` runs ANY finite list of events, RESTARTS INCLUDED.

   The specification state is that of Spec/SessionObs.v sess_spec_ok: `sess_spec_run [] None evs os`
   = one specification database per created name + the selected name, computed from the events
   and their observed outcomes only (CREATE DATABASE ok adds []; an acknowledged statement applies
   TableSpec's spec_exec to the selected database's entry; USE ok selects; restart deselects;
   everything else changes nothing).

   Theorems (all for event lists of any length over any number of databases):
   1 C17_errors_change_nothing  CREATE DATABASE / USE returning an error leave the session state equal
   2 C17_show_lists_created     SHOW DATABASES = sorted lower-cased names of the successful CREATE
                                DATABASEs; keys pairwise distinct.              NO hypothesis.
   3 C17_frame                  a statement / tick / USE touches only the selected (and newly selected)
                                database.                                       NO hypothesis.
   4 C17_isolation              for every database n: its specification database d_n is exactly
                                TableSpec.spec_run [] (the statements acknowledged while n was selected),
                                and the LOGICAL store of n (cache if selected, data file otherwise)
                                represents d_n (`Rep`), hence every user table of n reads as d_n says
                                (`table_agrees`) - whatever USE switches, re-USEs, failed USEs, ticks,
                                clean and unclean restarts happened in between.
     C17_never_fails            along such a run no event fails or panics (recovery included).
     C17_isolation_all_histories / C17_never_fails_all_histories: the same WITHOUT hypothesis (i)
                                below (`sess_hyps2`): since the repair of findings F11a-c (every row /
                                catalog row is checked before the first change) a failing statement
                                returns the store it was given - derived from the refinement invariant
                                in Proofs/FailsEarly.v (stmt_err_unchanged), used by
                                SessionStore.DbInv_exec2. Failing statements of ANY kind may occur
                                anywhere in the run.
   Hypotheses of 4 (`sess_hyps`, a boolean evaluated along the run; only DDL/DML statements issued
   while a database is selected are constrained, through SessionStore.stmt_hyp on the selected cache;
   `sess_hyps2` / SessionStore.stmt_hyp2 = (ii)-(iv) only):
     (i)   [C17_isolation / C17_never_fails only; no longer needed] a FAILING statement fails before
           its first page change (Atomic.fails_early), as in C01full / C14 / C02's (H1);
     (ii)  RefineMain.stmt_ok: literals are Go values (int64, strings < 4 GiB);
     (iii) the data file stays below 2^63 bytes (per statement);
     (iv)  stmt_moves_okb: C02's (H2) (when an INSERT moves its table's root, the catalog row found by
           name is the first one holding the old root), as a boolean.
   C17_hyps_satisfiable: a history with two databases, a duplicate CREATE DATABASE, failed USEs (with
   and without a selected database), USE switches, a re-USE, a tick, a failing statement, an unclean
   and a clean restart meets them. C17_full_statement drops ALL hypotheses ((ii)-(iv) included) and is
   left as a definition; its former refutation (C17_full_refuted: finding F11a inside one database)
   is gone - that run now satisfies the agreement (C17_former_witness_agrees), and
   C17_all_histories_nonvacuous runs failing multi-row INSERT / UPDATE / CREATE TABLE statements
   across USE switches and an unclean restart. *)
From Coq Require Import List NArith ZArith String Bool.
From Mkdb Require Import Model.Engine Model.Session Spec.TableSpec Spec.HistObs Spec.SessionObs
  Proofs.RefineRep Proofs.RefineMain Proofs.SessionStore Proofs.SessionProofs Properties.C01.
Import ListNotations.
Local Open Scope string_scope.

(* ---- 1. errors change nothing, and the session stays usable ---- *)
Theorem C17_errors_change_nothing : forall s name s' e,
  (sess_stmt s (SCreateDatabase name) = (s', SOErr e) -> s' = s /\ forall st, sess_stmt s' st = sess_stmt s st) /\
  (sess_stmt s (SUse name) = (s', SOErr e) -> s' = s /\ forall st, sess_stmt s' st = sess_stmt s st).
Proof.
  intros s name s' e. split; intros H.
  - apply create_database_err in H. subst. auto.
  - apply use_err in H. subst. auto.
Qed.
Print Assumptions C17_errors_change_nothing.

(* a statement issued with no database selected: error, nothing changes *)
Theorem C17_no_database_selected : forall s st,
  cur s = None -> is_session_stmt st = false -> sess_stmt s st = (s, SOErr SENoDB).
Proof. exact no_database_selected. Qed.
Print Assumptions C17_no_database_selected.

(* ---- 2. SHOW DATABASES ---- *)
Theorem C17_show_lists_created : forall evs s os,
  sess_run init_sess evs = (Ok s, os) ->
  sess_stmt s SShowDatabase = (s, SOShow (sort_strs (created evs os))) /\
  map fst (dbs s) = created evs os /\ NoDup (created evs os) /\
  Forall (fun n => lower n = n) (created evs os).
Proof. exact show_lists_created. Qed.
Print Assumptions C17_show_lists_created.

(* ---- 3. frame ---- *)
Theorem C17_frame : forall s n,
  (* DDL / DML / SELECT / SHOW / USE: only the selected and the newly selected database *)
  (forall st, (forall name, st <> SCreateDatabase name) -> cur s <> Some n ->
              (forall name, st = SUse name -> lower name <> n) ->
              get_db n (dbs (fst (sess_stmt s st))) = get_db n (dbs s)) /\
  (* tick: only the selected database *)
  (forall s1 o, cur s <> Some n -> sess_step s SvTick = (Ok s1, o) -> get_db n (dbs s1) = get_db n (dbs s)) /\
  (* CREATE DATABASE: no existing database *)
  (forall name, get_db n (dbs s) <> None ->
                get_db n (dbs (fst (sess_stmt s (SCreateDatabase name)))) = get_db n (dbs s)).
Proof.
  intros s n. split; [intros st; apply frame_stmt|]. split; [intros s1 o; apply frame_tick | intros name; apply frame_create].
Qed.
Print Assumptions C17_frame.

(* ---- 4. isolation ---- *)
Theorem C17_isolation : forall evs s os,
  sess_hyps init_sess evs = true ->
  sess_run init_sess evs = (Ok s, os) ->
  let sp := fst (sess_spec_run [] None evs os) in
  snd (sess_spec_run [] None evs os) = cur s /\
  map fst (dbs s) = map fst sp /\
  forall n d, sp_get n sp = Some d ->
    d = TableSpec.spec_run [] (stmts_while n None evs os) /\
    exists y, get_db n (dbs s) = Some y /\
              Rep (logical (cur s) n y) d /\
              forall t, is_sys t = false -> table_agrees (logical (cur s) n y) d t.
Proof. exact isolation. Qed.
Print Assumptions C17_isolation.

Theorem C17_never_fails : forall evs fin os,
  sess_hyps init_sess evs = true -> sess_run init_sess evs = (fin, os) -> exists s, fin = Ok s.
Proof. exact sess_run_total. Qed.
Print Assumptions C17_never_fails.

(* the two invariants behind 4, per database, in every reachable session state: a non-selected
   database is closed (cache = data file) *)
Theorem C17_invariant : forall s, reachable s -> exists sp, SessInv s sp.
Proof. exact reachable_inv. Qed.
Print Assumptions C17_invariant.

(* ---- full statement: no hypothesis on the statements ---- *)
Definition C17_full_statement : Prop :=
  forall evs s os, sess_run init_sess evs = (Ok s, os) ->
  forall n d, sp_get n (fst (sess_spec_run [] None evs os)) = Some d ->
  exists y, get_db n (dbs s) = Some y /\
            forall t, is_sys t = false -> table_agrees (logical (cur s) n y) d t.

(* ---- 5. non-vacuity ---- *)
Definition evs_demo : list sevent :=
  [SvStmt (SInsert "t" [] [[VInt 1]]);                                  (* no database selected *)
   SvStmt (SCreateDatabase "Shop");
   SvStmt (SCreateDatabase "hr");
   SvStmt (SCreateDatabase "SHOP");                                     (* exists: names are lower-cased *)
   SvStmt (SUse "nosuch");                                              (* failed USE, nothing selected *)
   SvStmt (SUse "shop");
   SvStmt (SCreateTable "t" [mkColDef "a" STNumeric; mkColDef "b" (STVarchar 10)]);
   SvStmt (SInsert "t" [] [[VInt 1; VStr "x"]; [VInt 2; VNull]]);
   SvStmt (SUse "hr");
   SvStmt (SCreateTable "t" [mkColDef "k" STBigInt]);                   (* same table name, other database *)
   SvStmt (SInsert "t" [] [[VInt 10]]);
   SvStmt (SUse "nosuch");                                              (* failed USE: hr stays selected *)
   SvStmt (SInsert "t" [] [[VInt 11]]);
   SvStmt (SUse "HR");                                                  (* re-USE of the current database *)
   SvTick;
   SvStmt (SInsert "t" [] [[VInt 12]]);
   SvStmt (SInsert "nosuch" [] [[VInt 1]]);                             (* failing statement *)
   SvStmt (SUse "shop");
   SvStmt (SUpdate "t" [("b", XLit (VStr "y"))] (Some (EPred (XCol (mkCol "" "a")) CEq (XLit (VInt 2)))));
   SvStmt SShowDatabase;
   SvRestart false;                                                     (* crash: the UPDATE is only in the log *)
   SvStmt (SDelete "t" None);                                           (* nothing selected after a restart *)
   SvStmt (SUse "shop");
   SvStmt (SInsert "t" [] [[VInt 3; VStr "z"]]);
   SvRestart true;
   SvStmt (SUse "hr");
   SvStmt (SDelete "t" (Some (EPred (XCol (mkCol "" "k")) CEq (XLit (VInt 11)))))].

Example C17_hyps_satisfiable :
  sess_hyps init_sess evs_demo = true /\
  match sess_run init_sess evs_demo with
  | (Ok s, os) =>
      os = [Some (SOErr SENoDB); Some SOOk; Some SOOk; Some (SOErr SEDBExists); Some (SOErr SEDBNotExist);
            Some SOOk; Some SOOk; Some SOOk; Some SOOk; Some SOOk; Some SOOk; Some (SOErr SEDBNotExist);
            Some SOOk; Some SOOk; None; Some SOOk; Some (SOErr (SEStmt ETableNotExist)); Some SOOk;
            Some SOOk; Some (SOShow ["hr"; "shop"]); None; Some (SOErr SENoDB); Some SOOk; Some SOOk; None;
            Some SOOk; Some SOOk] /\
      cur s = Some "hr" /\
      map (fun ny => (fst ny, obs_table (logical (cur s) (fst ny) (snd ny)) "t")) (dbs s) =
        [("shop", TRows ["a"; "b"] [(12, [VInt 1; VStr "x"]); (13, [VInt 2; VStr "y"]); (14, [VInt 3; VStr "z"])]);
         ("hr", TRows ["k"] [(11, [VInt 10]); (13, [VInt 12])])] /\
      map (fun nd => (fst nd, spec_table (snd nd) "t")) (fst (sess_spec_run [] None evs_demo os)) =
        [("shop", Some (["a"; "b"], [[VInt 1; VStr "x"]; [VInt 2; VStr "y"]; [VInt 3; VStr "z"]]));
         ("hr", Some (["k"], [[VInt 10]; [VInt 12]]))] /\
      map (fun n => List.length (stmts_while n None evs_demo os)) (created evs_demo os) = [4; 5]%nat
  | _ => False
  end.
Proof. vm_compute. repeat split; reflexivity. Qed.

(* the unclean restart of evs_demo is not a no-op: just before it the data file of shop is behind
   its cache (the UPDATE is in the cache and in the log only) *)
Example C17_restart_nontrivial :
  match sess_run init_sess (firstn 20 evs_demo) with
  | (Ok s, _) => match get_db "shop" (dbs s) with
                 | Some y => obs_table (disk y) "t" <> obs_table (mem y) "t" /\ List.length (wal y) = 3%nat
                 | None => False
                 end
  | _ => False
  end.
Proof. vm_compute. split; [discriminate | reflexivity]. Qed.

(* ---- 6. isolation for ALL runs: hypothesis (i) derived, not assumed ---- *)
Theorem C17_isolation_all_histories : forall evs s os,
  sess_hyps2 init_sess evs = true ->
  sess_run init_sess evs = (Ok s, os) ->
  let sp := fst (sess_spec_run [] None evs os) in
  snd (sess_spec_run [] None evs os) = cur s /\
  map fst (dbs s) = map fst sp /\
  forall n d, sp_get n sp = Some d ->
    d = TableSpec.spec_run [] (stmts_while n None evs os) /\
    exists y, get_db n (dbs s) = Some y /\
              Rep (logical (cur s) n y) d /\
              forall t, is_sys t = false -> table_agrees (logical (cur s) n y) d t.
Proof. exact isolation2. Qed.
Print Assumptions C17_isolation_all_histories.

Theorem C17_never_fails_all_histories : forall evs fin os,
  sess_hyps2 init_sess evs = true -> sess_run init_sess evs = (fin, os) -> exists s, fin = Ok s.
Proof. exact sess_run_total2. Qed.
Print Assumptions C17_never_fails_all_histories.

Theorem C17_invariant_all_histories : forall s, reachable2 s -> exists sp, SessInv s sp.
Proof. exact reachable2_inv. Qed.
Print Assumptions C17_invariant_all_histories.

(* the hypotheses with (i) imply the ones without *)
Theorem C17_hyps_weaker : forall evs, sess_hyps init_sess evs = true -> sess_hyps2 init_sess evs = true.
Proof. intros evs. apply sess_hyps_hyps2. Qed.
Print Assumptions C17_hyps_weaker.

(* the former witness of C17_full_refuted (finding F11a inside one database of a session): the
   2-row INSERT whose second row is out of range now leaves t empty, as the specification says;
   the run meets sess_hyps2 and - the statement not failing "early" - still not sess_hyps *)
Definition evs_F11a : list sevent :=
  [SvStmt (SCreateDatabase "d"); SvStmt (SUse "d");
   SvStmt (SCreateTable "t" [mkColDef "a" STNumeric]);
   SvStmt (SInsert "t" [] [[VInt 1]; [VInt 2147483648]])].

Definition F11a_agrees : bool :=
  match sess_run init_sess evs_F11a with
  | (Ok s, os) =>
      match sp_get "d" (fst (sess_spec_run [] None evs_F11a os)), get_db "d" (dbs s) with
      | Some d, Some y =>
          match st_fetch (logical (cur s) "d" y) "t", spec_table d "t" with
          | Ok ([], _), Some (_, []) => true
          | _, _ => false
          end
      | _, _ => false
      end
  | _ => false
  end.

Example C17_former_witness_agrees :
  F11a_agrees = true /\ sess_hyps2 init_sess evs_F11a = true /\ sess_hyps init_sess evs_F11a = false.
Proof. split; [vm_compute; reflexivity|]. split; vm_compute; reflexivity. Qed.

(* non-vacuity of the all-histories theorems: two databases; in "shop" a failing multi-row INSERT
   (second row out of INT range), a failing multi-row UPDATE (the second matching row would exceed
   400 bytes) and a failing CREATE TABLE (second column VARCHAR(3000000000)), with a USE switch and
   an unclean restart in between; the tables read as if those statements had never been issued *)
Fixpoint rep_x (n : nat) : string := match n with O => "" | S k => String "x" (rep_x k) end.

Definition evs_late : list sevent :=
  [SvStmt (SCreateDatabase "shop"); SvStmt (SCreateDatabase "hr"); SvStmt (SUse "shop");
   SvStmt (SCreateTable "t" [mkColDef "a" STNumeric; mkColDef "b" (STVarchar 400); mkColDef "c" (STVarchar 400)]);
   SvStmt (SInsert "t" [] [[VInt 1; VStr "x"; VStr "y"]; [VInt 2; VStr "x"; VStr (rep_x 300)]]);
   SvStmt (SInsert "t" [] [[VInt 3; VStr "p"; VStr "q"]; [VInt 2147483648; VStr "p"; VStr "q"]]);
   SvStmt (SUse "hr");
   SvStmt (SCreateTable "u" [mkColDef "a" STNumeric; mkColDef "b" (STVarchar 3000000000)]);
   SvStmt (SUse "shop");
   SvStmt (SUpdate "t" [("b", XLit (VStr (rep_x 200)))] None);
   SvRestart false;
   SvStmt (SUse "shop");
   SvStmt (SUpdate "t" [("b", XLit (VStr "z"))] None)].

Example C17_all_histories_nonvacuous :
  sess_hyps2 init_sess evs_late = true /\ sess_hyps init_sess evs_late = false /\
  match sess_run init_sess evs_late with
  | (Ok s, os) =>
      os = [Some SOOk; Some SOOk; Some SOOk; Some SOOk; Some SOOk; Some (SOErr (SEStmt EIntRange)); Some SOOk;
            Some (SOErr (SEStmt EIntRange)); Some SOOk; Some (SOErr (SEStmt ERowTooLarge)); None; Some SOOk;
            Some SOOk] /\
      map (fun ny => (fst ny, obs_table (logical (cur s) (fst ny) (snd ny)) "t", obs_table (logical (cur s) (fst ny) (snd ny)) "u")) (dbs s) =
        [("shop", TRows ["a"; "b"; "c"] [(13, [VInt 1; VStr "z"; VStr "y"]); (14, [VInt 2; VStr "z"; VStr (rep_x 300)])], TFail ETableNotExist);
         ("hr", TFail ETableNotExist, TFail ETableNotExist)]
  | _ => False
  end.
Proof.
  split; [vm_compute; reflexivity|]. split; [vm_compute; reflexivity|].
  vm_compute. split; reflexivity.
Qed.

(* ---- 7. the observation oracle (Spec/SessionObs.v sess_spec_accepts, the SM verdict of the C17
   check) accepts the model's own behaviour; hence agreement of Go with the model on a case
   (sess_model_agrees, the MM verdict) implies acceptance of what Go did. Proofs/SessionOracle.v.
   Events of a case: statements (CREATE DATABASE / USE / SHOW DATABASES / DDL / DML), SvTick,
   SvRestart clean, and the read-backs ShRead of tables of the selected database.
   ONE hypothesis, a boolean evaluated along the model's run (SessionOracle.sess_oracle_hyps): it
   constrains only DDL / DML statements issued while a database is selected, through
   SessionOracle.stmt_hyp3 on the selected cache:
     (a) RefineMain.stmt_ok: literals are Go values (needed: sess_oracle_needs_stmt_ok);
     (b) the data file stays below 2^63 bytes (not exhibitable by computation; the refinement needs it);
     (c) OracleSound.stmt_shape: no INSERT without rows, no UPDATE / DELETE on a catalog table
         (needed: sess_oracle_needs_stmt_shape);
     (d) OracleSound.strict_stmt: CREATE TABLE does not name a catalog table and its catalog rows can
         be stored - the oracle is strict about refusals (needed: sess_oracle_needs_strict_stmt).
   C02's (H2) (stmt_moves_okb, hypothesis (iv) of C17_isolation_all_histories) is NOT assumed: it is
   derived along the run from Rep + MovesFromRep.SelfOk; C17_oracle_hyps_imply_isolation_hyps shows
   the hypotheses of the isolation theorem follow. No hypothesis on database names: that a refused
   CREATE DATABASE / USE of an illegal name never names an existing database is an invariant.
   Two former laxities of the oracle (an error answer to SHOW DATABASES, a read-back not compared
   with the names asked for) are repaired in sess_spec_ok; the theorems below are about the
   tightened oracle (SessionOracle.sess_oracle_rejects_show_error, sess_oracle_rejects_read_names). *)
From Mkdb Require Import Proofs.OracleSound Proofs.SessionOracle.

Theorem C17_oracle_accepts_model : forall evs,
  sess_oracle_hyps init_sess evs = true ->
  sess_spec_accepts (evs, run_sh init_sess evs) = true.
Proof. exact model_passes_sess_oracle. Qed.
Print Assumptions C17_oracle_accepts_model.

Theorem C17_agreement_implies_acceptance : forall c,
  sess_oracle_hyps init_sess (fst c) = true ->
  sess_model_agrees c = true -> sess_spec_accepts c = true.
Proof. exact sess_agreement_implies_acceptance. Qed.
Print Assumptions C17_agreement_implies_acceptance.

Theorem C17_oracle_hyps_imply_isolation_hyps : forall evs,
  sess_oracle_hyps init_sess evs = true -> sess_hyps2 init_sess (sh_events evs) = true.
Proof. exact oracle_hyps_hyps2. Qed.
Print Assumptions C17_oracle_hyps_imply_isolation_hyps.

(* non-vacuity: two databases; read-backs with and without a selected database (of a user table, a
   catalog table and a table that does not exist); CREATE DATABASE of an existing, an empty and two
   illegal names; failed USEs (unknown, illegal) with and without a selected database; statements
   refused by engine and specification alike (INT range, duplicate table, unknown table, 400-byte
   row limit in a multi-row UPDATE); USE switches, a re-USE, a tick, SHOW DATABASES, an unclean
   restart while the UPDATE is only in the log, a clean restart *)
Definition shevs_demo : list shev :=
  [ShRead ["t"];
   ShEv (SvStmt (SInsert "t" [] [[VInt 1]]));
   ShEv (SvStmt (SCreateDatabase "Shop")); ShEv (SvStmt (SCreateDatabase "hr"));
   ShEv (SvStmt (SCreateDatabase "SHOP")); ShEv (SvStmt (SCreateDatabase ""));
   ShEv (SvStmt (SCreateDatabase "a/b")); ShEv (SvStmt (SCreateDatabase ".."));
   ShEv (SvStmt (SUse "nosuch")); ShEv (SvStmt (SUse "../hr"));
   ShEv (SvStmt (SUse "shop"));
   ShEv (SvStmt (SCreateTable "t" [mkColDef "a" STNumeric; mkColDef "b" (STVarchar 400); mkColDef "c" (STVarchar 400)]));
   ShEv (SvStmt (SInsert "t" [] [[VInt 1; VStr "x"; VStr "y"]; [VInt 2; VNull; VStr (rep_x 300)]]));
   ShRead ["t"; "sys_schema"; "nosuch"];
   ShEv (SvStmt (SInsert "t" [] [[VInt 3; VStr "p"; VStr "q"]; [VInt 2147483648; VStr "p"; VStr "q"]]));
   ShEv (SvStmt (SCreateTable "t" [mkColDef "z" STBigInt]));
   ShEv (SvStmt (SInsert "nosuch" [] [[VInt 1]]));
   ShEv (SvStmt (SUpdate "t" [("b", XLit (VStr (rep_x 200)))] None));
   ShRead ["t"];
   ShEv (SvStmt (SUse "hr"));
   ShEv (SvStmt (SCreateTable "t" [mkColDef "k" STBigInt]));
   ShEv (SvStmt (SInsert "t" [] [[VInt 10]]));
   ShRead ["t"];
   ShEv (SvStmt (SUse "nosuch")); ShEv (SvStmt (SUse "a\b"));
   ShEv (SvStmt (SInsert "t" [] [[VInt 11]]));
   ShEv (SvStmt (SUse "HR"));
   ShEv SvTick;
   ShEv (SvStmt (SInsert "t" [] [[VInt 12]]));
   ShEv (SvStmt (SUse "shop"));
   ShEv (SvStmt (SUpdate "t" [("b", XLit (VStr "y"))] (Some (EPred (XCol (mkCol "" "a")) CEq (XLit (VInt 2))))));
   ShEv (SvStmt SShowDatabase);
   ShRead ["t"];
   ShEv (SvRestart false);
   ShRead ["t"];
   ShEv (SvStmt (SDelete "t" None));
   ShEv (SvStmt (SUse "shop"));
   ShRead ["t"];
   ShEv (SvStmt (SInsert "t" [] [[VInt 3; VStr "z"; VNull]]));
   ShEv (SvRestart true);
   ShEv (SvStmt (SUse "hr"));
   ShEv (SvStmt (SDelete "t" (Some (EPred (XCol (mkCol "" "k")) CEq (XLit (VInt 11))))));
   ShRead ["t"];
   ShEv (SvStmt (SUse "shop"));
   ShRead ["t"]].

Definition sh_brief (o : shobs) : string * list (list value) :=
  match o with
  | ShOut SOOk => ("ok", [])
  | ShOut (SOErr SEDBExists) => ("db exists", [])
  | ShOut (SOErr SEDBNotExist) => ("no such db", [])
  | ShOut (SOErr SENoDB) => ("no db selected", [])
  | ShOut (SOErr (SEStmt _)) => ("refused", [])
  | ShOut SOPanic => ("panic", [])
  | ShOut (SOShow l) => ("show", [map VStr l])
  | ShDone b => (if b then "done" else "failed", [])
  | ShTables (("t", TRows _ rows) :: _) => ("t", map snd rows)
  | ShTables _ => ("tables", [])
  | ShNoDB => ("read: no db", [])
  | ShDead => ("dead", [])
  end.

Example C17_oracle_demo :
  sess_oracle_hyps init_sess shevs_demo = true /\
  sess_hyps2 init_sess (sh_events shevs_demo) = true /\
  sess_model_agrees (shevs_demo, run_sh init_sess shevs_demo) = true /\
  sess_spec_accepts (shevs_demo, run_sh init_sess shevs_demo) = true /\
  map sh_brief (run_sh init_sess shevs_demo) =
    [("read: no db", []); ("no db selected", []); ("ok", []); ("ok", []); ("db exists", []); ("refused", []);
     ("refused", []); ("refused", []); ("no such db", []); ("refused", []); ("ok", []); ("ok", []); ("ok", []);
     ("t", [[VInt 1; VStr "x"; VStr "y"]; [VInt 2; VNull; VStr (rep_x 300)]]);
     ("refused", []); ("refused", []); ("refused", []); ("refused", []);
     ("t", [[VInt 1; VStr "x"; VStr "y"]; [VInt 2; VNull; VStr (rep_x 300)]]);
     ("ok", []); ("ok", []); ("ok", []); ("t", [[VInt 10]]);
     ("no such db", []); ("refused", []); ("ok", []); ("ok", []); ("done", []); ("ok", []); ("ok", []); ("ok", []);
     ("show", [[VStr "hr"; VStr "shop"]]);
     ("t", [[VInt 1; VStr "x"; VStr "y"]; [VInt 2; VStr "y"; VStr (rep_x 300)]]);
     ("done", []); ("read: no db", []); ("no db selected", []); ("ok", []);
     ("t", [[VInt 1; VStr "x"; VStr "y"]; [VInt 2; VStr "y"; VStr (rep_x 300)]]);
     ("ok", []); ("done", []); ("ok", []); ("ok", []);
     ("t", [[VInt 10]; [VInt 12]]);
     ("ok", []);
     ("t", [[VInt 1; VStr "x"; VStr "y"]; [VInt 2; VStr "y"; VStr (rep_x 300)]; [VInt 3; VStr "z"; VNull]])].
Proof. vm_compute. repeat split; reflexivity. Qed.

(* the oracle is not vacuous on this case: it rejects the same events when the row updated just
   before the unclean restart reads back un-updated afterwards (a lost log record), and when the
   table of "hr" shows up in "shop" *)
Definition tamper (i : nat) (o : shobs) (l : list shobs) : list shobs := firstn i l ++ o :: skipn (S i) l.
Example C17_oracle_demo_rejects :
  sess_spec_accepts (shevs_demo, tamper 37 (nth 18 (run_sh init_sess shevs_demo) ShDead) (run_sh init_sess shevs_demo)) = false /\
  sess_spec_accepts (shevs_demo, tamper 37 (nth 22 (run_sh init_sess shevs_demo) ShDead) (run_sh init_sess shevs_demo)) = false.
Proof. vm_compute. split; reflexivity. Qed.
