(* C08 - stored values read back exactly; invalid values are refused.

   Proved here, for all schemas / rows / states (no bounds):
   * C08_tuple_roundtrip: every row whose values fit their column types (INT in 32 bits, BIGINT
     in 64 bits, any byte string shorter than 2^32, booleans, NULL anywhere) is encoded by
     Tuple.Encode and decoded back by Tuple.Decode + the read-out by field name to exactly itself;
   * C08_refusal_type_range: a non-NULL value of the wrong Go type, or an INT outside 32 bits,
     makes Tuple.Encode fail with ETypeMismatch / EIntRange whatever the other values are;
   * C08_size_law / C08_encoded_size / C08_limit_is_spec_limit / C08_size_test_agrees: the encoded
     size is the specification's row_size, the code's limit is the specification's 400, hence the
     code's size test is the specification's check_row verdict;
   * C08_refusal_size*: a value longer than the limit is refused by BTree.insertKey (fresh key),
     by BTree.insert (no page changes; one row id and one LSN are consumed), by
     RelationService.Insert (abs unchanged) and by RelationService.Update (state unchanged);
   * C08_persist_flush: a flush changes nothing any scan returns.
   The restart part is C02's theorem (see the comment at the end). *)
From Mkdb Require Import Spec.HistObs Proofs.TupleProofs.
From Coq Require Import List NArith ZArith String.
From Mkdb Require Import Proofs.TreeProofs Proofs.StoreInv Proofs.Atomic Proofs.Codec08.
Import ListNotations.
Local Open Scope N_scope.
Local Notation length := List.length.

(* ---- codec ---- *)
Theorem C08_tuple_roundtrip : forall sch r,
  NoDup (names sch) -> row_fits sch r = true ->
  exists bs, encode_tuple sch (tuple_of sch r) = Ok bs /\ decode_row sch bs = Ok r.
Proof. exact decode_encode_row. Qed.
Print Assumptions C08_tuple_roundtrip.

Theorem C08_refusal_type_range : forall sch m fd,
  In fd sch ->
  (forall fd0, In fd0 sch -> fd_name fd0 = fd_name fd -> fd0 = fd) ->
  tget (fd_name fd) m <> VNull ->
  validate (fd_type fd) (tget (fd_name fd) m) <> Ok tt ->
  exists e, encode_tuple sch m = Err e /\ (e = ETypeMismatch \/ e = EIntRange).
Proof. exact encode_refuses. Qed.
Print Assumptions C08_refusal_type_range.

(* ---- size ---- *)
Theorem C08_size_law : forall sch r, length (encode_row_direct sch r) = row_size sch r.
Proof. exact encode_row_direct_length. Qed.
Print Assumptions C08_size_law.

Theorem C08_encoded_size : forall sch r bs,
  NoDup (names sch) -> row_fits sch r = true ->
  encode_tuple sch (tuple_of sch r) = Ok bs -> length bs = row_size sch r.
Proof. exact encode_tuple_size. Qed.
Print Assumptions C08_encoded_size.

Theorem C08_limit_is_spec_limit : MV = max_row_size.
Proof. exact MV_is_max_row_size. Qed.
Print Assumptions C08_limit_is_spec_limit.

Theorem C08_size_test_agrees : forall sch r bs,
  NoDup (names sch) -> row_fits sch r = true ->
  encode_tuple sch (tuple_of sch r) = Ok bs ->
  check_row sch r = if (MV <? length bs)%nat then Some ERowTooLarge else None.
Proof. exact size_test_agrees. Qed.
Print Assumptions C08_size_test_agrees.

(* ---- refusal of oversized values ---- *)
Theorem C08_refusal_size : forall t k lsn (bs : bytes) free,
  (MV < length bs)%nat -> key_exists k t = false -> on_right_spine k t = true ->
  tree_insert ML MI PS MV t k lsn bs free = TErr RowTooLarge.
Proof. exact tree_insert_refuses_size. Qed.
Print Assumptions C08_refusal_size.

Theorem C08_refusal_size_fresh : forall t k lsn (bs : bytes) free,
  (MV < length bs)%nat -> Forall (fun x => x < k) (tree_keys t) ->
  tree_insert ML MI PS MV t k lsn bs free = TErr RowTooLarge.
Proof. exact tree_insert_refuses_size_fresh. Qed.
Print Assumptions C08_refusal_size_fresh.

(* BTree.insert on any tree of a state satisfying the store invariant (every reachable state
   does: StoreInv.reachable_inv): refused, forest / catalog root / allocator unchanged *)
Theorem C08_refusal_size_store : forall s root t (bs : bytes),
  SInv s -> get_tree s root = Ok t -> (MV < length bs)%nat ->
  bt_insert s root bs =
  (mkStore (forest s) (lastKey s + 1) (ptRoot s) (nextFree s) (nextLSN s + 1), Err ERowTooLarge).
Proof. exact bt_insert_refuses_size_inv. Qed.
Print Assumptions C08_refusal_size_store.

Theorem C08_refusal_size_insert : forall evs y os name cols vals off (bs : bytes),
  forallb no_crash evs = true -> run_events init_sys evs = (SOk y, os) ->
  is_sys_table name = false ->
  ins_precheck (mem y) name cols vals = Ok (off, bs) -> (MV < length bs)%nat ->
  exists s', st_insert (mem y) name cols vals = (s', Err ERowTooLarge) /\
             same_pages (mem y) s' /\ abs s' = abs (mem y).
Proof.
  intros evs y os name cols vals off bs Hnc Hr Hsys Hp Hlen.
  destruct (reachable_inv evs y os Hnc Hr) as [Hinv _].
  exists (bumped (mem y)). split; [eapply st_insert_refuses_size; eauto|].
  split; [apply bumped_same_pages | apply same_pages_abs, bumped_same_pages].
Qed.
Print Assumptions C08_refusal_size_insert.

Theorem C08_refusal_size_update : forall s name rowid cols vals off t sch ls pg c m (bs : bytes),
  is_sys_table name = false ->
  rel_offset s name = Ok off -> get_tree s off = Ok t -> rel_schema s name = Ok sch ->
  scan_right_leaves t = TOk ls ->
  find (fun lc => N.eqb (lc_key (snd lc)) rowid && negb (lc_deleted (snd lc)))
       (flat_map (fun l => map (fun c => (t_off l, c)) (leaf_cells l)) ls) = Some (pg, c) ->
  decode_tuple sch (lc_val c) [] = Ok m ->
  cols_err (map fd_name sch) cols [] = None ->     (* the SET list names columns of the table, each once *)
  encode_tuple sch (zip_set cols vals m) = Ok bs ->
  (MV < length bs)%nat ->
  st_update s name rowid cols vals = (s, Err ERowTooLarge).
Proof. exact st_update_refuses_size. Qed.
Print Assumptions C08_refusal_size_update.

(* ---- persistence: flush (proved for every store, no invariant needed) ---- *)
Theorem C08_persist_flush : forall s, abs (flush s) = abs s.
Proof. exact abs_flush. Qed.
Print Assumptions C08_persist_flush.

Theorem C08_persist_flush_table : forall s n, st_fetch (flush s) n = st_fetch s n.
Proof. exact st_fetch_flush. Qed.
Print Assumptions C08_persist_flush_table.

(* RESTART: abs after crash+recover is C02_recovery_restores, proved in Proofs/Crash*.v by another
   engineer; it plugs in here: C08_persist_restart := ... *)

(* ---- non-vacuity ---- *)
Local Open Scope string_scope.
Definition nv_sch : schema :=
  [mkField TInt "a" 0; mkField TBigInt "b" 0; mkField TVarchar "c" 255; mkField TBoolean "d" 0].
Definition nv_rows : list row :=
  [[VInt (-2147483648); VInt (-9223372036854775808); VStr ""; VBool true];
   [VInt 2147483647; VInt 9223372036854775807; VStr "it's \ "; VBool false];
   [VNull; VNull; VNull; VNull];
   [VInt 0; VNull; VStr "x"; VNull]].

Example nv_nodup : NoDup (names nv_sch).
Proof. repeat constructor; cbn; intuition discriminate. Qed.
Example nv_fits : forallb (row_fits nv_sch) nv_rows = true.
Proof. vm_compute. reflexivity. Qed.
Example nv_roundtrip :
  map (fun r => match encode_tuple nv_sch (tuple_of nv_sch r) with
                | Ok bs => decode_row nv_sch bs | Err e => Err e | Panic => Panic end) nv_rows
  = map Ok nv_rows.
Proof. vm_compute. reflexivity. Qed.
Example nv_sizes : map (row_size nv_sch) nv_rows = [21; 28; 4; 13]%nat.
Proof. vm_compute. reflexivity. Qed.
Example nv_refused_range :
  encode_tuple nv_sch (tuple_of nv_sch [VInt 2147483648; VNull; VNull; VNull]) = Err EIntRange.
Proof. vm_compute. reflexivity. Qed.
Example nv_refused_type :
  encode_tuple nv_sch (tuple_of nv_sch [VInt 1; VStr "7"; VNull; VNull]) = Err ETypeMismatch.
Proof. vm_compute. reflexivity. Qed.

(* the limit: a row of exactly 400 encoded bytes is stored, 401 bytes are refused *)
Fixpoint rep_string (n : nat) : string :=
  match n with O => "" | S k => String "x" (rep_string k) end.
Definition nv_store : store :=
  e_store (run_stmt (mem init_sys) (SCreateTable "t" [mkColDef "c" (STVarchar 1000)])).
Example nv_400_401 :
  row_size [mkField TVarchar "c" 1000] [VStr (rep_string 395)] = 400%nat /\
  e_out (run_stmt nv_store (SInsert "t" [] [[VStr (rep_string 395)]])) = OOk 1 /\
  e_out (run_stmt nv_store (SInsert "t" [] [[VStr (rep_string 396)]])) = OErr ERowTooLarge.
Proof. split; [|split]; vm_compute; reflexivity. Qed.

(* ====================== the oracles of the check and the theorems ======================
   tools/props/c08.py judges every case in two ways: MM (the model agrees with what Go did) and SM
   (an oracle on the observations alone accepts what Go did). Both links oracle <- model are proved:
   agreement implies acceptance, so an SM verdict is never a false alarm on code that conforms to
   the model, and every SM rejection contradicts the theorems above.

   (a) HISTORIES (CREATE TABLE, single-row INSERT / UPDATE with boundary values given as direct
   statement values or SQL text - the same statement tree either way -, flush, crash-restart,
   read-backs): MM = `model_agrees`, SM = `spec_accepts_strict` of Spec/HistObs.v. The theorem is
   C01's (Proofs/OracleSound.v, OracleCrash.v) with its hypotheses, all boolean on the history:
   hist_shape_c (statements, flushes, crash-restarts, read-backs, dumps), hev_ok (literals are Go
   values: `val_ok` = integers within int64 - negative ones included -, strings of any bytes shorter
   than 2^32), hev_stmt_shape (no INSERT without rows, no UPDATE / DELETE on a catalog table),
   frontier_ok (data file below 2^63 bytes), reads_cover (a read-back does not skip a table and come
   back to it: C08 reads its one table every time), strict_hev (CREATE TABLE does not take a catalog
   name and its catalog rows are storable). C08_history_nonvacuous is a history of the kind the
   check generates that meets them all. *)
From Mkdb Require Import Proofs.RefineCodec Proofs.RefineMain Proofs.OracleSound Proofs.OracleCrash.

Theorem C08_agreement_implies_acceptance : forall c,
  model_agrees c = true ->
  hist_shape_c (fst c) = true -> forallb hev_ok (fst c) = true -> forallb hev_stmt_shape (fst c) = true ->
  frontier_ok init_sys (fst c) = true -> reads_cover [] [] [] (fst c) = true ->
  forallb strict_hev (fst c) = true ->
  spec_accepts_strict c = true.
Proof. exact agreement_implies_strict_acceptance_crash. Qed.
Print Assumptions C08_agreement_implies_acceptance.

(* the values of C08's histories are admitted by hev_ok: negative integers down to -2^63, strings
   with NUL / 0xFF / quote / backslash / line break; only integers outside int64 (which Go cannot
   hold) and strings of 4 GiB are not *)
Example C08_val_ok_admits :
  forallb val_ok [VInt (-9223372036854775808); VInt 9223372036854775807; VInt (-1); VS [0; 255; 39; 92; 10]; VStr "";
                  VBool true; VNull] = true /\
  val_ok (VInt 9223372036854775808) = false /\ val_ok (VInt (-9223372036854775809)) = false.
Proof. vm_compute. repeat split; reflexivity. Qed.

Definition c08_where (k : Z) : option expr := Some (EPred (XCol (mkCol "" "k")) CEq (XLit (VInt k))).
Definition hevs_c08 : list hevent :=
  [HEv (EvStmt (SCreateTable "t" [mkColDef "k" STNumeric; mkColDef "b" STBigInt; mkColDef "s" (STVarchar 400);
                                  mkColDef "f" STBoolean]));
   HEv (EvStmt (SInsert "t" [] [[VInt 1; VInt (-9223372036854775808); VS [0; 255; 39; 92; 10]; VBool true]]));
   HEv (EvStmt (SInsert "t" [] [[VInt (-2147483648); VNull; VStr ""; VNull]]));
   HEv (EvStmt (SInsert "t" [] [[VInt 2147483648; VNull; VNull; VNull]]));                 (* INT range *)
   HEv (EvStmt (SInsert "t" [] [[VInt 3; VStr "7"; VNull; VNull]]));                       (* wrong type *)
   HEv (EvStmt (SInsert "t" [] [[VInt 4; VNull; VStr (rep_string 388); VNull]]));          (* exactly 400 bytes *)
   HEv (EvStmt (SInsert "t" [] [[VInt 5; VNull; VStr (rep_string 389); VNull]]));          (* 401 bytes *)
   HReadTables ["t"];
   HEv (EvStmt (SInsert "t" ["zz"] [[VInt 6]]));                                           (* unknown column *)
   HEv (EvStmt (SUpdate "t" [("s", XLit (VS [255]))] (c08_where 1)));
   HEv (EvStmt (SUpdate "t" [("k", XLit (VInt (-2147483649)))] (c08_where 1)));            (* INT range *)
   HReadTables ["t"]; HEv EvFlush; HEv EvCrash; HReadTables ["t"]].

Example C08_history_nonvacuous :
  hist_shape_c hevs_c08 = true /\ forallb hev_ok hevs_c08 = true /\ forallb hev_stmt_shape hevs_c08 = true /\
  frontier_ok init_sys hevs_c08 = true /\ reads_cover [] [] [] hevs_c08 = true /\
  forallb strict_hev hevs_c08 = true /\
  map (fun o => match o with HOut x => Some x | _ => None end) (run_h init_sys hevs_c08) =
    [Some OBok; Some OBok; Some OBok; Some (OBerr EIntRange); Some (OBerr ETypeMismatch); Some OBok;
     Some (OBerr ERowTooLarge); None; Some (OBerr EFieldNotFound); Some OBok; Some (OBerr EIntRange);
     None; Some OBok; Some OBok; None] /\
  (match nth 14 (run_h init_sys hevs_c08) HNone with
   | HTables [(_, TRows _ rows)] => map (fun r => firstn 3 (snd r)) rows
   | _ => []
   end) = [[VInt 1; VInt (-9223372036854775808); VS [255]]; [VInt (-2147483648); VNull; VStr ""];
           [VInt 4; VNull; VStr (rep_string 388)]] /\
  model_agrees (hevs_c08, run_h init_sys hevs_c08) = true /\
  spec_accepts_strict (hevs_c08, run_h init_sys hevs_c08) = true.
Proof. vm_compute. repeat split; reflexivity. Qed.

(* (b) BYTE-EXACT Tuple.Encode: per case (schema, tuple map, what Encode returned, what Decode of
   those bytes returned), TM = `tuple_model_agrees`, TS = `tuple_spec_strict` (Spec/TupleObs.v, in
   the specification's terms row_err / row_size: an accepted row has no invalid value, the encoded
   size of the size law, and decodes to itself; a refused row has an invalid value and the error is
   one of the two the property names; no panic). `tuple_spec` is the round-trip clause alone.
   Proofs/TupleOracle.v: for every schema (column names may repeat) and every tuple map, agreement
   implies acceptance, under one hypothesis on the input: tuple_vals_ok - the values read by the
   schema's columns are Go values (val_ok); without it the oracle rejects the model, whose integers
   are unbounded (C08_tuple_vals_ok_needed). *)
From Mkdb Require Import Spec.TupleObs Proofs.TupleOracle.

Theorem C08_tuple_oracle_accepts_model : forall sch m,
  forallb (fun fd => val_ok (tget (fd_name fd) m)) sch = true ->
  tuple_spec (sch, m, fst (tuple_model_obs sch m), snd (tuple_model_obs sch m)) = true /\
  tuple_spec_strict (sch, m, fst (tuple_model_obs sch m), snd (tuple_model_obs sch m)) = true.
Proof. exact tuple_oracle_accepts_model. Qed.
Print Assumptions C08_tuple_oracle_accepts_model.

Theorem C08_tuple_agreement_implies_acceptance : forall c : tuple_case,
  tuple_vals_ok c = true -> tuple_model_agrees c = true -> tuple_spec c = true.
Proof. exact tuple_agreement_implies_acceptance. Qed.
Print Assumptions C08_tuple_agreement_implies_acceptance.

Theorem C08_tuple_agreement_implies_strict_acceptance : forall c : tuple_case,
  tuple_vals_ok c = true -> tuple_model_agrees c = true -> tuple_spec_strict c = true.
Proof. exact tuple_agreement_implies_strict_acceptance. Qed.
Print Assumptions C08_tuple_agreement_implies_strict_acceptance.

Example C08_tuple_vals_ok_needed :
  let sch := [mkField TBigInt "a" 0] in
  let m := [("a", VInt 9223372036854775808)] in
  let c := (sch, m, fst (tuple_model_obs sch m), snd (tuple_model_obs sch m)) in
  tuple_vals_ok c = false /\ tuple_model_agrees c = true /\ tuple_spec c = false /\ tuple_spec_strict c = false.
Proof. vm_compute. repeat split; reflexivity. Qed.

(* Go encodes the row as the model does but fails to decode it: rejected by the agreement function
   (an earlier version did not look at a missing decode) and by the oracles *)
Example C08_tuple_failed_decode_rejected :
  let sch := [mkField TInt "a" 0] in
  let m := [("a", VInt 5)] in
  let c := (sch, m, encode_tuple sch m, None) in
  tuple_vals_ok c = true /\ tuple_model_agrees c = false /\ tuple_spec c = false /\ tuple_spec_strict c = false.
Proof. vm_compute. repeat split; reflexivity. Qed.

(* non-vacuity: the four types at their boundaries, a NULL, arbitrary bytes; an accepted case, a
   case refused for INT range, a case refused for a wrong type; the oracles have teeth: a changed
   decoded value, a refusal of the valid row and an acceptance of the invalid one are rejected *)
Definition c08_tuple : tuple :=
  [("a", VInt (-2147483648)); ("b", VInt 9223372036854775807); ("c", VS [0; 255; 39]); ("d", VBool true)].
Definition c08_sch5 : schema := (nv_sch ++ [mkField TVarchar "e" 0])%list.
Example C08_tuple_nonvacuous :
  let ok_case := (c08_sch5, c08_tuple, fst (tuple_model_obs c08_sch5 c08_tuple), snd (tuple_model_obs c08_sch5 c08_tuple)) in
  let bad1 := [("a", VInt 2147483648)] in
  let range_case := (c08_sch5, bad1, fst (tuple_model_obs c08_sch5 bad1), snd (tuple_model_obs c08_sch5 bad1)) in
  let bad2 := [("a", VInt 1); ("d", VInt 1)] in
  let type_case := (c08_sch5, bad2, fst (tuple_model_obs c08_sch5 bad2), snd (tuple_model_obs c08_sch5 bad2)) in
  snd (tuple_model_obs c08_sch5 c08_tuple) =
    Some [VInt (-2147483648); VInt 9223372036854775807; VS [0; 255; 39]; VBool true; VNull] /\
  option_map (@length _) (match fst (tuple_model_obs c08_sch5 c08_tuple) with Ok bs => Some bs | _ => None end) = Some 25%nat /\
  fst (tuple_model_obs c08_sch5 bad1) = Err EIntRange /\ fst (tuple_model_obs c08_sch5 bad2) = Err ETypeMismatch /\
  forallb tuple_vals_ok [ok_case; range_case; type_case] = true /\
  forallb tuple_model_agrees [ok_case; range_case; type_case] = true /\
  forallb tuple_spec [ok_case; range_case; type_case] = true /\
  forallb tuple_spec_strict [ok_case; range_case; type_case] = true /\
  tuple_spec (c08_sch5, c08_tuple, fst (tuple_model_obs c08_sch5 c08_tuple),
              Some [VInt (-2147483648); VInt 9223372036854775807; VS [0; 255]; VBool true; VNull]) = false /\
  tuple_spec_strict (c08_sch5, c08_tuple, Err EIntRange, None) = false /\
  tuple_spec_strict (c08_sch5, bad1, fst (tuple_model_obs c08_sch5 [("a", VInt 0)]),
                     snd (tuple_model_obs c08_sch5 [("a", VInt 0)])) = false.
Proof. vm_compute. repeat split; reflexivity. Qed.
