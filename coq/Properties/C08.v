(* C08 - stored values read back exactly; invalid values are refused.

   Proved here, for all schemas / rows / states (no bounds):
   * C08_tuple_roundtrip: every row whose values fit their column types (INT in 32 bits, BIGINT
     in 64 bits, any byte string shorter than 2^32, booleans, NULL anywhere) is encoded by
     Tuple.Encode and decoded back by Tuple.Decode + the read-out by field name to exactly itself;
   * C08_refusal_type_range: a non-NULL value of the wrong Go type, or an INT outside 32 bits,
     makes Tuple.Encode fail with ETypeMismatch / EIntRange whatever the other values are;
   * C08_size_law / C08_encoded_size / C08_limit_is_spec_limit / C08_size_test_agrees: the encoded
     size is the specification's row_size, the code's limit is the specification's 400, hence the
     code's size test is the specification's check_row verdict;
   * C08_refusal_size*: a value longer than the limit is refused by BTree.insertKey (fresh key),
     by BTree.insert (no page changes; one row id and one LSN are consumed), by
     RelationService.Insert (abs unchanged) and by RelationService.Update (state unchanged);
   * C08_persist_flush: a flush changes nothing any scan returns.
   The restart part is C02's theorem (see the comment at the end). *)
From Mkdb Require Import Spec.HistObs Proofs.TupleProofs.
From Coq Require Import List NArith ZArith String.
From Mkdb Require Import Proofs.TreeProofs Proofs.StoreInv Proofs.Atomic Proofs.Codec08.
Import ListNotations.
Local Open Scope N_scope.
Local Notation length := List.length.

(* ---- codec ---- *)
Theorem C08_tuple_roundtrip : forall sch r,
  NoDup (names sch) -> row_fits sch r = true ->
  exists bs, encode_tuple sch (tuple_of sch r) = Ok bs /\ decode_row sch bs = Ok r.
Proof. exact decode_encode_row. Qed.
Print Assumptions C08_tuple_roundtrip.

Theorem C08_refusal_type_range : forall sch m fd,
  In fd sch ->
  (forall fd0, In fd0 sch -> fd_name fd0 = fd_name fd -> fd0 = fd) ->
  tget (fd_name fd) m <> VNull ->
  validate (fd_type fd) (tget (fd_name fd) m) <> Ok tt ->
  exists e, encode_tuple sch m = Err e /\ (e = ETypeMismatch \/ e = EIntRange).
Proof. exact encode_refuses. Qed.
Print Assumptions C08_refusal_type_range.

(* ---- size ---- *)
Theorem C08_size_law : forall sch r, length (encode_row_direct sch r) = row_size sch r.
Proof. exact encode_row_direct_length. Qed.
Print Assumptions C08_size_law.

Theorem C08_encoded_size : forall sch r bs,
  NoDup (names sch) -> row_fits sch r = true ->
  encode_tuple sch (tuple_of sch r) = Ok bs -> length bs = row_size sch r.
Proof. exact encode_tuple_size. Qed.
Print Assumptions C08_encoded_size.

Theorem C08_limit_is_spec_limit : MV = max_row_size.
Proof. exact MV_is_max_row_size. Qed.

Theorem C08_size_test_agrees : forall sch r bs,
  NoDup (names sch) -> row_fits sch r = true ->
  encode_tuple sch (tuple_of sch r) = Ok bs ->
  check_row sch r = if (MV <? length bs)%nat then Some ERowTooLarge else None.
Proof. exact size_test_agrees. Qed.
Print Assumptions C08_size_test_agrees.

(* ---- refusal of oversized values ---- *)
Theorem C08_refusal_size : forall t k lsn (bs : bytes) free,
  (MV < length bs)%nat -> key_exists k t = false -> on_right_spine k t = true ->
  tree_insert ML MI PS MV t k lsn bs free = TErr RowTooLarge.
Proof. exact tree_insert_refuses_size. Qed.
Print Assumptions C08_refusal_size.

Theorem C08_refusal_size_fresh : forall t k lsn (bs : bytes) free,
  (MV < length bs)%nat -> Forall (fun x => x < k) (tree_keys t) ->
  tree_insert ML MI PS MV t k lsn bs free = TErr RowTooLarge.
Proof. exact tree_insert_refuses_size_fresh. Qed.
Print Assumptions C08_refusal_size_fresh.

(* BTree.insert on any tree of a state satisfying the store invariant (every reachable state
   does: StoreInv.reachable_inv): refused, forest / catalog root / allocator unchanged *)
Theorem C08_refusal_size_store : forall s root t (bs : bytes),
  SInv s -> get_tree s root = Ok t -> (MV < length bs)%nat ->
  bt_insert s root bs =
  (mkStore (forest s) (lastKey s + 1) (ptRoot s) (nextFree s) (nextLSN s + 1), Err ERowTooLarge).
Proof. exact bt_insert_refuses_size_inv. Qed.
Print Assumptions C08_refusal_size_store.

Theorem C08_refusal_size_insert : forall evs y os name cols vals off (bs : bytes),
  forallb no_crash evs = true -> run_events init_sys evs = (SOk y, os) ->
  is_sys_table name = false ->
  ins_precheck (mem y) name cols vals = Ok (off, bs) -> (MV < length bs)%nat ->
  exists s', st_insert (mem y) name cols vals = (s', Err ERowTooLarge) /\
             same_pages (mem y) s' /\ abs s' = abs (mem y).
Proof.
  intros evs y os name cols vals off bs Hnc Hr Hsys Hp Hlen.
  destruct (reachable_inv evs y os Hnc Hr) as [Hinv _].
  exists (bumped (mem y)). split; [eapply st_insert_refuses_size; eauto|].
  split; [apply bumped_same_pages | apply same_pages_abs, bumped_same_pages].
Qed.
Print Assumptions C08_refusal_size_insert.

Theorem C08_refusal_size_update : forall s name rowid cols vals off t sch ls pg c m (bs : bytes),
  is_sys_table name = false ->
  rel_offset s name = Ok off -> get_tree s off = Ok t -> rel_schema s name = Ok sch ->
  scan_right_leaves t = TOk ls ->
  find (fun lc => N.eqb (lc_key (snd lc)) rowid && negb (lc_deleted (snd lc)))
       (flat_map (fun l => map (fun c => (t_off l, c)) (leaf_cells l)) ls) = Some (pg, c) ->
  decode_tuple sch (lc_val c) [] = Ok m ->
  cols_err (map fd_name sch) cols [] = None ->     (* the SET list names columns of the table, each once *)
  encode_tuple sch (zip_set cols vals m) = Ok bs ->
  (MV < length bs)%nat ->
  st_update s name rowid cols vals = (s, Err ERowTooLarge).
Proof. exact st_update_refuses_size. Qed.
Print Assumptions C08_refusal_size_update.

(* ---- persistence: flush (proved for every store, no invariant needed) ---- *)
Theorem C08_persist_flush : forall s, abs (flush s) = abs s.
Proof. exact abs_flush. Qed.
Print Assumptions C08_persist_flush.

Theorem C08_persist_flush_table : forall s n, st_fetch (flush s) n = st_fetch s n.
Proof. exact st_fetch_flush. Qed.
Print Assumptions C08_persist_flush_table.

(* RESTART: abs after crash+recover is C02_recovery_restores, proved in Proofs/Crash*.v by another
   engineer; it plugs in here: C08_persist_restart := ... *)

(* ---- non-vacuity ---- *)
Local Open Scope string_scope.
Definition nv_sch : schema :=
  [mkField TInt "a" 0; mkField TBigInt "b" 0; mkField TVarchar "c" 255; mkField TBoolean "d" 0].
Definition nv_rows : list row :=
  [[VInt (-2147483648); VInt (-9223372036854775808); VStr ""; VBool true];
   [VInt 2147483647; VInt 9223372036854775807; VStr "it's \ "; VBool false];
   [VNull; VNull; VNull; VNull];
   [VInt 0; VNull; VStr "x"; VNull]].

Example nv_nodup : NoDup (names nv_sch).
Proof. repeat constructor; cbn; intuition discriminate. Qed.
Example nv_fits : forallb (row_fits nv_sch) nv_rows = true.
Proof. vm_compute. reflexivity. Qed.
Example nv_roundtrip :
  map (fun r => match encode_tuple nv_sch (tuple_of nv_sch r) with
                | Ok bs => decode_row nv_sch bs | Err e => Err e | Panic => Panic end) nv_rows
  = map Ok nv_rows.
Proof. vm_compute. reflexivity. Qed.
Example nv_sizes : map (row_size nv_sch) nv_rows = [21; 28; 4; 13]%nat.
Proof. vm_compute. reflexivity. Qed.
Example nv_refused_range :
  encode_tuple nv_sch (tuple_of nv_sch [VInt 2147483648; VNull; VNull; VNull]) = Err EIntRange.
Proof. vm_compute. reflexivity. Qed.
Example nv_refused_type :
  encode_tuple nv_sch (tuple_of nv_sch [VInt 1; VStr "7"; VNull; VNull]) = Err ETypeMismatch.
Proof. vm_compute. reflexivity. Qed.

(* the limit: a row of exactly 400 encoded bytes is stored, 401 bytes are refused *)
Fixpoint rep_string (n : nat) : string :=
  match n with O => "" | S k => String "x" (rep_string k) end.
Definition nv_store : store :=
  e_store (run_stmt (mem init_sys) (SCreateTable "t" [mkColDef "c" (STVarchar 1000)])).
Example nv_400_401 :
  row_size [mkField TVarchar "c" 1000] [VStr (rep_string 395)] = 400%nat /\
  e_out (run_stmt nv_store (SInsert "t" [] [[VStr (rep_string 395)]])) = OOk 1 /\
  e_out (run_stmt nv_store (SInsert "t" [] [[VStr (rep_string 396)]])) = OErr ERowTooLarge.
Proof. split; [|split]; vm_compute; reflexivity. Qed.
