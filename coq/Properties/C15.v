(* C15 - The page cache is a correct LRU that never drops unsaved pages.
   Statements only; every proof is `exact <lemma from Proofs/LruProofs.v>`.
   `reach c ops` is the cache state after ANY finite operation list `ops`
   (set / get / markDirty / markClean) starting from an empty cache of capacity c. *)
From Coq Require Import List NArith Bool.
From Mkdb Require Import Model.Lru Proofs.LruProofs.
Import ListNotations.
Open Scope N_scope.

(* the cache never holds more entries than its capacity, and never two for one key *)
Theorem C15_capacity : forall c ops, (length (entries (reach c ops)) <= c)%nat.
Proof. exact lru_capacity. Qed.
Print Assumptions C15_capacity.

Theorem C15_one_entry_per_key : forall c ops, NoDup (keys (entries (reach c ops))).
Proof. exact lru_unique_keys. Qed.
Print Assumptions C15_one_entry_per_key.

(* a lookup returns the value of the most recent successful insertion for that key,
   unless the key has been evicted since (stored_spec folds over the history:
   successful set of k -> Some v; eviction of k -> None; everything else keeps) *)
Theorem C15_lookup_fresh : forall c ops k,
  snd (lru_step (reach c ops) (OGet k)) =
  RGet (stored_spec k (combine ops (snd (lru_run (lru_init c) ops)))).
Proof. exact reach_get_fresh. Qed.
Print Assumptions C15_lookup_fresh.

(* an eviction happens only for an absent key on a full cache; the evicted entry is clean,
   every entry less recently used than it (behind it in the list) is dirty, and all other
   entries keep their relative (recency) order behind the new entry *)
Theorem C15_victim_is_lru_clean : forall c ops k v d k' s',
  lru_step (reach c ops) (OSet k v d) = (s', RSet true (Some k')) ->
  exists l1 e l2,
    entries (reach c ops) = l1 ++ e :: l2 /\ ekey e = k' /\ edirty e = false /\
    Forall (fun x => edirty x = true) l2 /\
    entries s' = mkEntry k v d :: l1 ++ l2 /\
    length (entries (reach c ops)) = c /\ ~ In k (keys (entries (reach c ops))).
Proof. exact reach_victim. Qed.
Print Assumptions C15_victim_is_lru_clean.

(* the list order is the recency order: a hit moves the key to the front and nothing else *)
Theorem C15_hit_moves_to_front : forall s k v,
  snd (lru_step s (OGet k)) = RGet (Some v) ->
  keys (entries (fst (lru_step s (OGet k)))) = k :: keys (remove_key k (entries s)).
Proof. exact touch_order_get. Qed.
Print Assumptions C15_hit_moves_to_front.

Theorem C15_miss_changes_nothing : forall s k,
  snd (lru_step s (OGet k)) = RGet None -> fst (lru_step s (OGet k)) = s.
Proof. exact miss_unchanged. Qed.
Print Assumptions C15_miss_changes_nothing.

(* a dirty entry is never removed, whatever the next operation is (other than being
   marked clean) *)
Theorem C15_dirty_never_evicted : forall c ops o e,
  In e (entries (reach c ops)) -> edirty e = true ->
  match o with OClean k => k <> ekey e | _ => True end ->
  In (ekey e) (keys (entries (reach c (ops ++ [o])))).
Proof. exact reach_dirty_kept. Qed.
Print Assumptions C15_dirty_never_evicted.

(* an insertion is refused iff the key is absent and the cache is full of dirty entries;
   a refused insertion changes nothing *)
Theorem C15_refused_iff_full_of_dirty : forall c ops k v d,
  (exists ev, snd (lru_step (reach c ops) (OSet k v d)) = RSet false ev) <->
  (~ In k (keys (entries (reach c ops))) /\ length (entries (reach c ops)) = c /\
   Forall (fun x => edirty x = true) (entries (reach c ops))).
Proof. exact reach_refusal. Qed.
Print Assumptions C15_refused_iff_full_of_dirty.

Theorem C15_refused_changes_nothing : forall s k v d ev,
  snd (lru_step s (OSet k v d)) = RSet false ev ->
  fst (lru_step s (OSet k v d)) = s /\ ev = None.
Proof. exact set_refused_unchanged. Qed.
Print Assumptions C15_refused_changes_nothing.

(* non-vacuity: a reachable full cache with a dirty LRU entry evicts the clean one in
   front of it; a reachable cache full of dirty entries refuses *)
Example C15_nonvacuous_evict :
  let ops := [OSet 1 10 true; OSet 2 20 false; OSet 3 30 false] in
  snd (lru_step (reach 3 ops) (OSet 4 40 false)) = RSet true (Some 2).
Proof. vm_compute. reflexivity. Qed.

Example C15_nonvacuous_refuse :
  let ops := [OSet 1 10 true; OSet 2 20 true] in
  snd (lru_step (reach 2 ops) (OSet 4 40 false)) = RSet false None.
Proof. vm_compute. reflexivity. Qed.

(* ---- the oracle of the correspondence run and the model (Proofs/LruOracle.v) ----
   `spec_accepts` (Spec/LruSpec.v) judges what the Go driver reports, step by step, without running
   the model; `model_agrees` compares the report with the model's trace. For EVERY capacity and
   EVERY operation list the oracle accepts the model's own trace, so on a case where the model and
   Go agree the oracle accepts what Go did: an oracle rejection is never a false alarm on code that
   conforms to the model. No hypothesis on the case is needed. *)
From Mkdb Require Import Spec.LruSpec Proofs.LruOracle.

Theorem C15_oracle_accepts_model : forall c ops,
  spec_accepts (c, ops, lru_trace (lru_init c) ops) = true.
Proof. exact oracle_accepts_model. Qed.
Print Assumptions C15_oracle_accepts_model.

Theorem C15_agreement_implies_acceptance : forall cs : lru_case,
  model_agrees cs = true -> spec_accepts cs = true.
Proof. exact agreement_implies_acceptance. Qed.
Print Assumptions C15_agreement_implies_acceptance.

(* conversely the oracle accepts NOTHING BUT the model's trace (it fixes the return value and the
   resident list of every step), so it is neither stricter nor laxer than the model: on every case
   the two verdicts of the correspondence run coincide *)
Theorem C15_oracle_is_model : forall cs : lru_case, spec_accepts cs = model_agrees cs.
Proof. exact oracle_is_model. Qed.
Print Assumptions C15_oracle_is_model.

(* non-vacuity: a case with a hit, a dirty mark, an eviction that skips the dirty LRU entry, a
   refusal on a cache full of dirty entries and a miss; the observation is the model's trace.
   And the oracle is not trivially true: the same case reporting the eviction of the dirty LRU
   entry 1 instead of the clean entry 2 is rejected. *)
Definition c15_demo_ops : list lru_op :=
  [OSet 1 10 false; OSet 2 20 false; OGet 1; ODirty 1; OGet 2; OGet 1; OSet 3 30 true;
   OSet 4 40 true; OSet 5 50 false; OGet 2; OClean 3; OSet 5 50 false].

Example C15_oracle_demo :
  map fst (lru_trace (lru_init 3) c15_demo_ops) =
    [RSet true None; RSet true None; RGet (Some 10); RNone; RGet (Some 20); RGet (Some 10);
     RSet true None; RSet true (Some 2); RSet false None; RGet None; RNone; RSet true (Some 3)] /\
  model_agrees (3%nat, c15_demo_ops, lru_trace (lru_init 3) c15_demo_ops) = true /\
  spec_accepts (3%nat, c15_demo_ops, lru_trace (lru_init 3) c15_demo_ops) = true.
Proof. vm_compute. repeat split; reflexivity. Qed.

Example C15_oracle_rejects_wrong_victim :
  let ops := [OSet 1 10 true; OSet 2 20 false; OSet 3 30 false] in
  spec_accepts (2%nat, ops,
    [(RSet true None, [(1, 10, true)]);
     (RSet true None, [(2, 20, false); (1, 10, true)]);
     (RSet true (Some 1), [(3, 30, false); (2, 20, false)])]) = false /\
  spec_accepts (2%nat, ops,
    [(RSet true None, [(1, 10, true)]);
     (RSet true None, [(2, 20, false); (1, 10, true)]);
     (RSet true (Some 2), [(3, 30, false); (1, 10, true)])]) = true.
Proof. vm_compute. split; reflexivity. Qed.

(* long runs at large capacities are observed sparsely (every return value, the resident list at the
   end only): when the correspondence finds no disagreement, what the implementation returned at every
   step IS `snd (lru_step (reach c prefix) op)` of the theorems above (refusal iff full of dirty,
   victim = least recently used clean entry, ...) *)
Theorem C15_sparse_agreement_is_exact : forall c ops outs fin,
  model_agrees_sparse (c, ops, outs, fin) = true ->
  outs = snd (lru_run (lru_init c) ops) /\ fin = resident (fst (lru_run (lru_init c) ops)).
Proof. exact sparse_agreement_exact. Qed.
Print Assumptions C15_sparse_agreement_is_exact.

Example C15_sparse_nonvacuous :
  model_agrees_sparse (2%nat, [OSet 1 10 true; OSet 2 20 false; OSet 3 30 false; OSet 4 40 true; OSet 5 50 false],
                       [RSet true None; RSet true None; RSet true (Some 2%N); RSet true (Some 3%N); RSet false None],
                       [(4, 40, true); (1, 10, true)]%N) = true /\
  model_agrees_sparse (2%nat, [OSet 1 10 true; OSet 2 20 false; OSet 3 30 false],
                       [RSet true None; RSet true None; RSet false None], [(2, 20, false); (1, 10, true)]%N) = false.
Proof. vm_compute. split; reflexivity. Qed.

(* ---- the sparse agreement in the property's own words (Proofs/LruSparse.v) ----
   `pre ++ OSet k v d :: post` is the operation list of the run, `length pre` the position of the
   insertion in it, `nth_error outs (length pre)` what the IMPLEMENTATION returned there. On a case
   where the correspondence finds no disagreement: *)
From Mkdb Require Import Proofs.LruSparse.

(* a refusal was observed only on a cache that did not hold the key and was full of dirty entries *)
Theorem C15_sparse_refusal_only_when_full_of_dirty : forall c pre k v d post outs fin ev,
  model_agrees_sparse (c, pre ++ OSet k v d :: post, outs, fin) = true ->
  nth_error outs (length pre) = Some (RSet false ev) ->
  ~ In k (keys (entries (reach c pre))) /\
  length (entries (reach c pre)) = c /\
  Forall (fun x => edirty x = true) (entries (reach c pre)) /\
  ev = None.
Proof. exact sparse_refusal_means_full_of_dirty. Qed.
Print Assumptions C15_sparse_refusal_only_when_full_of_dirty.

(* an insertion was accepted whenever the cache was not full of dirty entries: an observed
   acceptance excludes (key absent, full, all dirty) *)
Theorem C15_sparse_accepts_unless_full_of_dirty : forall c pre k v d post outs fin ev,
  model_agrees_sparse (c, pre ++ OSet k v d :: post, outs, fin) = true ->
  nth_error outs (length pre) = Some (RSet true ev) ->
  ~ (~ In k (keys (entries (reach c pre))) /\
     length (entries (reach c pre)) = c /\
     Forall (fun x => edirty x = true) (entries (reach c pre))).
Proof. exact sparse_acceptance_means_room_or_clean. Qed.
Print Assumptions C15_sparse_accepts_unless_full_of_dirty.

(* an observed victim was a clean entry with only dirty entries behind it (less recently used) *)
Theorem C15_sparse_victim_is_lru_clean : forall c pre k v d post outs fin k',
  model_agrees_sparse (c, pre ++ OSet k v d :: post, outs, fin) = true ->
  nth_error outs (length pre) = Some (RSet true (Some k')) ->
  exists l1 e l2,
    entries (reach c pre) = l1 ++ e :: l2 /\ ekey e = k' /\ edirty e = false /\
    Forall (fun x => edirty x = true) l2 /\
    entries (reach c (pre ++ [OSet k v d])) = mkEntry k v d :: l1 ++ l2 /\
    length (entries (reach c pre)) = c /\ ~ In k (keys (entries (reach c pre))).
Proof. exact sparse_victim_is_lru_clean. Qed.
Print Assumptions C15_sparse_victim_is_lru_clean.

(* non-vacuity: capacity 2, two dirty insertions, then a refused one (followed by a miss); both
   hypotheses of the refusal theorem hold on this case, and so does its conclusion *)
Example C15_sparse_refusal_nonvacuous :
  let pre := [OSet 1 10 true; OSet 2 20 true] in
  let post := [OGet 3] in
  let outs := [RSet true None; RSet true None; RSet false None; RGet None] in
  let fin := [(2, 20, true); (1, 10, true)] in
  model_agrees_sparse (2%nat, pre ++ OSet 3 30 false :: post, outs, fin) = true /\
  nth_error outs (length pre) = Some (RSet false None) /\
  entries (reach 2 pre) = [mkEntry 2 20 true; mkEntry 1 10 true].
Proof. vm_compute. repeat split; reflexivity. Qed.

Example C15_sparse_refusal_instance :
  let pre := [OSet 1 10 true; OSet 2 20 true] in
  ~ In 3 (keys (entries (reach 2 pre))) /\
  length (entries (reach 2 pre)) = 2%nat /\
  Forall (fun x => edirty x = true) (entries (reach 2 pre)) /\
  @None N = None.
Proof.
  exact (C15_sparse_refusal_only_when_full_of_dirty 2 [OSet 1 10 true; OSet 2 20 true] 3 30 false
           [OGet 3] [RSet true None; RSet true None; RSet false None; RGet None]
           [(2, 20, true); (1, 10, true)] None
           (proj1 C15_sparse_refusal_nonvacuous) (proj1 (proj2 C15_sparse_refusal_nonvacuous))).
Qed.
