(* C09 - The SQL front end never crashes or hangs on any input.
   Statements only; proofs are `exact <lemma of Proofs/ParserTotal.v>`.

   `parse_pipeline raws` is engine/session.go parseSQL from the point where the forked text/scanner
   (sql/go_scanner.go) has produced its raw tokens: the token wrapper tokenScanner.Cur/Next with the
   keyword table generated from the Go source, the TokenList, and every production of Parser.Parse.
   The quantifier is over EVERY finite list of raw tokens (class, text, Peek()=='=' flag) - the model
   assumes nothing about what the raw scanner returns (Lexer.raw_ok is constantly true).

   PARTIAL: the raw scanner's own termination and panic-freedom (800 lines of stdlib code) is
   VALIDATED on every run (malformed byte stream, truncations, 100 kB inputs) but not proved.
   Termination of the modelled part is Coq's guard condition plus C09_fuel_never_exhausted. *)
From Coq Require Import List ZArith String.
From Mkdb Require Import Model.Lexer Model.Parser Proofs.ParserTotal.
Import ListNotations.

(* no type assertion / index of the wrapper + parser can fail, whatever the raw tokens are *)
Theorem C09_total : forall raws w, parse_pipeline raws <> PPanic w.
Proof. exact pipeline_never_panics. Qed.
Print Assumptions C09_total.

(* the loops and the AND/OR recursion always terminate: the fuel S (length tokens) supplied by
   `parse` is never exhausted (every iteration consumes a token) *)
Theorem C09_fuel_never_exhausted : forall raws, parse_pipeline raws <> PFuel.
Proof. exact pipeline_never_out_of_fuel. Qed.
Print Assumptions C09_fuel_never_exhausted.

Theorem C09_fuel_bound : forall fuel toks, length toks < fuel -> parse_f fuel toks <> PFuel.
Proof. exact fuel_suffices. Qed.
Print Assumptions C09_fuel_bound.

(* hence every input yields a statement or an error value *)
Theorem C09_statement_or_error : forall raws,
  (exists s, parse_pipeline raws = POk s) \/ (exists e, parse_pipeline raws = PErr e).
Proof. exact pipeline_statement_or_error. Qed.
Print Assumptions C09_statement_or_error.

(* the same for a token list handed to sql.Parser directly (any type numbers, any texts) *)
Theorem C09_parser_total : forall toks w, parse_tokens toks <> PPanic w /\ parse_tokens toks <> PFuel.
Proof. exact tokens_never_panic. Qed.
Print Assumptions C09_parser_total.

(* the wrapper emits at most one token per raw token *)
Theorem C09_wrapper_bounded : forall raws, length (wrap raws) <= length raws.
Proof. exact wrap_length. Qed.
Print Assumptions C09_wrapper_bounded.

(* non-vacuity: the model distinguishes the outcome classes; inputs that crashed the code before
   the F7 fixes are errors now *)
Local Open Scope string_scope.
Example C09_ex_and_without_comparison :      (* SELECT 1 AND 2 *)
  parse_pipeline [mkRaw RIdent "SELECT" false; mkRaw RInt "1" false; mkRaw RIdent "and" false; mkRaw RInt "2" false]
  = PErr ESyntax.
Proof. vm_compute. reflexivity. Qed.

Example C09_ex_huge_limit :                  (* select a from t limit 99999999999999999999 *)
  parse_pipeline [mkRaw RIdent "select" false; mkRaw RIdent "a" false; mkRaw RIdent "from" false;
                  mkRaw RIdent "t" false; mkRaw RIdent "limit" false; mkRaw RInt "99999999999999999999" false]
  = PErr EAtoi.
Proof. vm_compute. reflexivity. Qed.

Example C09_ex_lone_quote : wrap [mkRaw RString "'" false] = [mkTok 3 ""].
Proof. vm_compute. reflexivity. Qed.

Example C09_ex_ok :                          (* select a from t where a != 1 *)
  parse_pipeline [mkRaw RIdent "select" false; mkRaw RIdent "a" false; mkRaw RIdent "FROM" false;
                  mkRaw RIdent "t" false; mkRaw RIdent "where" false; mkRaw RIdent "a" false;
                  mkRaw ROther "!" true; mkRaw ROther "=" false; mkRaw RInt "1" false]
  = POk (SSelect (mkSelect [mkDC (SPExpr (EVal (XCol (mkCol "" "a")))) ""] [TRName "t" None]
                   (Some (EPred (XCol (mkCol "" "a")) CNeq (XLit (VInt 1)))) [] [] false false 0 0)).
Proof. vm_compute. reflexivity. Qed.

(* ---- oracle soundness (Proofs/ParseOracle.v): the SM oracles of the correspondence runs
        (tools/props/c09.py: parse_case_spec / tokens_case_spec / enum_case_spec, "Go neither panicked
        nor hung") accept the model's own behaviour; hence on every case on which the model agrees
        with Go (MM) the oracle accepts what Go did (SM) - a consequence of C09_total /
        C09_parser_total. For ALL cases, no bound on sizes.
        parse / tokens: no hypothesis. enum: the run-length encoding has no run of length 0
        (`rle_runs_nonempty`; the Go encoder emits runs j - i >= 1). The oracle reads the runs
        unexpanded, the model comparison expands them, so a zero-length run of class 100 is rejected
        by the oracle and invisible to the model: C09_enum_hypothesis_needed. ---- *)
From Mkdb Require Import Spec.ParseObs Proofs.ParseOracle.

Theorem C09_agreement_implies_acceptance_parse : forall c,
  parse_case_model c = true -> parse_case_spec c = true.
Proof. exact parse_agreement_implies_acceptance. Qed.
Print Assumptions C09_agreement_implies_acceptance_parse.

Theorem C09_agreement_implies_acceptance_tokens : forall c,
  tokens_case_model c = true -> tokens_case_spec c = true.
Proof. exact tokens_agreement_implies_acceptance. Qed.
Print Assumptions C09_agreement_implies_acceptance_tokens.

Theorem C09_agreement_implies_acceptance_enum : forall c,
  rle_runs_nonempty c = true -> enum_case_model c = true -> enum_case_spec c = true.
Proof. exact enum_agreement_implies_acceptance. Qed.
Print Assumptions C09_agreement_implies_acceptance_enum.

(* the oracles accept what the model itself does (gout_of writes a model outcome as an observation;
   model_rle is the model's own enumeration, one run per sequence) *)
Theorem C09_oracle_accepts_model_parse : forall raws,
  parse_case_model (raws, wrap raws, gout_of (parse_pipeline raws)) = true /\
  parse_case_spec (raws, wrap raws, gout_of (parse_pipeline raws)) = true.
Proof. exact parse_oracle_accepts_model. Qed.
Print Assumptions C09_oracle_accepts_model_parse.

Theorem C09_oracle_accepts_model_tokens : forall toks,
  tokens_case_model (toks, gout_of (parse_tokens toks)) = true /\
  tokens_case_spec (toks, gout_of (parse_tokens toks)) = true.
Proof. exact tokens_oracle_accepts_model. Qed.
Print Assumptions C09_oracle_accepts_model_tokens.

Theorem C09_oracle_accepts_model_enum : forall vocab n prefix,
  enum_case_model (vocab, n, prefix, model_rle vocab n prefix) = true /\
  enum_case_spec (vocab, n, prefix, model_rle vocab n prefix) = true.
Proof. exact enum_oracle_accepts_model. Qed.
Print Assumptions C09_oracle_accepts_model_enum.

Example C09_enum_hypothesis_needed :
  let c : enum_case := ([], O, [], [(100%Z, 0%N); (class_of (parse_tokens []), 1%N)]) in
  enum_case_model c = true /\ enum_case_spec c = false /\ rle_runs_nonempty c = false.
Proof. exact enum_zero_run_needed. Qed.

(* non-vacuity: concrete cases on which the model agrees (so the theorems apply), and observations
   the oracles reject *)
Local Open Scope Z_scope.
Example C09_ex_agreement_parse :             (* select a FROM t where a != 1, observed: the tree *)
  let c : parse_case :=
    ([mkRaw RIdent "select" false; mkRaw RIdent "a" false; mkRaw RIdent "FROM" false;
      mkRaw RIdent "t" false; mkRaw RIdent "where" false; mkRaw RIdent "a" false;
      mkRaw ROther "!" true; mkRaw ROther "=" false; mkRaw RInt "1" false],
     [mkTok 59 "select"; mkTok 0 "a"; mkTok 38 "FROM"; mkTok 0 "t"; mkTok 76 "where"; mkTok 0 "a";
      mkTok 13 "!"; mkTok 2 "1"],
     GOk (SSelect (mkSelect [mkDC (SPExpr (EVal (XCol (mkCol "" "a")))) ""] [TRName "t" None]
                   (Some (EPred (XCol (mkCol "" "a")) CNeq (XLit (VInt 1)))) [] [] false false 0 0))) in
  parse_case_model c = true /\ parse_case_spec c = true.
Proof. vm_compute. split; reflexivity. Qed.

Example C09_ex_agreement_tokens :            (* SELECT 1 AND 2 as a TokenList: a syntax error (class 1) *)
  let toks := [mkTok 59 ""; mkTok 2 "1"; mkTok (lookup_code "AND") ""; mkTok 2 "2"] in
  tokens_case_model (toks, GErr 1) = true /\ tokens_case_spec (toks, GErr 1) = true /\
  tokens_case_model (toks, GPanic) = false /\ tokens_case_spec (toks, GPanic) = false /\
  tokens_case_spec (toks, GTimeout) = false.
Proof. vm_compute. repeat split; reflexivity. Qed.

Example C09_ex_agreement_enum :              (* SELECT a followed by every pair over {a, FROM, ','} *)
  let vocab := [mkTok 0 "a"; mkTok 38 ""; mkTok 26 ""] in
  let good : enum_case := (vocab, 2%nat, [mkTok 59 ""; mkTok 0 "a"],
                           [(0, 1%N); (2, 2%N); (0, 1%N); (2, 2%N); (0, 1%N); (2, 2%N)]) in
  let hung : enum_case := (vocab, 2%nat, [mkTok 59 ""; mkTok 0 "a"],
                           [(0, 1%N); (2, 2%N); (0, 1%N); (101, 1%N); (2, 1%N); (0, 1%N); (2, 2%N)]) in
  rle_runs_nonempty good = true /\ enum_case_model good = true /\ enum_case_spec good = true /\
  rle_runs_nonempty hung = true /\ enum_case_model hung = false /\ enum_case_spec hung = false.
Proof. vm_compute. repeat split; reflexivity. Qed.
