(* C09 - The SQL front end never crashes or hangs on any input.
   Statements only; proofs are `exact <lemma of Proofs/ParserTotal.v>`.

   `parse_pipeline raws` is engine/session.go parseSQL from the point where the forked text/scanner
   (sql/go_scanner.go) has produced its raw tokens: the token wrapper tokenScanner.Cur/Next with the
   keyword table generated from the Go source, the TokenList, and every production of Parser.Parse.
   The quantifier is over EVERY finite list of raw tokens (class, text, Peek()=='=' flag) - the model
   assumes nothing about what the raw scanner returns (Lexer.raw_ok is constantly true).

   PARTIAL: the raw scanner's own termination and panic-freedom (800 lines of stdlib code) is
   VALIDATED on every run (malformed byte stream, truncations, 100 kB inputs) but not proved.
   Termination of the modelled part is Coq's guard condition plus C09_fuel_never_exhausted. *)
From Coq Require Import List ZArith String.
From Mkdb Require Import Model.Lexer Model.Parser Proofs.ParserTotal.
Import ListNotations.

(* no type assertion / index of the wrapper + parser can fail, whatever the raw tokens are *)
Theorem C09_total : forall raws w, parse_pipeline raws <> PPanic w.
Proof. exact pipeline_never_panics. Qed.
Print Assumptions C09_total.

(* the loops and the AND/OR recursion always terminate: the fuel S (length tokens) supplied by
   `parse` is never exhausted (every iteration consumes a token) *)
Theorem C09_fuel_never_exhausted : forall raws, parse_pipeline raws <> PFuel.
Proof. exact pipeline_never_out_of_fuel. Qed.
Print Assumptions C09_fuel_never_exhausted.

Theorem C09_fuel_bound : forall fuel toks, length toks < fuel -> parse_f fuel toks <> PFuel.
Proof. exact fuel_suffices. Qed.
Print Assumptions C09_fuel_bound.

(* hence every input yields a statement or an error value *)
Theorem C09_statement_or_error : forall raws,
  (exists s, parse_pipeline raws = POk s) \/ (exists e, parse_pipeline raws = PErr e).
Proof. exact pipeline_statement_or_error. Qed.
Print Assumptions C09_statement_or_error.

(* the same for a token list handed to sql.Parser directly (any type numbers, any texts) *)
Theorem C09_parser_total : forall toks w, parse_tokens toks <> PPanic w /\ parse_tokens toks <> PFuel.
Proof. exact tokens_never_panic. Qed.
Print Assumptions C09_parser_total.

(* the wrapper emits at most one token per raw token *)
Theorem C09_wrapper_bounded : forall raws, length (wrap raws) <= length raws.
Proof. exact wrap_length. Qed.
Print Assumptions C09_wrapper_bounded.

(* non-vacuity: the model distinguishes the outcome classes; inputs that crashed the code before
   the F7 fixes are errors now *)
Local Open Scope string_scope.
Example C09_ex_and_without_comparison :      (* SELECT 1 AND 2 *)
  parse_pipeline [mkRaw RIdent "SELECT" false; mkRaw RInt "1" false; mkRaw RIdent "and" false; mkRaw RInt "2" false]
  = PErr ESyntax.
Proof. vm_compute. reflexivity. Qed.

Example C09_ex_huge_limit :                  (* select a from t limit 99999999999999999999 *)
  parse_pipeline [mkRaw RIdent "select" false; mkRaw RIdent "a" false; mkRaw RIdent "from" false;
                  mkRaw RIdent "t" false; mkRaw RIdent "limit" false; mkRaw RInt "99999999999999999999" false]
  = PErr EAtoi.
Proof. vm_compute. reflexivity. Qed.

Example C09_ex_lone_quote : wrap [mkRaw RString "'" false] = [mkTok 3 ""].
Proof. vm_compute. reflexivity. Qed.

Example C09_ex_ok :                          (* select a from t where a != 1 *)
  parse_pipeline [mkRaw RIdent "select" false; mkRaw RIdent "a" false; mkRaw RIdent "FROM" false;
                  mkRaw RIdent "t" false; mkRaw RIdent "where" false; mkRaw RIdent "a" false;
                  mkRaw ROther "!" true; mkRaw ROther "=" false; mkRaw RInt "1" false]
  = POk (SSelect (mkSelect [mkDC (SPExpr (EVal (XCol (mkCol "" "a")))) ""] [TRName "t" None]
                   (Some (EPred (XCol (mkCol "" "a")) CNeq (XLit (VInt 1)))) [] [] false false 0 0)).
Proof. vm_compute. reflexivity. Qed.
