(* C01 - Table contents always equal what the statement history implies.

   FULL STATEMENT (C01_full_statement): for every history of statements on a fresh database,
   SELECT * of every table (computed by the model through its own catalog trees, tuple codec
   and sibling-chain scans) equals what the plain in-memory specification derives from the
   acknowledged statements, with strictly increasing row ids.

   STATUS: the full statement is checked on every run by the correspondence (model = Go = spec
   on seeded histories) but is NOT yet proved in Coq end to end: the part through the catalog
   encoding is missing. What IS proved, for all histories / trees of any height, is the storage
   core of the property (theorems C01_partial_x below): nothing is lost, duplicated, reordered or resurrected
   by page splits; scans return exactly the live cells in insertion order; UPDATE / DELETE touch
   exactly the addressed cell; row ids are strictly increasing and never shared between tables. *)
From Coq Require Import List NArith Sorted.
From Mkdb Require Import Spec.HistObs Proofs.TreeProofs Proofs.StoreInv Properties.C11.
Import ListNotations.
Local Open Scope N_scope.

Definition stmts_only (evs : list event) : bool :=
  forallb (fun e => match e with EvStmt _ => true | _ => false end) evs.

Definition acked_stmts (evs : list event) (os : list (option outcome)) : list stmt :=
  flat_map (fun eo => match eo with
                      | (EvStmt st, Some (OOk _)) => [st]
                      | _ => []
                      end) (combine evs os).

Definition table_agrees (s : store) (d : db) (n : string) : Prop :=
  match spec_table d n, st_fetch s n with
  | Some (cols, rows), Ok (idrows, fs) =>
      map f_col fs = cols /\ map snd idrows = rows /\ StronglySorted N.lt (map fst idrows)
  | None, Err ETableNotExist => True
  | _, _ => False
  end.

Definition C01_full_statement : Prop :=
  forall evs y os n,
    stmts_only evs = true ->
    run_events init_sys evs = (SOk y, os) ->
    (forall o, In (Some o) os -> o <> OPanic) ->
    table_agrees (mem y) (spec_run [] (acked_stmts evs os)) n.

(* ---- proved part ---- *)

(* (a) an insertion above every existing key keeps every existing cell - tombstones included -
   in place and appends exactly the new cell, through leaf, internal and root splits *)
Theorem C01_partial_insert_appends : forall free t k lsn (v : bytes),
  WFT ML MI free t -> Forall (fun x => x < k) (tree_keys t) -> (List.length v <= MV)%nat ->
  exists t' f',
    tree_insert ML MI PS MV t k lsn v free = TOk (t', f') /\ WFT ML MI f' t' /\
    all_cells t' = all_cells t ++ [mkLC k false v] /\
    Forall (fun x => x <= k) (tree_keys t') /\ free <= f' /\
    (forall x, In x (offsets_of t') -> In x (offsets_of t) \/ free <= x).
Proof. exact C11_insert. Qed.
Print Assumptions C01_partial_insert_appends.

(* (b) a full scan (following the stored sibling offsets, as scanRight does) of any tree of
   any reachable state returns exactly the live cells in tree (= insertion) order *)
Theorem C01_partial_scan : forall y t, reachable y -> In t (forest (mem y)) ->
  scan_right t = TOk (live (all_cells t)).
Proof.
  intros y t Hy Hin. destruct (C11_wellformed y Hy) as (A & _). rewrite Forall_forall in A.
  eapply scan_right_okP. apply A. exact Hin.
Qed.
Print Assumptions C01_partial_scan.

(* (c) UPDATE / DELETE / redo of them rewrite exactly the cell with the addressed key, provided
   the page named is the leaf holding that key; every other cell of the tree is untouched *)
Theorem C01_partial_touch : forall pg k lsn g t,
  (forall l c, In l (leaves t) -> In c (leaf_cells l) -> lc_key c = k -> t_off l = pg) ->
  all_cells (touch_leaf pg k lsn g t) = map_cell k g (all_cells t).
Proof. exact touch_cells_unique. Qed.
Print Assumptions C01_partial_touch.

(* (d) row ids: strictly ascending inside every table, and every key or separator anywhere in
   the file is at most lastKey, so the next row id (lastKey + 1) is new database-wide *)
Theorem C01_partial_ids : forall y t, reachable y -> In t (forest (mem y)) ->
  StronglySorted N.lt (keys_of (all_cells t)) /\
  Forall (fun x => x <= lastKey (mem y)) (tree_keys t).
Proof.
  intros y t Hy Hin. split; [eapply C11_keys_ascending; eauto|].
  destruct Hy as (evs & os & Hnc & Hr). destruct (reachable_inv evs y os Hnc Hr) as [[_ _ K] _].
  rewrite Forall_forall in K. apply K. exact Hin.
Qed.
Print Assumptions C01_partial_ids.

(* (e) no page is shared between tables *)
Theorem C01_partial_no_leak : forall y, reachable y -> NoDup (all_offsets (forest (mem y))).
Proof. intros y Hy. apply (C11_wellformed y Hy). Qed.
Print Assumptions C01_partial_no_leak.
