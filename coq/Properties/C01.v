(* C01 - placeholder: theorems are added in Proofs/TreeProofs.v etc. *)
From Mkdb Require Import Spec.HistObs.
