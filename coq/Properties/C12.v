(* C12 - A page written to disk reads back as the same page.
   Statements only; every proof is `exact <lemma from Proofs/PageCodecProofs.v>`.

   encode_node / encode_leaf / encode_internal = btreeNode.encode*, decode_leaf /
   decode_internal = btreeNode.decode*, decode_page = the first-byte switch of fileStore.fetch
   followed by decode (Model/PageCodec.v). `admissible n` (boolean): cell count = slot count <=
   maxLeafNodeCells resp. maxInternalNodeCells, offsets pairwise distinct and below the cell
   count (a permutation of 0..k-1), every value <= maxValueSize bytes, keys < 2^32, page
   offsets / sibling links / LSN < 2^64. `encodable n` is the same without "slot count = cell
   count": the slot array may be longer than the offsets array, which is what the left half of
   a split looks like (split keeps the old slot array and shortens offsets). *)
From Coq Require Import List NArith Bool.
From Mkdb Require Import Model.PageCodec Proofs.PageCodecProofs.
Import ListNotations.
Open Scope N_scope.

(* every admissible node serialises to exactly one page of pageSize bytes, and fetch's decode
   of that page is the identical node *)
Theorem C12_roundtrip : forall n,
  admissible n = true ->
  exists page, encode_node n = Ok page /\ N.of_nat (length page) = pageSize /\ decode_page page = Ok n.
Proof. exact encode_decode_admissible. Qed.
Print Assumptions C12_roundtrip.

Theorem C12_leaf : forall off lsn hasL hasR lsib rsib offs cells,
  admissible (NLeaf off lsn hasL hasR lsib rsib offs cells) = true ->
  exists page, encode_leaf off lsn hasL hasR lsib rsib offs cells = Ok page /\
    N.of_nat (length page) = pageSize /\
    decode_leaf page = Ok (NLeaf off lsn hasL hasR lsib rsib offs cells).
Proof. exact encode_decode_leaf. Qed.
Print Assumptions C12_leaf.

Theorem C12_internal : forall off lsn rgt offs cells,
  admissible (NInternal off lsn rgt offs cells) = true ->
  exists page, encode_internal off lsn rgt offs cells = Ok page /\
    N.of_nat (length page) = pageSize /\
    decode_internal page = Ok (NInternal off lsn rgt offs cells).
Proof. exact encode_decode_internal. Qed.
Print Assumptions C12_internal.

(* node kind dispatch on the first byte; any other first byte panics *)
Theorem C12_dispatch : forall b rest,
  decode_page (b :: rest) =
  if N_of_ascii b =? tagInternalNode then decode_internal (b :: rest)
  else if N_of_ascii b =? tagLeafNode then decode_leaf (b :: rest)
  else Panic.
Proof. exact fetch_dispatch. Qed.
Print Assumptions C12_dispatch.

(* the realistic non-admissible shape (slot array longer than offsets): what is read back is
   the node with its slot array cut to the live cells; it has the same logical view - flags,
   links, LSN and the cells in key order - and is admissible *)
Theorem C12_logical : forall n,
  encodable n = true ->
  exists page n',
    encode_node n = Ok page /\ N.of_nat (length page) = pageSize /\
    decode_page page = Ok n' /\
    n' = truncate n /\ logical n' = logical n /\ logical n <> None /\ admissible n' = true.
Proof. exact decode_encode_logical. Qed.
Print Assumptions C12_logical.

(* file header (fileStore.save / open) *)
Theorem C12_header : forall h rest,
  header_ok h = true ->
  N.of_nat (length (encode_header h)) = headerSize /\ decode_header (encode_header h ++ rest) = Ok h.
Proof. intros h rest H. split; [exact (encode_header_length h) | exact (header_roundtrip h rest H)]. Qed.
Print Assumptions C12_header.

(* update (WriteAt) then a cold fetch (ReadAt of pageSize bytes at the same position) *)
Theorem C12_through_file : forall file n,
  admissible n = true ->
  exists page, encode_node n = Ok page /\
    decode_page (page_at (write_at file (node_off n) page) (node_off n)) = Ok n.
Proof.
  intros file n H. destruct (encode_decode_admissible n H) as [page [He [Hs Hd]]].
  exists page. split; [exact He|]. rewrite (page_at_write_at file (node_off n) page Hs). exact Hd.
Qed.
Print Assumptions C12_through_file.

(* ---- non-vacuity and boundary behaviour (computed) ---- *)

Definition v400 : bytes := repeat (ascii_of_N 255) 400.
Definition full_leaf : node :=
  NLeaf 4096 77 true true 8192 12288 [8;0;7;1;6;2;5;3;4]
        (map (fun k => mkLC (k + 4294967286) (N.even k) v400) [1;2;3;4;5;6;7;8;9]).
Example C12_nonvacuous_full_leaf :
  admissible full_leaf = true /\ N.of_nat (cell_count full_leaf) = maxLeafNodeCells.
Proof. vm_compute. split; reflexivity. Qed.

Definition full_internal : node :=
  NInternal 4096 18446744073709551615 12288 (map N.of_nat (rev (seq 0 290)))
            (map (fun k => mkIC (N.of_nat k) (4096 * N.of_nat k)) (seq 0 290)).
Example C12_nonvacuous_full_internal :
  admissible full_internal = true /\ N.of_nat (cell_count full_internal) = maxInternalNodeCells.
Proof. vm_compute. split; reflexivity. Qed.

(* left half of a split leaf: 4 live cells, 9 slots *)
Definition split_left : node :=
  NLeaf 4096 5 false true 0 8192 [0;1;2;3]
        (map (fun k => mkLC k (N.even k) [ascii_of_N k]) [1;2;3;4;5;6;7;8;9]).
Example C12_nonvacuous_split_left :
  encodable split_left = true /\ admissible split_left = false /\
  match encode_node split_left with
  | Ok p => decode_page p = Ok (truncate split_left)
  | _ => False
  end.
Proof. vm_compute. repeat split. Qed.

(* one cell beyond capacity with maximum-size values: encode panics (freeSize wraps) *)
Example C12_overfull_leaf_panics :
  encode_node (NLeaf 4096 1 false false 0 0 [0;1;2;3;4;5;6;7;8;9]
                     (map (fun k => mkLC k false v400) [1;2;3;4;5;6;7;8;9;10])) = Panic.
Proof. vm_compute. reflexivity. Qed.

(* outside `encodable`: a live offset at or above the live-cell count (cannot arise from
   ascending-key inserts, where offsets are always 0..k-1): the page is written, but decoding
   it indexes past the freshly made slot array - fetch panics *)
Example C12_offset_beyond_count_panics_on_decode :
  match encode_node (NLeaf 4096 1 false false 0 0 [0;2] [mkLC 1 false []; mkLC 2 false []; mkLC 3 false []]) with
  | Ok p => decode_page p = Panic
  | _ => False
  end.
Proof. vm_compute. reflexivity. Qed.

(* any first byte other than the two tags *)
Example C12_bad_tag_panics : decode_page (ascii_of_N 2 :: repeat zero 4095) = Panic.
Proof. vm_compute. reflexivity. Qed.

(* ---- the oracle of the check (Spec/PageCodecSpec.v) and the theorems above ----
   Every run of the check evaluates, on what the Go code returned for a generated node,
   `pc_model_agrees` (Go's page bytes, the node decode returned, the node a cold fetch returned, or
   the error / panic, equal what encode_node / decode_*_raw / decode_page_raw compute) and the
   oracle `pc_spec_accepts` (on an unedited case: one page of pageSize bytes was written and both
   read paths returned the same node if `admissible`, a node with the same logical view if only
   `encodable`; it runs neither the model's encoder nor its decoder). Agreement with the model
   implies acceptance, for every case - all nodes, all observations, no size bound, no hypothesis:
   on conforming code the oracle cannot raise a false alarm, and a rejection of conforming code
   would contradict C12_roundtrip / C12_through_file (admissible) or C12_logical (encodable). *)
From Mkdb Require Import Spec.PageCodecSpec Proofs.PageCodecOracle.

Theorem C12_agreement_implies_acceptance : forall c,
  pc_model_agrees c = true -> pc_spec_accepts c = true.
Proof. exact pc_agreement_implies_acceptance. Qed.
Print Assumptions C12_agreement_implies_acceptance.

(* file header cases: Go's 28 bytes and the header read back equal encode_header / decode_header
   => the oracle (28 bytes, the same four fields back, for header_ok headers) accepts: C12_header *)
Theorem C12_header_agreement_implies_acceptance : forall c,
  hdr_model_agrees c = true -> hdr_spec_accepts c = true.
Proof. exact hdr_agreement_implies_acceptance. Qed.
Print Assumptions C12_header_agreement_implies_acceptance.

(* non-vacuity: the model's own encode / decode / write+fetch of the full leaf, the full internal
   node (both admissible: the `same_node` clause) and the left half of a split (encodable only:
   the `same_logical` clause) are cases on which both functions are true and the oracle really
   judges (unedited, one page, nodes returned by both read paths) *)
Definition judged (c : pc_case) : bool :=
  unedited c && one_page (pc_enc c) &&
  match pc_dec c, pc_fetch c with DOk _, DOk _ => true | _, _ => false end.

Example C12_agreement_nonvacuous :
  forallb (fun n => let c := pc_self_case n in pc_model_agrees c && pc_spec_accepts c && judged c)
          [full_leaf; full_internal; split_left] = true /\
  map admissible [full_leaf; full_internal; split_left] = [true; true; false].
Proof. vm_compute. split; reflexivity. Qed.

(* ... and the oracle is not the constant true: the full leaf's page read back as another node, or
   as the same node with two cells swapped in the slot array only (offsets unchanged, so the key
   order differs), or a short page, is rejected (and then, by the theorem, is not what the model does) *)
Definition with_dec (c : pc_case) (d : dec_obs) : pc_case :=
  mkPC (pc_node c) (pc_raw c) (pc_patch c) (pc_trunc c) (pc_enc c) d (pc_fetch c).
Definition with_enc (c : pc_case) (e : enc_obs) : pc_case :=
  mkPC (pc_node c) (pc_raw c) (pc_patch c) (pc_trunc c) e (pc_dec c) (pc_fetch c).
Definition swap_slots (o : dec_obs) : dec_obs :=
  match o with
  | DOk (RLeaf a b c d e f offs (x :: y :: r)) => DOk (RLeaf a b c d e f offs (y :: x :: r))
  | o => o
  end.

Example C12_oracle_rejects :
  let c := pc_self_case full_leaf in
  map pc_spec_accepts [with_dec c (pc_dec (pc_self_case split_left)); with_dec c (swap_slots (pc_dec c));
                       with_dec c (DErr XEof); with_dec c DPanic; with_enc c (EOk [Zr 4095]); with_enc c EPanic]
    = [false; false; false; false; false; false] /\
  map pc_model_agrees [with_dec c (pc_dec (pc_self_case split_left)); with_dec c (swap_slots (pc_dec c));
                       with_dec c (DErr XEof); with_dec c DPanic; with_enc c (EOk [Zr 4095]); with_enc c EPanic]
    = [false; false; false; false; false; false].
Proof. vm_compute. split; reflexivity. Qed.

Example C12_header_agreement_nonvacuous :
  let c := hdr_self_case (mkHeader 4294967295 18446744073709551615 4096 77) in
  hdr_model_agrees c = true /\ hdr_spec_accepts c = true /\ header_ok (hc_hdr c) = true /\
  hdr_spec_accepts (mkHC (hc_hdr c) (hc_bytes c) (Some (mkHeader 4294967295 18446744073709551615 4096 78))) = false /\
  hdr_spec_accepts (mkHC (hc_hdr c) (hc_bytes c ++ [Zr 1]) (hc_back c)) = false.
Proof. vm_compute. repeat split; reflexivity. Qed.
