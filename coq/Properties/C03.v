(* C03 - A crash while a statement is being logged leaves a row-prefix state.
   Statements only (proofs: Proofs/WalCodecProofs.v for the bytes, Proofs/CrashPrefix.v and
   Proofs/CrashHist.v for the states).

   Two layers:
   (1) bytes: wal.flush issues Write(len), Write(body)[, Sync] per record; a crash before any of
       these calls - with the log cut at the last write or at the last fsync - leaves a file that
       wal.read reads back as the old records plus the first i records of the batch, no error
       (C03_reader_prefix, C03_reader_prefix_synced, C03_reader_entries);
   (2) states: event `EvCrashInLog st j` of Model/Engine.v = the statement runs, the first j
       records of its batch reach the log, the process dies, InitStorage runs. The recovered
       database is the state before the statement plus the first i row operations of the
       statement, in the statement's own order, where i = `started (op_sizes s st) j` is the
       number of row operations whose first record is among the j (C03_prefix_state). A row
       operation logs one record (INSERT / UPDATE / DELETE of one row), none (UPDATE of a row that
       is gone), or two (an INSERT that moves the root of its table: insert record, then the
       sys_pages update record). If the cut falls between those two, redoRootMove has already
       rewritten the catalog row while redoing the insert, so the table content is complete; the
       recovered state differs from the state after i operations ONLY in the LSN stamped on that
       one sys_pages leaf (the insert record's LSN instead of the update record's):
       `prefix_state a S` = Good a, a and S equal up to dirty flags and page LSNs (`seqL`), and
       either equal up to dirty flags alone (`seq`), or so after re-stamping one catalog cell with
       the bytes it already holds.
   Hypotheses as in C02 (`hist_ok`: failing statements change no page - excludes F11a-c; root
   moves rewrite the catalog row redo would find). Section (3) at the end of the file restates
   C03_prefix_state / C03_all_records / C03_continues WITHOUT these two hypotheses, under the
   boolean `hist_ok2` (the `_noH1H2` theorems). *)
From Coq Require Import List NArith ZArith String Arith.
From Mkdb Require Import Model.Engine Model.WalCodec Proofs.WalCodecProofs Proofs.TreeProofs Proofs.StoreInv
  Proofs.CrashBase Proofs.CrashPages Proofs.CrashRedo Proofs.CrashLog Proofs.CrashMain Proofs.CrashPrefix
  Proofs.CrashHist.
Import ListNotations.
Local Open Scope N_scope.

(* ---- (1) the reader ---- *)
Theorem C03_reader_prefix : forall fs old rs j,
  forallb rec_ok old = true -> forallb rec_ok rs = true ->
  exists i, (i <= length rs)%nat /\
    wal_read (frames old ++ cut_at_write j (flush_calls fs rs)) =
    mkWRR (old ++ firstn i rs) (frames_len (old ++ firstn i rs)) (Ok tt).
Proof. exact wal_read_interrupted_flush. Qed.
Print Assumptions C03_reader_prefix.

Theorem C03_reader_prefix_synced : forall old rs j,
  forallb rec_ok old = true -> forallb rec_ok rs = true ->
  exists i, (i <= length rs)%nat /\
    wal_read (frames old ++ cut_at_sync j (flush_calls true rs)) =
    mkWRR (old ++ firstn i rs) (frames_len (old ++ firstn i rs)) (Ok tt).
Proof. exact wal_read_interrupted_flush_synced. Qed.
Print Assumptions C03_reader_prefix_synced.

(* the same in terms of the engine's records (Model/Page.v walentry; rec_of_entry embeds them into
   the codec's walrec, entry_of_rec reads them back): the log read after the crash is exactly
   `log ++ firstn i batch` for some i, which is the log EvCrashInLog st i replays *)
Theorem C03_reader_entries : forall fs (log batch : list walentry) j,
  forallb rec_ok (map rec_of_entry log) = true -> forallb rec_ok (map rec_of_entry batch) = true ->
  exists i, (i <= length batch)%nat /\
    let r := wal_read (frames (map rec_of_entry log) ++ cut_at_write j (flush_calls fs (map rec_of_entry batch))) in
    rr_status r = Ok tt /\
    map entry_of_rec (rr_entries r) = map Some (log ++ firstn i batch) /\
    rr_valid r = frames_len (map rec_of_entry (log ++ firstn i batch)).
Proof.
  intros fs log batch j Hl Hb.
  destruct (wal_read_interrupted_flush fs _ _ j Hl Hb) as (i & Hi & E).
  rewrite map_length in Hi. exists i. split; [exact Hi|]. cbv zeta. rewrite E. cbn [rr_status rr_entries rr_valid].
  rewrite firstn_map, <- map_app. split; [reflexivity|]. split; [|reflexivity].
  rewrite map_map. apply map_ext. intros e. apply entry_of_rec_of_entry.
Qed.
Print Assumptions C03_reader_entries.

(* ---- (2) the states ---- *)
Theorem C03_prefix_state : forall evs y os st m j,
  hist_ok init_sys evs -> run_events init_sys evs = (SOk y, os) ->
  is_dml st = true -> stmt_moves_ok (mem y) st -> e_out (run_stmt (mem y) st) = OOk m ->
  let i := started (op_sizes (mem y) st) j in
  exists y',
    step y (EvCrashInLog st j) = (SOk y', None) /\
    wal y' = wal y ++ firstn j (e_batch (run_stmt (mem y) st)) /\ disk y' = mem y' /\
    prefix_state (mem y') (run_rows (mem y) st i) /\
    abs (mem y') = abs (run_rows (mem y) st i).
Proof.
  intros evs y os st m j H R Hd Hm Ho. cbv zeta.
  destruct (crash_in_log y st m j (reachable_inv_c y (ex_intro _ evs (ex_intro _ os (conj H R)))) Hd Hm Ho)
    as (y' & A & B & C & D & E & _). eauto 10.
Qed.
Print Assumptions C03_prefix_state.

(* i grows with j, never exceeds the number of row operations, and i = 0 for j = 0: never a later
   row without an earlier one *)
Theorem C03_prefix_monotone : forall sizes j j',
  (j <= j')%nat -> (started sizes j <= started sizes j' <= length sizes)%nat /\ started sizes 0 = O.
Proof.
  intros sizes j j' H. split; [split; [apply started_mono; exact H | apply started_le]|].
  destruct sizes; reflexivity.
Qed.
Print Assumptions C03_prefix_monotone.

(* all records written = the whole statement (C02's case); `run_rows` over all rows is the
   statement's own result *)
Theorem C03_all_records : forall evs y os st m j,
  hist_ok init_sys evs -> run_events init_sys evs = (SOk y, os) ->
  is_dml st = true -> stmt_moves_ok (mem y) st -> e_out (run_stmt (mem y) st) = OOk m ->
  (length (e_batch (run_stmt (mem y) st)) <= j)%nat ->
  exists y', step y (EvCrashInLog st j) = (SOk y', None) /\ seq (mem y') (e_store (run_stmt (mem y) st)).
Proof.
  intros evs y os st m j H R Hd Hm Ho Hj.
  destruct (reachable_inv_c y (ex_intro _ evs (ex_intro _ os (conj H R)))) as (r & Hrep & Hseq & Gr & [Gm Lm]).
  destruct (redo_stmt r (mem y) st m (mkRel _ _ Hseq Gr Gm) Hd Hm Ho) as (a' & Hr & [S' _ _] & Hfl).
  cbn [step]. rewrite Ho, Hfl. cbn [is_ok]. unfold recover. cbn [disk wal].
  rewrite (firstn_all2 _ Hj), (replay_app _ _ _ _ Hrep), Hr.
  eexists. split; [reflexivity|]. cbn [mem]. eapply seq_trans; [apply seq_flush | exact S'].
Qed.
Print Assumptions C03_all_records.

(* the continuation clause: the recovered system satisfies the invariant of C02 again, i.e. a crash
   inside a log append is an event of the histories (`hist_ok`) of C02's and C03's theorems, and
   recovery after it is total *)
Theorem C03_continues : forall evs y os st j,
  hist_ok init_sys evs -> run_events init_sys evs = (SOk y, os) -> stmt_ok (mem y) st ->
  exists y1 os1, run_events init_sys (evs ++ [EvCrashInLog st j]) = (SOk y1, os1) /\
                 hist_ok init_sys (evs ++ [EvCrashInLog st j]).
Proof.
  intros evs y os st j H R Hok.
  assert (HI : Inv y) by (apply reachable_inv_c; exists evs, os; auto).
  assert (Hstep : exists y1, step y (EvCrashInLog st j) = (SOk y1, None)).
  { destruct Hok as [Hat Hmv]. cbn [step].
    destruct (e_flushed (run_stmt (mem y) st)) eqn:Efl.
    - destruct (flushed_shape _ _ Efl) as [Eok Eb].
      destruct HI as (r & Hrep & Hseq & Gr & HGL).
      pose proof (log_stmt (wal y) (mem y) st HGL) as HL. rewrite Eok, Eb, app_nil_r in HL.
      rewrite Eok, Eb, firstn_nil, app_nil_r. unfold recover. cbn [disk wal].
      rewrite (replay_inert _ _ (proj1 HL) (proj2 HL)). eauto.
    - destruct (is_ok (e_out (run_stmt (mem y) st))) eqn:Eok.
      + destruct (e_out (run_stmt (mem y) st)) as [m| |] eqn:Eo; try discriminate.
        assert (Hd : is_dml st = true) by (apply (ok_unflushed_is_dml (mem y)); [rewrite Eo; reflexivity | exact Efl]).
        destruct (crash_in_log y st m j HI Hd Hmv Eo) as (y' & Hst & _). cbn [step] in Hst. rewrite Eo, Efl in Hst.
        cbn [is_ok]. eauto.
      + destruct (inv_recover y HI) as (r & _ & Hrec & _). unfold recover in *. cbn [disk wal].
        destruct (replay (disk y) (wal y)); inversion Hrec; eauto. }
  destruct Hstep as (y1 & Hs).
  assert (G : forall evs y0 os0, hist_ok y0 evs -> run_events y0 evs = (SOk y, os0) ->
              exists os', hist_ok y0 (evs ++ [EvCrashInLog st j]) /\
                          run_events y0 (evs ++ [EvCrashInLog st j]) = (SOk y1, os')).
  { clear evs os H R. induction evs as [|ev r IH]; intros y0 os0 Hk Hr.
    - cbn in Hr. inversion Hr; subst y0. cbn [app hist_ok run_events ev_ok]. rewrite Hs.
      eexists. split; [split; [exact Hok | exact I] | reflexivity].
    - cbn [hist_ok] in Hk. destruct Hk as [Hev Hrest]. cbn [run_events] in Hr.
      destruct (step y0 ev) as [[y2|e|] o] eqn:Es; try discriminate.
      destruct (run_events y2 r) as [fin os'] eqn:Er. inversion Hr; subst.
      destruct (IH y2 os' Hrest Er) as (os2 & A & B).
      cbn [app hist_ok run_events]. rewrite Es, B. eexists. split; [split; [exact Hev | exact A] | reflexivity]. }
  destruct (G evs init_sys os H R) as (os' & A & B). exists y1, os'. auto.
Qed.
Print Assumptions C03_continues.

(* ---- full statement: as C03_prefix_state + C03_continues but for every history (no `hist_ok`)
   and with the byte layer composed in (the model's EvCrashInLog takes the record count j; the
   byte-level cut position is related to it by C03_reader_entries, the composition is checked by
   the differential runs, not stated as one Coq theorem) ---- *)
Definition C03_full_statement : Prop :=
  forall evs y os st m j,
  Forall (fun ev => match ev with EvTornFlush _ => False | _ => True end) evs ->
  run_events init_sys evs = (SOk y, os) -> e_out (run_stmt (mem y) st) = OOk m ->
  exists y' i, step y (EvCrashInLog st j) = (SOk y', None) /\ abs (mem y') = abs (run_rows (mem y) st i).

(* ---- non-vacuity ---- *)
Local Open Scope string_scope.
Definition ins1 (t : string) (i : nat) : event := EvStmt (SInsert t [] [[VInt (Z.of_nat i)]]).

(* 8 rows, then a 3-row INSERT whose first row splits the root leaf: 4 records
   [insert; catalog update; insert; insert]; cut after 1 record = between the pair *)
Definition ex_pre : list event :=
  EvStmt (SCreateTable "t" [mkColDef "a" STNumeric]) :: map (ins1 "t") (List.seq 0 8).
Definition ex_stmt : stmt := SInsert "t" [] [[VInt 100]; [VInt 101]; [VInt 102]].

Ltac hist_tac :=
  vm_compute;
  repeat (first [ exact I | split | (intros; discriminate) | reflexivity ]).

Example C03_nonvacuous :
  exists y os, run_events init_sys ex_pre = (SOk y, os) /\ hist_ok init_sys ex_pre /\
    stmt_moves_ok (mem y) ex_stmt /\ e_out (run_stmt (mem y) ex_stmt) = OOk 3 /\
    op_sizes (mem y) ex_stmt = [2; 1; 1]%nat /\
    map (started (op_sizes (mem y) ex_stmt)) [0; 1; 2; 3; 4]%nat = [0; 1; 1; 2; 3]%nat /\
    (* the half-pair state really differs from the state after one row in a page LSN, and only
       there: not seq, but the tables agree *)
    exists y1, step y (EvCrashInLog ex_stmt 1) = (SOk y1, None) /\
               fclean (forest (mem y1)) <> fclean (forest (run_rows (mem y) ex_stmt 1)) /\
               abs (mem y1) = abs (run_rows (mem y) ex_stmt 1).
Proof.
  destruct (run_events init_sys ex_pre) as [fin os] eqn:E.
  vm_compute in E. inversion E; subst. eexists _, _. split; [reflexivity|].
  split; [hist_tac|]. split; [hist_tac|]. split; [vm_compute; reflexivity|].
  split; [vm_compute; reflexivity|]. split; [vm_compute; reflexivity|].
  eexists. split; [vm_compute; reflexivity|]. split; [vm_compute; discriminate | vm_compute; reflexivity].
Qed.

(* ---- the oracle of the log-codec check (Spec/WalCodecSpec.v) and layer (1) ----
   Every run of the check evaluates, on what wal.flush and wal.read did for a generated batch and
   byte-granular cut positions, `wal_model_agrees` (Go's Write / Sync calls equal flush_calls; on
   every cut of the written bytes Go's reader returned the records, validLen and status wal_read
   computes) and the oracle `wal_spec_accepts` (from the frame boundaries of Go's own calls: the
   reader returned exactly the records whose frames lie completely inside the cut, validLen = their
   length, no error; judged for rec_ok batches with nothing after the cut). Agreement with the
   model implies acceptance for every case - any batch, any cut (inside a length word, inside a
   body, past the end), any observation, no hypothesis: the byte-granular form of C03_reader_prefix
   (with old = [], a cut at ANY byte instead of at a call boundary, and i determined by the cut). *)
From Mkdb Require Import Spec.PageCodecSpec Spec.WalCodecSpec Proofs.PageCodecOracle Proofs.WalCodecOracle.

Theorem C03_codec_agreement_implies_acceptance : forall c,
  wal_model_agrees c = true -> wal_spec_accepts c = true.
Proof. exact wal_agreement_implies_acceptance. Qed.
Print Assumptions C03_codec_agreement_implies_acceptance.

(* the reader fact behind it, for the record: a log of rec_ok frames cut at any byte reads back as
   the complete frames before the cut, and their number is what the oracle's complete_prefix counts *)
Theorem C03_reader_cut_anywhere : forall rs cut,
  forallb rec_ok rs = true ->
  exists n, (n <= length rs)%nat /\
    complete_prefix (map fsz rs) cut O 0 = (n, frames_len (firstn n rs)) /\
    wal_read (firstn (N.to_nat cut) (frames rs)) = mkWRR (firstn n rs) (frames_len (firstn n rs)) (Ok tt).
Proof. exact wal_read_cut. Qed.
Print Assumptions C03_reader_cut_anywhere.

(* non-vacuity: three records (an empty value, op byte 255, maximal LSN / page / cell), with and
   without fsync, read at EVERY cut 0 .. 95 of the 93 written bytes: the model's own behaviour is a
   case on which both functions are true, the oracle judges it (rec_ok, no extra bytes), and the
   cuts cover 0, 1, 2 and 3 complete records *)
Definition cx_recs : list walrec :=
  [mkWR 1 7 4096 0 []; mkWR 255 18446744073709551615 18446744073709551615 4294967295 [ascii_of_N 0; ascii_of_N 255];
   mkWR 2 9 8192 3 [ascii_of_N 65; ascii_of_N 66; ascii_of_N 67; ascii_of_N 68]].
Definition cx_cuts : list N := map N.of_nat (List.seq 0 96).

Example C03_codec_agreement_nonvacuous :
  forallb (fun fs => let c := wal_self_case fs cx_recs cx_cuts in
                     wal_model_agrees c && wal_spec_accepts c && forallb rec_ok (wc_recs c) && no_extra (wc_extra c))
          [true; false] = true /\
  frames_len cx_recs = 93 /\
  map (fun cut => length (rr_entries (wal_read (firstn (N.to_nat cut) (frames cx_recs))))) [0; 28; 29; 59; 60; 92; 93; 95]
    = [0; 0; 1; 1; 2; 2; 3; 3]%nat.
Proof. vm_compute. repeat split; reflexivity. Qed.

(* ... and the oracle is not the constant true: a reader that returns the torn third record at cut
   92, drops the complete second one at cut 60, reports a wrong validLen, or fails with an error,
   and a flush that leaves out the fsync, are rejected (hence, by the theorem, not what the model does) *)
Definition one_read (o : wal_readobs) : wal_case :=
  mkWC cx_recs true [] (map call_obs (flush_calls true cx_recs)) [o].

Example C03_codec_oracle_rejects :
  map wal_spec_accepts
      [one_read (mkRO 92 (Pfx 3) 93 ROk); one_read (mkRO 60 (Pfx 1) 29 ROk); one_read (mkRO 60 (Pfx 2) 59 ROk);
       one_read (mkRO 60 (Pfx 2) 60 RErrEof);
       mkWC cx_recs true [] (map call_obs (flush_calls false cx_recs)) []]
    = [false; false; false; false; false] /\
  wal_spec_accepts (one_read (mkRO 60 (Pfx 2) 60 ROk)) = true /\
  wal_model_agrees (one_read (mkRO 60 (Pfx 2) 60 ROk)) = true.
Proof. vm_compute. repeat split; reflexivity. Qed.

(* ---- the oracle of the C03 check on crash states (Spec/HistObs.v) and layer (2) ----
   Every run of the check evaluates, per crash point, the case (events, observations) with events =
   the history so far, `HEv (EvCrashInLog st j)`, a read-back of every table, further statements, a
   read-back, a crash-restart, a read-back: `model_agrees` (Go's observations equal run_h's) and the
   strict oracle `spec_accepts_strict` (after the crash: SOME row-operation prefix of st, in order -
   TableSpec.stmt_prefixes -, which the read-back must single out; ids never reused; later refusals
   only where the specification refuses). Agreement implies acceptance (Proofs/OracleTorn.v), for
   EVERY case built from statements, flushes, crash-restarts, torn flushes, crashes inside a log
   append, read-backs and page dumps, under boolean hypotheses on the events alone:
     hev_ok / hev_stmt_shape / frontier_ok / reads_cover / strict_hev   as for C01 (C01full.v);
     torn_ok: each `EvCrashInLog st j` has st an INSERT / UPDATE / DELETE that the model
       acknowledges (cil_stmt_ok) and is followed by nothing or by a read-back naming st's table;
       each `EvTornFlush W` is one the model defines (torn_disk = Some _).
   The model side is C03_prefix_state (with (H2) from MovesFromRep.rep_moves_ok, not assumed); the
   specification side is OracleTorn.prefix_ok: the store after the first i row operations
   represents a member of stmt_prefixes. Each part of torn_ok is needed: OracleTorn.
   oracle_needs_cil_acknowledged, strict_oracle_needs_readback_after_cil, oracle_needs_torn_defined. *)
From Mkdb Require Import Spec.TableSpec Spec.HistObs Proofs.RefineRep Proofs.RefineMain Proofs.MovesFromRep Proofs.OracleIds
  Proofs.RefineCat Proofs.OracleKeys Proofs.OracleSound Proofs.OracleCrash Proofs.OracleTorn.

Theorem C03_agreement_implies_acceptance : forall c,
  forallb hev_ok (fst c) = true -> forallb hev_stmt_shape (fst c) = true ->
  frontier_ok init_sys (fst c) = true -> reads_cover [] [] [] (fst c) = true ->
  forallb strict_hev (fst c) = true -> torn_ok init_sys (fst c) = true ->
  model_agrees c = true -> spec_accepts_strict c = true.
Proof. exact agreement_implies_strict_acceptance_torn. Qed.
Print Assumptions C03_agreement_implies_acceptance.

(* the model's own behaviour is accepted *)
Theorem C03_oracle_accepts_model : forall hevs,
  forallb hev_ok hevs = true -> forallb hev_stmt_shape hevs = true ->
  frontier_ok init_sys hevs = true -> reads_cover [] [] [] hevs = true ->
  forallb strict_hev hevs = true -> torn_ok init_sys hevs = true ->
  spec_accepts_strict (hevs, run_h init_sys hevs) = true.
Proof. exact model_passes_oracle_torn_strict. Qed.
Print Assumptions C03_oracle_accepts_model.

(* the specification side of C03_prefix_state, for one store *)
Theorem C03_prefix_represents : forall s d st c i,
  Rep s d -> SelfOk s -> RefineMain.stmt_ok st = true -> stmt_shape st = true -> is_dml st = true ->
  nextFree (e_store (run_stmt s st)) <= OFFMAX -> e_out (run_stmt s st) = OOk c ->
  exists t d_i, find_tbl (stmt_table st) d = Some t /\ is_sys (stmt_table st) = false /\
    In d_i (stmt_prefixes d st) /\
    Rep (run_rows s st i) d_i /\ SelfOk (run_rows s st i) /\ IdExt s (run_rows s st i) /\ KeyKept s (run_rows s st i).
Proof. exact prefix_ok. Qed.
Print Assumptions C03_prefix_represents.

(* non-vacuity, in the shape of the check's cases: ex_pre (CREATE TABLE, 8 rows), then the 3-row
   INSERT ex_stmt whose first row splits the root leaf (records [insert; catalog update; insert;
   insert]) cut after 1 record = inside the pair, read-back (1 of the 3 rows is there: the oracle's
   4 candidates are narrowed to one), a refused INSERT, a DELETE, an UPDATE of 5 rows cut after 2
   records, read-back, crash-restart, read-back *)
Definition hx_row (i : Z) : list value := [VInt i].
Definition hx_case : list hevent :=
  map HEv ex_pre ++
  [HReadTables ["t"];
   HEv (EvCrashInLog ex_stmt 1);
   HReadTables ["t"; "sys_schema"];
   HEv (EvStmt (SInsert "t" [] [[VInt 2147483648]]));
   HEv (EvStmt (SDelete "t" (Some (EPred (XCol (mkCol "" "a")) CEq (XLit (VInt 2))))));
   HReadTables ["t"];
   HEv (EvCrashInLog (SUpdate "t" [("a", XLit (VInt 50))] (Some (EPred (XCol (mkCol "" "a")) CLt (XLit (VInt 6))))) 2);
   HReadTables ["t"];
   HEv EvCrash;
   HReadTables ["t"; "sys_schema"]].

Example C03_agreement_nonvacuous :
  forallb hev_ok hx_case = true /\ forallb hev_stmt_shape hx_case = true /\
  frontier_ok init_sys hx_case = true /\ reads_cover [] [] [] hx_case = true /\
  forallb strict_hev hx_case = true /\ torn_ok init_sys hx_case = true /\ hist_shape_c hx_case = false /\
  model_agrees (hx_case, run_h init_sys hx_case) = true /\
  spec_accepts_strict (hx_case, run_h init_sys hx_case) = true /\
  skipn 9 (map (fun o => match o with HOut x => Some x | _ => None end) (run_h init_sys hx_case)) =
    [None; Some OBok; None; Some (OBerr EIntRange); Some OBok; None; Some OBok; None; Some OBok; None] /\
  map (fun o => match o with HTables ((_, TRows _ rows) :: _) => map (fun r => (fst r, snd r)) rows | _ => [] end)
      (firstn 2 (skipn 11 (run_h init_sys hx_case)) ++ skipn 16 (run_h init_sys hx_case)) =
    [[(11, [VInt 0]); (12, [VInt 1]); (13, [VInt 2]); (14, [VInt 3]); (15, [VInt 4]); (16, [VInt 5]);
      (17, [VInt 6]); (18, [VInt 7]); (19, [VInt 100])]; [];
     [(11, [VInt 50]); (12, [VInt 50]); (14, [VInt 3]); (15, [VInt 4]); (16, [VInt 5]);
      (17, [VInt 6]); (18, [VInt 7]); (19, [VInt 100])];
     []; [(11, [VInt 50]); (12, [VInt 50]); (14, [VInt 3]); (15, [VInt 4]); (16, [VInt 5]);
      (17, [VInt 6]); (18, [VInt 7]); (19, [VInt 100])]]%N.
Proof. vm_compute. repeat split; reflexivity. Qed.

(* the oracle is not the constant true on such cases: the same events with a read-back after the
   first crash that shows the SECOND row of the INSERT without the first (a non-prefix), or an id
   that was used before, are rejected *)
Definition hx_short : list hevent := map HEv ex_pre ++ [HEv (EvCrashInLog ex_stmt 1); HReadTables ["t"]].
Definition hx_obs (rows : list (N * row)) : list hobs :=
  firstn 10 (run_h init_sys hx_short) ++ [HTables [("t", TRows ["a"] rows)]].
Definition hx_base : list (N * row) :=
  [(11, [VInt 0]); (12, [VInt 1]); (13, [VInt 2]); (14, [VInt 3]); (15, [VInt 4]); (16, [VInt 5]); (17, [VInt 6]); (18, [VInt 7])]%N.
Example C03_oracle_rejects :
  spec_accepts_strict (hx_short, hx_obs (hx_base ++ [(19%N, [VInt 100])])) = true /\
  spec_accepts_strict (hx_short, hx_obs (hx_base ++ [(19%N, [VInt 101])])) = false /\
  spec_accepts_strict (hx_short, hx_obs (hx_base ++ [(19%N, [VInt 100]); (20%N, [VInt 102])])) = false /\
  spec_accepts_strict (hx_short, hx_obs (hx_base ++ [(18%N, [VInt 100])])) = false /\
  spec_accepts_strict (hx_short, hx_obs hx_base) = true /\
  spec_accepts_strict (hx_short, hx_obs (hx_base ++ [(19%N, [VInt 100]); (20%N, [VInt 101]); (21%N, [VInt 102])])) = true.
Proof. vm_compute. repeat split; reflexivity. Qed.

(* ---- (3) the state theorems WITHOUT (H1) and WITHOUT (H2) ----
   C03_prefix_state / C03_all_records / C03_continues assume C02's `hist_ok` of the history - (H1)
   `stmt_atomic` and (H2) `stmt_moves_ok` for every statement - and (H2) of the statement being
   logged. Both are derived here, as in C02's sections E / F, from the refinement invariant
   `SelfOk (mem y) /\ exists d, Rep (mem y) d`: Proofs/MovesFromRep.v RInv_step shows that it holds
   again after the recovery that `EvCrashInLog st j` performs (the recovered cache is, up to dirty
   flags and page LSNs, the store after the first i row operations of st, which represents the
   database after INSERT of the first i rows / UPDATE or DELETE of the first i matching ids:
   MovesFromRep.prefix_rep, Rep_upto, SelfOk_upto) and after the one of `EvTornFlush W`. So these
   two events are events of the boolean, H-free histories `hist_ok2` (Proofs/HistNoH1.v):
     ev_ok2 y (EvCrashInLog st j) = RefineMain.stmt_ok st && (nextFree (e_store (run_stmt (mem y) st)) <=? OFFMAX)
   (literals are Go values; allocation frontier <= 2^63 - what `EvStmt st` asks), and
     ev_ok2 y (EvTornFlush W) = true.
   No further side condition is needed. The `_continues` version returns `hist_ok2` of the extended
   history, so the theorems chain (any number of such crashes, mixed with statements, flushes,
   crash-restarts and torn flushes). *)
From Mkdb Require Import Proofs.HistNoH1 Proofs.CrashNoH.

Theorem C03_prefix_state_noH1H2 : forall evs y os st m j,
  hist_ok2 init_sys evs = true -> run_events init_sys evs = (SOk y, os) ->
  ev_ok2 y (EvCrashInLog st j) = true ->
  is_dml st = true -> e_out (run_stmt (mem y) st) = OOk m ->
  let i := started (op_sizes (mem y) st) j in
  exists y',
    step y (EvCrashInLog st j) = (SOk y', None) /\
    wal y' = wal y ++ firstn j (e_batch (run_stmt (mem y) st)) /\ disk y' = mem y' /\
    prefix_state (mem y') (run_rows (mem y) st i) /\
    abs (mem y') = abs (run_rows (mem y) st i).
Proof. exact crash_in_log_noH. Qed.
Print Assumptions C03_prefix_state_noH1H2.

Theorem C03_all_records_noH1H2 : forall evs y os st m j,
  hist_ok2 init_sys evs = true -> run_events init_sys evs = (SOk y, os) ->
  ev_ok2 y (EvCrashInLog st j) = true ->
  is_dml st = true -> e_out (run_stmt (mem y) st) = OOk m ->
  (List.length (e_batch (run_stmt (mem y) st)) <= j)%nat ->
  exists y', step y (EvCrashInLog st j) = (SOk y', None) /\ CrashBase.seq (mem y') (e_store (run_stmt (mem y) st)).
Proof.
  intros evs y os st m j H R Hev Hd Ho Hj.
  destruct (ev_ok2_cil_stmt_ok evs y os st j H R Hev) as [_ Hm].
  exact (C03_all_records evs y os st m j (hist_ok2_hist_ok evs H) R Hd Hm Ho Hj).
Qed.
Print Assumptions C03_all_records_noH1H2.

(* any statement (acknowledged or refused, DML or CREATE TABLE), any cut: the restart succeeds and
   the extended history satisfies `hist_ok2` again *)
Theorem C03_continues_noH1H2 : forall evs y os st j,
  hist_ok2 init_sys evs = true -> run_events init_sys evs = (SOk y, os) ->
  ev_ok2 y (EvCrashInLog st j) = true ->
  exists y1 os1, run_events init_sys (evs ++ [EvCrashInLog st j]) = (SOk y1, os1) /\
                 hist_ok2 init_sys (evs ++ [EvCrashInLog st j]) = true.
Proof. exact crash_in_log_continues_noH. Qed.
Print Assumptions C03_continues_noH1H2.

(* ... and after it the cache represents a database of the specification again *)
Theorem C03_rep_after_crash_in_log : forall evs y os,
  hist_ok2 init_sys evs = true -> run_events init_sys evs = (SOk y, os) ->
  SelfOk (mem y) /\ exists d, Rep (mem y) d.
Proof. exact hist_ok2_rep_all. Qed.
Print Assumptions C03_rep_after_crash_in_log.

(* non-vacuity: ex_pre (CREATE TABLE, 8 rows), the 3-row INSERT ex_stmt cut after 1 record (inside
   the [insert; catalog update] pair of its root-moving first row), a further INSERT, a 5-row
   UPDATE cut after 2 records, a refused INSERT (INT range) "cut" at 0, a CREATE TABLE dying after
   its flush, a crash-restart: the history satisfies the boolean hypothesis, and no step of it
   fails (so the hypothesis was evaluated at every event) *)
Definition ex_cil : list event :=
  ex_pre ++
  [EvCrashInLog ex_stmt 1;
   ins1 "t" 200;
   EvCrashInLog (SUpdate "t" [("a", XLit (VInt 50))] (Some (EPred (XCol (mkCol "" "a")) CLt (XLit (VInt 6))))) 2;
   EvCrashInLog (SInsert "t" [] [[VInt 7]; [VInt 2147483648]]) 0;
   EvCrashInLog (SCreateTable "u" [mkColDef "b" STNumeric]) 0;
   ins1 "u" 1;
   EvCrash].

Example C03_noH1H2_nonvacuous :
  hist_ok2 init_sys ex_cil = true /\
  match run_events init_sys ex_cil with
  | (SOk y, os) =>
      skipn 9 os = [None; Some (OOk 1); None; None; None; Some (OOk 1); None] /\
      (match st_fetch (mem y) "t" with Ok (rows, _) => map (fun r => (fst r, snd r)) rows | _ => [] end) =
        [(11, [VInt 50]); (12, [VInt 50]); (13, [VInt 2]); (14, [VInt 3]); (15, [VInt 4]); (16, [VInt 5]);
         (17, [VInt 6]); (18, [VInt 7]); (19, [VInt 100]); (20, [VInt 200])]%N /\
      (match st_fetch (mem y) "u" with Ok (rows, _) => List.length rows | _ => O end) = 1%nat
  | _ => False
  end.
Proof. vm_compute. repeat split; reflexivity. Qed.
