(* C14 - a statement that returns an error changes nothing.

   FULL STATEMENT (C14_full_statement): on every state reachable by statements from a fresh
   database, every statement that returns an error leaves `abs` (SELECT * of every table of the
   catalog, computed through the model's own catalog trees, codec and chain scans) as it was.

   STATUS: REFUTED for the code as it is (C14_refuted; recorded findings F11a-c, each with its
   own vm_compute witness below): the engine applies the rows of a multi-row statement one by
   one and CREATE TABLE registers the table and its columns one by one; nothing is undone when
   a later step fails.

   What IS proved for all states and statements:
   * C14_atomic_early: if the error arises before the statement's first page change
     (`fails_early`: unknown / duplicate table, column count, type mismatch, INT range, oversized
     FIRST row, SET from a column, unevaluable WHERE, any failure at the FIRST matching row of
     UPDATE / DELETE, every statement kind the engine does not execute), then no page, no catalog
     root and no allocator field changes - only the row-id and LSN counters may have been
     consumed - and `abs` is unchanged;
   * C14_failed_not_logged / C14_failed_gone_after_crash: a failing statement never appends to the
     log and never flushes, so whatever partial effects it had are gone after a crash that is not
     preceded by a flush (they become durable only through a later flush). *)
From Coq Require Import List NArith ZArith String.
From Mkdb Require Import Spec.HistObs.
From Mkdb Require Import Proofs.Atomic.
Import ListNotations.
Local Open Scope string_scope.

(* ---- proved part ---- *)
Theorem C14_atomic_early : forall s st e,
  e_out (run_stmt s st) = OErr e -> fails_early s st = true ->
  abs (e_store (run_stmt s st)) = abs s /\ same_pages s (e_store (run_stmt s st)).
Proof.
  intros s st e Ho Hfe. split; [eapply fails_early_abs | eapply fails_early_same_pages]; eauto.
Qed.
Print Assumptions C14_atomic_early.

Theorem C14_failed_not_logged : forall y st e,
  snd (exec y st) = OErr e -> wal (fst (exec y st)) = wal y /\ disk (fst (exec y st)) = disk y.
Proof.
  intros y st e H. unfold exec in *. cbv zeta in *. cbn [fst snd wal disk] in *.
  destruct (run_stmt_err_batch _ _ _ H) as [Hb Hf]. rewrite H, Hf. cbn [is_ok]. split; reflexivity.
Qed.
Print Assumptions C14_failed_not_logged.

(* crash + restart right after a failed statement = crash + restart right before it *)
Theorem C14_failed_gone_after_crash : forall y st e,
  snd (exec y st) = OErr e -> recover (fst (exec y st)) = recover y.
Proof.
  intros y st e H. destruct (C14_failed_not_logged y st e H) as [Hw Hd].
  unfold recover. rewrite Hw, Hd. reflexivity.
Qed.
Print Assumptions C14_failed_gone_after_crash.

(* ---- the full statement and its refutation ---- *)
Definition C14_stmts_only (evs : list event) : bool :=
  forallb (fun e => match e with EvStmt _ => true | _ => false end) evs.

Definition C14_full_statement : Prop :=
  forall evs y os st e,
    C14_stmts_only evs = true ->
    run_events init_sys evs = (SOk y, os) ->
    e_out (run_stmt (mem y) st) = OErr e ->
    abs (e_store (run_stmt (mem y) st)) = abs (mem y).

Fixpoint rep_string (n : nat) : string :=
  match n with O => "" | S k => String "x" (rep_string k) end.

Definition sys_after (evs : list event) : sys :=
  match fst (run_events init_sys evs) with SOk y => y | _ => init_sys end.

(* a recorded witness: a statement history, then a statement that fails with `e` and changes abs *)
Definition C14_witness (evs : list event) (st : stmt) (e : err) : Prop :=
  C14_stmts_only evs = true /\
  run_events init_sys evs = (SOk (sys_after evs), snd (run_events init_sys evs)) /\
  e_out (run_stmt (mem (sys_after evs)) st) = OErr e /\
  fails_early (mem (sys_after evs)) st = false /\
  abs (e_store (run_stmt (mem (sys_after evs)) st)) <> abs (mem (sys_after evs)).

(* F11a: CREATE TABLE t (a INT); INSERT INTO t VALUES (1), (2147483648)
   -> "integer value out of range", and row 1 is in the table *)
Definition w1_evs : list event := [EvStmt (SCreateTable "t" [mkColDef "a" STNumeric])].
Definition w1_st : stmt := SInsert "t" [] [[VInt 1]; [VInt 2147483648]].

Example C14_witness_insert_row2 : C14_witness w1_evs w1_st EIntRange.
Proof.
  unfold C14_witness.
  split; [vm_compute; reflexivity|]. split; [vm_compute; reflexivity|].
  split; [vm_compute; reflexivity|]. split; [vm_compute; reflexivity|].
  intros H. vm_compute in H. discriminate H.
Qed.

Example C14_witness_insert_row2_visible :
  st_fetch (e_store (run_stmt (mem (sys_after w1_evs)) w1_st)) "t" = Ok ([(11%N, [VInt 1])], [mkFld "" "a"]) /\
  st_fetch (mem (sys_after w1_evs)) "t" = Ok ([], [mkFld "" "a"]).
Proof. split; vm_compute; reflexivity. Qed.

(* F11b: CREATE TABLE t (a INT, b VARCHAR(400), c VARCHAR(400));
   INSERT INTO t VALUES (1, 'x', 'y'), (2, 'x', '<300 chars>'); UPDATE t SET b = '<200 chars>'
   -> row 1 becomes 216 bytes (fits) and is rewritten; row 2 would be 515 bytes (> 400):
   "row too large" is returned and row 1 stays updated *)
Definition w2_evs : list event :=
  [EvStmt (SCreateTable "t" [mkColDef "a" STNumeric; mkColDef "b" (STVarchar 400); mkColDef "c" (STVarchar 400)]);
   EvStmt (SInsert "t" [] [[VInt 1; VStr "x"; VStr "y"]; [VInt 2; VStr "x"; VStr (rep_string 300)]])].
Definition w2_st : stmt := SUpdate "t" [("b", XLit (VStr (rep_string 200)))] None.

Example C14_witness_update_row2 : C14_witness w2_evs w2_st ERowTooLarge.
Proof.
  unfold C14_witness.
  split; [vm_compute; reflexivity|]. split; [vm_compute; reflexivity|].
  split; [vm_compute; reflexivity|]. split; [vm_compute; reflexivity|].
  intros H. vm_compute in H. discriminate H.
Qed.

Example C14_witness_update_row2_visible :
  (match st_fetch (e_store (run_stmt (mem (sys_after w2_evs)) w2_st)) "t" with
   | Ok (rows, _) => map (fun r => (fst r, map (fun v => match v with VStr s => VInt (Z.of_nat (String.length s)) | x => x end) (snd r))) rows
   | _ => []
   end) = [(13%N, [VInt 1; VInt 200; VInt 1]); (14%N, [VInt 2; VInt 1; VInt 300])].
Proof. vm_compute. reflexivity. Qed.

(* F11c: CREATE TABLE t (a INT, b VARCHAR(3000000000)) on the fresh database
   -> "integer value out of range" (field_length is an INT column of sys_schema) after the
   sys_pages row and the sys_schema row of column a were stored: t exists with column a only *)
Definition w3_st : stmt :=
  SCreateTable "t" [mkColDef "a" STNumeric; mkColDef "b" (STVarchar 3000000000)].

Example C14_witness_create_col2 : C14_witness [] w3_st EIntRange.
Proof.
  unfold C14_witness.
  split; [vm_compute; reflexivity|]. split; [vm_compute; reflexivity|].
  split; [vm_compute; reflexivity|]. split; [vm_compute; reflexivity|].
  intros H. vm_compute in H. discriminate H.
Qed.

Example C14_witness_create_col2_visible :
  st_fetch (e_store (run_stmt (mem (sys_after [])) w3_st)) "t" = Ok ([], [mkFld "" "a"]) /\
  st_fetch (mem (sys_after [])) "t" = Err ETableNotExist.
Proof. split; vm_compute; reflexivity. Qed.

Theorem C14_refuted : ~ C14_full_statement.
Proof.
  intros H. destruct C14_witness_insert_row2 as (Hs & Hr & Ho & _ & Hne).
  apply Hne. exact (H _ _ _ _ _ Hs Hr Ho).
Qed.
Print Assumptions C14_refuted.

(* ---- non-vacuity of C14_atomic_early: one failing statement of each early kind ---- *)
Definition nv_state : store :=
  mem (sys_after
    [EvStmt (SCreateTable "t" [mkColDef "a" STNumeric; mkColDef "b" (STVarchar 400)]);
     EvStmt (SInsert "t" [] [[VInt 1; VStr "x"]; [VInt 2; VStr "y"]])]).

Definition early (st : stmt) (e : err) : Prop :=
  fails_early nv_state st = true /\ e_out (run_stmt nv_state st) = OErr e.

Example nv_rows : st_fetch nv_state "t" =
  Ok ([(12%N, [VInt 1; VStr "x"]); (13%N, [VInt 2; VStr "y"])], [mkFld "" "a"; mkFld "" "b"]).
Proof. vm_compute. reflexivity. Qed.

Example nv_unknown_table_insert : early (SInsert "nope" [] [[VInt 1]]) ETableNotExist.
Proof. split; vm_compute; reflexivity. Qed.
Example nv_unknown_table_update : early (SUpdate "nope" [("a", XLit (VInt 1))] None) ETableNotExist.
Proof. split; vm_compute; reflexivity. Qed.
Example nv_unknown_table_delete : early (SDelete "nope" None) ETableNotExist.
Proof. split; vm_compute; reflexivity. Qed.
Example nv_duplicate_table : early (SCreateTable "t" [mkColDef "z" STBoolean]) ETableExists.
Proof. split; vm_compute; reflexivity. Qed.
Example nv_column_count : early (SInsert "t" [] [[VInt 1]; [VInt 2; VStr "ok"]]) EColCount.
Proof. split; vm_compute; reflexivity. Qed.
Example nv_type_mismatch : early (SInsert "t" [] [[VStr "x"; VStr "y"]]) ETypeMismatch.
Proof. split; vm_compute; reflexivity. Qed.
Example nv_int_range : early (SInsert "t" [] [[VInt 2147483648; VStr "y"]; [VInt 3; VStr "z"]]) EIntRange.
Proof. split; vm_compute; reflexivity. Qed.
Example nv_oversized_first_row : early (SInsert "t" [] [[VInt 3; VStr (rep_string 500)]]) ERowTooLarge.
Proof. split; vm_compute; reflexivity. Qed.
Example nv_oversized_first_row_counters :
  let s' := e_store (run_stmt nv_state (SInsert "t" [] [[VInt 3; VStr (rep_string 500)]])) in
  lastKey s' = (lastKey nv_state + 1)%N /\ nextLSN s' = (nextLSN nv_state + 1)%N.
Proof. split; vm_compute; reflexivity. Qed.
Example nv_set_from_column : early (SUpdate "t" [("a", XCol (mkCol "" "a"))] None) ETmpUnsupported.
Proof. split; vm_compute; reflexivity. Qed.
Example nv_where_unknown_column_delete :
  early (SDelete "t" (Some (EPred (XCol (mkCol "" "zz")) CEq (XLit (VInt 1))))) EFieldNotFound.
Proof. split; vm_compute; reflexivity. Qed.
Example nv_where_unknown_column_update :
  early (SUpdate "t" [("a", XLit (VInt 5))] (Some (EPred (XCol (mkCol "" "zz")) CEq (XLit (VInt 1))))) EFieldNotFound.
Proof. split; vm_compute; reflexivity. Qed.
Example nv_update_first_row_too_large :
  early (SUpdate "t" [("b", XLit (VStr (rep_string 500)))] None) ERowTooLarge.
Proof. split; vm_compute; reflexivity. Qed.
Example nv_update_first_row_type :
  early (SUpdate "t" [("a", XLit (VStr "no"))] None) ETypeMismatch.
Proof. split; vm_compute; reflexivity. Qed.
Example nv_unexecuted_kind : early (SUse "db") EOther.
Proof. split; vm_compute; reflexivity. Qed.

(* the log part is not vacuous either: the F11a statement fails, leaves row 1 in the cache, and a
   crash right after it brings back the state a crash right before it would have brought back *)
Example nv_failed_gone :
  snd (exec (sys_after w1_evs) w1_st) = OErr EIntRange /\
  recover (fst (exec (sys_after w1_evs) w1_st)) = recover (sys_after w1_evs).
Proof. split; [vm_compute; reflexivity | eapply C14_failed_gone_after_crash; vm_compute; reflexivity]. Qed.



(* ---- what a failing statement leaves behind is a row-operation prefix of it ----
   For every state reachable by a statement history (failing statements of any kind allowed in
   the history) and every failing INSERT / UPDATE / DELETE / CREATE TABLE: the store after the
   failure represents (Proofs/RefineRep.v `Rep`: catalog invariant + every table's live cells
   are the canonical encodings of the specification's rows, in order) either the database as it
   was or one of TableSpec.stmt_prefixes - rows 1..i of the INSERT applied, the first j matching
   rows of the UPDATE / DELETE rewritten / removed, the table registered with its first i
   columns. Hypotheses (boolean, on the history and the statement): literals are Go values (ev_ok / stmt_ok), data file below 2^63 bytes.
   Remark on the specification: stmt_prefixes d (SInsert n ..) is EMPTY when table n does not
   exist (it should contain d), hence the explicit `d' = d` alternative. *)
From Coq Require Import Lia.
From Mkdb Require Import Proofs.RefineRep Proofs.RefineCat Proofs.RefineMain Proofs.RefineFail Proofs.RefineDDL.

Theorem C14_partial_prefix : forall evs y os st e,
  C14_stmts_only evs = true -> run_events init_sys evs = (SOk y, os) ->
  forallb ev_ok evs = true -> stmt_ok st = true ->
  e_out (run_stmt (mem y) st) = OErr e ->
  N.leb (nextFree (e_store (run_stmt (mem y) st))) OFFMAX = true ->
  exists d d',
    In d (lax_dbs [[]] evs os) /\ Rep (mem y) d /\
    (d' = d \/ In d' (stmt_prefixes d st)) /\ Rep (e_store (run_stmt (mem y) st)) d'.
Proof.
  intros evs y os st e Hso Hrun Hok Hst Hout Hmax. apply N.leb_le in Hmax.
  pose proof (run_stmt_free_mono (mem y) st) as Hmono.
  destruct (run_events_lax evs init_sys [] [[]] y os Rep_init (or_introl eq_refl) Hso Hok Hrun ltac:(lia)) as (d & Hd & HR).
  destruct (run_stmt_err_rep (mem y) d st e HR Hst Hmax Hout) as (d' & Hd' & HR').
  exists d, d'. auto.
Qed.
Print Assumptions C14_partial_prefix.

(* non-vacuity: the three recorded witnesses are instances (the prefix left behind is row 1 /
   the first updated row / the table with its first column) *)
Example nv_prefix_hyps :
  forallb ev_ok w1_evs = true /\ stmt_ok w1_st = true /\
  N.leb (nextFree (e_store (run_stmt (mem (sys_after w1_evs)) w1_st))) OFFMAX = true.
Proof. split; [|split]; vm_compute; reflexivity. Qed.
