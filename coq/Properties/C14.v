(* C14 - a statement that returns an error changes nothing.

   FULL STATEMENT (C14_full_statement): on every state reachable by statements from a fresh
   database, every statement that returns an error leaves `abs` (SELECT * of every table of the
   catalog, computed through the model's own catalog trees, codec and chain scans) as it was.

   STATUS: PROVED for every reachable state and every statement (C14_atomic, at the end of this
   file), since the repair of findings F11a-c: EvaluateInsert calls CheckInsert for every row of
   the VALUES list, EvaluateUpdate calls CheckUpdate for every matching row, and createTable
   calls checkCatalogRows, BEFORE the first change (model: Engine.run_stmt / first_err,
   Store.check_insert / check_update / check_catalog_rows). The failing statement returns the very
   store it was given - no page, no catalog root, no allocator field and not even the row-id / LSN
   counters change - so `same_pages` and `abs` equality follow. The hypothesis "(H1) the error
   arises before the first page change" of C14_atomic_early is DERIVED (Proofs/FailsEarly.v
   stmt_err_unchanged: under the refinement invariant `Rep`, which holds in every reachable
   state, nothing can fail after the checks have passed). Side conditions of C14_atomic, the ones
   C01full uses: literals of the history and of the statement are Go values (ev_ok / stmt_ok:
   integers within int64, strings below 2^32 bytes), the data file stays below 2^63 bytes.
   C14_full_statement itself has no such side conditions and is therefore left as a definition.
   The former refutation (C14_refuted) and its three witnesses are replaced by examples showing
   that the old behaviour is gone (the C14_former_witness examples).

   Also proved, for all states and statements, without any invariant:
   * C14_atomic_early: if the error arises before the statement's first page change
     (`fails_early`: unknown / duplicate table, column count, type mismatch, INT range, oversized
     FIRST row, SET from a column, unevaluable WHERE, any failure at the FIRST matching row of
     UPDATE / DELETE, every statement kind the engine does not execute), then no page, no catalog
     root and no allocator field changes and `abs` is unchanged;
   * C14_failed_not_logged / C14_failed_gone_after_crash: a failing statement never appends to the
     log and never flushes. *)
From Coq Require Import List NArith ZArith String.
From Mkdb Require Import Spec.HistObs.
From Mkdb Require Import Proofs.Atomic.
Import ListNotations.
Local Open Scope string_scope.

(* ---- proved part ---- *)
Theorem C14_atomic_early : forall s st e,
  e_out (run_stmt s st) = OErr e -> fails_early s st = true ->
  abs (e_store (run_stmt s st)) = abs s /\ same_pages s (e_store (run_stmt s st)).
Proof.
  intros s st e Ho Hfe. split; [eapply fails_early_abs | eapply fails_early_same_pages]; eauto.
Qed.
Print Assumptions C14_atomic_early.

Theorem C14_failed_not_logged : forall y st e,
  snd (exec y st) = OErr e -> wal (fst (exec y st)) = wal y /\ disk (fst (exec y st)) = disk y.
Proof.
  intros y st e H. unfold exec in *. cbv zeta in *. cbn [fst snd wal disk] in *.
  destruct (run_stmt_err_batch _ _ _ H) as [Hb Hf]. rewrite H, Hf. cbn [is_ok]. split; reflexivity.
Qed.
Print Assumptions C14_failed_not_logged.

(* crash + restart right after a failed statement = crash + restart right before it *)
Theorem C14_failed_gone_after_crash : forall y st e,
  snd (exec y st) = OErr e -> recover (fst (exec y st)) = recover y.
Proof.
  intros y st e H. destruct (C14_failed_not_logged y st e H) as [Hw Hd].
  unfold recover. rewrite Hw, Hd. reflexivity.
Qed.
Print Assumptions C14_failed_gone_after_crash.

(* ---- the full statement and its refutation ---- *)
Definition C14_stmts_only (evs : list event) : bool :=
  forallb (fun e => match e with EvStmt _ => true | _ => false end) evs.

Definition C14_full_statement : Prop :=
  forall evs y os st e,
    C14_stmts_only evs = true ->
    run_events init_sys evs = (SOk y, os) ->
    e_out (run_stmt (mem y) st) = OErr e ->
    abs (e_store (run_stmt (mem y) st)) = abs (mem y).

Fixpoint rep_string (n : nat) : string :=
  match n with O => "" | S k => String "x" (rep_string k) end.

Definition sys_after (evs : list event) : sys :=
  match fst (run_events init_sys evs) with SOk y => y | _ => init_sys end.

Ltac vsplit := repeat match goal with |- _ /\ _ => split end; vm_compute; reflexivity.

(* The three recorded witnesses of the former refutation (findings F11a-c). Each is a statement
   history, then a statement that fails at its SECOND row / column; fails_early does not cover it.
   What they show now: the statement still returns its error and the store is returned unchanged. *)
Definition C14_former_witness (evs : list event) (st : stmt) (e : err) : Prop :=
  C14_stmts_only evs = true /\
  run_events init_sys evs = (SOk (sys_after evs), snd (run_events init_sys evs)) /\
  e_out (run_stmt (mem (sys_after evs)) st) = OErr e /\
  fails_early (mem (sys_after evs)) st = false /\
  e_store (run_stmt (mem (sys_after evs)) st) = mem (sys_after evs).

(* F11a: CREATE TABLE t (a INT); INSERT INTO t VALUES (1), (2147483648)
   -> "integer value out of range"; formerly row 1 stayed in the table *)
Definition w1_evs : list event := [EvStmt (SCreateTable "t" [mkColDef "a" STNumeric])].
Definition w1_st : stmt := SInsert "t" [] [[VInt 1]; [VInt 2147483648]].

Example C14_former_witness_insert_row2 : C14_former_witness w1_evs w1_st EIntRange.
Proof. unfold C14_former_witness. vsplit. Qed.

Example C14_former_witness_insert_row2_visible :
  st_fetch (e_store (run_stmt (mem (sys_after w1_evs)) w1_st)) "t" = Ok ([], [mkFld "" "a"]) /\
  st_fetch (mem (sys_after w1_evs)) "t" = Ok ([], [mkFld "" "a"]).
Proof. split; vm_compute; reflexivity. Qed.

(* F11b: CREATE TABLE t (a INT, b VARCHAR(400), c VARCHAR(400));
   INSERT INTO t VALUES (1, 'x', 'y'), (2, 'x', '<300 chars>'); UPDATE t SET b = '<200 chars>'
   -> row 1 would become 216 bytes (fits); row 2 would be 515 bytes (> 400): "row too large";
   formerly row 1 stayed updated *)
Definition w2_evs : list event :=
  [EvStmt (SCreateTable "t" [mkColDef "a" STNumeric; mkColDef "b" (STVarchar 400); mkColDef "c" (STVarchar 400)]);
   EvStmt (SInsert "t" [] [[VInt 1; VStr "x"; VStr "y"]; [VInt 2; VStr "x"; VStr (rep_string 300)]])].
Definition w2_st : stmt := SUpdate "t" [("b", XLit (VStr (rep_string 200)))] None.

Example C14_former_witness_update_row2 : C14_former_witness w2_evs w2_st ERowTooLarge.
Proof. unfold C14_former_witness. vsplit. Qed.

Example C14_former_witness_update_row2_visible :
  (match st_fetch (e_store (run_stmt (mem (sys_after w2_evs)) w2_st)) "t" with
   | Ok (rows, _) => map (fun r => (fst r, map (fun v => match v with VStr s => VInt (Z.of_nat (String.length s)) | x => x end) (snd r))) rows
   | _ => []
   end) = [(13%N, [VInt 1; VInt 1; VInt 1]); (14%N, [VInt 2; VInt 1; VInt 300])].
Proof. vm_compute. reflexivity. Qed.

(* F11c: CREATE TABLE t (a INT, b VARCHAR(3000000000)) on the fresh database
   -> "integer value out of range" (field_length is an INT column of sys_schema); formerly t
   existed afterwards with column a only *)
Definition w3_st : stmt :=
  SCreateTable "t" [mkColDef "a" STNumeric; mkColDef "b" (STVarchar 3000000000)].

Example C14_former_witness_create_col2 : C14_former_witness [] w3_st EIntRange.
Proof. unfold C14_former_witness. vsplit. Qed.

Example C14_former_witness_create_col2_visible :
  st_fetch (e_store (run_stmt (mem (sys_after [])) w3_st)) "t" = Err ETableNotExist /\
  st_fetch (mem (sys_after [])) "t" = Err ETableNotExist.
Proof. split; vm_compute; reflexivity. Qed.

(* ---- non-vacuity of C14_atomic_early: one failing statement of each early kind ---- *)
Definition nv_state : store :=
  mem (sys_after
    [EvStmt (SCreateTable "t" [mkColDef "a" STNumeric; mkColDef "b" (STVarchar 400)]);
     EvStmt (SInsert "t" [] [[VInt 1; VStr "x"]; [VInt 2; VStr "y"]])]).

Definition early (st : stmt) (e : err) : Prop :=
  fails_early nv_state st = true /\ e_out (run_stmt nv_state st) = OErr e.

Example nv_rows : st_fetch nv_state "t" =
  Ok ([(12%N, [VInt 1; VStr "x"]); (13%N, [VInt 2; VStr "y"])], [mkFld "" "a"; mkFld "" "b"]).
Proof. vm_compute. reflexivity. Qed.

Example nv_unknown_table_insert : early (SInsert "nope" [] [[VInt 1]]) ETableNotExist.
Proof. split; vm_compute; reflexivity. Qed.
Example nv_unknown_table_update : early (SUpdate "nope" [("a", XLit (VInt 1))] None) ETableNotExist.
Proof. split; vm_compute; reflexivity. Qed.
Example nv_unknown_table_delete : early (SDelete "nope" None) ETableNotExist.
Proof. split; vm_compute; reflexivity. Qed.
Example nv_duplicate_table : early (SCreateTable "t" [mkColDef "z" STBoolean]) ETableExists.
Proof. split; vm_compute; reflexivity. Qed.
Example nv_column_count : early (SInsert "t" [] [[VInt 1]; [VInt 2; VStr "ok"]]) EColCount.
Proof. split; vm_compute; reflexivity. Qed.
Example nv_type_mismatch : early (SInsert "t" [] [[VStr "x"; VStr "y"]]) ETypeMismatch.
Proof. split; vm_compute; reflexivity. Qed.
Example nv_int_range : early (SInsert "t" [] [[VInt 2147483648; VStr "y"]; [VInt 3; VStr "z"]]) EIntRange.
Proof. split; vm_compute; reflexivity. Qed.
Example nv_oversized_first_row : early (SInsert "t" [] [[VInt 3; VStr (rep_string 500)]]) ERowTooLarge.
Proof. split; vm_compute; reflexivity. Qed.
(* the size check of CheckInsert refuses the row before BTree.insert consumes a row id / an LSN *)
Example nv_oversized_first_row_counters :
  let s' := e_store (run_stmt nv_state (SInsert "t" [] [[VInt 3; VStr (rep_string 500)]])) in
  lastKey s' = lastKey nv_state /\ nextLSN s' = nextLSN nv_state.
Proof. split; vm_compute; reflexivity. Qed.
Example nv_set_from_column : early (SUpdate "t" [("a", XCol (mkCol "" "a"))] None) ETmpUnsupported.
Proof. split; vm_compute; reflexivity. Qed.
Example nv_where_unknown_column_delete :
  early (SDelete "t" (Some (EPred (XCol (mkCol "" "zz")) CEq (XLit (VInt 1))))) EFieldNotFound.
Proof. split; vm_compute; reflexivity. Qed.
Example nv_where_unknown_column_update :
  early (SUpdate "t" [("a", XLit (VInt 5))] (Some (EPred (XCol (mkCol "" "zz")) CEq (XLit (VInt 1))))) EFieldNotFound.
Proof. split; vm_compute; reflexivity. Qed.
Example nv_update_first_row_too_large :
  early (SUpdate "t" [("b", XLit (VStr (rep_string 500)))] None) ERowTooLarge.
Proof. split; vm_compute; reflexivity. Qed.
Example nv_update_first_row_type :
  early (SUpdate "t" [("a", XLit (VStr "no"))] None) ETypeMismatch.
Proof. split; vm_compute; reflexivity. Qed.
Example nv_unexecuted_kind : early (SUse "db") EOther.
Proof. split; vm_compute; reflexivity. Qed.

(* the log part is not vacuous either: the F11a statement fails, and a crash right after it
   brings back the state a crash right before it would have brought back *)
Example nv_failed_gone :
  snd (exec (sys_after w1_evs) w1_st) = OErr EIntRange /\
  recover (fst (exec (sys_after w1_evs) w1_st)) = recover (sys_after w1_evs).
Proof. split; [vm_compute; reflexivity | eapply C14_failed_gone_after_crash; vm_compute; reflexivity]. Qed.



(* ---- what a failing statement leaves behind is a row-operation prefix of it ----
   (kept from before the repair of F11a-c; C14_atomic below says the prefix is always the empty one)
   For every state reachable by a statement history (failing statements of any kind allowed in
   the history) and every failing INSERT / UPDATE / DELETE / CREATE TABLE: the store after the
   failure represents (Proofs/RefineRep.v `Rep`: catalog invariant + every table's live cells
   are the canonical encodings of the specification's rows, in order) either the database as it
   was or one of TableSpec.stmt_prefixes - rows 1..i of the INSERT applied, the first j matching
   rows of the UPDATE / DELETE rewritten / removed, the table registered with its first i
   columns. Hypotheses (boolean, on the history and the statement): literals are Go values (ev_ok / stmt_ok), data file below 2^63 bytes.
   Remark on the specification: stmt_prefixes d (SInsert n ..) is EMPTY when table n does not
   exist (it should contain d), hence the explicit `d' = d` alternative. *)
From Coq Require Import Lia.
From Mkdb Require Import Proofs.RefineRep Proofs.RefineCat Proofs.RefineMain Proofs.RefineFail Proofs.RefineDDL.

Theorem C14_partial_prefix : forall evs y os st e,
  C14_stmts_only evs = true -> run_events init_sys evs = (SOk y, os) ->
  forallb ev_ok evs = true -> stmt_ok st = true ->
  e_out (run_stmt (mem y) st) = OErr e ->
  N.leb (nextFree (e_store (run_stmt (mem y) st))) OFFMAX = true ->
  exists d d',
    In d (lax_dbs [[]] evs os) /\ Rep (mem y) d /\
    (d' = d \/ In d' (stmt_prefixes d st)) /\ Rep (e_store (run_stmt (mem y) st)) d'.
Proof.
  intros evs y os st e Hso Hrun Hok Hst Hout Hmax. apply N.leb_le in Hmax.
  pose proof (run_stmt_free_mono (mem y) st) as Hmono.
  destruct (run_events_lax evs init_sys [] [[]] y os Rep_init (or_introl eq_refl) Hso Hok Hrun ltac:(lia)) as (d & Hd & HR).
  destruct (run_stmt_err_rep (mem y) d st e HR Hst Hmax Hout) as (d' & Hd' & HR').
  exists d, d'. auto.
Qed.
Print Assumptions C14_partial_prefix.

(* non-vacuity: the three recorded witnesses are instances *)
Example nv_prefix_hyps :
  forallb ev_ok w1_evs = true /\ stmt_ok w1_st = true /\
  N.leb (nextFree (e_store (run_stmt (mem (sys_after w1_evs)) w1_st))) OFFMAX = true.
Proof. split; [|split]; vm_compute; reflexivity. Qed.


(* ---- the full statement of C14 for every reachable state: (H1) derived ----
   For every state reachable by a statement history (failing statements of any kind allowed in
   the history) and every statement that returns an error: the store is returned as it was given
   (hence same_pages, hence abs unchanged). Side conditions (boolean, as in C01full): literals are
   Go values (ev_ok on the history, stmt_ok on the statement), data file below 2^63 bytes. *)
From Mkdb Require Import Proofs.FailsEarly.

Theorem C14_atomic : forall evs y os st e,
  C14_stmts_only evs = true -> run_events init_sys evs = (SOk y, os) ->
  forallb ev_ok evs = true -> stmt_ok st = true ->
  N.leb (nextFree (e_store (run_stmt (mem y) st))) OFFMAX = true ->
  e_out (run_stmt (mem y) st) = OErr e ->
  e_store (run_stmt (mem y) st) = mem y /\
  same_pages (mem y) (e_store (run_stmt (mem y) st)) /\
  abs (e_store (run_stmt (mem y) st)) = abs (mem y).
Proof.
  intros evs y os st e Hso Hrun Hok Hst Hmax Hout. apply N.leb_le in Hmax.
  pose proof (reachable_stmt_atomic evs y os st e Hso Hrun Hok Hst Hmax Hout) as E.
  rewrite E. split; [reflexivity|]. split; [apply same_pages_refl | reflexivity].
Qed.
Print Assumptions C14_atomic.

(* one statement on any store satisfying the refinement invariant *)
Theorem C14_atomic_rep : forall s d st e,
  Rep s d -> stmt_ok st = true -> N.leb (nextFree (e_store (run_stmt s st))) OFFMAX = true ->
  e_out (run_stmt s st) = OErr e -> e_store (run_stmt s st) = s.
Proof. intros s d st e HR Hst Hmax. apply N.leb_le in Hmax. exact (stmt_err_unchanged s d st e HR Hst Hmax). Qed.
Print Assumptions C14_atomic_rep.

(* non-vacuity: the three former witnesses - a multi-row INSERT whose second row is out of INT
   range, an UPDATE whose second matching row would exceed 400 bytes, a CREATE TABLE whose second
   column is VARCHAR(3000000000) - are instances of C14_atomic (each fails, none fails_early) *)
Definition atomic_hyps (evs : list event) (st : stmt) (e : err) : Prop :=
  C14_stmts_only evs = true /\
  run_events init_sys evs = (SOk (sys_after evs), snd (run_events init_sys evs)) /\
  forallb ev_ok evs = true /\ stmt_ok st = true /\
  N.leb (nextFree (e_store (run_stmt (mem (sys_after evs)) st))) OFFMAX = true /\
  e_out (run_stmt (mem (sys_after evs)) st) = OErr e /\
  fails_early (mem (sys_after evs)) st = false.

Example nv_atomic_insert_row2 : atomic_hyps w1_evs w1_st EIntRange.
Proof. unfold atomic_hyps. vsplit. Qed.
Example nv_atomic_update_row2 : atomic_hyps w2_evs w2_st ERowTooLarge.
Proof. unfold atomic_hyps. vsplit. Qed.
Example nv_atomic_create_col2 : atomic_hyps [] w3_st EIntRange.
Proof. unfold atomic_hyps. vsplit. Qed.

(* and a history that CONTAINS the three failing statements reaches a state the theorem speaks about *)
Definition late_evs : list event := w2_evs ++ [EvStmt w1_st; EvStmt w2_st; EvStmt w3_st].
Example nv_atomic_history_with_late_failures :
  atomic_hyps late_evs (SInsert "t" [] [[VInt 5; VStr "a"; VStr "b"]; [VInt 6; VStr "a"]]) EColCount /\
  map (fun o => match o with Some (OOk _) => true | _ => false end) (snd (run_events init_sys late_evs)) =
    [true; true; false; false; false].
Proof. unfold atomic_hyps. vsplit. Qed.


(* ---- the oracle of the C14 check (Spec/HistObs.v) and C14_atomic ----
   Every run of the check evaluates, per history (statements - failing ones among them -, flushes,
   read-backs before and after each failing statement, a crash-restart, a read-back) `model_agrees`
   (Go's observations equal run_h's) and the strict oracle `spec_accepts_strict`: a statement that
   returns an error leaves every table as it was (the candidates are unchanged), also after a flush
   and after a crash-restart, and it may be refused only if the specification refuses it too.
   Agreement implies acceptance for EVERY case built from statements, flushes, crash-restarts,
   read-backs and page dumps, under the boolean hypotheses of C01full.v on the events alone
   (Proofs/OracleSound.v, OracleCrash.v; the model side of "leaves every table as it was" is
   C14_atomic_rep = FailsEarly.stmt_err_unchanged, of "only if the specification refuses" is
   OracleSound.model_refusal_justified). *)
From Mkdb Require Import Proofs.OracleSound Proofs.OracleCrash Proofs.OracleTorn.

Theorem C14_agreement_implies_acceptance : forall c,
  hist_shape_c (fst c) = true -> forallb hev_ok (fst c) = true -> forallb hev_stmt_shape (fst c) = true ->
  frontier_ok init_sys (fst c) = true -> reads_cover [] [] [] (fst c) = true -> forallb strict_hev (fst c) = true ->
  model_agrees c = true -> spec_accepts_strict c = true.
Proof. exact agreement_implies_strict_acceptance_crash'. Qed.
Print Assumptions C14_agreement_implies_acceptance.

Theorem C14_oracle_accepts_model : forall hevs,
  hist_shape_c hevs = true -> forallb hev_ok hevs = true -> forallb hev_stmt_shape hevs = true ->
  frontier_ok init_sys hevs = true -> reads_cover [] [] [] hevs = true -> forallb strict_hev hevs = true ->
  spec_accepts_strict (hevs, run_h init_sys hevs) = true.
Proof. exact model_passes_oracle_crash_strict. Qed.
Print Assumptions C14_oracle_accepts_model.

(* non-vacuity: the two former DML witnesses in one history, each between read-backs - the
   two-row INSERT whose second row is out of INT range, the UPDATE whose second matching row would
   exceed 400 bytes -, then a flush, a refused DELETE (unknown column), a crash-restart, read-back *)
Definition hx_fail : list hevent :=
  map HEv w2_evs ++
  [HReadTables ["t"];
   HEv (EvStmt (SInsert "t" [] [[VInt 3; VStr "p"; VStr "q"]; [VInt 2147483648; VStr "p"; VStr "q"]]));
   HReadTables ["t"];
   HEv (EvStmt w2_st);
   HReadTables ["t"];
   HEv EvFlush;
   HEv (EvStmt (SDelete "t" (Some (EPred (XCol (mkCol "" "nosuch")) CEq (XLit (VInt 1))))));
   HReadTables ["t"];
   HEv EvCrash;
   HReadTables ["t"; "sys_schema"]].

Example C14_agreement_nonvacuous :
  hist_shape_c hx_fail = true /\ forallb hev_ok hx_fail = true /\ forallb hev_stmt_shape hx_fail = true /\
  frontier_ok init_sys hx_fail = true /\ reads_cover [] [] [] hx_fail = true /\ forallb strict_hev hx_fail = true /\
  model_agrees (hx_fail, run_h init_sys hx_fail) = true /\
  spec_accepts_strict (hx_fail, run_h init_sys hx_fail) = true /\
  map (fun o => match o with HOut x => Some x | _ => None end) (run_h init_sys hx_fail) =
    [Some OBok; Some OBok; None; Some (OBerr EIntRange); None; Some (OBerr ERowTooLarge); None; Some OBok;
     Some (OBerr EFieldNotFound); None; Some OBok; None] /\
  nth 2 (run_h init_sys hx_fail) HNone = nth 4 (run_h init_sys hx_fail) HNone /\
  nth 2 (run_h init_sys hx_fail) HNone = nth 6 (run_h init_sys hx_fail) HNone /\
  nth 2 (run_h init_sys hx_fail) HNone = nth 9 (run_h init_sys hx_fail) HNone.
Proof. vm_compute. repeat split; reflexivity. Qed.

(* the oracle is not the constant true on such cases: the former behaviour (row 1 of the failing
   INSERT stays in the table), and a refusal of a statement the specification accepts, are rejected *)
Definition hx_fail_short : list hevent :=
  (map HEv w1_evs ++ [HEv (EvStmt w1_st); HReadTables ["t"]])%list.
Example C14_oracle_rejects :
  run_h init_sys hx_fail_short = [HOut OBok; HOut (OBerr EIntRange); HTables [("t", TRows ["a"] [])]] /\
  spec_accepts_strict (hx_fail_short, run_h init_sys hx_fail_short) = true /\
  spec_accepts_strict (hx_fail_short, [HOut OBok; HOut (OBerr EIntRange); HTables [("t", TRows ["a"] [(11%N, [VInt 1])])]]) = false /\
  spec_accepts_prefix_on_error (hx_fail_short, [HOut OBok; HOut (OBerr EIntRange); HTables [("t", TRows ["a"] [(11%N, [VInt 1])])]]) = true /\
  spec_accepts_strict ((map HEv w1_evs ++ [HEv (EvStmt (SInsert "t" [] [[VInt 1]])); HReadTables ["t"]])%list,
                       [HOut OBok; HOut (OBerr EOther); HTables [("t", TRows ["a"] [])]]) = false /\
  spec_accepts ((map HEv w1_evs ++ [HEv (EvStmt (SInsert "t" [] [[VInt 1]])); HReadTables ["t"]])%list,
                [HOut OBok; HOut (OBerr EOther); HTables [("t", TRows ["a"] [])]]) = true.
Proof. vm_compute. repeat split; reflexivity. Qed.
