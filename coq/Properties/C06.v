(* C06 - JOIN results equal the relational definition.
   Statements only; proofs are `exact <lemma of Proofs/SelectC06.v>`.

   nested_loop_join : Model/Select.v, transliteration of engine.nestedLoopJoin
   JoinSpec j db    : Spec/SelectSpec.v - fields of the joined tables in order; rows, AS A
                      MULTISET: for INNER the pairs l ++ r satisfying the ON condition; for LEFT
                      additionally each left row without a partner once, padded with NULLs on
                      the right; for RIGHT symmetrically; recursively over the join tree
   join_tree_ok     : boolean; tables exist, rows have the table's width, every ON condition is
                      well-typed (names resolve uniquely, comparisons between non-NULL values
                      of one type) on every pair of rows it is evaluated on
   Any join tree (left-deep chains are what the parser builds), any table sizes. *)
From Coq Require Import ZArith String Bool List Permutation.
From Mkdb Require Import Model.Select Spec.SelectSpec Proofs.SelectC06.
Import ListNotations.

Theorem C06_join : forall j db,
  join_tree_ok j db = true -> exists res, nested_loop_join db j = Ok res /\ JoinSpec j db res.
Proof. exact join_model_joinspec. Qed.
Print Assumptions C06_join.

(* the same, spelled out: the model's rows are a permutation of the declarative join *)
Theorem C06_join_perm : forall db j fs base,
  join_sem db j = Some (fs, base) ->
  exists rows, nested_loop_join db j = Ok (fs, rows) /\ Permutation rows base.
Proof. exact join_model_meets_spec. Qed.
Print Assumptions C06_join_perm.

Theorem C06_checker : forall j db res, check_join j db res = true <-> JoinSpec j db res.
Proof. exact check_join_iff. Qed.
Print Assumptions C06_checker.

(* names: a table with an alias is addressed through the alias (and not through its name),
   a table without alias through its name *)
Theorem C06_names_alias : forall d n a cols rows c i,
  fetch d n = Some (cols, rows) -> NoDup cols -> nth_error cols i = Some c -> a <> ""%string ->
  exists fs, nested_loop_join d (TRName n (Some a)) = Ok (fs, rows) /\
    find_column (mkCol a c) fs = Ok i /\
    find_column (mkCol "" c) fs = Ok i /\
    (n <> a -> n <> ""%string -> find_column (mkCol n c) fs = Err EFieldNotFound).
Proof. exact names_by_alias. Qed.
Print Assumptions C06_names_alias.

Theorem C06_names_table : forall d n cols rows c i,
  fetch d n = Some (cols, rows) -> NoDup cols -> nth_error cols i = Some c -> n <> ""%string ->
  exists fs, nested_loop_join d (TRName n None) = Ok (fs, rows) /\ find_column (mkCol n c) fs = Ok i.
Proof. exact names_by_table_name. Qed.
Print Assumptions C06_names_table.

(* the same table joined to itself under two aliases: each side resolves to its own copy,
   the unqualified name is ambiguous *)
Theorem C06_names_self_join : forall a b cols c i,
  NoDup cols -> nth_error cols i = Some c -> a <> b -> a <> ""%string -> b <> ""%string ->
  let fs := fields_of a cols ++ fields_of b cols in
  find_column (mkCol a c) fs = Ok i /\
  find_column (mkCol b c) fs = Ok (List.length cols + i)%nat /\
  find_column (mkCol "" c) fs = Err EFieldAmbiguous.
Proof. exact names_self_join. Qed.
Print Assumptions C06_names_self_join.

(* an unqualified name that exists on both sides is ambiguous, and a join whose condition
   uses it is rejected (not resolved silently) as soon as both sides have a row *)
Theorem C06_names_ambiguous : forall (lf rf : list field) c,
  In c (map snd lf) -> In c (map snd rf) -> find_column (mkCol "" c) (lf ++ rf) = Err EFieldAmbiguous.
Proof. exact names_ambiguous. Qed.
Print Assumptions C06_names_ambiguous.

Theorem C06_join_rejects_ambiguous : forall d l r jt c op rhs lf L rf R,
  nested_loop_join d l = Ok (lf, L) -> nested_loop_join d r = Ok (rf, R) ->
  L <> [] -> R <> [] -> jt <> JFull ->
  In c (map snd lf) -> In c (map snd rf) ->
  nested_loop_join d (TRJoin l jt r (EPred (XCol (mkCol "" c)) op rhs)) = Err EFieldAmbiguous.
Proof. exact join_rejects_ambiguous. Qed.
Print Assumptions C06_join_rejects_ambiguous.

(* non-vacuity: a LEFT join followed by a RIGHT join over tables with duplicate and missing
   keys: the tree is well-formed, the model's rows are the expected ones and contain both
   matched and NULL-padded rows *)
Open Scope string_scope.
Definition ex_db : db :=
  [("t1", ["k"; "a"], [[VInt 1; VInt 10]; [VInt 2; VInt 20]; [VInt 2; VInt 21]; [VInt 4; VInt 40]]);
   ("t2", ["k"; "b"], [[VInt 2; VInt 7]; [VInt 2; VInt 8]; [VInt 3; VInt 9]])].
Definition ex_j : tableref :=
  TRJoin (TRJoin (TRName "t1" (Some "x")) JLeft (TRName "t2" None)
                 (EPred (XCol (mkCol "x" "k")) CEq (XCol (mkCol "t2" "k"))))
         JRight (TRName "t1" (Some "y"))
         (EAnd (XCol (mkCol "y" "k"), CEq, XCol (mkCol "x" "k")) (EPred (XCol (mkCol "y" "a")) CGte (XCol (mkCol "x" "a")))).

Example C06_nonvacuous_ok : join_tree_ok ex_j ex_db = true.
Proof. vm_compute. reflexivity. Qed.

Example C06_nonvacuous_rows :
  nested_loop_join ex_db ex_j =
  Ok ([("x", "k"); ("x", "a"); ("t2", "k"); ("t2", "b"); ("y", "k"); ("y", "a")],
      [[VInt 1; VInt 10; VNull; VNull; VInt 1; VInt 10];
       [VInt 2; VInt 20; VInt 2; VInt 7; VInt 2; VInt 20]; [VInt 2; VInt 20; VInt 2; VInt 8; VInt 2; VInt 20];
       [VInt 2; VInt 20; VInt 2; VInt 7; VInt 2; VInt 21]; [VInt 2; VInt 20; VInt 2; VInt 8; VInt 2; VInt 21];
       [VInt 2; VInt 21; VInt 2; VInt 7; VInt 2; VInt 21]; [VInt 2; VInt 21; VInt 2; VInt 8; VInt 2; VInt 21];
       [VInt 4; VInt 40; VNull; VNull; VInt 4; VInt 40]]).
Proof. vm_compute. reflexivity. Qed.

(* ====================================================================================================
   ORACLE vs. THEOREM (Proofs/SelectOracle.v). The correspondence run judges what Go returned with
   sm_c06 (Spec/SelectObs.v), on queries whose FROM clause is one join tree j:
     - join_sem d j defined, no aggregates / LIMIT / OFFSET (plain_query), WHERE / select list / ORDER BY
       meaningful (sem_joined): Go must return the declarative header, a permutation of the declarative rows
       (join_sem, then WHERE, then the projection), sorted by the ORDER BY keys;
     - join_sem d j undefined because an ON condition that is evaluated on at least one pair of rows names a
       column the engine has to reject (unresolved_evaluated): Go must not return rows;
     - everything else is accepted (outside C06).
   mm_select is the comparison of Go's answer with `select` (the whole pipeline around nested_loop_join).
   hyp_c06 (boolean, on the case): the select list is not empty (sql.Parser's SelectList is do-while), the
   tables are what storage.Fetch returns (db_wf: one value per column, one Go type per column), no FULL join
   in the tree (the grammar has none, ParseSpec.wf_tref; nestedLoopJoin has no case for it and returns no
   rows WITHOUT evaluating the ON condition). Under it, agreement of the model with Go implies acceptance.
   The link to C06_join: select_core returns join_sem's rows up to a permutation (C06_join_perm), WHERE and
   the projection commute with permutations, the model's sort returns a sorted permutation. *)
From Mkdb Require Import Spec.SelectObs Proofs.SelectOracle.

Theorem C06_agreement_implies_acceptance : forall c,
  hyp_c06 c = true -> mm_select c = true -> sm_c06 c = true.
Proof. exact c06_agreement_implies_acceptance. Qed.
Print Assumptions C06_agreement_implies_acceptance.

(* non-vacuity: the LEFT-then-RIGHT join above under WHERE, a projection with an alias and ORDER BY k DESC
   (six rows tie on k = 2): Go returns the tie group in another order; the case is in the oracle's scope
   (wt_c06), agrees and is accepted; with a row changed it neither agrees nor is accepted *)
Definition ag_q : select_stmt :=
  mkSelect [mkDC (SPExpr (EVal (XCol (mkCol "x" "k")))) ""; mkDC (SPExpr (EVal (XCol (mkCol "t2" "b")))) "b2";
            mkDC (SPExpr (EVal (XCol (mkCol "y" "a")))) ""]
           [ex_j] (Some (EPred (XCol (mkCol "y" "k")) CLte (XLit (VInt 2)))) [] [mkSort (mkCol "" "k") SDesc] false false 0 0.

Example C06_agreement_nonvacuous :
  let hdr := [("x", "k"); ("t2", "b2"); ("y", "a")] in
  let good := (ex_db, ag_q, GOk hdr [[VInt 2; VInt 8; VInt 21]; [VInt 2; VInt 7; VInt 20]; [VInt 2; VInt 7; VInt 21];
                                     [VInt 2; VInt 8; VInt 20]; [VInt 2; VInt 8; VInt 21]; [VInt 2; VInt 7; VInt 21];
                                     [VInt 1; VNull; VInt 10]]) in
  let bad := (ex_db, ag_q, GOk hdr [[VInt 2; VInt 8; VInt 21]; [VInt 2; VInt 7; VInt 20]; [VInt 2; VInt 7; VInt 21];
                                    [VInt 2; VInt 8; VInt 20]; [VInt 2; VInt 8; VInt 20]; [VInt 2; VInt 7; VInt 21];
                                    [VInt 1; VNull; VInt 10]]) in
  hyp_c06 good = true /\ wt_c06 good = true /\ mm_select good = true /\ sm_c06 good = true /\
  mm_select bad = false /\ sm_c06 bad = false.
Proof. vm_compute. repeat split; reflexivity. Qed.

(* an unknown column in an ON condition: model and Go refuse, the oracle accepts the refusal *)
Example C06_agreement_nonvacuous_reject :
  let j := TRJoin (TRName "t1" None) JLeft (TRName "t2" None) (EPred (XCol (mkCol "t1" "k")) CEq (XCol (mkCol "t2" "nosuch"))) in
  let q := mkSelect [mkDC SPStar ""] [j] None [] [] false false 0 0 in
  let c := (ex_db, q, GErr EFieldNotFound) in
  unresolved_evaluated ex_db j = true /\ hyp_c06 c = true /\ mm_select c = true /\ sm_c06 c = true.
Proof. vm_compute. repeat split; reflexivity. Qed.

(* each part of hyp_c06 is needed: without it the oracle rejects the model's own behaviour.
   (1) empty select list: projectColumns indexes selectList[0], the model panics *)
Example C06_agreement_needs_select_list :
  let c := (ex_db, mkSelect [] [ex_j] None [] [] false false 0 0, GPanic) in
  hyp_c06 c = false /\ mm_select c = true /\ sm_c06 c = false.
Proof. vm_compute. repeat split; reflexivity. Qed.

(* (2) a column holding an int and a string under ORDER BY: the sort comparison panics *)
Example C06_agreement_needs_db_wf :
  let c := ([("t", ["a"], [[VInt 1]; [VStr "x"]])],
            mkSelect [mkDC SPStar ""] [TRName "t" None] None [] [mkSort (mkCol "" "a") SAsc] false false 0 0, GPanic) in
  hyp_c06 c = false /\ mm_select c = true /\ sm_c06 c = false.
Proof. vm_compute. repeat split; reflexivity. Qed.

(* (3) FULL join with an unknown column in ON: nestedLoopJoin returns no rows and no error (the switch has
   no case), the oracle demands a refusal. Not reachable from SQL text (no FULL in the grammar). *)
Example C06_agreement_needs_no_full_join :
  let j := TRJoin (TRName "t1" None) JFull (TRName "t2" None) (EPred (XCol (mkCol "" "nosuch")) CEq (XLit (VInt 1))) in
  let c := (ex_db, mkSelect [mkDC SPStar ""] [j] None [] [] false false 0 0,
            GOk [("t1", "k"); ("t1", "a"); ("t2", "k"); ("t2", "b")] []) in
  hyp_c06 c = false /\ mm_select c = true /\ sm_c06 c = false.
Proof. vm_compute. repeat split; reflexivity. Qed.
