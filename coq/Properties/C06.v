(* C06 - JOIN results equal the relational definition.
   Statements only; proofs are `exact <lemma of Proofs/SelectC06.v>`.

   nested_loop_join : Model/Select.v, transliteration of engine.nestedLoopJoin
   JoinSpec j db    : Spec/SelectSpec.v - fields of the joined tables in order; rows, AS A
                      MULTISET: for INNER the pairs l ++ r satisfying the ON condition; for LEFT
                      additionally each left row without a partner once, padded with NULLs on
                      the right; for RIGHT symmetrically; recursively over the join tree
   join_tree_ok     : boolean; tables exist, rows have the table's width, every ON condition is
                      well-typed (names resolve uniquely, comparisons between non-NULL values
                      of one type) on every pair of rows it is evaluated on
   Any join tree (left-deep chains are what the parser builds), any table sizes. *)
From Coq Require Import ZArith String Bool List Permutation.
From Mkdb Require Import Model.Select Spec.SelectSpec Proofs.SelectC06.
Import ListNotations.

Theorem C06_join : forall j db,
  join_tree_ok j db = true -> exists res, nested_loop_join db j = Ok res /\ JoinSpec j db res.
Proof. exact join_model_joinspec. Qed.
Print Assumptions C06_join.

(* the same, spelled out: the model's rows are a permutation of the declarative join *)
Theorem C06_join_perm : forall db j fs base,
  join_sem db j = Some (fs, base) ->
  exists rows, nested_loop_join db j = Ok (fs, rows) /\ Permutation rows base.
Proof. exact join_model_meets_spec. Qed.
Print Assumptions C06_join_perm.

Theorem C06_checker : forall j db res, check_join j db res = true <-> JoinSpec j db res.
Proof. exact check_join_iff. Qed.
Print Assumptions C06_checker.

(* names: a table with an alias is addressed through the alias (and not through its name),
   a table without alias through its name *)
Theorem C06_names_alias : forall d n a cols rows c i,
  fetch d n = Some (cols, rows) -> NoDup cols -> nth_error cols i = Some c -> a <> ""%string ->
  exists fs, nested_loop_join d (TRName n (Some a)) = Ok (fs, rows) /\
    find_column (mkCol a c) fs = Ok i /\
    find_column (mkCol "" c) fs = Ok i /\
    (n <> a -> n <> ""%string -> find_column (mkCol n c) fs = Err EFieldNotFound).
Proof. exact names_by_alias. Qed.
Print Assumptions C06_names_alias.

Theorem C06_names_table : forall d n cols rows c i,
  fetch d n = Some (cols, rows) -> NoDup cols -> nth_error cols i = Some c -> n <> ""%string ->
  exists fs, nested_loop_join d (TRName n None) = Ok (fs, rows) /\ find_column (mkCol n c) fs = Ok i.
Proof. exact names_by_table_name. Qed.
Print Assumptions C06_names_table.

(* the same table joined to itself under two aliases: each side resolves to its own copy,
   the unqualified name is ambiguous *)
Theorem C06_names_self_join : forall a b cols c i,
  NoDup cols -> nth_error cols i = Some c -> a <> b -> a <> ""%string -> b <> ""%string ->
  let fs := fields_of a cols ++ fields_of b cols in
  find_column (mkCol a c) fs = Ok i /\
  find_column (mkCol b c) fs = Ok (List.length cols + i)%nat /\
  find_column (mkCol "" c) fs = Err EFieldAmbiguous.
Proof. exact names_self_join. Qed.
Print Assumptions C06_names_self_join.

(* an unqualified name that exists on both sides is ambiguous, and a join whose condition
   uses it is rejected (not resolved silently) as soon as both sides have a row *)
Theorem C06_names_ambiguous : forall (lf rf : list field) c,
  In c (map snd lf) -> In c (map snd rf) -> find_column (mkCol "" c) (lf ++ rf) = Err EFieldAmbiguous.
Proof. exact names_ambiguous. Qed.
Print Assumptions C06_names_ambiguous.

Theorem C06_join_rejects_ambiguous : forall d l r jt c op rhs lf L rf R,
  nested_loop_join d l = Ok (lf, L) -> nested_loop_join d r = Ok (rf, R) ->
  L <> [] -> R <> [] -> jt <> JFull ->
  In c (map snd lf) -> In c (map snd rf) ->
  nested_loop_join d (TRJoin l jt r (EPred (XCol (mkCol "" c)) op rhs)) = Err EFieldAmbiguous.
Proof. exact join_rejects_ambiguous. Qed.
Print Assumptions C06_join_rejects_ambiguous.

(* non-vacuity: a LEFT join followed by a RIGHT join over tables with duplicate and missing
   keys: the tree is well-formed, the model's rows are the expected ones and contain both
   matched and NULL-padded rows *)
Open Scope string_scope.
Definition ex_db : db :=
  [("t1", ["k"; "a"], [[VInt 1; VInt 10]; [VInt 2; VInt 20]; [VInt 2; VInt 21]; [VInt 4; VInt 40]]);
   ("t2", ["k"; "b"], [[VInt 2; VInt 7]; [VInt 2; VInt 8]; [VInt 3; VInt 9]])].
Definition ex_j : tableref :=
  TRJoin (TRJoin (TRName "t1" (Some "x")) JLeft (TRName "t2" None)
                 (EPred (XCol (mkCol "x" "k")) CEq (XCol (mkCol "t2" "k"))))
         JRight (TRName "t1" (Some "y"))
         (EAnd (XCol (mkCol "y" "k"), CEq, XCol (mkCol "x" "k")) (EPred (XCol (mkCol "y" "a")) CGte (XCol (mkCol "x" "a")))).

Example C06_nonvacuous_ok : join_tree_ok ex_j ex_db = true.
Proof. vm_compute. reflexivity. Qed.

Example C06_nonvacuous_rows :
  nested_loop_join ex_db ex_j =
  Ok ([("x", "k"); ("x", "a"); ("t2", "k"); ("t2", "b"); ("y", "k"); ("y", "a")],
      [[VInt 1; VInt 10; VNull; VNull; VInt 1; VInt 10];
       [VInt 2; VInt 20; VInt 2; VInt 7; VInt 2; VInt 20]; [VInt 2; VInt 20; VInt 2; VInt 8; VInt 2; VInt 20];
       [VInt 2; VInt 20; VInt 2; VInt 7; VInt 2; VInt 21]; [VInt 2; VInt 20; VInt 2; VInt 8; VInt 2; VInt 21];
       [VInt 2; VInt 21; VInt 2; VInt 7; VInt 2; VInt 21]; [VInt 2; VInt 21; VInt 2; VInt 8; VInt 2; VInt 21];
       [VInt 4; VInt 40; VNull; VNull; VInt 4; VInt 40]]).
Proof. vm_compute. reflexivity. Qed.
