(* C05 - Single-table SELECT returns what its clauses mean.
   Statements only; proofs are `exact <lemma of Proofs/SelectC05.v / SelectOrder.v>`.

   select       : Model/Select.v, the transliteration of engine.EvaluateSelect
   SelectSpec   : Spec/SelectSpec.v - rows satisfying WHERE (recursive boolean evaluator, AND
                  below OR by the shape of the parsed tree), projected to the select list in
                  order, then ANY sorted permutation w.r.t. the ORDER BY keys (ASC/DESC per
                  key, lexicographic) - the rows themselves, in insertion order, without ORDER
                  BY - then OFFSET rows skipped and at most LIMIT rows kept
   well_typed   : boolean; one table, no aggregates, every column reference resolves to exactly
                  one column, every comparison has two non-NULL operands of one type (<,<=,>,>=
                  on integers and strings only), LIMIT/OFFSET >= 0, sort columns homogeneous
   All table sizes, all expression depths, all values. *)
From Coq Require Import ZArith String Bool List.
From Mkdb Require Import Model.Select Spec.SelectSpec Proofs.SelectOrder Proofs.SelectC05.
Import ListNotations.

Theorem C05_model_meets_spec : forall t q,
  well_typed q t = true -> exists r, select q t = Ok r /\ SelectSpec q t r.
Proof. exact model_meets_select_spec. Qed.
Print Assumptions C05_model_meets_spec.

(* the executable checker used on what Go returns decides the specification *)
Theorem C05_checker_sound : forall q t r, check_select q t r = true -> SelectSpec q t r.
Proof. intros q t r. apply check_select_iff. Qed.
Print Assumptions C05_checker_sound.

Theorem C05_checker_complete : forall q t r, SelectSpec q t r -> check_select q t r = true.
Proof. intros q t r. apply check_select_iff. Qed.
Print Assumptions C05_checker_complete.

(* the ORDER BY / OFFSET / LIMIT layer on its own: accepted iff a window of a sorted permutation *)
Theorem C05_window_checker : forall keys off lim base r,
  check_window keys off lim base r = true <-> OrderedWindow keys off lim base r.
Proof. exact check_window_iff. Qed.
Print Assumptions C05_window_checker.

(* non-vacuity: a three-row table, WHERE with AND below OR, alias, ORDER BY DESC with a tie,
   OFFSET and LIMIT: the query is well-typed and the model's answer is the expected one *)
Open Scope string_scope.
Definition ex_db : db :=
  [("t", ["a"; "b"], [[VInt 1; VStr "x"]; [VInt 2; VStr "y"]; [VInt 2; VStr "z"]; [VInt 3; VStr "x"]])].
Definition ex_q : select_stmt :=
  mkSelect [mkDC (SPExpr (EVal (XCol (mkCol "" "b")))) "k"; mkDC (SPExpr (EVal (XCol (mkCol "t" "a")))) ""]
           [TRName "t" None]
           (Some (EOr (EAnd (XCol (mkCol "" "a"), CGte, XLit (VInt 2)) (EPred (XCol (mkCol "" "b")) CNeq (XLit (VStr "q"))))
                      (EPred (XCol (mkCol "" "a")) CEq (XLit (VInt 1)))))
           [] [mkSort (mkCol "" "a") SDesc] true true 2 1.

Example C05_nonvacuous_well_typed : well_typed ex_q ex_db = true.
Proof. vm_compute. reflexivity. Qed.

Example C05_nonvacuous_result :
  select ex_q ex_db = Ok ([("t", "k"); ("t", "a")], [[VStr "y"; VInt 2]; [VStr "z"; VInt 2]]).
Proof. vm_compute. reflexivity. Qed.

(* the other member of the tie group is accepted too, a wrong row is not *)
Example C05_nonvacuous_checker :
  check_select ex_q ex_db ([("t", "k"); ("t", "a")], [[VStr "z"; VInt 2]; [VStr "y"; VInt 2]]) = true /\
  check_select ex_q ex_db ([("t", "k"); ("t", "a")], [[VStr "y"; VInt 2]; [VStr "x"; VInt 1]]) = false.
Proof. vm_compute. split; reflexivity. Qed.

(* ====================================================================================================
   ORACLE vs. THEOREM (Proofs/SelectOracle.v). The correspondence run judges what Go returned with
   sm_c05 (Spec/SelectObs.v): on a well_typed query Go must return rows that check_select accepts; other
   queries are outside C05 and accepted. mm_select is the comparison of Go's answer with `select`.
   Whenever the model agrees with Go the oracle accepts Go's answer - no hypothesis is needed, the oracle
   decides its own scope with well_typed, the hypothesis of C05_model_meets_spec. So an SM verdict of C05
   is never a false alarm on code that conforms to the model, and every SM rejection is a behaviour the
   model (the subject of C05_model_meets_spec) does not have. *)
From Mkdb Require Import Spec.SelectObs Proofs.SelectOracle.

Theorem C05_agreement_implies_acceptance : forall c, mm_select c = true -> sm_c05 c = true.
Proof. exact c05_agreement_implies_acceptance. Qed.
Print Assumptions C05_agreement_implies_acceptance.

(* non-vacuity: the query above; Go returns the OTHER member of the tie group in first place, which
   the model comparison tolerates (window of a sorted permutation): the case is in the oracle's scope,
   agrees, and is accepted; a wrong row neither agrees nor is accepted *)
Example C05_agreement_nonvacuous :
  let good := (ex_db, ex_q, GOk [("t", "k"); ("t", "a")] [[VStr "z"; VInt 2]; [VStr "y"; VInt 2]]) in
  let bad := (ex_db, ex_q, GOk [("t", "k"); ("t", "a")] [[VStr "y"; VInt 2]; [VStr "x"; VInt 1]]) in
  wt_c05 good = true /\ mm_select good = true /\ sm_c05 good = true /\
  mm_select bad = false /\ sm_c05 bad = false.
Proof. vm_compute. repeat split; reflexivity. Qed.
