(* C18 - No statement can crash the engine. SELECT PART (engine/select.go).
   Statements only; proofs are `exact <lemma of Proofs/SelectC18.v>`.

   select q db   : Model/Select.v, the transliteration of engine.EvaluateSelect in which EVERY
                   Go type assertion (.(int64), .(bool), .(string), .(sql.ColumnReference),
                   .(sql.WhereClause)), every slice index and every explicit panic is a Panic
                   outcome unless the statement tree type makes it impossible
   parser_shape  : boolean; what sql.Parser guarantees: the select list is not empty, `*` occurs
                   only as the whole select list, LIMIT / OFFSET are not negative
   db_wf         : boolean; what storage.Fetch returns: every row has one value per column and
                   every column holds values of one Go type or nil
   ALL statements of that shape (any expression depth, ill-typed comparisons, avg() over
   strings / booleans / NULL, unknown, ambiguous and duplicated columns, non-boolean join
   conditions, GROUP BY / ORDER BY on anything) over ALL such tables, NULLs included. *)
From Coq Require Import ZArith String Bool List.
From Mkdb Require Import Model.Select Spec.SelectSpec Proofs.SelectC18.
Import ListNotations.

Theorem C18_select_no_panic : forall db q,
  parser_shape q = true -> db_wf db = true -> forall what, select q db <> Panic what.
Proof. exact select_no_panic. Qed.
Print Assumptions C18_select_no_panic.

(* both hypotheses are needed: each Panic branch of the model is reachable without them *)
Open Scope string_scope.
Example C18_empty_select_list_panics :
  exists w, select (mkSelect [] [TRName "t" None] None [] [] false false 0 0) [("t", ["a"], [])] = Panic w.
Proof. eexists. vm_compute. reflexivity. Qed.

Example C18_negative_limit_panics :
  exists w, select (mkSelect [mkDC SPStar ""] [TRName "t" None] None [] [] true false (-1) 0) [("t", ["a"], [])] = Panic w.
Proof. eexists. vm_compute. reflexivity. Qed.

Example C18_mixed_column_panics :        (* a column holding an int and a string: ORDER BY *)
  exists w, select (mkSelect [mkDC SPStar ""] [TRName "t" None] None [] [mkSort (mkCol "" "a") SAsc] false false 0 0)
                   [("t", ["a"], [[VInt 1]; [VStr "x"]])] = Panic w.
Proof. eexists. vm_compute. reflexivity. Qed.

Example C18_short_row_panics :           (* a row narrower than the table *)
  exists w, select (mkSelect [mkDC (SPExpr (EVal (XCol (mkCol "" "b")))) ""] [TRName "t" None] None [] [] false false 0 0)
                   [("t", ["a"; "b"], [[VInt 1]])] = Panic w.
Proof. eexists. vm_compute. reflexivity. Qed.

(* non-vacuity: a type-confused statement over NULL-bearing rows satisfies the hypotheses
   and yields an error value, another one yields rows *)
Definition nv_db : db := [("t", ["a"; "b"], [[VInt 1; VStr "x"]; [VNull; VNull]; [VInt 2; VStr "y"]])].
Definition nv_q1 : select_stmt :=
  mkSelect [mkDC (SPAvg (mkCol "" "b")) ""; mkDC (SPCount None) ""] [TRName "t" None]
           (Some (EOr (EPred (XCol (mkCol "" "a")) CLt (XLit (VStr "s"))) (EVal (XLit (VInt 1))))) [] [] false false 0 0.
Definition nv_q2 : select_stmt :=
  mkSelect [mkDC (SPExpr (EVal (XCol (mkCol "" "a")))) "k"; mkDC (SPCount (Some (mkCol "" "b"))) ""] [TRName "t" (Some "x")]
           None [mkCol "" "k"] [mkSort (mkCol "" "k") SDesc] true true 5 0.

Example C18_nonvacuous :
  parser_shape nv_q1 = true /\ parser_shape nv_q2 = true /\ db_wf nv_db = true /\
  select nv_q1 nv_db = Err EIncompatTypeCompare /\
  select nv_q2 nv_db = Ok ([("x", "k"); ("", "count(b)")], [[VInt 2; VInt 1]; [VInt 1; VInt 1]; [VNull; VInt 0]]).
Proof. vm_compute. repeat split; reflexivity. Qed.
