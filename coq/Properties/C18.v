(* C18 - No statement can crash the engine. SELECT PART (engine/select.go).
   Statements only; proofs are `exact <lemma of Proofs/SelectC18.v>`.

   select q db   : Model/Select.v, the transliteration of engine.EvaluateSelect in which EVERY
                   Go type assertion (.(int64), .(bool), .(string), .(sql.ColumnReference),
                   .(sql.WhereClause)), every slice index and every explicit panic is a Panic
                   outcome unless the statement tree type makes it impossible
   parser_shape  : boolean; what sql.Parser guarantees: the select list is not empty, `*` occurs
                   only as the whole select list, LIMIT / OFFSET are not negative
   db_wf         : boolean; what storage.Fetch returns: every row has one value per column and
                   every column holds values of one Go type or nil
   ALL statements of that shape (any expression depth, ill-typed comparisons, avg() over
   strings / booleans / NULL, unknown, ambiguous and duplicated columns, non-boolean join
   conditions, GROUP BY / ORDER BY on anything) over ALL such tables, NULLs included. *)
From Coq Require Import ZArith String Bool List.
From Mkdb Require Import Model.Select Spec.SelectSpec Proofs.SelectC18.
Import ListNotations.

Theorem C18_select_no_panic : forall db q,
  parser_shape q = true -> db_wf db = true -> forall what, select q db <> Panic what.
Proof. exact select_no_panic. Qed.
Print Assumptions C18_select_no_panic.

(* both hypotheses are needed: each Panic branch of the model is reachable without them *)
Open Scope string_scope.
Example C18_empty_select_list_panics :
  exists w, select (mkSelect [] [TRName "t" None] None [] [] false false 0 0) [("t", ["a"], [])] = Panic w.
Proof. eexists. vm_compute. reflexivity. Qed.

Example C18_negative_limit_panics :
  exists w, select (mkSelect [mkDC SPStar ""] [TRName "t" None] None [] [] true false (-1) 0) [("t", ["a"], [])] = Panic w.
Proof. eexists. vm_compute. reflexivity. Qed.

Example C18_mixed_column_panics :        (* a column holding an int and a string: ORDER BY *)
  exists w, select (mkSelect [mkDC SPStar ""] [TRName "t" None] None [] [mkSort (mkCol "" "a") SAsc] false false 0 0)
                   [("t", ["a"], [[VInt 1]; [VStr "x"]])] = Panic w.
Proof. eexists. vm_compute. reflexivity. Qed.

Example C18_short_row_panics :           (* a row narrower than the table *)
  exists w, select (mkSelect [mkDC (SPExpr (EVal (XCol (mkCol "" "b")))) ""] [TRName "t" None] None [] [] false false 0 0)
                   [("t", ["a"; "b"], [[VInt 1]])] = Panic w.
Proof. eexists. vm_compute. reflexivity. Qed.

(* non-vacuity: a type-confused statement over NULL-bearing rows satisfies the hypotheses
   and yields an error value, another one yields rows *)
Definition nv_db : db := [("t", ["a"; "b"], [[VInt 1; VStr "x"]; [VNull; VNull]; [VInt 2; VStr "y"]])].
Definition nv_q1 : select_stmt :=
  mkSelect [mkDC (SPAvg (mkCol "" "b")) ""; mkDC (SPCount None) ""] [TRName "t" None]
           (Some (EOr (EPred (XCol (mkCol "" "a")) CLt (XLit (VStr "s"))) (EVal (XLit (VInt 1))))) [] [] false false 0 0.
Definition nv_q2 : select_stmt :=
  mkSelect [mkDC (SPExpr (EVal (XCol (mkCol "" "a")))) "k"; mkDC (SPCount (Some (mkCol "" "b"))) ""] [TRName "t" (Some "x")]
           None [mkCol "" "k"] [mkSort (mkCol "" "k") SDesc] true true 5 0.

Example C18_nonvacuous :
  parser_shape nv_q1 = true /\ parser_shape nv_q2 = true /\ db_wf nv_db = true /\
  select nv_q1 nv_db = Err EIncompatTypeCompare /\
  select nv_q2 nv_db = Ok ([("x", "k"); ("", "count(b)")], [[VInt 2; VInt 1]; [VInt 1; VInt 1]; [VNull; VInt 0]]).
Proof. vm_compute. repeat split; reflexivity. Qed.

(* ====================================================================================================
   C18, DML / DDL / SESSION PART (engine/session.go ExecQuery, engine/{insert,update,delete,create}.go,
   storage/relation.go). Proofs: Proofs/SessionStore.v, Proofs/SessionProofs.v.

   sess_stmt s st : Model/Session.v, Session.ExecQuery on ONE statement; SOPanic is the outcome of every
                    Go panic of that path. The model's Panic sources are exactly: a catalog lookup on a
                    malformed catalog row (Store.pt_lookup / schema_rows: NULL where a value is asserted,
                    unknown type code), Expr.eval_primary indexing a row shorter than its field list, and
                    the nil relation service of a selected-but-missing database (findings F12).
   reachable s    : s is the session state after ANY event list (CREATE DATABASE / USE / SHOW DATABASES /
                    DDL / DML, timer ticks, clean and unclean restarts) satisfying C17's hypotheses
                    (Proofs/SessionProofs.v sess_hyps; see Properties/C17.v). In such a state every
                    database's cache represents a specification database (`Rep`: catalog well-formed,
                    rows decode with the right width) and the selected name, if any, exists.
   stmt_bounded   : boolean hypothesis on the statement st ITSELF, evaluated in the selected cache
                    (SessionStore.np_hyp): INSERT / UPDATE
                    literals are Go values (int64, strings < 4 GiB: the model's Z / string are unbounded);
                    CREATE TABLE / INSERT leave the file below 2^63 bytes. NOTHING is assumed for DELETE,
                    SELECT, CREATE DATABASE, USE, SHOW DATABASES, nor about table / column names, column
                    lists (unknown, duplicated, too many, too few), value types, SET from a column,
                    unevaluable or ill-typed WHERE, catalog tables as targets, or no database selected.
   SSelect: the session model answers OErr EOther for SELECT (its executor is modelled separately in
   Model/Select.v; its panic-freedom is C18_select_no_panic above), so the SELECT case here is trivial.

   C18_statement_full_statement drops stmt_bounded. Not proved: between the rows of a multi-row
   statement / the columns of a CREATE TABLE the proof carries `Rep`, whose preservation
   (RefineDML.st_insert_rep / st_update_rep, RefineFail.schema_row_step_rep) needs exactly these
   hypotheses; a weaker "catalog well-formed" invariant preserved unconditionally would remove them. *)
From Mkdb Require Import Model.Engine Model.Session Proofs.RefineRep Proofs.RefineCat Proofs.RefineMain
  Proofs.SessionStore Proofs.SessionProofs.

(* one statement on one represented store *)
Theorem C18_store_no_panic_partial : forall s d st,
  Rep s d -> np_hyp s st = true -> e_out (run_stmt s st) <> OPanic.
Proof. exact run_stmt_no_panic. Qed.
Print Assumptions C18_store_no_panic_partial.

(* any statement in any reachable session state *)
Theorem C18_statement_no_panic_partial : forall s st,
  reachable s -> stmt_bounded s st = true -> snd (sess_stmt s st) <> SOPanic.
Proof. exact statement_no_panic. Qed.
Print Assumptions C18_statement_no_panic_partial.

(* the classes that need no hypothesis on the statement at all *)
Theorem C18_statement_no_panic_unconditional : forall s st,
  reachable s ->
  match st with SCreateTable _ _ | SInsert _ _ _ | SUpdate _ _ _ => False | _ => True end ->
  snd (sess_stmt s st) <> SOPanic.
Proof.
  intros s st Hr Hc. apply statement_no_panic; [exact Hr|].
  unfold stmt_bounded. destruct st; try contradiction; try reflexivity;
    cbn [is_session_stmt orb]; destruct (cur s) as [c|]; try reflexivity; destruct (get_db c (dbs s)); reflexivity.
Qed.
Print Assumptions C18_statement_no_panic_unconditional.

Definition C18_statement_full_statement : Prop :=
  forall s st, reachable s -> snd (sess_stmt s st) <> SOPanic.

(* no database selected: every non-session statement is refused, nothing changes *)
Theorem C18_no_database_selected : forall s st,
  cur s = None -> is_session_stmt st = false -> sess_stmt s st = (s, SOErr SENoDB).
Proof. exact no_database_selected. Qed.
Print Assumptions C18_no_database_selected.

(* after a failed USE (or CREATE DATABASE) the session is exactly as before: in particular a failed
   USE with nothing selected leaves nothing selected, and the next statement gets SENoDB, not a nil
   dereference (finding F12, fixed) *)
Theorem C18_failed_use_changes_nothing : forall s name s' e,
  sess_stmt s (SUse name) = (s', SOErr e) -> s' = s.
Proof. exact use_err. Qed.
Print Assumptions C18_failed_use_changes_nothing.

(* the invariant matters: with a selected database that does not exist (the state the pre-fix code
   reached after a failed USE) the model panics *)
Example C18_selected_missing_panics :
  snd (sess_stmt (mkSess [] (Some "d")) (SDelete "t" None)) = SOPanic.
Proof. reflexivity. Qed.

(* non-vacuity: type-confused / malformed statements in a reachable state with data satisfy
   stmt_bounded and yield a result or an error value *)
Definition c18_evs : list sevent :=
  [SvStmt (SCreateDatabase "d"); SvStmt (SUse "d");
   SvStmt (SCreateTable "t" [mkColDef "a" STNumeric; mkColDef "b" (STVarchar 8); mkColDef "c" STBoolean]);
   SvStmt (SInsert "t" [] [[VInt 1; VStr "x"; VBool true]; [VNull; VNull; VNull]])].

Definition c18_stmts : list stmt :=
  [SInsert "t" [] [[VStr "x"; VInt 1; VNull]];                               (* wrong types *)
   SInsert "t" ["a"; "a"; "zz"] [[VInt 1; VInt 2; VInt 3]];                  (* duplicated / unknown columns: accepted *)
   SInsert "t" ["a"] [[VInt 1; VInt 2]];                                     (* column count *)
   SInsert "sys_pages" [] [[VStr "t"; VInt 0]];                              (* catalog table *)
   SUpdate "t" [("b", XCol (mkCol "" "a"))] None;                            (* SET from a column *)
   SUpdate "t" [("c", XLit (VInt 7))] None;                                  (* wrong type *)
   SUpdate "t" [("a", XLit (VInt 5))] (Some (EPred (XCol (mkCol "" "b")) CLt (XLit (VInt 3))));   (* ill-typed WHERE *)
   SDelete "t" (Some (EPred (XCol (mkCol "" "nosuch")) CEq (XLit VNull)));   (* unknown column *)
   SDelete "t" (Some (EOr (EVal (XLit (VInt 1))) (EVal (XLit (VStr "s")))));  (* non-boolean WHERE *)
   SDelete "sys_schema" (Some (EPred (XCol (mkCol "" "field_type")) CGt (XLit (VBool true))));
   SDelete "nosuch" None;
   SCreateTable "t" [mkColDef "z" STNumeric];                                (* exists *)
   SUse "nosuch"; SCreateDatabase ""; SCreateDatabase "D"].

Example C18_statement_nonvacuous :
  sess_hyps init_sess c18_evs = true /\
  match sess_run init_sess c18_evs with
  | (Ok s, _) =>
      forallb (stmt_bounded s) c18_stmts = true /\
      map (fun st => snd (sess_stmt s st)) c18_stmts =
        [SOErr (SEStmt ETypeMismatch); SOOk; SOErr (SEStmt EColCount); SOErr (SEStmt EOther);
         SOErr (SEStmt ETmpUnsupported); SOErr (SEStmt ETypeMismatch); SOErr (SEStmt EIncompat);
         SOErr (SEStmt EFieldNotFound); SOErr (SEStmt EIncompat); SOErr (SEStmt EIncompat);
         SOErr (SEStmt ETableNotExist); SOErr (SEStmt ETableExists);
         SOErr SEDBNotExist; SOErr (SEStmt EOther); SOErr SEDBExists]
  | _ => False
  end.
Proof. vm_compute. repeat split; reflexivity. Qed.
