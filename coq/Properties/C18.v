(* C18 - No statement can crash the engine. SELECT PART (engine/select.go).
   Statements only; proofs are `exact <lemma of Proofs/SelectC18.v>`.

   select q db   : Model/Select.v, the transliteration of engine.EvaluateSelect in which EVERY
                   Go type assertion (.(int64), .(bool), .(string), .(sql.ColumnReference),
                   .(sql.WhereClause)), every slice index and every explicit panic is a Panic
                   outcome unless the statement tree type makes it impossible
   parser_shape  : boolean; what sql.Parser guarantees: the select list is not empty, `*` occurs
                   only as the whole select list, LIMIT / OFFSET are not negative.
                   PROVED of the parser model (Model/Parser.v, tied to sql/parser.go by the C09 / C10
                   correspondence runs) for every token list: Proofs/ParserShape.v; the end-to-end
                   corollaries C18_parsed_select_no_panic / C18_pipeline_select_no_panic at the END of
                   this file discharge the hypothesis for every SELECT that Parse can return. The
                   grammar has no subqueries, so that is every SELECT the engine ever evaluates.
   db_wf         : boolean; what storage.Fetch returns: every row has one value per column and
                   every column holds values of one Go type or nil
   ALL statements of that shape (any expression depth, ill-typed comparisons, avg() over
   strings / booleans / NULL, unknown, ambiguous and duplicated columns, non-boolean join
   conditions, GROUP BY / ORDER BY on anything) over ALL such tables, NULLs included. *)
From Coq Require Import ZArith String Bool List.
From Mkdb Require Import Model.Select Spec.SelectSpec Proofs.SelectC18.
Import ListNotations.

Theorem C18_select_no_panic : forall db q,
  parser_shape q = true -> db_wf db = true -> forall what, select q db <> Panic what.
Proof. exact select_no_panic. Qed.
Print Assumptions C18_select_no_panic.

(* both hypotheses are needed: each Panic branch of the model is reachable without them *)
Open Scope string_scope.
Example C18_empty_select_list_panics :
  exists w, select (mkSelect [] [TRName "t" None] None [] [] false false 0 0) [("t", ["a"], [])] = Panic w.
Proof. eexists. vm_compute. reflexivity. Qed.

Example C18_negative_limit_panics :
  exists w, select (mkSelect [mkDC SPStar ""] [TRName "t" None] None [] [] true false (-1) 0) [("t", ["a"], [])] = Panic w.
Proof. eexists. vm_compute. reflexivity. Qed.

Example C18_mixed_column_panics :        (* a column holding an int and a string: ORDER BY *)
  exists w, select (mkSelect [mkDC SPStar ""] [TRName "t" None] None [] [mkSort (mkCol "" "a") SAsc] false false 0 0)
                   [("t", ["a"], [[VInt 1]; [VStr "x"]])] = Panic w.
Proof. eexists. vm_compute. reflexivity. Qed.

Example C18_short_row_panics :           (* a row narrower than the table *)
  exists w, select (mkSelect [mkDC (SPExpr (EVal (XCol (mkCol "" "b")))) ""] [TRName "t" None] None [] [] false false 0 0)
                   [("t", ["a"; "b"], [[VInt 1]])] = Panic w.
Proof. eexists. vm_compute. reflexivity. Qed.

(* non-vacuity: a type-confused statement over NULL-bearing rows satisfies the hypotheses
   and yields an error value, another one yields rows *)
Definition nv_db : db := [("t", ["a"; "b"], [[VInt 1; VStr "x"]; [VNull; VNull]; [VInt 2; VStr "y"]])].
Definition nv_q1 : select_stmt :=
  mkSelect [mkDC (SPAvg (mkCol "" "b")) ""; mkDC (SPCount None) ""] [TRName "t" None]
           (Some (EOr (EPred (XCol (mkCol "" "a")) CLt (XLit (VStr "s"))) (EVal (XLit (VInt 1))))) [] [] false false 0 0.
Definition nv_q2 : select_stmt :=
  mkSelect [mkDC (SPExpr (EVal (XCol (mkCol "" "a")))) "k"; mkDC (SPCount (Some (mkCol "" "b"))) ""] [TRName "t" (Some "x")]
           None [mkCol "" "k"] [mkSort (mkCol "" "k") SDesc] true true 5 0.

Example C18_nonvacuous :
  parser_shape nv_q1 = true /\ parser_shape nv_q2 = true /\ db_wf nv_db = true /\
  select nv_q1 nv_db = Err EIncompatTypeCompare /\
  select nv_q2 nv_db = Ok ([("x", "k"); ("", "count(b)")], [[VInt 2; VInt 1]; [VInt 1; VInt 1]; [VNull; VInt 0]]).
Proof. vm_compute. repeat split; reflexivity. Qed.

(* ====================================================================================================
   C18, DML / DDL / SESSION PART (engine/session.go ExecQuery, engine/{insert,update,delete,create}.go,
   storage/relation.go). Proofs: Proofs/SessionStore.v, Proofs/SessionProofs.v.

   sess_stmt s st : Model/Session.v, Session.ExecQuery on ONE statement; SOPanic is the outcome of every
                    Go panic of that path. The model's Panic sources are exactly: a catalog lookup on a
                    malformed catalog row (Store.pt_lookup / schema_rows: NULL where a value is asserted,
                    unknown type code), Expr.eval_primary indexing a row shorter than its field list, and
                    the nil relation service of a selected-but-missing database (findings F12).
   reachable s    : s is the session state after ANY event list (CREATE DATABASE / USE / SHOW DATABASES /
                    DDL / DML, timer ticks, clean and unclean restarts) satisfying C17's hypotheses
                    (Proofs/SessionProofs.v sess_hyps; see Properties/C17.v). In such a state every
                    database's cache represents a specification database (`Rep`: catalog well-formed,
                    rows decode with the right width) and the selected name, if any, exists.
   stmt_bounded   : boolean hypothesis on the statement st ITSELF, evaluated in the selected cache
                    (SessionStore.np_hyp): INSERT / UPDATE
                    literals are Go values (int64, strings < 4 GiB: the model's Z / string are unbounded);
                    CREATE TABLE / INSERT leave the file below 2^63 bytes. NOTHING is assumed for DELETE,
                    SELECT, CREATE DATABASE, USE, SHOW DATABASES, nor about table / column names, column
                    lists (unknown, duplicated, too many, too few), value types, SET from a column,
                    unevaluable or ill-typed WHERE, catalog tables as targets, or no database selected.
   SSelect: the session model answers OErr EOther for SELECT (its executor is modelled separately in
   Model/Select.v; its panic-freedom is C18_select_no_panic above), so the SELECT case here is trivial.

   For PARSER OUTPUT the literal half of stmt_bounded is proved (end of this file,
   Proofs/ParserLits.v / ParserStmtOk.v): integer literals are within int64 because Token.Val reads
   them with strconv.Atoi, string literals are token texts; what remains is `file_bounded`, the 2^63
   file-size bound of CREATE TABLE / INSERT, and "every raw token text is shorter than 4 GiB".

   C18_statement_full_statement drops stmt_bounded. Not proved: between the rows of a multi-row
   statement / the columns of a CREATE TABLE the proof carries `Rep`, whose preservation
   (RefineDML.st_insert_rep / st_update_rep, RefineFail.schema_row_step_rep) needs exactly these
   hypotheses; a weaker "catalog well-formed" invariant preserved unconditionally would remove them. *)
From Mkdb Require Import Model.Engine Model.Session Proofs.RefineRep Proofs.RefineCat Proofs.RefineMain
  Proofs.SessionStore Proofs.SessionProofs.

(* one statement on one represented store *)
Theorem C18_store_no_panic_partial : forall s d st,
  Rep s d -> np_hyp s st = true -> e_out (run_stmt s st) <> OPanic.
Proof. exact run_stmt_no_panic. Qed.
Print Assumptions C18_store_no_panic_partial.

(* any statement in any reachable session state *)
Theorem C18_statement_no_panic_partial : forall s st,
  reachable s -> stmt_bounded s st = true -> snd (sess_stmt s st) <> SOPanic.
Proof. exact statement_no_panic. Qed.
Print Assumptions C18_statement_no_panic_partial.

(* the classes that need no hypothesis on the statement at all *)
Theorem C18_statement_no_panic_unconditional : forall s st,
  reachable s ->
  match st with SCreateTable _ _ | SInsert _ _ _ | SUpdate _ _ _ => False | _ => True end ->
  snd (sess_stmt s st) <> SOPanic.
Proof.
  intros s st Hr Hc. apply statement_no_panic; [exact Hr|].
  unfold stmt_bounded. destruct st; try contradiction; try reflexivity;
    cbn [is_session_stmt orb]; destruct (cur s) as [c|]; try reflexivity; destruct (get_db c (dbs s)); reflexivity.
Qed.
Print Assumptions C18_statement_no_panic_unconditional.

Definition C18_statement_full_statement : Prop :=
  forall s st, reachable s -> snd (sess_stmt s st) <> SOPanic.

(* no database selected: every non-session statement is refused, nothing changes *)
Theorem C18_no_database_selected : forall s st,
  cur s = None -> is_session_stmt st = false -> sess_stmt s st = (s, SOErr SENoDB).
Proof. exact no_database_selected. Qed.
Print Assumptions C18_no_database_selected.

(* after a failed USE (or CREATE DATABASE) the session is exactly as before: in particular a failed
   USE with nothing selected leaves nothing selected, and the next statement gets SENoDB, not a nil
   dereference (finding F12, fixed) *)
Theorem C18_failed_use_changes_nothing : forall s name s' e,
  sess_stmt s (SUse name) = (s', SOErr e) -> s' = s.
Proof. exact use_err. Qed.
Print Assumptions C18_failed_use_changes_nothing.

(* the invariant matters: with a selected database that does not exist (the state the pre-fix code
   reached after a failed USE) the model panics *)
Example C18_selected_missing_panics :
  snd (sess_stmt (mkSess [] (Some "d")) (SDelete "t" None)) = SOPanic.
Proof. reflexivity. Qed.

(* non-vacuity: type-confused / malformed statements in a reachable state with data satisfy
   stmt_bounded and yield a result or an error value *)
Definition c18_evs : list sevent :=
  [SvStmt (SCreateDatabase "d"); SvStmt (SUse "d");
   SvStmt (SCreateTable "t" [mkColDef "a" STNumeric; mkColDef "b" (STVarchar 8); mkColDef "c" STBoolean]);
   SvStmt (SInsert "t" [] [[VInt 1; VStr "x"; VBool true]; [VNull; VNull; VNull]])].

Definition c18_stmts : list stmt :=
  [SInsert "t" [] [[VStr "x"; VInt 1; VNull]];                               (* wrong types *)
   SInsert "t" ["a"; "a"; "zz"] [[VInt 1; VInt 2; VInt 3]];                  (* duplicated / unknown columns: refused *)
   SInsert "t" ["a"] [[VInt 1; VInt 2]];                                     (* column count *)
   SInsert "sys_pages" [] [[VStr "t"; VInt 0]];                              (* catalog table *)
   SUpdate "t" [("b", XCol (mkCol "" "a"))] None;                            (* SET from a column *)
   SUpdate "t" [("c", XLit (VInt 7))] None;                                  (* wrong type *)
   SUpdate "t" [("a", XLit (VInt 5))] (Some (EPred (XCol (mkCol "" "b")) CLt (XLit (VInt 3))));   (* ill-typed WHERE *)
   SDelete "t" (Some (EPred (XCol (mkCol "" "nosuch")) CEq (XLit VNull)));   (* unknown column *)
   SDelete "t" (Some (EOr (EVal (XLit (VInt 1))) (EVal (XLit (VStr "s")))));  (* non-boolean WHERE *)
   SDelete "sys_schema" (Some (EPred (XCol (mkCol "" "field_type")) CGt (XLit (VBool true))));
   SDelete "nosuch" None;
   SCreateTable "t" [mkColDef "z" STNumeric];                                (* exists *)
   SUse "nosuch"; SCreateDatabase ""; SCreateDatabase "D"].

Example C18_statement_nonvacuous :
  sess_hyps init_sess c18_evs = true /\
  match sess_run init_sess c18_evs with
  | (Ok s, _) =>
      forallb (stmt_bounded s) c18_stmts = true /\
      map (fun st => snd (sess_stmt s st)) c18_stmts =
        [SOErr (SEStmt ETypeMismatch); SOErr (SEStmt EOther); SOErr (SEStmt EColCount); SOErr (SEStmt EOther);
         SOErr (SEStmt ETmpUnsupported); SOErr (SEStmt ETypeMismatch); SOErr (SEStmt EIncompat);
         SOErr (SEStmt EFieldNotFound); SOErr (SEStmt EIncompat); SOErr (SEStmt EIncompat);
         SOErr (SEStmt ETableNotExist); SOErr (SEStmt ETableExists);
         SOErr SEDBNotExist; SOErr (SEStmt EOther); SOErr SEDBExists]
  | _ => False
  end.
Proof. vm_compute. repeat split; reflexivity. Qed.

(* ====================================================================================================
   C18 FOR PARSER OUTPUT: the hypotheses on the statement, discharged for what sql.Parser returns.
   Proofs: Proofs/ParserShape.v (shape of SELECTs), Proofs/ParserLits.v + ParserStmtOk.v (literals).

   parse_tokens toks   : Model/Parser.v, sql.Parser.Parse on a TokenList (any type numbers, any texts)
   parse_pipeline raws : engine/session.go parseSQL from the raw scanner tokens on (C09 / C10)
   No bound on the number of tokens or the nesting of conditions. The grammar has no subqueries: SSelect
   is built in one place (Parser.select_), reached only from the top-level SELECT branch.
   Why the shape holds: SelectList recognises ASTRSK only as the first token of the list and returns
   [Asterisk] at once; every other item is a set function or an OrCondition whose leaves are literals
   and column references (`SELECT a, *` and `SELECT *, a` are ErrUnexpectedToken:
   ParserShape.star_mixed_rejected); the item loop is do-while; LimitOffsetClause ends with the
   ErrNegativeLimit / ErrNegativeOffset checks (the scanner makes no signed INT token, but a TokenList
   with INT text "-1" is read by Atoi and rejected there: ParserShape.negative_limit_rejected). *)
From Mkdb Require Import Model.Lexer Model.Parser Proofs.ParserShape Proofs.ParserLits Proofs.ParserStmtOk.

Theorem C18_parser_guarantees_shape : forall toks q,
  parse_tokens toks = POk (SSelect q) -> parser_shape q = true.
Proof. exact parse_select_shape. Qed.
Print Assumptions C18_parser_guarantees_shape.

Theorem C18_pipeline_guarantees_shape : forall raws q,
  parse_pipeline raws = POk (SSelect q) -> parser_shape q = true.
Proof. exact pipeline_select_shape. Qed.
Print Assumptions C18_pipeline_guarantees_shape.

(* any fuel, classified tokens: the statement the other entry points reduce to *)
Theorem C18_parse_f_guarantees_shape : forall fuel toks q,
  parse_f fuel toks = POk (SSelect q) -> parser_shape q = true.
Proof. exact parse_f_select_shape. Qed.
Print Assumptions C18_parse_f_guarantees_shape.

(* end to end: no SELECT that the parser returns can crash the executor on well-formed tables *)
Theorem C18_parsed_select_no_panic : forall toks q db,
  parse_tokens toks = POk (SSelect q) -> SelectSpec.db_wf db = true ->
  forall what, Select.select q db <> Select.Panic what.
Proof. intros toks q db E. exact (C18_select_no_panic db q (parse_select_shape toks q E)). Qed.
Print Assumptions C18_parsed_select_no_panic.

Theorem C18_pipeline_select_no_panic : forall raws q db,
  parse_pipeline raws = POk (SSelect q) -> SelectSpec.db_wf db = true ->
  forall what, Select.select q db <> Select.Panic what.
Proof. intros raws q db E. exact (C18_select_no_panic db q (pipeline_select_shape raws q E)). Qed.
Print Assumptions C18_pipeline_select_no_panic.

(* literals of parsed statements are Go values: integers unconditionally ... *)
Theorem C18_parsed_int_literals_int64 : forall raws st,
  parse_pipeline raws = POk st -> stmt_ints_ok st = true.
Proof. exact pipeline_int_literals_ok. Qed.
Print Assumptions C18_parsed_int_literals_int64.

(* ... and strings when no raw token text reaches 4 GiB: the `stmt_ok` of the store theorems *)
Theorem C18_parsed_literals_ok : forall raws st,
  raws_short raws = true -> parse_pipeline raws = POk st -> stmt_ok st = true.
Proof. exact pipeline_literals_ok. Qed.
Print Assumptions C18_parsed_literals_ok.

Theorem C18_parsed_tokens_literals_ok : forall toks st,
  tokens_short toks = true -> parse_tokens toks = POk st -> stmt_ok st = true.
Proof. exact parse_literals_ok. Qed.
Print Assumptions C18_parsed_tokens_literals_ok.

(* any parsed statement in any reachable session state: only the file-size bound is left *)
Theorem C18_parsed_statement_no_panic_partial : forall raws s st,
  reachable s -> raws_short raws = true -> parse_pipeline raws = POk st ->
  file_bounded s st = true -> snd (sess_stmt s st) <> SOPanic.
Proof. exact parsed_statement_no_panic. Qed.
Print Assumptions C18_parsed_statement_no_panic_partial.

(* non-vacuity: raw tokens of
     select u.a, o.b from t u left join s o on u.a = o.a where u.a >= 1 order by u.a desc limit 2 offset 1 ;
   parse to a SELECT with a join, LIMIT and OFFSET, which runs on a NULL-bearing database *)
Definition c18_raws : list rawtok :=
  let I s := mkRaw RIdent s false in let O s := mkRaw ROther s false in let N s := mkRaw RInt s false in
  [I "select"; I "u"; O "."; I "a"; O ","; I "o"; O "."; I "b"; I "from"; I "t"; I "u";
   I "left"; I "join"; I "s"; I "o"; I "on"; I "u"; O "."; I "a"; O "="; I "o"; O "."; I "a";
   I "where"; I "u"; O "."; I "a"; mkRaw ROther ">" true; O "="; N "1";
   I "order"; I "by"; I "u"; O "."; I "a"; I "desc"; I "limit"; N "2"; I "offset"; N "1"; O ";"].

Definition c18_parsed : select_stmt :=
  mkSelect [mkDC (SPExpr (EVal (XCol (mkCol "u" "a")))) ""; mkDC (SPExpr (EVal (XCol (mkCol "o" "b")))) ""]
           [TRJoin (TRName "t" (Some "u")) JLeft (TRName "s" (Some "o"))
                   (EPred (XCol (mkCol "u" "a")) CEq (XCol (mkCol "o" "a")))]
           (Some (EPred (XCol (mkCol "u" "a")) CGte (XLit (VInt 1)))) []
           [mkSort (mkCol "u" "a") SDesc] true true 2 1.

Definition c18_db : Select.db :=
  [("t", ["a"; "x"], [[VInt 1; VStr "p"]; [VInt 2; VStr "q"]; [VInt 3; VNull]; [VInt 4; VStr "r"]]);
   ("s", ["a"; "b"], [[VInt 1; VStr "one"]; [VInt 3; VStr "three"]; [VInt 3; VNull]])].

Example C18_parsed_nonvacuous :
  parse_pipeline c18_raws = POk (SSelect c18_parsed) /\
  parse_tokens (wrap c18_raws) = POk (SSelect c18_parsed) /\
  raws_short c18_raws = true /\ SelectSpec.db_wf c18_db = true /\
  Select.select c18_parsed c18_db = Select.Ok ([("u", "a"); ("o", "b")], [[VInt 3; VStr "three"]; [VInt 3; VNull]]).
Proof. vm_compute. repeat split; reflexivity. Qed.

(* an INSERT / UPDATE with literals: within the hypotheses, and 2^63 is not a literal the parser returns *)
Example C18_parsed_literals_nonvacuous :
  let I s := mkRaw RIdent s false in let O s := mkRaw ROther s false in let N s := mkRaw RInt s false in
  parse_pipeline [I "insert"; I "into"; I "t"; I "values"; O "("; N "9223372036854775807"; O ",";
                  mkRaw RString "'x'" false; O ","; I "true"; O ")"]
    = POk (SInsert "t" [] [[VInt 9223372036854775807; VStr "x"; VBool true]]) /\
  parse_pipeline [I "insert"; I "into"; I "t"; I "values"; O "("; N "9223372036854775808"; O ")"] = PErr EAtoi /\
  parse_pipeline [I "update"; I "t"; I "set"; I "a"; O "="; N "007"; I "where"; I "b"; O "="; mkRaw RString "'y'" false]
    = POk (SUpdate "t" [("a", XLit (VInt 7))] (Some (EPred (XCol (mkCol "" "b")) CEq (XLit (VStr "y"))))).
Proof. vm_compute. repeat split; reflexivity. Qed.

(* ====================================================================================================
   ORACLE vs. THEOREM, SELECT PART (Proofs/SelectOracle.v). The correspondence run judges what Go did
   with sm_c18 (Spec/SelectObs.v): Go returned rows or an error value, not a panic and not a timeout.
   hyp_c18 = parser_shape q && db_wf d, the hypotheses of C18_select_no_panic, is evaluated on every case.
   Under it, agreement of the model with Go (mm_select) implies that the oracle accepts what Go did. *)
From Mkdb Require Import Spec.SelectObs Proofs.SelectOracle.

Theorem C18_select_agreement_implies_acceptance : forall c,
  hyp_c18 c = true -> mm_select c = true -> sm_c18 c = true.
Proof. exact c18_agreement_implies_acceptance. Qed.
Print Assumptions C18_select_agreement_implies_acceptance.

(* non-vacuity: the type-confused statement nv_q1 (Go: an error value) and nv_q2 (Go: rows) *)
Example C18_select_agreement_nonvacuous :
  let c1 := (nv_db, nv_q1, GErr Select.EIncompatTypeCompare) in
  let c2 := (nv_db, nv_q2, GOk [("x", "k"); ("", "count(b)")] [[VInt 2; VInt 1]; [VInt 1; VInt 1]; [VNull; VInt 0]]) in
  hyp_c18 c1 = true /\ mm_select c1 = true /\ sm_c18 c1 = true /\
  hyp_c18 c2 = true /\ mm_select c2 = true /\ sm_c18 c2 = true.
Proof. vm_compute. repeat split; reflexivity. Qed.

(* the hypothesis is needed: outside it the model itself panics (C18_mixed_column_panics above), Go
   agreeing with the model is then a panic, which the oracle rejects *)
Example C18_select_agreement_needs_hyp :
  let c := ([("t", ["a"], [[VInt 1]; [VStr "x"]])],
            mkSelect [mkDC SPStar ""] [TRName "t" None] None [] [mkSort (mkCol "" "a") SAsc] false false 0 0, GPanic) in
  hyp_c18 c = false /\ mm_select c = true /\ sm_c18 c = false.
Proof. vm_compute. repeat split; reflexivity. Qed.
