(* C16 - Query results do not depend on the page-cache size.

   Model: Model/PStore.v - fileStore.fetch / append / flushPages over the LRU of C15, with pages
   changed through the node objects callers hold (a change made through an object that has been
   evicted is lost: that is the hazard a small cache introduces). Reference: Spec/PStoreSpec.v, a
   plain map (= unbounded cache).

   PROVED (for every capacity, every operation list, every order in which a flush visits the dirty
   pages): if the run respects the discipline `ok_run` - no fetch/allocation refused (C15: only
   when the cache is full of dirty pages, i.e. the dirty set does not fit: excluded by the
   property's hypothesis), every modification goes through the object currently cached for that
   page, a freshly allocated page is modified (marked dirty) before it is evicted - then every page
   reads exactly as with an unbounded cache; evicted pages are always clean and equal to their file
   image (invariant pi_clean).
   PROVED UNCONDITIONALLY (Proofs/PStoreReads.v, theorems at the end of this file; no `ok_run`
   hypothesis on the continuation): for EVERY capacity >= 1, after a run within the discipline that
   leaves no allocated-but-unmodified page, and a flush (any visiting order) - which leaves no dirty
   entry -, every list of fetches is within the discipline and each of them returns the content of
   the unbounded reference: reads after a flush never depend on the cache size
   (C16_reads_after_flush_any_capacity). So is one fetch-and-modify through the object just fetched
   (C16_fetch_modify_in_discipline, C16_write_after_flush_any_capacity), and more generally any
   caller script of reads and FEWER THAN `cap` page updates (fetch, then modify the object fetched):
   a fetch is accepted while fewer than `cap` entries are dirty and an update dirties at most one
   more entry (C16_updates_after_flush_in_discipline, stated on the check's own scope function
   `in_discipline`). The bound is sharp: `cap` updates and then a read of another page is refused
   (C16_update_bound_sharp).
   PARTIAL (checked only): that the fetch/modify traces of the write statements of btree.go /
   relation.go - which hold several objects at once across further fetches, allocate pages and
   modify more pages than the scripts above - respect the discipline once the capacity exceeds a few
   times the tree height is NOT proved (it needs the trace of fetches each operation issues); it is
   validated on every run by executing the same histories with caches of 6..64 pages against the
   default 10000 and against the cache-less model (tools/props/c16.py), and the page-store model
   itself is compared with the real fileStore on random traces. *)
From Coq Require Import List NArith.
From Mkdb Require Import Model.PStore Spec.PStoreSpec Proofs.PStoreProofs.
Import ListNotations.
Open Scope N_scope.

Theorem C16_cache_invisible : forall cap ops k,
  ok_run (ps_init cap) [] ops = true ->
  ps_view (fst (ps_run (ps_init cap) ops)) k = ref_get k (ref_run [] ops).
Proof. exact cache_invisible. Qed.
Print Assumptions C16_cache_invisible.

Theorem C16_fetch_sees_reference : forall cap ops k,
  ok_run (ps_init cap) [] (ops ++ [PFetch k]) = true ->
  match snd (ps_step (fst (ps_run (ps_init cap) ops)) (PFetch k)) with
  | PObj _ c => c = ref_get k (ref_run [] ops)
  | _ => False
  end.
Proof. exact fetch_sees_reference. Qed.
Print Assumptions C16_fetch_sees_reference.

(* two capacities, same operations, both within the discipline: identical contents *)
Theorem C16_capacity_independent : forall cap1 cap2 ops k,
  ok_run (ps_init cap1) [] ops = true -> ok_run (ps_init cap2) [] ops = true ->
  ps_view (fst (ps_run (ps_init cap1) ops)) k = ps_view (fst (ps_run (ps_init cap2) ops)) k.
Proof.
  intros cap1 cap2 ops k H1 H2. rewrite (cache_invisible cap1 ops k H1), (cache_invisible cap2 ops k H2). reflexivity.
Qed.
Print Assumptions C16_capacity_independent.

(* non-vacuity: a 3-page cache, 4 pages, evictions and re-reads, within the discipline *)
Definition ex_ops : list pop :=
  [PAlloc 1 10; PModify 1 1 11; PAlloc 2 20; PModify 2 2 21; PFlush [1; 2];
   PAlloc 3 30; PModify 3 3 31; PAlloc 4 40; PModify 4 4 41; PFlush [];
   PFetch 1; PModify 1 5 12; PFetch 2; PFetch 3].
Example C16_nonvacuous :
  ok_run (ps_init 3) [] ex_ops = true /\
  ps_view (fst (ps_run (ps_init 3) ex_ops)) 1 = 12 /\
  length (entries (ps_cache (fst (ps_run (ps_init 3) ex_ops)))) = 3%nat.
Proof. vm_compute. repeat split; reflexivity. Qed.

(* and the hazard is real: outside the discipline a change made through a stale object is lost *)
Example C16_stale_pointer_loses_update :
  let ops := [PAlloc 1 10; PModify 1 1 11; PFlush []; PAlloc 2 20; PModify 2 2 21; PFlush [];
              PAlloc 3 30; PModify 3 3 31; PFlush []; PModify 1 1 99] in
  ok_run (ps_init 2) [] ops = false /\
  ps_view (fst (ps_run (ps_init 2) ops)) 1 = 11 /\ ref_get 1 (ref_run [] ops) = 99.
Proof. vm_compute. repeat split; reflexivity. Qed.

(* ====================== the page-store oracle of the check and the theorems ======================
   The page-store sub-check of tools/props/c16.py runs the real fileStore on caller-level operation
   lists (Spec/PStoreSpec.v `hop`: the caller modifies the object it got from its latest fetch /
   allocation of that page) and evaluates, per case (capacity, operations, observed outputs), the
   functions of Spec/PStoreObs.v: `ps_model_agrees` (PM: within the discipline `ok_run`, the real
   outputs equal the model's up to object identities) and `ps_spec` (PS: within the discipline,
   every fetch was answered with an object holding what the cache-less reference map holds - a
   refusal is a violation -, every allocation with an object holding the content given, every
   modification and flush with nothing; a modification of a page the caller holds no object for
   changes nothing, in the reference as in the model and in the Go driver).
   PROVED (Proofs/PStoreOracle.v, through the invariant PInv of the theorems above): the oracle
   accepts the model's own outputs, hence PM-agreement implies PS-acceptance, for every capacity,
   every operation list and every observation list. No hypothesis on the case. *)
From Mkdb Require Import Spec.PStoreObs Proofs.PStoreOracle.

Theorem C16_oracle_accepts_model : forall cap ops,
  ps_spec (cap, ops, snd (hrun (ps_init cap) [] ops)) = true.
Proof. exact oracle_accepts_model. Qed.
Print Assumptions C16_oracle_accepts_model.

Theorem C16_agreement_implies_acceptance : forall c : pcase,
  ps_model_agrees c = true -> ps_spec c = true.
Proof. exact agreement_implies_acceptance. Qed.
Print Assumptions C16_agreement_implies_acceptance.

(* a modification of a page that was never fetched or allocated, then a fetch of it: within the
   discipline; the model reads the all-zero page and the oracle accepts that (an earlier version of
   the oracle applied the modification to its reference and rejected the model here); an
   observation in which the modification took effect is rejected *)
Example C16_unheld_modify_skipped :
  let ops := [HModify 1 5; HFetch 1] in
  let c := (3%nat, ops, snd (hrun (ps_init 3) [] ops)) in
  in_discipline c = true /\ snd (hrun (ps_init 3) [] ops) = [PUnit; PObj 1 0] /\
  ps_model_agrees c = true /\ ps_spec c = true /\
  ps_spec (3%nat, ops, [PUnit; PObj 1 5]) = false.
Proof. vm_compute. repeat split; reflexivity. Qed.

(* non-vacuity: the run of C16_nonvacuous at the caller level (3-page cache, 4 pages, evictions and
   re-reads), observed with other object identities than the model's: within the discipline, the
   model agrees and the oracle accepts (not through the out-of-discipline escape); and the oracle
   has teeth: the same observation with one fetched content changed is rejected by both *)
Definition ex_hops : list hop :=
  [HAlloc 1 10; HModify 1 11; HAlloc 2 20; HModify 2 21; HFlush [1; 2];
   HAlloc 3 30; HModify 3 31; HAlloc 4 40; HModify 4 41; HFlush [];
   HFetch 1; HModify 1 12; HFetch 2; HFetch 3; HFetch 1].
Definition ex_obs (c2 : N) : list pout :=
  [PObj 7 10; PUnit; PObj 8 20; PUnit; PUnit; PObj 9 30; PUnit; PObj 10 40; PUnit; PUnit;
   PObj 11 11; PUnit; PObj 12 c2; PObj 13 31; PObj 14 12].
Example C16_agreement_nonvacuous :
  fst (hrun (ps_init 3) [] ex_hops) = ex_ops ++ [PFetch 1] /\
  in_discipline (3%nat, ex_hops, ex_obs 21) = true /\
  ps_model_agrees (3%nat, ex_hops, ex_obs 21) = true /\ ps_spec (3%nat, ex_hops, ex_obs 21) = true /\
  href_ok [] [] ex_hops (ex_obs 21) = true /\
  ps_model_agrees (3%nat, ex_hops, ex_obs 20) = false /\ ps_spec (3%nat, ex_hops, ex_obs 20) = false.
Proof. vm_compute. repeat split; reflexivity. Qed.

(* within the discipline a refused fetch, a fetch answered with nothing, a refused allocation, an
   allocation holding another content and a modification answered with an object are all rejected
   (an earlier version of the oracle judged the content of answered fetches only) *)
Definition ex_obs_with (i : nat) (o : pout) : list pout := firstn i (ex_obs 21) ++ o :: skipn (S i) (ex_obs 21).
Example C16_wrong_kinds_now_rejected :
  ps_spec (3%nat, ex_hops, ex_obs_with 10 (PObj 11 11)) = true /\
  map (fun io => ps_spec (3%nat, ex_hops, ex_obs_with (fst io) (snd io)))
      [(10%nat, PRefused); (12%nat, PUnit); (5%nat, PRefused); (7%nat, PObj 10 41); (1%nat, PObj 1 11);
       (4%nat, PRefused)] = [false; false; false; false; false; false] /\
  map (fun io => ps_model_agrees (3%nat, ex_hops, ex_obs_with (fst io) (snd io)))
      [(10%nat, PRefused); (12%nat, PUnit); (5%nat, PRefused); (7%nat, PObj 10 41); (1%nat, PObj 1 11);
       (4%nat, PRefused)] = [false; false; false; false; false; false].
Proof. vm_compute. repeat split; reflexivity. Qed.

(* ====================== unconditional criteria for the discipline ======================
   Proofs/PStoreReads.v. None of the theorems below has an `ok_run` hypothesis on the continuation
   (the part after the flush): the discipline is PROVED for it. *)
From Mkdb Require Import Proofs.LruProofs Proofs.PStoreReads.

(* reads after a flush, at every capacity >= 1: within the discipline; the cache shows the reference
   map; the reference is the one before the flush; each fetch returns the reference content *)
Theorem C16_reads_after_flush_any_capacity : forall cap ops order fs,
  (1 <= cap)%nat ->
  ok_run (ps_init cap) [] ops = true -> pend_of ops = [] -> all_fetches fs = true ->
  ok_run (ps_init cap) [] (ops ++ PFlush order :: fs) = true /\
  (forall k, ps_view (fst (ps_run (ps_init cap) (ops ++ PFlush order :: fs))) k =
             ref_get k (ref_run [] (ops ++ PFlush order :: fs))) /\
  (forall k, ref_get k (ref_run [] (ops ++ PFlush order :: fs)) = ref_get k (ref_run [] ops)) /\
  (forall fs1 k fs2, fs = fs1 ++ PFetch k :: fs2 ->
     match snd (ps_step (fst (ps_run (ps_init cap) (ops ++ PFlush order :: fs1))) (PFetch k)) with
     | PObj _ c => c = ref_get k (ref_run [] ops)
     | _ => False
     end).
Proof.
  intros cap ops order fs Hcap Hok Hpend Hfs.
  split; [apply reads_after_flush_in_discipline | apply reads_after_flush_see_reference]; assumption.
Qed.
Print Assumptions C16_reads_after_flush_any_capacity.

(* from any state with no dirty entry (LRU invariant: distinct keys, at most cap entries - it holds
   in every state of every run, PStoreReads.ps_run_Inv): every list of fetches *)
Theorem C16_reads_in_discipline : forall fs s,
  Inv (ps_cache s) -> (1 <= Lru.cap (ps_cache s))%nat -> no_dirty s = true -> all_fetches fs = true ->
  ok_run s [] fs = true.
Proof. exact reads_in_discipline. Qed.
Print Assumptions C16_reads_in_discipline.

(* a flush leaves no dirty entry, whatever the order in which it visits the pages *)
Theorem C16_flush_leaves_no_dirty : forall cap ops order,
  no_dirty (fst (ps_step (fst (ps_run (ps_init cap) ops)) (PFlush order))) = true.
Proof. intros cap ops order. apply (flushed_state cap ops order). Qed.
Print Assumptions C16_flush_leaves_no_dirty.

(* one fetch-and-modify through the object the fetch returned *)
Theorem C16_fetch_modify_in_discipline : forall s k o c0 c,
  Inv (ps_cache s) -> (1 <= Lru.cap (ps_cache s))%nat -> no_dirty s = true ->
  snd (ps_step s (PFetch k)) = PObj o c0 ->
  ok_run s [] [PFetch k; PModify k o c] = true.
Proof. exact fetch_modify_in_discipline. Qed.
Print Assumptions C16_fetch_modify_in_discipline.

(* the same over reachable states, after any reads: within the discipline at every capacity >= 1;
   the fetch returned the reference content and the page then reads as the content written *)
Theorem C16_write_after_flush_any_capacity : forall cap ops order fs k o c0 c,
  (1 <= cap)%nat ->
  ok_run (ps_init cap) [] ops = true -> pend_of ops = [] -> all_fetches fs = true ->
  snd (ps_step (fst (ps_run (ps_init cap) (ops ++ PFlush order :: fs))) (PFetch k)) = PObj o c0 ->
  let all := (ops ++ PFlush order :: fs) ++ [PFetch k; PModify k o c] in
  ok_run (ps_init cap) [] all = true /\
  c0 = ref_get k (ref_run [] ops) /\
  ps_view (fst (ps_run (ps_init cap) all)) k = c.
Proof. exact write_after_flush_in_discipline. Qed.
Print Assumptions C16_write_after_flush_any_capacity.

(* caller level, on the scope function of the page-store check: a case within the discipline with no
   pending page, extended by a flush and a script of reads and fewer than `cap` page updates, is
   within the discipline (whatever was observed), and the cache shows the reference map *)
Theorem C16_updates_after_flush_in_discipline : forall cap hops order sc obs obs',
  in_discipline (cap, hops, obs) = true ->
  pend_of (fst (hrun (ps_init cap) [] hops)) = [] -> (nwrites sc < cap)%nat ->
  let hops' := hops ++ HFlush order :: script_hops sc in
  in_discipline (cap, hops', obs') = true /\
  forall k, ps_view (fst (ps_run (ps_init cap) (fst (hrun (ps_init cap) [] hops')))) k =
            ref_get k (ref_run [] (fst (hrun (ps_init cap) [] hops'))).
Proof.
  intros cap hops order sc obs obs' Hin Hpend Hn.
  exact (caller_updates_after_flush_in_discipline cap hops order sc Hin Hpend Hn).
Qed.
Print Assumptions C16_updates_after_flush_in_discipline.

(* non-vacuity, capacity 1: three pages written and flushed one after the other, a flush, then six
   fetches of three distinct pages - five of them misses that evict the only resident page (fresh
   object identities 4..8; the repeated fetch of page 1 is a hit): the hypotheses hold, the run is
   within the discipline and the fetches return 11, 21, 31, 11, 11, 21 *)
Definition ex_w_ops : list pop :=
  [PAlloc 1 10; PModify 1 1 11; PFlush []; PAlloc 2 20; PModify 2 2 21; PFlush [];
   PAlloc 3 30; PModify 3 3 31].
Definition ex_r_ops : list pop := [PFetch 1; PFetch 2; PFetch 3; PFetch 1; PFetch 1; PFetch 2].
Example C16_reads_after_flush_nonvacuous :
  ok_run (ps_init 1) [] ex_w_ops = true /\ pend_of ex_w_ops = [] /\ all_fetches ex_r_ops = true /\
  ok_run (ps_init 1) [] (ex_w_ops ++ PFlush [] :: ex_r_ops) = true /\
  skipn 9 (snd (ps_run (ps_init 1) (ex_w_ops ++ PFlush [] :: ex_r_ops))) =
    [PObj 4 11; PObj 5 21; PObj 6 31; PObj 7 11; PObj 7 11; PObj 8 21] /\
  Lru.resident (ps_cache (fst (ps_run (ps_init 1) (ex_w_ops ++ PFlush [] :: ex_r_ops)))) =
    [(2, 8, false)].
Proof. vm_compute. repeat split; reflexivity. Qed.

(* capacity 2, caller level: after the flush a script with one update (1 < 2) among reads of three
   distinct pages, with evictions; the updated page is dirty, hence never the victim, and is read
   back as 22 through a hit *)
Definition ex_w_hops : list hop :=
  [HAlloc 1 10; HModify 1 11; HFlush []; HAlloc 2 20; HModify 2 21; HFlush []; HAlloc 3 30; HModify 3 31].
Definition ex_script : list uop := [URead 1; UWrite 2 22; URead 3; URead 1; URead 2].
Example C16_updates_after_flush_nonvacuous :
  in_discipline (2%nat, ex_w_hops, []) = true /\ pend_of (fst (hrun (ps_init 2) [] ex_w_hops)) = [] /\
  nwrites ex_script = 1%nat /\
  in_discipline (2%nat, ex_w_hops ++ HFlush [] :: script_hops ex_script, []) = true /\
  skipn 9 (snd (hrun (ps_init 2) [] (ex_w_hops ++ HFlush [] :: script_hops ex_script))) =
    [PObj 4 11; PObj 5 21; PUnit; PObj 6 31; PObj 7 11; PObj 5 22].
Proof. vm_compute. repeat split; reflexivity. Qed.

(* the bound `nwrites sc < cap` is sharp: with `cap` updates after the flush the cache is full of
   dirty pages and the read of another page is refused (capacity 1: one update; capacity 2: two) *)
Example C16_update_bound_sharp :
  in_discipline (1%nat, ex_w_hops ++ HFlush [] :: script_hops [UWrite 2 22; URead 3], []) = false /\
  last (snd (hrun (ps_init 1) [] (ex_w_hops ++ HFlush [] :: script_hops [UWrite 2 22; URead 3]))) PUnit = PRefused /\
  in_discipline (2%nat, ex_w_hops ++ HFlush [] :: script_hops [UWrite 2 22; UWrite 3 32; URead 1], []) = false /\
  last (snd (hrun (ps_init 2) [] (ex_w_hops ++ HFlush [] :: script_hops [UWrite 2 22; UWrite 3 32; URead 1]))) PUnit = PRefused.
Proof. vm_compute. repeat split; reflexivity. Qed.
