(* C16 - Query results do not depend on the page-cache size.

   Model: Model/PStore.v - fileStore.fetch / append / flushPages over the LRU of C15, with pages
   changed through the node objects callers hold (a change made through an object that has been
   evicted is lost: that is the hazard a small cache introduces). Reference: Spec/PStoreSpec.v, a
   plain map (= unbounded cache).

   PROVED (for every capacity, every operation list, every order in which a flush visits the dirty
   pages): if the run respects the discipline `ok_run` - no fetch/allocation refused (C15: only
   when the cache is full of dirty pages, i.e. the dirty set does not fit: excluded by the
   property's hypothesis), every modification goes through the object currently cached for that
   page, a freshly allocated page is modified (marked dirty) before it is evicted - then every page
   reads exactly as with an unbounded cache; evicted pages are always clean and equal to their file
   image (invariant pi_clean).
   PARTIAL: that every B+ tree operation of btree.go / relation.go respects the discipline once the
   capacity exceeds a few times the tree height is NOT proved (it needs the trace of fetches each
   operation issues); it is validated on every run by executing the same histories with caches of
   6..64 pages against the default 10000 and against the cache-less model (tools/props/c16.py), and
   the page-store model itself is compared with the real fileStore on random traces. *)
From Coq Require Import List NArith.
From Mkdb Require Import Model.PStore Spec.PStoreSpec Proofs.PStoreProofs.
Import ListNotations.
Open Scope N_scope.

Theorem C16_cache_invisible : forall cap ops k,
  ok_run (ps_init cap) [] ops = true ->
  ps_view (fst (ps_run (ps_init cap) ops)) k = ref_get k (ref_run [] ops).
Proof. exact cache_invisible. Qed.
Print Assumptions C16_cache_invisible.

Theorem C16_fetch_sees_reference : forall cap ops k,
  ok_run (ps_init cap) [] (ops ++ [PFetch k]) = true ->
  match snd (ps_step (fst (ps_run (ps_init cap) ops)) (PFetch k)) with
  | PObj _ c => c = ref_get k (ref_run [] ops)
  | _ => False
  end.
Proof. exact fetch_sees_reference. Qed.
Print Assumptions C16_fetch_sees_reference.

(* two capacities, same operations, both within the discipline: identical contents *)
Theorem C16_capacity_independent : forall cap1 cap2 ops k,
  ok_run (ps_init cap1) [] ops = true -> ok_run (ps_init cap2) [] ops = true ->
  ps_view (fst (ps_run (ps_init cap1) ops)) k = ps_view (fst (ps_run (ps_init cap2) ops)) k.
Proof.
  intros cap1 cap2 ops k H1 H2. rewrite (cache_invisible cap1 ops k H1), (cache_invisible cap2 ops k H2). reflexivity.
Qed.
Print Assumptions C16_capacity_independent.

(* non-vacuity: a 3-page cache, 4 pages, evictions and re-reads, within the discipline *)
Definition ex_ops : list pop :=
  [PAlloc 1 10; PModify 1 1 11; PAlloc 2 20; PModify 2 2 21; PFlush [1; 2];
   PAlloc 3 30; PModify 3 3 31; PAlloc 4 40; PModify 4 4 41; PFlush [];
   PFetch 1; PModify 1 5 12; PFetch 2; PFetch 3].
Example C16_nonvacuous :
  ok_run (ps_init 3) [] ex_ops = true /\
  ps_view (fst (ps_run (ps_init 3) ex_ops)) 1 = 12 /\
  length (entries (ps_cache (fst (ps_run (ps_init 3) ex_ops)))) = 3%nat.
Proof. vm_compute. repeat split; reflexivity. Qed.

(* and the hazard is real: outside the discipline a change made through a stale object is lost *)
Example C16_stale_pointer_loses_update :
  let ops := [PAlloc 1 10; PModify 1 1 11; PFlush []; PAlloc 2 20; PModify 2 2 21; PFlush [];
              PAlloc 3 30; PModify 3 3 31; PFlush []; PModify 1 1 99] in
  ok_run (ps_init 2) [] ops = false /\
  ps_view (fst (ps_run (ps_init 2) ops)) 1 = 11 /\ ref_get 1 (ref_run [] ops) = 99.
Proof. vm_compute. repeat split; reflexivity. Qed.
