(* C16 - Query results do not depend on the page-cache size.

   Model: Model/PStore.v - fileStore.fetch / append / flushPages over the LRU of C15, with pages
   changed through the node objects callers hold (a change made through an object that has been
   evicted is lost: that is the hazard a small cache introduces). Reference: Spec/PStoreSpec.v, a
   plain map (= unbounded cache).

   PROVED (for every capacity, every operation list, every order in which a flush visits the dirty
   pages): if the run respects the discipline `ok_run` - no fetch/allocation refused (C15: only
   when the cache is full of dirty pages, i.e. the dirty set does not fit: excluded by the
   property's hypothesis), every modification goes through the object currently cached for that
   page, a freshly allocated page is modified (marked dirty) before it is evicted - then every page
   reads exactly as with an unbounded cache; evicted pages are always clean and equal to their file
   image (invariant pi_clean).
   PARTIAL: that every B+ tree operation of btree.go / relation.go respects the discipline once the
   capacity exceeds a few times the tree height is NOT proved (it needs the trace of fetches each
   operation issues); it is validated on every run by executing the same histories with caches of
   6..64 pages against the default 10000 and against the cache-less model (tools/props/c16.py), and
   the page-store model itself is compared with the real fileStore on random traces. *)
From Coq Require Import List NArith.
From Mkdb Require Import Model.PStore Spec.PStoreSpec Proofs.PStoreProofs.
Import ListNotations.
Open Scope N_scope.

Theorem C16_cache_invisible : forall cap ops k,
  ok_run (ps_init cap) [] ops = true ->
  ps_view (fst (ps_run (ps_init cap) ops)) k = ref_get k (ref_run [] ops).
Proof. exact cache_invisible. Qed.
Print Assumptions C16_cache_invisible.

Theorem C16_fetch_sees_reference : forall cap ops k,
  ok_run (ps_init cap) [] (ops ++ [PFetch k]) = true ->
  match snd (ps_step (fst (ps_run (ps_init cap) ops)) (PFetch k)) with
  | PObj _ c => c = ref_get k (ref_run [] ops)
  | _ => False
  end.
Proof. exact fetch_sees_reference. Qed.
Print Assumptions C16_fetch_sees_reference.

(* two capacities, same operations, both within the discipline: identical contents *)
Theorem C16_capacity_independent : forall cap1 cap2 ops k,
  ok_run (ps_init cap1) [] ops = true -> ok_run (ps_init cap2) [] ops = true ->
  ps_view (fst (ps_run (ps_init cap1) ops)) k = ps_view (fst (ps_run (ps_init cap2) ops)) k.
Proof.
  intros cap1 cap2 ops k H1 H2. rewrite (cache_invisible cap1 ops k H1), (cache_invisible cap2 ops k H2). reflexivity.
Qed.
Print Assumptions C16_capacity_independent.

(* non-vacuity: a 3-page cache, 4 pages, evictions and re-reads, within the discipline *)
Definition ex_ops : list pop :=
  [PAlloc 1 10; PModify 1 1 11; PAlloc 2 20; PModify 2 2 21; PFlush [1; 2];
   PAlloc 3 30; PModify 3 3 31; PAlloc 4 40; PModify 4 4 41; PFlush [];
   PFetch 1; PModify 1 5 12; PFetch 2; PFetch 3].
Example C16_nonvacuous :
  ok_run (ps_init 3) [] ex_ops = true /\
  ps_view (fst (ps_run (ps_init 3) ex_ops)) 1 = 12 /\
  length (entries (ps_cache (fst (ps_run (ps_init 3) ex_ops)))) = 3%nat.
Proof. vm_compute. repeat split; reflexivity. Qed.

(* and the hazard is real: outside the discipline a change made through a stale object is lost *)
Example C16_stale_pointer_loses_update :
  let ops := [PAlloc 1 10; PModify 1 1 11; PFlush []; PAlloc 2 20; PModify 2 2 21; PFlush [];
              PAlloc 3 30; PModify 3 3 31; PFlush []; PModify 1 1 99] in
  ok_run (ps_init 2) [] ops = false /\
  ps_view (fst (ps_run (ps_init 2) ops)) 1 = 11 /\ ref_get 1 (ref_run [] ops) = 99.
Proof. vm_compute. repeat split; reflexivity. Qed.

(* ====================== the page-store oracle of the check and the theorems ======================
   The page-store sub-check of tools/props/c16.py runs the real fileStore on caller-level operation
   lists (Spec/PStoreSpec.v `hop`: the caller modifies the object it got from its latest fetch /
   allocation of that page) and evaluates, per case (capacity, operations, observed outputs), the
   functions of Spec/PStoreObs.v: `ps_model_agrees` (PM: within the discipline `ok_run`, the real
   outputs equal the model's up to object identities) and `ps_spec` (PS: within the discipline,
   every fetch was answered with an object holding what the cache-less reference map holds - a
   refusal is a violation -, every allocation with an object holding the content given, every
   modification and flush with nothing; a modification of a page the caller holds no object for
   changes nothing, in the reference as in the model and in the Go driver).
   PROVED (Proofs/PStoreOracle.v, through the invariant PInv of the theorems above): the oracle
   accepts the model's own outputs, hence PM-agreement implies PS-acceptance, for every capacity,
   every operation list and every observation list. No hypothesis on the case. *)
From Mkdb Require Import Spec.PStoreObs Proofs.PStoreOracle.

Theorem C16_oracle_accepts_model : forall cap ops,
  ps_spec (cap, ops, snd (hrun (ps_init cap) [] ops)) = true.
Proof. exact oracle_accepts_model. Qed.
Print Assumptions C16_oracle_accepts_model.

Theorem C16_agreement_implies_acceptance : forall c : pcase,
  ps_model_agrees c = true -> ps_spec c = true.
Proof. exact agreement_implies_acceptance. Qed.
Print Assumptions C16_agreement_implies_acceptance.

(* a modification of a page that was never fetched or allocated, then a fetch of it: within the
   discipline; the model reads the all-zero page and the oracle accepts that (an earlier version of
   the oracle applied the modification to its reference and rejected the model here); an
   observation in which the modification took effect is rejected *)
Example C16_unheld_modify_skipped :
  let ops := [HModify 1 5; HFetch 1] in
  let c := (3%nat, ops, snd (hrun (ps_init 3) [] ops)) in
  in_discipline c = true /\ snd (hrun (ps_init 3) [] ops) = [PUnit; PObj 1 0] /\
  ps_model_agrees c = true /\ ps_spec c = true /\
  ps_spec (3%nat, ops, [PUnit; PObj 1 5]) = false.
Proof. vm_compute. repeat split; reflexivity. Qed.

(* non-vacuity: the run of C16_nonvacuous at the caller level (3-page cache, 4 pages, evictions and
   re-reads), observed with other object identities than the model's: within the discipline, the
   model agrees and the oracle accepts (not through the out-of-discipline escape); and the oracle
   has teeth: the same observation with one fetched content changed is rejected by both *)
Definition ex_hops : list hop :=
  [HAlloc 1 10; HModify 1 11; HAlloc 2 20; HModify 2 21; HFlush [1; 2];
   HAlloc 3 30; HModify 3 31; HAlloc 4 40; HModify 4 41; HFlush [];
   HFetch 1; HModify 1 12; HFetch 2; HFetch 3; HFetch 1].
Definition ex_obs (c2 : N) : list pout :=
  [PObj 7 10; PUnit; PObj 8 20; PUnit; PUnit; PObj 9 30; PUnit; PObj 10 40; PUnit; PUnit;
   PObj 11 11; PUnit; PObj 12 c2; PObj 13 31; PObj 14 12].
Example C16_agreement_nonvacuous :
  fst (hrun (ps_init 3) [] ex_hops) = ex_ops ++ [PFetch 1] /\
  in_discipline (3%nat, ex_hops, ex_obs 21) = true /\
  ps_model_agrees (3%nat, ex_hops, ex_obs 21) = true /\ ps_spec (3%nat, ex_hops, ex_obs 21) = true /\
  href_ok [] [] ex_hops (ex_obs 21) = true /\
  ps_model_agrees (3%nat, ex_hops, ex_obs 20) = false /\ ps_spec (3%nat, ex_hops, ex_obs 20) = false.
Proof. vm_compute. repeat split; reflexivity. Qed.

(* within the discipline a refused fetch, a fetch answered with nothing, a refused allocation, an
   allocation holding another content and a modification answered with an object are all rejected
   (an earlier version of the oracle judged the content of answered fetches only) *)
Definition ex_obs_with (i : nat) (o : pout) : list pout := firstn i (ex_obs 21) ++ o :: skipn (S i) (ex_obs 21).
Example C16_wrong_kinds_now_rejected :
  ps_spec (3%nat, ex_hops, ex_obs_with 10 (PObj 11 11)) = true /\
  map (fun io => ps_spec (3%nat, ex_hops, ex_obs_with (fst io) (snd io)))
      [(10%nat, PRefused); (12%nat, PUnit); (5%nat, PRefused); (7%nat, PObj 10 41); (1%nat, PObj 1 11);
       (4%nat, PRefused)] = [false; false; false; false; false; false] /\
  map (fun io => ps_model_agrees (3%nat, ex_hops, ex_obs_with (fst io) (snd io)))
      [(10%nat, PRefused); (12%nat, PUnit); (5%nat, PRefused); (7%nat, PObj 10 41); (1%nat, PObj 1 11);
       (4%nat, PRefused)] = [false; false; false; false; false; false].
Proof. vm_compute. repeat split; reflexivity. Qed.
