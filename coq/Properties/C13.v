(* C13 - The background flusher only ever sees statement boundaries.
   Statements only; every proof is `exact <lemma from Proofs/SchedProofs.v>` or a vm_compute
   evaluation of the verified checker on the programs REGENERATED from the Go source
   (Gen/Protocol.v, written by tools/gen_protocol at the start of every run of the check).

   PARTIAL with respect to the property text: the theorems are about the lock protocol extracted
   from the source (order of RLock/RUnlock/Lock/Unlock, page/cache changing calls, log append,
   page and header writes on every control path, `defer` resolved) running on a model of
   sync.RWMutex under an arbitrary interleaving. The Go memory model, the runtime's mutex
   implementation, the compiled code and the bodies of the classified calls (that
   rs.Insert/Fetch/... touch nothing but the state protected by fileStore.mtx) are not modelled;
   the dynamic part of the check (a -race build driven against the real 100 ms ticker with
   statements parked across several ticks) covers that side by observation, not proof. *)
From Coq Require Import List Bool String.
From Mkdb Require Import Model.Sched Spec.SchedSpec Proofs.SchedProofs Gen.Protocol.
From Mkdb Require Import Spec.IoSpec Proofs.IoSitesSound Gen.IoSites.
Import ListNotations.
Local Open Scope list_scope.

(* For ANY list of session programs accepted by the checker (any number of statements) and ANY
   accepted flusher program, under EVERY schedule the trace is safe:
   (S2) the lock is never held exclusively together with another hold; page/cache state is
        changed only by the session and only under the shared lock; pages and the header are
        written only under the exclusive lock while the other thread holds nothing;
   (S1) no page or header write between a statement's first change and the unlock that ends its
        section, and no change or log append of that statement after that unlock. *)
Theorem C13_exclusion : forall stmts flusher,
  Forall (fun p => well_bracketed p = true) stmts -> flusher_ok flusher = true ->
  forall sch, safe (run stmts flusher sch) = true.
Proof. exact exclusion. Qed.
Print Assumptions C13_exclusion.

(* the monitor implies the declarative form: no page or header write by any thread lies between
   a change made by a statement and a later change or log append of the same statement *)
Theorem C13_safe_means_statement_boundaries : forall tr,
  safe tr = true -> no_write_inside_statement tr.
Proof. exact safe_no_write_inside. Qed.
Print Assumptions C13_safe_means_statement_boundaries.

(* the programs the session thread can run today: the five statement kinds + Close *)
Definition current_session_programs : list prog :=
  map snd all_statement_protocols ++ [proto_close; proto_session_close].

(* re-evaluated on every run against what the source says now *)
Theorem C13_current_protocol_ok :
  Forall (fun p => well_bracketed p = true) current_session_programs /\
  flusher_ok proto_flush = true /\ flusher_ok proto_ticker = true.
Proof. vm_compute. repeat constructor. Qed.
Print Assumptions C13_current_protocol_ok.

(* the five statement kinds are all there (the translator derives the list from
   Session.ExecQuery; this pins the names the property text enumerates) *)
Example C13_statement_kinds :
  map fst all_statement_protocols = ["createtable"; "select"; "insert"; "update"; "delete"]%string.
Proof. vm_compute. reflexivity. Qed.

(* composed: any sequence of today's statements (and closes), against today's ticker goroutine *)
Theorem C13_current_code_partial : forall stmts,
  (forall p, In p stmts -> In p current_session_programs) ->
  forall sch,
    safe (run stmts proto_ticker sch) = true /\
    no_write_inside_statement (run stmts proto_ticker sch).
Proof.
  intros stmts Hin sch.
  assert (H : safe (run stmts proto_ticker sch) = true).
  { apply exclusion; [|exact (proj2 (proj2 C13_current_protocol_ok))].
    apply Forall_forall. intros p Hp.
    exact (proj1 (Forall_forall _ _) (proj1 C13_current_protocol_ok) p (Hin p Hp)). }
  split; [exact H|exact (safe_no_write_inside _ H)].
Qed.
Print Assumptions C13_current_code_partial.

(* ---- the classification by name behind the extracted protocols is sound for the source as it is now ----
   Gen/IoSites.v is regenerated on every run (tools/gen_protocol/iosites.go, go/types): every use of
   the data-file handle fileStore.file and of the log handle wal.reader, and for every function of
   package storage the write sites it can reach through the call graph. The conditions (Spec/IoSpec.v):
   callees extracted as CacheTouch / Mutate / ignored reach no write at all; the PageWrite and HeaderWrite
   callees reach exactly their own write and not the log; LogAppend reaches only the log writes of
   wal.flush; inlined callees reach only those known sites; every write site lies in a function of the
   matching class; and only inlined callees can reach an operation on the reader/writer lock (a callee
   whose body is not read by the translator neither locks nor unlocks). Calls through a value obtained
   by a type assertion on the relation manager (rc := rm.(rowChecker)) are calls on the relation manager. *)
Theorem C13_classification_sound :
  io_classification_ok io_sites reaches_data_write reaches_log_write reaches_lock_op classified = true.
Proof. vm_compute. reflexivity. Qed.
Print Assumptions C13_classification_sound.

(* read declaratively: what the statement bodies (Insert, Update, MarkDeleted, Fetch, ...) can reach *)
Theorem C13_statement_bodies_reach_no_write : forall f c,
  In (f, c) classified -> mem c silent_classes = true ->
  lookup f reaches_data_write = Some [] /\ lookup f reaches_log_write = Some [] /\ lookup f reaches_lock_op = Some [].
Proof. intros f c. exact (silent_reaches_nothing _ _ _ _ _ f c C13_classification_sound). Qed.
Print Assumptions C13_statement_bodies_reach_no_write.

Theorem C13_every_write_site_is_classified : forall f m t,
  In (f, m, t) io_sites -> mem m read_only_methods = false ->
  exists c, lookup f classified = Some c /\
            (c = "PageWrite" \/ c = "HeaderWrite" \/ c = "LogAppend" \/ (c = "inlined" /\ t = "lock"))%string.
Proof. intros f m t. exact (every_write_site_is_classified _ _ _ _ _ f m t C13_classification_sound). Qed.
Print Assumptions C13_every_write_site_is_classified.

Example C13_classification_nonvacuous :
  lookup "RelationService.Insert"%string classified = Some "Mutate"%string /\
  lookup "RelationService.Fetch"%string classified = Some "CacheTouch"%string /\
  lookup "RelationService.CheckInsert"%string classified = Some "CacheTouch"%string /\
  lookup "RelationService.StartTxn"%string reaches_lock_op = Some ["fileStore.lockShared/RLock"]%string /\
  lookup "fileStore.flushPages"%string reaches_data_write = Some [header_write_site; page_write_site] /\
  existsb (fun s => match s with (f, m, t) => String.eqb f "fileStore.update" && String.eqb m "WriteAt" && String.eqb t "data" end) io_sites = true.
Proof. vm_compute. repeat split. Qed.

(* ---- non-vacuity ---- *)
(* a schedule in which an INSERT runs to its log append while the flusher tries to take the lock:
   the flusher is blocked until the statement has unlocked, then flushes *)
Definition sch_n (t : tid) (c : bool) (n : nat) : schedule := repeat (t, c) n.

(* the shape EvaluateInsert has today, written out (the generated proto_insert changes with every
   harmless rewrite of the function; this example is about the theorem's hypotheses, not about the
   source): validate every row, then store every row, then append the log, unlock on every path *)
Definition ex_insert : prog :=
  PSeq (PAct LockShared)
       (PBranch (PSeq (PLoop (PAct CacheTouch))
                      (PBranch (PSeq (PLoop (PAct Mutate))
                                     (PBranch (PSeq (PAct LogAppend) (PAct UnlockShared)) (PSeq (PAct Mutate) (PAct UnlockShared))))
                               (PSeq (PAct CacheTouch) (PAct UnlockShared))))
                (PSeq (PLoop (PAct Mutate))
                      (PBranch (PSeq (PAct LogAppend) (PAct UnlockShared)) (PSeq (PAct Mutate) (PAct UnlockShared))))).

Example C13_ex_insert_accepted : well_bracketed ex_insert = true.
Proof. vm_compute. reflexivity. Qed.

(* likewise the ticker goroutine and flushPages as they are today *)
Definition ex_flush : prog :=
  PSeq (PAct LockExclusive)
       (PSeq (PLoop (PBranch PSkip (PAct PageWrite)))
             (PBranch (PSeq (PAct HeaderWrite) (PAct UnlockExclusive)) (PSeq (PAct PageWrite) (PAct UnlockExclusive)))).
Definition ex_ticker : prog := PLoop ex_flush.
Example C13_ex_ticker_accepted : flusher_ok ex_ticker = true /\ flusher_ok ex_flush = true.
Proof. vm_compute. split; reflexivity. Qed.

(* the programs extracted from today's source are not degenerate: INSERT / UPDATE / DELETE can reach
   their log append, CREATE TABLE and the flusher their page and header writes *)
Fixpoint mentions (a : action) (p : prog) : bool :=
  match p with
  | PAct b => match a, b with
              | LogAppend, LogAppend | PageWrite, PageWrite | HeaderWrite, HeaderWrite
              | Mutate, Mutate | CacheTouch, CacheTouch | LockShared, LockShared | UnlockShared, UnlockShared
              | LockExclusive, LockExclusive | UnlockExclusive, UnlockExclusive => true
              | _, _ => false
              end
  | PSeq x y | PBranch x y => mentions a x || mentions a y
  | PLoop x => mentions a x
  | PSkip => false
  end.

Example C13_current_protocols_nondegenerate :
  mentions LogAppend proto_insert && mentions LogAppend proto_update && mentions LogAppend proto_delete &&
  mentions Mutate proto_insert && mentions CacheTouch proto_select &&
  mentions PageWrite proto_createtable && mentions HeaderWrite proto_createtable &&
  mentions PageWrite proto_ticker && mentions HeaderWrite proto_ticker && mentions LockExclusive proto_ticker = true.
Proof. vm_compute. reflexivity. Qed.

Example C13_nonvacuous_interleaving :
  let tr := run [ex_insert] ex_ticker
                (sch_n Session true 3 ++ sch_n Session false 1 ++ sch_n Session true 3 ++ sch_n Flusher true 4 ++
                 sch_n Session false 1 ++ sch_n Session true 4 ++
                 map (fun c => (Flusher, c)) [true; true; true; false; true; false; true; true; true; true]) in
  existsb (fun e => match e with Ev Session LogAppend => true | _ => false end) tr = true /\
  existsb (fun e => match e with Ev Flusher PageWrite => true | _ => false end) tr = true /\
  existsb (fun e => match e with Ev Flusher HeaderWrite => true | _ => false end) tr = true /\
  safe tr = true.
Proof. vm_compute. repeat split. Qed.

(* the checker rejects, and the monitor catches, what the property forbids *)
(* (i) a DELETE without StartTxn/EndTxn *)
Definition bad_delete : prog :=
  PSeq (PAct CacheTouch) (PSeq (PLoop (PAct Mutate)) (PAct LogAppend)).
Example C13_rejects_unbracketed : well_bracketed bad_delete = false.
Proof. vm_compute. reflexivity. Qed.
Example C13_unbracketed_is_unsafe :
  safe (run [bad_delete] ex_ticker (sch_n Session true 4)) = false.
Proof. vm_compute. reflexivity. Qed.

(* (ii) an INSERT that unlocks before its log append: the flusher writes pages in between *)
Definition bad_insert : prog :=
  PSeq (PAct LockShared) (PSeq (PAct Mutate) (PSeq (PAct UnlockShared) (PAct LogAppend))).
Example C13_rejects_early_unlock : well_bracketed bad_insert = false.
Proof. vm_compute. reflexivity. Qed.
Example C13_early_unlock_is_unsafe :
  let tr := run [bad_insert] ex_ticker
                (sch_n Session true 7 ++
                 map (fun c => (Flusher, c)) [true; true; true; true; false; true; true; true; true] ++
                 sch_n Session true 1) in
  existsb is_write_ev tr = true /\ safe tr = false /\
  ~ no_write_inside_statement tr.
Proof.
  vm_compute. repeat split.
  intro H.
  specialize (H [Boundary; Ev Session LockShared] (Ev Session Mutate)
                [Ev Session UnlockShared; Ev Flusher LockExclusive; Ev Flusher HeaderWrite;
                 Ev Flusher UnlockExclusive]
                (Ev Session LogAppend) [] eq_refl eq_refl eq_refl).
  assert (Hnb : ~ In Boundary [Ev Session UnlockShared; Ev Flusher LockExclusive;
                               Ev Flusher HeaderWrite; Ev Flusher UnlockExclusive]).
  { simpl. intros [H0|[H0|[H0|[H0|[]]]]]; discriminate. }
  specialize (H Hnb).
  inversion H as [|? ? _ T1]; inversion T1 as [|? ? _ T2]; inversion T2 as [|? ? Hw _].
  discriminate Hw.
Qed.

(* (iii) an exclusive lock requested inside the shared section (self-deadlock) is rejected *)
Example C13_rejects_upgrade :
  well_bracketed (PSeq (PAct LockShared) (PSeq ex_flush (PAct UnlockShared))) = false.
Proof. vm_compute. reflexivity. Qed.
