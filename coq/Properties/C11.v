(* C11 - The on-disk B+ tree keeps its shape invariants.
   Statements only. `run_events init_sys evs` is the system (page cache `mem`, data file
   `disk`, log) after ANY finite history of statements (CREATE TABLE, multi-row INSERT, UPDATE,
   DELETE - successful or failing) and page flushes on a freshly created database; trees are the
   model's inductive trees whose nodes carry what the pages store (Model/Tree.v); the tie to the
   page graph of the Go code is the correspondence check (page dumps compared field by field).
   Crash/recovery events are covered by C02's theorems. *)
From Coq Require Import List NArith Sorted.
From Mkdb Require Import Model.Engine Proofs.TreeProofs Proofs.StoreInv.
Import ListNotations.
Local Open Scope N_scope.

Definition reachable (y : sys) : Prop :=
  exists evs os, forallb no_crash evs = true /\ run_events init_sys evs = (SOk y, os).

(* every tree of the file, in the cache and on disk, is well formed: some uniform leaf depth h;
   all keys of a subtree inside the bounds given by its parent's separators; keys strictly
   ascending inside leaves; every node below capacity and internal nodes non-empty (wf);
   stored sibling fields = in-order neighbours (linked); no page twice (NoDup); every page
   below nextFreeOffset; and no two trees share a page *)
Theorem C11_wellformed : forall y, reachable y ->
  Forall (WFT ML MI (nextFree (mem y))) (forest (mem y)) /\ NoDup (all_offsets (forest (mem y))) /\
  Forall (WFT ML MI (nextFree (disk y))) (forest (disk y)) /\ NoDup (all_offsets (forest (disk y))).
Proof.
  intros y (evs & os & Hnc & Hr). destruct (reachable_inv evs y os Hnc Hr) as [[A B _] [C D _]]. auto.
Qed.
Print Assumptions C11_wellformed.

(* keys strictly ascending within and across leaves *)
Theorem C11_keys_ascending : forall y t, reachable y -> In t (forest (mem y)) ->
  StronglySorted N.lt (keys_of (all_cells t)).
Proof.
  intros y t Hy Hin. destruct (C11_wellformed y Hy) as (A & _). rewrite Forall_forall in A.
  destruct (A t Hin) as [[h Hs] _ _ _]. eapply wf_sorted; eauto.
Qed.
Print Assumptions C11_keys_ascending.

(* the left-to-right leaf chain (as scanRight follows it through stored sibling offsets) is the
   list of leaves in tree order, and the right-to-left chain is its exact reverse *)
Theorem C11_chains : forall y t, reachable y -> In t (forest (mem y)) ->
  scan_right_leaves t = TOk (leaves t) /\ scan_left_leaves t = TOk (rev (leaves t)).
Proof.
  intros y t Hy Hin. destruct (C11_wellformed y Hy) as (A & _). rewrite Forall_forall in A.
  split; [eapply scan_right_leaves_okP | eapply scan_left_leaves_okP]; apply A; exact Hin.
Qed.
Print Assumptions C11_chains.

(* every stored (live) cell is found by point lookup from the root *)
Theorem C11_lookup : forall y t c, reachable y -> In t (forest (mem y)) ->
  In c (all_cells t) -> lc_deleted c = false ->
  exists pg, find_cell (lc_key c) t = Some (pg, c).
Proof.
  intros y t c Hy Hin Hc Hl. destruct (C11_wellformed y Hy) as (A & _). rewrite Forall_forall in A.
  eapply find_cell_ok; eauto.
Qed.
Print Assumptions C11_lookup.

(* the insertion theorem behind it, for trees of any height: inserting a key above every key
   and separator succeeds, keeps the tree well formed, appends exactly one cell to the in-order
   cell list (nothing lost, duplicated or reordered, tombstones kept), and allocates only fresh
   pages *)
Theorem C11_insert : forall free t k lsn v,
  WFT ML MI free t -> Forall (fun x => x < k) (tree_keys t) -> (length v <= MV)%nat ->
  exists t' f',
    tree_insert ML MI PS MV t k lsn v free = TOk (t', f') /\ WFT ML MI f' t' /\
    all_cells t' = all_cells t ++ [mkLC k false v] /\
    Forall (fun x => x <= k) (tree_keys t') /\ free <= f' /\
    (forall x, In x (offsets_of t') -> In x (offsets_of t) \/ free <= x).
Proof. exact (tree_insert_ok ML MI PS MV ML_ge MI_ge PS_pos). Qed.
Print Assumptions C11_insert.

(* non-vacuity: a reachable database whose user table has split its root *)
Local Open Scope string_scope.
Definition ex_history : list event :=
  EvStmt (SCreateTable "t" [mkColDef "a" STNumeric]) ::
  map (fun i => EvStmt (SInsert "t" [] [[VInt (Z.of_nat i)]])) (seq 0 20) ++ [EvFlush].

Example C11_nonvacuous :
  exists y os, run_events init_sys ex_history = (SOk y, os) /\
               exists t, In t (forest (mem y)) /\ (length (leaves t) >= 4)%nat.
Proof.
  destruct (run_events init_sys ex_history) as [fin os] eqn:E.
  vm_compute in E. inversion E; subst. eexists _, _. split; [reflexivity|].
  eexists. split; [right; right; left; reflexivity|]. vm_compute. repeat constructor.
Qed.

(* ====================== the page-graph oracle accepts the model ======================
   The link between the two halves of the C11 check. SM judges the dumped page graph with
   Spec/DumpCheck.v `dumps_ok` (shape, key order, separators as bounds, both sibling chains,
   point lookups, no page visited twice, pages below nextFreeOffset - starting from the header's
   page-table root and the root offsets stored in the page table's rows); MM compares the dump with
   the flattening of the model's forest (`model_agrees`). Proofs/DumpOracle.v: every store that
   represents a database (RefineRep.Rep = SInv + the catalog invariant) dumps to a page list that
   dump_ok accepts (`dump_ok_rep`: check_tree accepts every WFT tree, the catalog rows name exactly
   roots of forest members); along every history of statements, flushes, crash-restarts, table
   read-backs and dumps the cache keeps representing a database (MovesFromRep.RInv); and dump_ok
   reads only fields that the comparison `pobs_eqb` compares. Hence agreement with the model (MM =
   []) implies acceptance (SM = []).
   Hypotheses (booleans on the history, the ones of C01's oracle theorem that keep `Rep` alive):
   hist_shape_c (the events of the check), hev_ok (literals are Go values), frontier_ok (the file
   stays below 2^63 bytes). SInv alone would not do: DumpOracle.sinv_alone_not_enough. *)
From Mkdb Require Import Spec.HistObs Spec.DumpCheck Proofs.OracleSound Proofs.OracleCrash Proofs.DumpOracle.
From Mkdb Require Proofs.RefineRep.

Theorem C11_dump_accepted : forall s d, RefineRep.Rep s d -> dump_ok (dump_of s) = true.
Proof. exact dump_ok_rep. Qed.
Print Assumptions C11_dump_accepted.

Theorem C11_oracle_accepts_model : forall hevs,
  hist_shape_c hevs = true ->            (* statements, flushes, crash-restarts, read-backs, dumps *)
  forallb hev_ok hevs = true ->          (* literals are Go values *)
  frontier_ok init_sys hevs = true ->    (* the data file stays below 2^63 bytes *)
  dumps_ok (hevs, run_h init_sys hevs) = true.
Proof. exact model_dumps_pass. Qed.
Print Assumptions C11_oracle_accepts_model.

Theorem C11_agreement_implies_acceptance : forall c,
  hist_shape_c (fst c) = true -> forallb hev_ok (fst c) = true -> frontier_ok init_sys (fst c) = true ->
  model_agrees c = true -> dumps_ok c = true.
Proof. exact dumps_agreement_implies_acceptance. Qed.
Print Assumptions C11_agreement_implies_acceptance.

(* non-vacuity: 20 rows split the root of t (an internal root over 4 leaves), dumps before and
   after a flush + crash-restart, a DELETE, a failing INSERT (INT range), a second table, a crash
   with the last statements only in the log; all hypotheses hold, the model produces 5 dumps, the
   last one lists 8 pages of which one is internal, and the oracle accepts *)
Definition hevs_dump_demo : list hevent :=
  HEv (EvStmt (SCreateTable "t" [mkColDef "a" STNumeric])) ::
  map (fun i => HEv (EvStmt (SInsert "t" [] [[VInt (Z.of_nat i)]]))) (seq 0 20) ++
  [HDumpPages; HEv EvFlush; HEv EvCrash; HDumpPages;
   HEv (EvStmt (SDelete "t" (Some (EPred (XCol (mkCol "" "a")) CEq (XLit (VInt 2))))));
   HEv (EvStmt (SInsert "t" [] [[VInt 2147483648]]));
   HReadTables ["t"]; HDumpPages;
   HEv (EvStmt (SCreateTable "u" [mkColDef "x" STBigInt]));
   HEv (EvStmt (SInsert "u" [] [[VInt 7]])); HDumpPages;
   HEv EvCrash; HDumpPages].

Example C11_oracle_demo :
  hist_shape_c hevs_dump_demo = true /\ forallb hev_ok hevs_dump_demo = true /\
  frontier_ok init_sys hevs_dump_demo = true /\
  model_agrees (hevs_dump_demo, run_h init_sys hevs_dump_demo) = true /\
  flat_map (fun o => match o with
                     | HDump _ ps => [(List.length ps,
                                       List.length (filter (fun p => match p with PInt _ _ _ _ _ => true | _ => false end) ps))]
                     | _ => [] end) (run_h init_sys hevs_dump_demo) =
    [(7, 1); (7, 1); (7, 1); (8, 1); (8, 1)]%nat /\
  dumps_ok (hevs_dump_demo, run_h init_sys hevs_dump_demo) = true.
Proof. vm_compute. repeat split; reflexivity. Qed.
