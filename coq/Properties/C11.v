(* C11 - The on-disk B+ tree keeps its shape invariants.
   Statements only. `run_events init_sys evs` is the system (page cache `mem`, data file
   `disk`, log) after ANY finite history of statements (CREATE TABLE, multi-row INSERT, UPDATE,
   DELETE - successful or failing) and page flushes on a freshly created database; trees are the
   model's inductive trees whose nodes carry what the pages store (Model/Tree.v); the tie to the
   page graph of the Go code is the correspondence check (page dumps compared field by field).
   Crash/recovery events are covered by C02's theorems. *)
From Coq Require Import List NArith Sorted.
From Mkdb Require Import Model.Engine Proofs.TreeProofs Proofs.StoreInv.
Import ListNotations.
Local Open Scope N_scope.

Definition reachable (y : sys) : Prop :=
  exists evs os, forallb no_crash evs = true /\ run_events init_sys evs = (SOk y, os).

(* every tree of the file, in the cache and on disk, is well formed: some uniform leaf depth h;
   all keys of a subtree inside the bounds given by its parent's separators; keys strictly
   ascending inside leaves; every node below capacity and internal nodes non-empty (wf);
   stored sibling fields = in-order neighbours (linked); no page twice (NoDup); every page
   below nextFreeOffset; and no two trees share a page *)
Theorem C11_wellformed : forall y, reachable y ->
  Forall (WFT ML MI (nextFree (mem y))) (forest (mem y)) /\ NoDup (all_offsets (forest (mem y))) /\
  Forall (WFT ML MI (nextFree (disk y))) (forest (disk y)) /\ NoDup (all_offsets (forest (disk y))).
Proof.
  intros y (evs & os & Hnc & Hr). destruct (reachable_inv evs y os Hnc Hr) as [[A B _] [C D _]]. auto.
Qed.
Print Assumptions C11_wellformed.

(* keys strictly ascending within and across leaves *)
Theorem C11_keys_ascending : forall y t, reachable y -> In t (forest (mem y)) ->
  StronglySorted N.lt (keys_of (all_cells t)).
Proof.
  intros y t Hy Hin. destruct (C11_wellformed y Hy) as (A & _). rewrite Forall_forall in A.
  destruct (A t Hin) as [[h Hs] _ _ _]. eapply wf_sorted; eauto.
Qed.
Print Assumptions C11_keys_ascending.

(* the left-to-right leaf chain (as scanRight follows it through stored sibling offsets) is the
   list of leaves in tree order, and the right-to-left chain is its exact reverse *)
Theorem C11_chains : forall y t, reachable y -> In t (forest (mem y)) ->
  scan_right_leaves t = TOk (leaves t) /\ scan_left_leaves t = TOk (rev (leaves t)).
Proof.
  intros y t Hy Hin. destruct (C11_wellformed y Hy) as (A & _). rewrite Forall_forall in A.
  split; [eapply scan_right_leaves_okP | eapply scan_left_leaves_okP]; apply A; exact Hin.
Qed.
Print Assumptions C11_chains.

(* every stored (live) cell is found by point lookup from the root *)
Theorem C11_lookup : forall y t c, reachable y -> In t (forest (mem y)) ->
  In c (all_cells t) -> lc_deleted c = false ->
  exists pg, find_cell (lc_key c) t = Some (pg, c).
Proof.
  intros y t c Hy Hin Hc Hl. destruct (C11_wellformed y Hy) as (A & _). rewrite Forall_forall in A.
  eapply find_cell_ok; eauto.
Qed.
Print Assumptions C11_lookup.

(* the insertion theorem behind it, for trees of any height: inserting a key above every key
   and separator succeeds, keeps the tree well formed, appends exactly one cell to the in-order
   cell list (nothing lost, duplicated or reordered, tombstones kept), and allocates only fresh
   pages *)
Theorem C11_insert : forall free t k lsn v,
  WFT ML MI free t -> Forall (fun x => x < k) (tree_keys t) -> (length v <= MV)%nat ->
  exists t' f',
    tree_insert ML MI PS MV t k lsn v free = TOk (t', f') /\ WFT ML MI f' t' /\
    all_cells t' = all_cells t ++ [mkLC k false v] /\
    Forall (fun x => x <= k) (tree_keys t') /\ free <= f' /\
    (forall x, In x (offsets_of t') -> In x (offsets_of t) \/ free <= x).
Proof. exact (tree_insert_ok ML MI PS MV ML_ge MI_ge PS_pos). Qed.
Print Assumptions C11_insert.

(* non-vacuity: a reachable database whose user table has split its root *)
Local Open Scope string_scope.
Definition ex_history : list event :=
  EvStmt (SCreateTable "t" [mkColDef "a" STNumeric]) ::
  map (fun i => EvStmt (SInsert "t" [] [[VInt (Z.of_nat i)]])) (seq 0 20) ++ [EvFlush].

Example C11_nonvacuous :
  exists y os, run_events init_sys ex_history = (SOk y, os) /\
               exists t, In t (forest (mem y)) /\ (length (leaves t) >= 4)%nat.
Proof.
  destruct (run_events init_sys ex_history) as [fin os] eqn:E.
  vm_compute in E. inversion E; subst. eexists _, _. split; [reflexivity|].
  eexists. split; [right; right; left; reflexivity|]. vm_compute. repeat constructor.
Qed.
