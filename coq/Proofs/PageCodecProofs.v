(* Round-trip theorems for the page codec (Model/PageCodec.v). The constants of Gen/Params.v
   are used only through Proofs/ParamsFacts.v. *)
From Coq Require Import Ascii NArith ZArith Bool Lia Arith List.
From Mkdb Require Import Model.PageCodec Proofs.BytesProofs Proofs.CodecBaseProofs Proofs.ParamsFacts.
Import ListNotations.
Open Scope N_scope.

#[local] Opaque pageSize leafNodeHeaderSize internalNodeHeaderSize offsetElemSize nodeCellSize
  maxValueSize leafNodeCellSize maxInternalNodeCells maxLeafNodeCells tagLeafNode tagInternalNode.

(* ------------------------------------------------------------------ offsets and slots *)

Lemma nodupb_NoDup l : nodupb l = true -> NoDup (map N.to_nat l).
Proof.
  induction l as [|x r IH]; cbn [nodupb map]; intros H; [constructor|].
  apply andb_true_iff in H. destruct H as [H1 H2]. constructor; [|auto].
  intros Hin. apply in_map_iff in Hin. destruct Hin as [y [Hy Hin]].
  apply N2Nat.inj in Hy. subst y.
  apply negb_true_iff in H1. assert (existsb (N.eqb x) r = true); [|congruence].
  apply existsb_exists. exists x. split; [exact Hin | apply N.eqb_refl].
Qed.

(* pigeonhole: k pairwise distinct numbers below k are all of 0..k-1 *)
Lemma all_below_covered (l : list nat) j :
  NoDup l -> Forall (fun o => o < length l)%nat l -> (j < length l)%nat -> In j l.
Proof.
  intros Hnd Hall Hj.
  assert (Hincl : incl (seq 0 (length l)) l).
  { apply NoDup_length_incl; [exact Hnd | rewrite seq_length; lia |].
    intros o Ho. apply in_seq. rewrite Forall_forall in Hall. specialize (Hall o Ho). lia. }
  apply Hincl. apply in_seq. lia.
Qed.

Lemma through_Forall2 {A} (cells : list A) : forall offs cs,
  through offs cells = Some cs ->
  Forall2 (fun o c => nth_error cells (N.to_nat o) = Some c) offs cs.
Proof.
  induction offs as [|o r IH]; intros cs H; cbn [through] in H.
  - inversion H. constructor.
  - destruct (nth_error cells (N.to_nat o)) as [c|] eqn:E; [|discriminate].
    destruct (through r cells) as [cs'|]; [|discriminate]. inversion H; subst.
    constructor; auto.
Qed.

Lemma through_length {A} (cells : list A) : forall offs cs, through offs cells = Some cs -> length cs = length offs.
Proof.
  intros offs cs H. apply through_Forall2 in H. induction H; cbn [length]; congruence.
Qed.

Lemma through_in_range {A} (cells : list A) : forall offs,
  Forall (fun o => N.to_nat o < length cells)%nat offs -> exists cs, through offs cells = Some cs.
Proof.
  induction offs as [|o r IH]; intros H; [exists []; reflexivity|].
  inversion H as [|? ? Ho Hr]; subst. destruct (IH Hr) as [cs Hcs].
  cbn [through]. rewrite Hcs. destruct (nth_error cells (N.to_nat o)) as [c|] eqn:E.
  - eexists; reflexivity.
  - apply nth_error_None in E. lia.
Qed.

(* cells read through a permutation of a prefix do not see the slots behind it *)
Lemma through_firstn {A} (cells : list A) k : forall offs,
  Forall (fun o => N.to_nat o < k)%nat offs -> through offs (firstn k cells) = through offs cells.
Proof.
  induction offs as [|o r IH]; intros H; [reflexivity|]. inversion H; subst.
  cbn [through]. rewrite IH by assumption. rewrite nth_error_firstn' by assumption. reflexivity.
Qed.

Section Cells.
  Context {A : Type} (enc : A -> bytes) (rd : bytes -> res (A * bytes)) (good : A -> Prop).
  Hypothesis rd_enc : forall c rest, good c -> rd (enc c ++ rest) = Ok (c, rest).

  (* what the decode loop leaves in the slot array *)
  Fixpoint fill (offs : list N) (cs : list A) (slots : list (option A)) : list (option A) :=
    match offs, cs with
    | o :: r, c :: cs' => fill r cs' (set_nth (N.to_nat o) (Some c) slots)
    | _, _ => slots
    end.

  Lemma dec_cells_enc : forall offs cs slots rest,
    length offs = length cs -> Forall good cs ->
    Forall (fun o => N.to_nat o < length slots)%nat offs ->
    dec_cells rd offs slots (flat_map enc cs ++ rest) = Ok (fill offs cs slots).
  Proof.
    induction offs as [|o r IH]; intros cs slots rest Hlen Hgood Hrange.
    - destruct cs; [reflexivity | discriminate].
    - destruct cs as [|c cs']; [discriminate|].
      inversion Hgood as [|? ? Hc Hcs]; subst. inversion Hrange as [|? ? Ho Hr]; subst.
      cbn [dec_cells flat_map fill]. rewrite <- app_assoc, rd_enc by exact Hc.
      destruct (Nat.ltb_spec (N.to_nat o) (length slots)) as [_|Hge]; [|lia].
      apply IH; [cbn [length] in Hlen; lia | exact Hcs |].
      rewrite set_nth_length. exact Hr.
  Qed.

  Lemma fill_spec (cells : list A) : forall offs cs slots,
    Forall2 (fun o c => nth_error cells (N.to_nat o) = Some c) offs cs ->
    length (fill offs cs slots) = length slots /\
    forall j,
      (In j (map N.to_nat offs) -> (j < length slots)%nat ->
       nth_error (fill offs cs slots) j = option_map Some (nth_error cells j)) /\
      (~ In j (map N.to_nat offs) -> nth_error (fill offs cs slots) j = nth_error slots j).
  Proof.
    induction offs as [|o r IH]; intros cs slots H; inversion H as [|? c ? cs' Hoc Hrest]; subst.
    - cbn [fill map]. split; [reflexivity|]. intros j. split; [intros []|reflexivity].
    - cbn [fill map]. destruct (IH cs' (set_nth (N.to_nat o) (Some c) slots) Hrest) as [Hl Hj].
      rewrite set_nth_length in Hl. split; [exact Hl|].
      intros j. destruct (Hj j) as [Hin Hnot]. rewrite set_nth_length in Hin. split.
      + intros Hjin Hjlt. destruct (in_dec Nat.eq_dec j (map N.to_nat r)) as [Hr|Hr]; [auto|].
        destruct Hjin as [<-|Hjin]; [|contradiction].
        rewrite Hnot by exact Hr. rewrite set_nth_same by exact Hjlt. rewrite Hoc. reflexivity.
      + intros Hjnot. rewrite Hnot by (intros Hr; apply Hjnot; right; exact Hr).
        apply set_nth_other. intros E. apply Hjnot. left. exact E.
  Qed.

  Lemma fill_perm (cells : list A) offs cs :
    through offs cells = Some cs ->
    NoDup (map N.to_nat offs) ->
    Forall (fun o => N.to_nat o < length offs)%nat offs ->
    (length offs <= length cells)%nat ->
    fill offs cs (repeat None (length offs)) = map Some (firstn (length offs) cells).
  Proof.
    intros Hth Hnd Hall Hle. set (k := length offs).
    destruct (fill_spec cells offs cs (repeat None k) (through_Forall2 cells offs cs Hth)) as [Hl Hj].
    rewrite repeat_length in Hl.
    apply nth_error_ext'. intros j. destruct (Nat.lt_ge_cases j k) as [Hlt|Hge].
    - destruct (Hj j) as [Hin _]. rewrite repeat_length in Hin.
      rewrite Hin; [| |exact Hlt].
      + rewrite nth_error_map', nth_error_firstn' by exact Hlt. reflexivity.
      + apply all_below_covered; [exact Hnd | | rewrite map_length; exact Hlt].
        rewrite map_length. apply Forall_forall. intros x Hx. apply in_map_iff in Hx.
        destruct Hx as [o [<- Ho]]. rewrite Forall_forall in Hall. apply Hall. exact Ho.
    - transitivity (@None (option A)); [|symmetry]; apply nth_error_None.
      + lia.
      + rewrite map_length, firstn_length. lia.
  Qed.
End Cells.

(* ------------------------------------------------------------------ cells *)

Definition leafcell_good (c : leafcell) : Prop := lc_key c < w32 /\ N.of_nat (length (lc_val c)) <= maxValueSize.
Definition icell_good (c : icell) : Prop := ic_key c < w32 /\ ic_off c < w64.

Lemma leafcell_ok_good c : leafcell_ok c = true -> leafcell_good c.
Proof. unfold leafcell_ok, leafcell_good. rewrite andb_true_iff, N.ltb_lt, N.leb_le. tauto. Qed.
Lemma icell_ok_good c : icell_ok c = true -> icell_good c.
Proof. unfold icell_ok, icell_good. rewrite andb_true_iff, !N.ltb_lt. tauto. Qed.

Lemma maxValueSize_u32 : maxValueSize < w32.
Proof.
  pose proof leaf_fits. pose proof leaf_cell_layout. pose proof maxLeaf_ge_2. pose proof pageSize_u16.
  assert (maxLeafNodeCells * (offsetElemSize + leafNodeCellSize) >= 1 * (offsetElemSize + leafNodeCellSize)).
  { apply N.le_ge. apply N.mul_le_mono_r. lia. }
  unfold w32. lia.
Qed.

Lemma rd_leafcell_enc c rest : leafcell_good c -> rd_leafcell (enc_leafcell c ++ rest) = Ok (c, rest).
Proof.
  intros [Hk Hv]. unfold rd_leafcell, enc_leafcell. rewrite <- !app_assoc.
  rewrite rd_u4_app by exact Hk. cbv beta iota.
  rewrite rd_bool_app. cbv beta iota.
  rewrite rd_u4_app by (pose proof maxValueSize_u32; lia). cbv beta iota.
  rewrite read_blob_app. destruct c; reflexivity.
Qed.

Lemma rd_icell_enc c rest : icell_good c -> rd_icell (enc_icell c ++ rest) = Ok (c, rest).
Proof.
  intros [Hk Ho]. unfold rd_icell, enc_icell. rewrite <- !app_assoc.
  rewrite rd_u4_app by exact Hk. cbv beta iota.
  rewrite rd_u8_app by exact Ho. destruct c; reflexivity.
Qed.

Lemma leaf_footer_length cs : Forall leafcell_good cs ->
  N.of_nat (length (flat_map enc_leafcell cs)) <= N.of_nat (length cs) * leafNodeCellSize.
Proof.
  pose proof leaf_cell_layout as L.
  induction 1 as [|c r [_ Hv] _ IH]; cbn [flat_map length]; [lia|].
  unfold enc_leafcell at 1. rewrite !app_length, !le_enc_length. cbn [enc_bool length]. lia.
Qed.

Lemma internal_footer_length cs :
  N.of_nat (length (flat_map enc_icell cs)) = N.of_nat (length cs) * nodeCellSize.
Proof.
  pose proof node_cell_layout as L.
  induction cs as [|c r IH]; cbn [flat_map length]; [lia|].
  unfold enc_icell at 1. rewrite !app_length, !le_enc_length. lia.
Qed.

Lemma leaf_header_length off lsn hasL hasR lsib rsib offs :
  N.of_nat (length (leaf_header off lsn hasL hasR lsib rsib offs)) + 2 =
  leafNodeHeaderSize + N.of_nat (length offs) * offsetElemSize.
Proof.
  unfold leaf_header. rewrite !app_length, !le_enc_length, flat_map_le_enc_length.
  cbn [enc_bool length]. pose proof leaf_header_layout. pose proof offset_elem_layout. lia.
Qed.

Lemma internal_header_length off lsn rgt offs :
  N.of_nat (length (internal_header off lsn rgt offs)) + 2 =
  internalNodeHeaderSize + N.of_nat (length offs) * offsetElemSize.
Proof.
  unfold internal_header. rewrite !app_length, !le_enc_length, flat_map_le_enc_length.
  pose proof internal_header_layout. pose proof offset_elem_layout. lia.
Qed.

(* ------------------------------------------------------------------ finishing a page *)

Lemma finish_page_fits hdr footer :
  N.of_nat (length hdr) + N.of_nat (length footer) + 2 <= pageSize ->
  exists free, free < w16 /\
    finish_page hdr footer = Ok (hdr ++ le_enc 2 free ++ zeros (N.to_nat free) ++ footer) /\
    N.of_nat (length (hdr ++ le_enc 2 free ++ zeros (N.to_nat free) ++ footer)) = pageSize.
Proof.
  intros H. pose proof pageSize_u16 as P.
  set (free := pageSize - N.of_nat (length hdr) - N.of_nat (length footer) - 2).
  assert (Hfree : free_size hdr footer = free).
  { unfold free_size, free. rewrite Z.mod_small by lia. lia. }
  assert (Hlen : N.of_nat (length (hdr ++ le_enc 2 free ++ zeros (N.to_nat free) ++ footer)) = pageSize).
  { rewrite !app_length, le_enc_length, zeros_length. unfold free. lia. }
  exists free. split; [|split].
  - unfold w16. unfold free. lia.
  - unfold finish_page. rewrite Hfree. rewrite Hlen, N.eqb_refl. reflexivity.
  - exact Hlen.
Qed.

(* when the contents do not fit, freeSize wraps and encode panics *)
Lemma finish_page_overflow hdr footer :
  pageSize < N.of_nat (length hdr) + N.of_nat (length footer) + 2 -> finish_page hdr footer = Panic.
Proof.
  intros H. unfold finish_page.
  destruct (N.eqb_spec (N.of_nat (length (hdr ++ le_enc 2 (free_size hdr footer) ++
            zeros (N.to_nat (free_size hdr footer)) ++ footer))) pageSize) as [E|_]; [|reflexivity].
  rewrite !app_length, le_enc_length, zeros_length in E. lia.
Qed.

(* ------------------------------------------------------------------ decode of what encode wrote *)

Lemma offsets_fuel (offs : list N) rest : (length offs <= length (flat_map (le_enc 2) offs ++ rest))%nat.
Proof. rewrite app_length, flat_map_le_enc_length. lia. Qed.

Lemma decode_leaf_raw_enc off lsn hasL hasR lsib rsib offs cs free :
  off < w64 -> lsn < w64 -> lsib < w64 -> rsib < w64 ->
  N.of_nat (length offs) < w32 -> Forall (fun o => o < w16) offs -> free < w16 ->
  length offs = length cs -> Forall leafcell_good cs ->
  Forall (fun o => N.to_nat o < length offs)%nat offs ->
  decode_leaf_raw (leaf_header off lsn hasL hasR lsib rsib offs ++ le_enc 2 free ++
                   zeros (N.to_nat free) ++ flat_map enc_leafcell cs) =
  Ok (RLeaf off lsn hasL hasR lsib rsib offs (fill offs cs (repeat None (length offs)))).
Proof.
  intros Hoff Hlsn Hls Hrs Hcnt Hoffs Hfree Hlen Hgood Hrange.
  unfold decode_leaf_raw, leaf_header. rewrite <- !app_assoc.
  rewrite rd_u1_app by (pose proof tagLeaf_byte; unfold w8; lia). cbv beta iota.
  rewrite N.eqb_refl. cbn [negb].
  rewrite rd_u8_app by exact Hoff. cbv beta iota.
  rewrite rd_u8_app by exact Hlsn. cbv beta iota.
  rewrite rd_bool_app. cbv beta iota.
  rewrite rd_bool_app. cbv beta iota.
  rewrite rd_u8_app by exact Hls. cbv beta iota.
  rewrite rd_u8_app by exact Hrs. cbv beta iota.
  rewrite rd_u4_app by exact Hcnt. cbv beta iota.
  rewrite rd_u_list_app; [| rewrite pow_w16; exact Hoffs | apply offsets_fuel]. cbv beta iota.
  rewrite rd_u2_app by exact Hfree. cbv beta iota zeta.
  rewrite skipn_app, skipn_all2 by (rewrite zeros_length; lia).
  rewrite zeros_length, Nat.sub_diag. cbn [skipn app].
  rewrite <- (app_nil_r (flat_map enc_leafcell cs)).
  rewrite (dec_cells_enc enc_leafcell rd_leafcell leafcell_good rd_leafcell_enc);
    [reflexivity | exact Hlen | exact Hgood | rewrite repeat_length; exact Hrange].
Qed.

Lemma decode_internal_raw_enc off lsn rgt offs cs free :
  off < w64 -> lsn < w64 -> rgt < w64 ->
  N.of_nat (length offs) < w32 -> Forall (fun o => o < w16) offs -> free < w16 ->
  length offs = length cs -> Forall icell_good cs ->
  Forall (fun o => N.to_nat o < length offs)%nat offs ->
  decode_internal_raw (internal_header off lsn rgt offs ++ le_enc 2 free ++
                       zeros (N.to_nat free) ++ flat_map enc_icell cs) =
  Ok (RInternal off lsn rgt offs (fill offs cs (repeat None (length offs)))).
Proof.
  intros Hoff Hlsn Hr Hcnt Hoffs Hfree Hlen Hgood Hrange.
  unfold decode_internal_raw, internal_header. rewrite <- !app_assoc.
  rewrite rd_u1_app by (pose proof tagInternal_byte; unfold w8; lia). cbv beta iota.
  rewrite N.eqb_refl. cbn [negb].
  rewrite rd_u8_app by exact Hoff. cbv beta iota.
  rewrite rd_u8_app by exact Hlsn. cbv beta iota.
  rewrite rd_u8_app by exact Hr. cbv beta iota.
  rewrite rd_u4_app by exact Hcnt. cbv beta iota.
  rewrite rd_u_list_app; [| rewrite pow_w16; exact Hoffs | apply offsets_fuel]. cbv beta iota.
  rewrite rd_u2_app by exact Hfree. cbv beta iota zeta.
  rewrite skipn_app, skipn_all2 by (rewrite zeros_length; lia).
  rewrite zeros_length, Nat.sub_diag. cbn [skipn app].
  rewrite <- (app_nil_r (flat_map enc_icell cs)).
  rewrite (dec_cells_enc enc_icell rd_icell icell_good rd_icell_enc);
    [reflexivity | exact Hlen | exact Hgood | rewrite repeat_length; exact Hrange].
Qed.

(* ------------------------------------------------------------------ unpacking the boolean predicates *)

Lemma offsets_ok_props {A} offs (cells : list A) : offsets_ok offs cells = true ->
  Forall (fun o => N.to_nat o < length offs)%nat offs /\ NoDup (map N.to_nat offs) /\
  (length offs <= length cells)%nat.
Proof.
  unfold offsets_ok. rewrite !andb_true_iff. intros [[H1 H2] H3]. split; [|split].
  - apply Forall_forall. intros o Ho. rewrite forallb_forall in H1. specialize (H1 o Ho).
    apply N.ltb_lt in H1. lia.
  - apply nodupb_NoDup. exact H2.
  - apply Nat.leb_le. exact H3.
Qed.

Lemma live_ok_props {A} (ok : A -> bool) offs (cells : list A) : live_ok ok offs cells = true ->
  exists cs, through offs cells = Some cs /\ Forall (fun c => ok c = true) cs.
Proof.
  unfold live_ok. destruct (through offs cells) as [cs|]; [|discriminate].
  intros H. exists cs. split; [reflexivity|]. apply Forall_forall. rewrite forallb_forall in H. exact H.
Qed.

Lemma fits_leaf k footer_len :
  k <= maxLeafNodeCells -> footer_len <= k * leafNodeCellSize ->
  leafNodeHeaderSize + k * offsetElemSize + footer_len <= pageSize.
Proof.
  intros Hk Hf. pose proof leaf_fits as F.
  assert (k * (offsetElemSize + leafNodeCellSize) <= maxLeafNodeCells * (offsetElemSize + leafNodeCellSize))
    by (apply N.mul_le_mono_r; exact Hk).
  rewrite N.mul_add_distr_l in H. lia.
Qed.

Lemma fits_internal k :
  k <= maxInternalNodeCells ->
  internalNodeHeaderSize + k * offsetElemSize + k * nodeCellSize <= pageSize.
Proof.
  intros Hk. pose proof internal_fits as F.
  assert (k * (offsetElemSize + nodeCellSize) <= maxInternalNodeCells * (offsetElemSize + nodeCellSize))
    by (apply N.mul_le_mono_r; exact Hk).
  rewrite N.mul_add_distr_l in H. lia.
Qed.

(* ------------------------------------------------------------------ the dispatch of fetch *)

Lemma decode_page_raw_leaf b rest :
  N_of_ascii b = tagLeafNode -> decode_page_raw (b :: rest) = decode_leaf_raw (b :: rest).
Proof.
  intros E. unfold decode_page_raw. rewrite E.
  destruct (N.eqb_spec tagLeafNode tagInternalNode) as [E2|_]; [pose proof tags_distinct; congruence|].
  rewrite N.eqb_refl. reflexivity.
Qed.

Lemma decode_page_raw_internal b rest :
  N_of_ascii b = tagInternalNode -> decode_page_raw (b :: rest) = decode_internal_raw (b :: rest).
Proof. intros E. unfold decode_page_raw. rewrite E, N.eqb_refl. reflexivity. Qed.

Lemma decode_page_raw_other b rest :
  N_of_ascii b <> tagInternalNode -> N_of_ascii b <> tagLeafNode -> decode_page_raw (b :: rest) = Panic.
Proof.
  intros H1 H2. unfold decode_page_raw.
  destruct (N.eqb_spec (N_of_ascii b) tagInternalNode); [contradiction|].
  destruct (N.eqb_spec (N_of_ascii b) tagLeafNode); [contradiction|]. reflexivity.
Qed.

Lemma leaf_page_head off lsn hasL hasR lsib rsib offs tail :
  exists rest, leaf_header off lsn hasL hasR lsib rsib offs ++ tail = ascii_of_N (tagLeafNode mod 256) :: rest.
Proof. unfold leaf_header. cbn [le_enc app]. eexists. reflexivity. Qed.

Lemma internal_page_head off lsn rgt offs tail :
  exists rest, internal_header off lsn rgt offs ++ tail = ascii_of_N (tagInternalNode mod 256) :: rest.
Proof. unfold internal_header. cbn [le_enc app]. eexists. reflexivity. Qed.

(* ------------------------------------------------------------------ main lemmas *)

Lemma leaf_roundtrip_raw off lsn hasL hasR lsib rsib offs cells :
  encodable (NLeaf off lsn hasL hasR lsib rsib offs cells) = true ->
  exists page,
    encode_leaf off lsn hasL hasR lsib rsib offs cells = Ok page /\
    N.of_nat (length page) = pageSize /\
    decode_leaf_raw page = Ok (RLeaf off lsn hasL hasR lsib rsib offs (map Some (firstn (length offs) cells))) /\
    decode_page_raw page = decode_leaf_raw page.
Proof.
  cbn [encodable]. rewrite !andb_true_iff, !N.ltb_lt, N.leb_le.
  intros [[[[[[Hoff Hlsn] Hls] Hrs] Hk] Hoffs] Hlive].
  destruct (offsets_ok_props _ _ Hoffs) as [Hrange [Hnd Hle]].
  destruct (live_ok_props _ _ _ Hlive) as [cs [Hth Hcs]].
  assert (Hgood : Forall leafcell_good cs).
  { eapply Forall_impl; [|exact Hcs]. intros c. apply leafcell_ok_good. }
  pose proof (through_length _ _ _ Hth) as Hlen.
  pose proof (leaf_footer_length cs Hgood) as Hfoot. rewrite Hlen in Hfoot.
  pose proof (leaf_header_length off lsn hasL hasR lsib rsib offs) as Hhdr.
  pose proof (fits_leaf _ _ Hk Hfoot) as Hfit.
  destruct (finish_page_fits (leaf_header off lsn hasL hasR lsib rsib offs) (flat_map enc_leafcell cs))
    as [free [Hfree [Hfin Hsize]]]; [lia|].
  eexists. unfold encode_leaf. rewrite Hth. split; [exact Hfin|]. split; [exact Hsize|].
  pose proof maxLeaf_u16 as Hu16. split.
  - rewrite decode_leaf_raw_enc; try assumption.
    + rewrite (fill_perm cells offs cs Hth Hnd Hrange Hle). reflexivity.
    + unfold w32. lia.
    + apply Forall_forall. intros o Ho. rewrite Forall_forall in Hrange. specialize (Hrange o Ho).
      unfold w16. lia.
    + symmetry. exact Hlen.
  - destruct (leaf_page_head off lsn hasL hasR lsib rsib offs
               (le_enc 2 free ++ zeros (N.to_nat free) ++ flat_map enc_leafcell cs)) as [rest ->].
    apply decode_page_raw_leaf. rewrite N_ascii_mod. apply N.mod_small. exact tagLeaf_byte.
Qed.

Lemma internal_roundtrip_raw off lsn rgt offs cells :
  encodable (NInternal off lsn rgt offs cells) = true ->
  exists page,
    encode_internal off lsn rgt offs cells = Ok page /\
    N.of_nat (length page) = pageSize /\
    decode_internal_raw page = Ok (RInternal off lsn rgt offs (map Some (firstn (length offs) cells))) /\
    decode_page_raw page = decode_internal_raw page.
Proof.
  cbn [encodable]. rewrite !andb_true_iff, !N.ltb_lt, N.leb_le.
  intros [[[[[Hoff Hlsn] Hr] Hk] Hoffs] Hlive].
  destruct (offsets_ok_props _ _ Hoffs) as [Hrange [Hnd Hle]].
  destruct (live_ok_props _ _ _ Hlive) as [cs [Hth Hcs]].
  assert (Hgood : Forall icell_good cs).
  { eapply Forall_impl; [|exact Hcs]. intros c. apply icell_ok_good. }
  pose proof (through_length _ _ _ Hth) as Hlen.
  pose proof (internal_footer_length cs) as Hfoot. rewrite Hlen in Hfoot.
  pose proof (internal_header_length off lsn rgt offs) as Hhdr.
  pose proof (fits_internal _ Hk) as Hfit.
  destruct (finish_page_fits (internal_header off lsn rgt offs) (flat_map enc_icell cs))
    as [free [Hfree [Hfin Hsize]]]; [lia|].
  eexists. unfold encode_internal. rewrite Hth. split; [exact Hfin|]. split; [exact Hsize|].
  pose proof maxInternal_u16 as Hu16. split.
  - rewrite decode_internal_raw_enc; try assumption.
    + rewrite (fill_perm cells offs cs Hth Hnd Hrange Hle). reflexivity.
    + unfold w32. lia.
    + apply Forall_forall. intros o Ho. rewrite Forall_forall in Hrange. specialize (Hrange o Ho).
      unfold w16. lia.
    + symmetry. exact Hlen.
  - destruct (internal_page_head off lsn rgt offs
               (le_enc 2 free ++ zeros (N.to_nat free) ++ flat_map enc_icell cs)) as [rest ->].
    apply decode_page_raw_internal. rewrite N_ascii_mod. apply N.mod_small. exact tagInternal_byte.
Qed.

(* encode then decode = the node with its slot array cut to the live cells, through the kind-
   specific decoder and through the dispatch of fetch alike *)
Theorem decode_encode_truncate n :
  encodable n = true ->
  exists page,
    encode_node n = Ok page /\ N.of_nat (length page) = pageSize /\
    decode_page page = Ok (truncate n) /\
    match n with
    | NLeaf _ _ _ _ _ _ _ _ => decode_leaf page = Ok (truncate n)
    | NInternal _ _ _ _ _ => decode_internal page = Ok (truncate n)
    end.
Proof.
  destruct n as [off lsn hasL hasR lsib rsib offs cells | off lsn rgt offs cells]; intros H.
  - destruct (leaf_roundtrip_raw _ _ _ _ _ _ _ _ H) as [page [He [Hs [Hd Hp]]]].
    exists page. cbn [encode_node truncate]. split; [exact He|]. split; [exact Hs|].
    unfold decode_page, decode_leaf. rewrite Hp, Hd. cbn [node_of_raw].
    rewrite sequence_map_Some. split; reflexivity.
  - destruct (internal_roundtrip_raw _ _ _ _ _ H) as [page [He [Hs [Hd Hp]]]].
    exists page. cbn [encode_node truncate]. split; [exact He|]. split; [exact Hs|].
    unfold decode_page, decode_internal. rewrite Hp, Hd. cbn [node_of_raw].
    rewrite sequence_map_Some. split; reflexivity.
Qed.

Lemma admissible_encodable n : admissible n = true -> encodable n = true.
Proof. unfold admissible. rewrite andb_true_iff. tauto. Qed.

Lemma admissible_truncate n : admissible n = true -> truncate n = n.
Proof.
  unfold admissible. rewrite andb_true_iff, Nat.eqb_eq. intros [_ H].
  destruct n; cbn [truncate slot_count cell_count] in *; rewrite <- H, firstn_all; reflexivity.
Qed.

Theorem encode_decode_admissible n :
  admissible n = true ->
  exists page, encode_node n = Ok page /\ N.of_nat (length page) = pageSize /\ decode_page page = Ok n.
Proof.
  intros H. destruct (decode_encode_truncate n (admissible_encodable n H)) as [page [He [Hs [Hd _]]]].
  exists page. rewrite (admissible_truncate n H) in Hd. auto.
Qed.

Theorem encode_decode_leaf off lsn hasL hasR lsib rsib offs cells :
  admissible (NLeaf off lsn hasL hasR lsib rsib offs cells) = true ->
  exists page, encode_leaf off lsn hasL hasR lsib rsib offs cells = Ok page /\
    N.of_nat (length page) = pageSize /\
    decode_leaf page = Ok (NLeaf off lsn hasL hasR lsib rsib offs cells).
Proof.
  intros H. destruct (decode_encode_truncate _ (admissible_encodable _ H)) as [page [He [Hs [_ Hd]]]].
  exists page. rewrite (admissible_truncate _ H) in Hd. auto.
Qed.

Theorem encode_decode_internal off lsn rgt offs cells :
  admissible (NInternal off lsn rgt offs cells) = true ->
  exists page, encode_internal off lsn rgt offs cells = Ok page /\
    N.of_nat (length page) = pageSize /\
    decode_internal page = Ok (NInternal off lsn rgt offs cells).
Proof.
  intros H. destruct (decode_encode_truncate _ (admissible_encodable _ H)) as [page [He [Hs [_ Hd]]]].
  exists page. rewrite (admissible_truncate _ H) in Hd. auto.
Qed.

(* the first-byte switch of fetch *)
Theorem fetch_dispatch b rest :
  decode_page (b :: rest) =
  if N_of_ascii b =? tagInternalNode then decode_internal (b :: rest)
  else if N_of_ascii b =? tagLeafNode then decode_leaf (b :: rest)
  else Panic.
Proof.
  unfold decode_page, decode_internal, decode_leaf, decode_page_raw.
  destruct (N_of_ascii b =? tagInternalNode); [reflexivity|].
  destruct (N_of_ascii b =? tagLeafNode); reflexivity.
Qed.

(* ------------------------------------------------------------------ logical view *)

Lemma truncate_logical n : encodable n = true -> logical (truncate n) = logical n /\ logical n <> None.
Proof.
  destruct n as [off lsn hasL hasR lsib rsib offs cells | off lsn rgt offs cells];
    cbn [encodable truncate logical]; rewrite !andb_true_iff; intros H.
  - destruct H as [[_ Hoffs] Hlive].
    destruct (offsets_ok_props _ _ Hoffs) as [Hrange _].
    destruct (live_ok_props _ _ _ Hlive) as [cs [Hth _]].
    rewrite through_firstn by exact Hrange. rewrite Hth. split; [reflexivity|discriminate].
  - destruct H as [[_ Hoffs] Hlive].
    destruct (offsets_ok_props _ _ Hoffs) as [Hrange _].
    destruct (live_ok_props _ _ _ Hlive) as [cs [Hth _]].
    rewrite through_firstn by exact Hrange. rewrite Hth. split; [reflexivity|discriminate].
Qed.

Lemma offsets_ok_firstn {A} offs (cells : list A) :
  offsets_ok offs cells = true -> offsets_ok offs (firstn (length offs) cells) = true.
Proof.
  intros H. destruct (offsets_ok_props _ _ H) as [_ [_ Hle]].
  unfold offsets_ok in *. rewrite !andb_true_iff in *. destruct H as [[H1 H2] _].
  split; [split; assumption|]. apply Nat.leb_le. rewrite firstn_length. lia.
Qed.

Lemma truncate_admissible n : encodable n = true -> admissible (truncate n) = true.
Proof.
  destruct n as [off lsn hasL hasR lsib rsib offs cells | off lsn rgt offs cells];
    unfold admissible; cbn [encodable truncate slot_count cell_count]; rewrite !andb_true_iff; intros H.
  - destruct H as [[Hf Hoffs] Hlive].
    destruct (offsets_ok_props _ _ Hoffs) as [Hrange [_ Hle]].
    split; [split; [split|]|].
    + exact Hf.
    + apply offsets_ok_firstn. exact Hoffs.
    + unfold live_ok in *. rewrite through_firstn by exact Hrange. exact Hlive.
    + apply Nat.eqb_eq. rewrite firstn_length. lia.
  - destruct H as [[Hf Hoffs] Hlive].
    destruct (offsets_ok_props _ _ Hoffs) as [Hrange [_ Hle]].
    split; [split; [split|]|].
    + exact Hf.
    + apply offsets_ok_firstn. exact Hoffs.
    + unfold live_ok in *. rewrite through_firstn by exact Hrange. exact Hlive.
    + apply Nat.eqb_eq. rewrite firstn_length. lia.
Qed.

(* THE lemma for the storage layer: a node whose offsets name pairwise distinct slots below
   the live-cell count (slot array possibly longer: left half of a split) is written as exactly
   one page, and what is read back - by fetch - has the same logical view (flags, links, LSN,
   cells in key order) and is itself admissible. *)
Lemma decode_encode_logical n :
  encodable n = true ->
  exists page n',
    encode_node n = Ok page /\ N.of_nat (length page) = pageSize /\
    decode_page page = Ok n' /\
    n' = truncate n /\ logical n' = logical n /\ logical n <> None /\ admissible n' = true.
Proof.
  intros H. destruct (decode_encode_truncate n H) as [page [He [Hs [Hd _]]]].
  destruct (truncate_logical n H) as [Hl Hn].
  exists page, (truncate n). repeat split; auto. apply truncate_admissible. exact H.
Qed.

(* more cells than fit: encode panics (freeSize wraps) *)
Lemma encode_leaf_overflow off lsn hasL hasR lsib rsib offs cells cs :
  through offs cells = Some cs ->
  pageSize < leafNodeHeaderSize + N.of_nat (length offs) * offsetElemSize + N.of_nat (length (flat_map enc_leafcell cs)) ->
  encode_leaf off lsn hasL hasR lsib rsib offs cells = Panic.
Proof.
  intros Hth H. unfold encode_leaf. rewrite Hth. apply finish_page_overflow.
  pose proof (leaf_header_length off lsn hasL hasR lsib rsib offs). lia.
Qed.

(* ------------------------------------------------------------------ file header, file positions *)

Lemma encode_header_length h : N.of_nat (length (encode_header h)) = headerSize.
Proof. unfold encode_header. rewrite !app_length, !le_enc_length. reflexivity. Qed.

Theorem header_roundtrip h rest :
  header_ok h = true -> decode_header (encode_header h ++ rest) = Ok h.
Proof.
  unfold header_ok. rewrite !andb_true_iff, !N.ltb_lt. intros [[[H1 H2] H3] H4].
  unfold decode_header, encode_header. rewrite <- !app_assoc.
  rewrite rd_u4_app by exact H1. cbv beta iota.
  rewrite rd_u8_app by exact H2. cbv beta iota.
  rewrite rd_u8_app by exact H3. cbv beta iota.
  rewrite rd_u8_app by exact H4. destruct h; reflexivity.
Qed.

(* WriteAt of a whole page followed by fetch's ReadAt at the same position *)
Lemma page_at_write_at file off page :
  N.of_nat (length page) = pageSize -> page_at (write_at file off page) off = page.
Proof.
  intros H. unfold page_at, write_at.
  set (o := N.to_nat off).
  assert (Hpre : length (firstn o file ++ zeros (o - length file)) = o).
  { rewrite app_length, firstn_length, zeros_length. lia. }
  rewrite (app_assoc (firstn o file)), skipn_app, Hpre, Nat.sub_diag.
  rewrite skipn_all2 by lia. cbn [skipn app].
  assert (Hp : N.to_nat pageSize = length page) by lia. rewrite Hp.
  rewrite firstn_app, firstn_all, Nat.sub_diag, firstn_O, app_nil_r.
  rewrite Nat.sub_diag. cbn [zeros repeat]. apply app_nil_r.
Qed.
