(* Crash theory, part 9 (C04): every reachable system satisfies the hypotheses of torn_recover.
   The log splits into records already reflected in the data file (inert on it) and the records
   logged since the last completed flush, whose LSNs increase strictly from the file's nextLSN
   - so each is above every page LSN when it is replayed. *)
From Coq Require Import Arith Lia Bool List NArith Permutation.
From Mkdb Require Import Model.Engine Proofs.TreeProofs Proofs.StoreInv Proofs.CrashBase Proofs.CrashPages
  Proofs.CrashRedo Proofs.CrashLog Proofs.CrashMain Proofs.CrashPrefix Proofs.CrashHist Proofs.CrashTorn Gen.Params.
Import ListNotations.
Local Open Scope N_scope.

(* ---------- strictly increasing LSNs ---------- *)
Fixpoint lsn_sorted (lo : N) (ws : list walentry) : Prop :=
  match ws with
  | [] => True
  | w :: r => lo <= w_lsn w /\ lsn_sorted (w_lsn w + 1) r
  end.

Lemma lsn_sorted_weaken ws lo lo' : lo' <= lo -> lsn_sorted lo ws -> lsn_sorted lo' ws.
Proof. destruct ws as [|w r]; [auto|]. cbn. intros H [A B]. split; [lia | exact B]. Qed.

Lemma lsn_sorted_app a : forall lo hi b,
  lsn_sorted lo a -> Forall (fun w => w_lsn w < hi) a -> lo <= hi -> lsn_sorted hi b -> lsn_sorted lo (a ++ b).
Proof.
  induction a as [|w r IH]; intros lo hi b Ha Hlt Hle Hb.
  - cbn. eapply lsn_sorted_weaken; eauto.
  - cbn [app lsn_sorted] in *. destruct Ha as [A B]. inversion Hlt as [|? ? Hw Hr]; subst.
    split; [exact A|]. apply (IH _ hi); auto. lia.
Qed.

Lemma lsn_sorted_lt ws : forall lo, lsn_sorted lo ws -> Forall (fun w => lo <= w_lsn w) ws.
Proof.
  induction ws as [|w r IH]; intros lo H; [constructor|]. cbn in H. destruct H as [A B].
  constructor; [exact A|]. eapply Forall_impl; [|apply (IH _ B)]. cbn. intros; lia.
Qed.

(* ---------- the batch of a statement is sorted from the statement's starting nextLSN ---------- *)
Lemma bt_insert_lsn b off bs b1 k lsn nr :
  bt_insert b off bs = (b1, Ok (k, lsn, nr)) -> lsn = nextLSN b /\ nextLSN b1 = nextLSN b + 1.
Proof.
  unfold bt_insert. destruct (get_tree b off) as [t|e|]; try discriminate.
  destruct (tree_insert ML MI PS MV t _ _ bs _) as [[t' nf]|e]; [|destruct e; discriminate].
  intros H. inversion H; subst. auto.
Qed.

Definition sorted_step (b b' : store) (ws : list walentry) : Prop :=
  lsn_sorted (nextLSN b) ws /\ Forall (fun w => w_lsn w < nextLSN b') ws /\ nextLSN b <= nextLSN b'.

Lemma sorted_step_trans b b1 b2 ws1 ws2 :
  sorted_step b b1 ws1 -> sorted_step b1 b2 ws2 -> sorted_step b b2 (ws1 ++ ws2).
Proof.
  intros (A1 & B1 & C1) (A2 & B2 & C2). split; [|split; [|lia]].
  - apply (lsn_sorted_app ws1 _ (nextLSN b1)); auto.
  - apply Forall_app. split; [|exact B2]. eapply Forall_impl; [|exact B1]. cbn. intros; lia.
Qed.

Lemma sorted_step_nil b : sorted_step b b [].
Proof. split; [exact I|]. split; [constructor | lia]. Qed.

Lemma sorted_touched b pg key g op bs :
  sorted_step b (touched b pg key g) [mkWal op (nextLSN b) pg key bs].
Proof.
  split; [cbn; split; [lia | exact I]|]. split; [constructor; [cbn; lia | constructor] | cbn; lia].
Qed.

Lemma sorted_st_insert b name cols vals b2 ws :
  Good b -> st_insert b name cols vals = (b2, Ok ws) -> sorted_step b b2 ws.
Proof.
  intros G Hst.
  destruct (st_insert_shape _ _ _ _ _ _ Hst) as (off & bs & b1 & k & lsn & nr & _ & _ & Hbt & Hcase).
  destruct (bt_insert_lsn _ _ _ _ _ _ _ Hbt) as [-> Hn1].
  assert (S1 : sorted_step b b1 [mkWal OpInsert (nextLSN b) off k bs]).
  { split; [cbn; split; [lia | exact I]|]. split; [constructor; [cbn; lia | constructor] | lia]. }
  destruct Hcase as [(-> & -> & ->)|(Hne & ws' & Hup & ->)]; [exact S1|].
  assert (G1 : Good b1).
  { replace b1 with (fst (bt_insert b off bs)) by (rewrite Hbt; reflexivity). apply good_bt_insert. exact G. }
  destruct (update_page_table_shape b1 nr name b2 ws' G1 Hup) as (pg & key & bs' & _ & _ & -> & ->).
  apply (sorted_step_trans b b1 _ [_] [_] S1). apply sorted_touched.
Qed.

Lemma sorted_st_update b name rowid cols vals b1 ws :
  Good b -> st_update b name rowid cols vals = (b1, Ok ws) -> sorted_step b b1 ws.
Proof.
  intros G Hst. destruct (st_update_shape _ _ _ _ _ _ _ G Hst) as [(-> & ->)|(pg & bs & _ & _ & -> & ->)].
  - apply sorted_step_nil.
  - apply sorted_touched.
Qed.

Lemma sorted_st_delete b name rowid b1 ws :
  st_delete b name rowid = (b1, Ok ws) -> sorted_step b b1 ws.
Proof. intros Hst. destruct (st_delete_shape _ _ _ _ _ Hst) as (pg & _ & -> & ->). apply sorted_touched. Qed.

Lemma gl_nil s : Good s <-> GL [] s.
Proof. split; [intros G; split; [exact G | constructor] | intros [G _]; exact G]. Qed.

Lemma sorted_insert_rows rows : forall b name cols batch n b' B m,
  Good b -> insert_rows b name cols rows batch n = (b', B, OOk m) ->
  exists ws, B = batch ++ ws /\ sorted_step b b' ws.
Proof.
  induction rows as [|r rest IH]; intros b name cols batch n b' B m G H.
  - cbn in H. inversion H; subst. exists []. rewrite app_nil_r. split; [reflexivity | apply sorted_step_nil].
  - cbn [insert_rows] in H. destruct (st_insert b name cols r) as [b1 [ws1|e|]] eqn:Est; try discriminate.
    pose proof (log_st_insert [] b name cols r b1 ws1 (proj1 (gl_nil b) G) Est) as [G1 _].
    destruct (IH b1 name cols (batch ++ ws1) (S n) b' B m G1 H) as (ws2 & EB & S2).
    exists (ws1 ++ ws2). split; [rewrite EB, app_assoc; reflexivity|].
    eapply sorted_step_trans; [eapply sorted_st_insert; eauto | exact S2].
Qed.

Lemma sorted_update_rows ids : forall b name cols vals batch b' B m,
  Good b -> update_rows b name cols vals ids batch = (b', B, OOk m) ->
  exists ws, B = batch ++ ws /\ sorted_step b b' ws.
Proof.
  induction ids as [|k rest IH]; intros b name cols vals batch b' B m G H.
  - cbn in H. inversion H; subst. exists []. rewrite app_nil_r. split; [reflexivity | apply sorted_step_nil].
  - cbn [update_rows] in H. destruct (st_update b name k cols vals) as [b1 [ws1|e|]] eqn:Est; try discriminate.
    pose proof (log_st_update [] b name k cols vals b1 ws1 (proj1 (gl_nil b) G) Est) as [G1 _].
    destruct (IH b1 name cols vals (batch ++ ws1) b' B m G1 H) as (ws2 & EB & S2).
    exists (ws1 ++ ws2). split; [rewrite EB, app_assoc; reflexivity|].
    eapply sorted_step_trans; [eapply sorted_st_update; eauto | exact S2].
Qed.

Lemma sorted_delete_rows ids : forall b name batch n b' B m,
  Good b -> delete_rows b name ids batch n = (b', B, OOk m) ->
  exists ws, B = batch ++ ws /\ sorted_step b b' ws.
Proof.
  induction ids as [|k rest IH]; intros b name batch n b' B m G H.
  - cbn in H. inversion H; subst. exists []. rewrite app_nil_r. split; [reflexivity | apply sorted_step_nil].
  - cbn [delete_rows] in H. destruct (st_delete b name k) as [b1 [ws1|e|]] eqn:Est; try discriminate.
    pose proof (log_st_delete [] b name k b1 ws1 (proj1 (gl_nil b) G) Est) as [G1 _].
    destruct (IH b1 name (batch ++ ws1) (S n) b' B m G1 H) as (ws2 & EB & S2).
    exists (ws1 ++ ws2). split; [rewrite EB, app_assoc; reflexivity|].
    eapply sorted_step_trans; [eapply sorted_st_delete; eauto | exact S2].
Qed.

Lemma sorted_stmt s st m :
  Good s -> is_dml st = true -> e_out (run_stmt s st) = OOk m ->
  sorted_step s (e_store (run_stmt s st)) (e_batch (run_stmt s st)).
Proof.
  intros G Hd Hout. destruct st; try discriminate; cbn [run_stmt] in *.
  - destruct (insert_rows s table cols rows [] 0) as [[b' B] o] eqn:E. cbn [e_out e_batch e_store] in *. subst o.
    destruct (sorted_insert_rows rows s table cols [] 0%nat b' B m G E) as (ws & -> & S). exact S.
  - destruct (existsb _ sets); [discriminate|].
    destruct (where_ids s table where_) as [ids|e|]; try discriminate.
    destruct (update_rows s table _ _ ids []) as [[b' B] o] eqn:E. cbn [e_out e_batch e_store] in *. subst o.
    destruct (sorted_update_rows ids s table _ _ [] b' B m G E) as (ws & -> & S). exact S.
  - destruct (where_ids s table where_) as [ids|e|]; try discriminate.
    destruct (delete_rows s table ids [] 0) as [[b' B] o] eqn:E. cbn [e_out e_batch e_store] in *. subst o.
    destruct (sorted_delete_rows ids s table [] 0%nat b' B m G E) as (ws & -> & S). exact S.
Qed.

(* no statement moves the LSN counter backwards *)
Lemma run_stmt_lsn_mono B s st : B <= nextLSN s -> B <= nextLSN (e_store (run_stmt s st)).
Proof.
  apply (run_stmt_closed (fun s0 => B <= nextLSN s0)).
  - intros s0 root v H. unfold bt_insert. destruct (get_tree s0 root) as [t|e|]; cbn [fst]; auto.
    destruct (tree_insert ML MI PS MV t _ _ v _) as [[t' nf]|e]; cbn [fst nextLSN]; lia.
  - intros s0 pg k g _ H. cbn [nextLSN]. lia.
  - intros s0 H. exact H.
  - intros s0 pt H. exact H.
  - intros s0 H. exact H.
Qed.

(* ---------- page LSNs after one replayed record ---------- *)
Definition pages_below (B : N) (f : list tree) : Prop :=
  Forall (fun t => Forall (fun n => t_lsn n < B) (nodes t)) f.

Lemma pages_below_weaken B B' f : B <= B' -> pages_below B f -> pages_below B' f.
Proof. intros H. apply Forall_nodes_weaken. exact H. Qed.

Lemma pages_below_replace_root B p t' f :
  Forall (fun n => t_lsn n < B) (nodes t') -> pages_below B f -> pages_below B (replace_root p t' f).
Proof.
  intros Ht. induction 1 as [|t f Hh Hf IH]; [constructor|]. cbn [replace_root].
  destruct (N.eqb (t_off t) p); constructor; auto.
Qed.

Lemma pages_below_touch B pg k l g f :
  l < B -> pages_below B f -> pages_below B (touch_forest pg k l g f).
Proof.
  intros Hl H. apply touch_forest_Forall; [|exact H].
  intros t Ht. rewrite touch_nodes, Forall_map. eapply Forall_impl; [|exact Ht]. cbn. intros n Hn.
  destruct (touch_lsn pg k l g n) as [E|E]; rewrite E; lia.
Qed.

Lemma redo_root_move_pages B s o n l :
  l < B -> pages_below B (forest s) -> pages_below B (forest (fst (redo_root_move s o n l))).
Proof.
  intros Hl H. unfold redo_root_move.
  repeat (break_match; cbn [fst]; try exact H).
  cbn [set_forest forest]. apply pages_below_touch; assumption.
Qed.

Lemma replay_one_pages s w s1 B :
  replay_one s w = RCont s1 -> pages_below B (forest s) -> B <= w_lsn w ->
  pages_below (w_lsn w + 1) (forest s1).
Proof.
  intros Hrep Hp HB. assert (Hp' : pages_below (w_lsn w + 1) (forest s)) by (eapply pages_below_weaken; [|exact Hp]; lia).
  unfold replay_one in Hrep. rewrite bump_forest in Hrep.
  destruct (find_node (w_page w) (forest s)) as [[b n]|] eqn:Ef; [|discriminate].
  destruct (N.leb (w_lsn w) (t_lsn n)); [inversion Hrep; subst; rewrite bump_forest; exact Hp'|].
  destruct (w_op w).
  - destruct (negb b); [discriminate|].
    destruct (tree_insert ML MI PS MV n (w_cell w) (w_lsn w) (w_val w) _) as [[t' nf]|e] eqn:Eti.
    + assert (Ht' : Forall (fun x => t_lsn x < w_lsn w + 1) (nodes t')).
      { destruct (tree_insert_nodes _ _ _ _ _ _ _ Eti) as (_ & Bk & _).
        apply Forall_forall. intros x Hx. destruct (Bk x Hx) as [E|(y & Hy & E)]; [lia|].
        destruct (find_node_sound _ _ _ _ Ef) as (t0 & Ht0 & Hin0 & _).
        unfold pages_below in Hp'. rewrite Forall_forall in Hp'. specialize (Hp' t0 Ht0). rewrite Forall_forall in Hp'.
        (* y is a node of n, n a node of t0 *)
        assert (In y (nodes t0)).
        { clear - Hin0 Hy. revert n Hin0 Hy.
          induction t0 as [off l d cells hl hr ls rs | off l d kids rgt IHk IHr] using tree_ind2; intros n Hin0 Hy.
          - destruct Hin0 as [<-|[]]. exact Hy.
          - rewrite nodes_node in Hin0. destruct Hin0 as [<-|Hin0]; [exact Hy|]. rewrite nodes_node. right.
            apply in_app_or in Hin0 as [H|H]; apply in_or_app.
            + left. apply in_kids_nodes in H as (sc & Hsc & Hn). apply in_kids_nodes. exists sc. split; [exact Hsc|].
              rewrite Forall_forall in IHk. eapply IHk; eauto.
            + right. eapply IHr; eauto. }
        rewrite <- E. apply Hp'. assumption. }
      assert (H1 : pages_below (w_lsn w + 1) (replace_root (w_page w) t' (forest s)))
        by (apply pages_below_replace_root; assumption).
      destruct (N.eqb (t_off t') (w_page w)); [inversion Hrep; subst; exact H1|].
      match type of Hrep with context [redo_root_move ?a ?b0 ?c ?d] =>
        pose proof (redo_root_move_pages (w_lsn w + 1) a b0 c d) as Hrp;
        destruct (redo_root_move a b0 c d) as [s2 [u|e|]] end; try discriminate.
      inversion Hrep; subst s2. cbn [fst forest] in Hrp. apply Hrp; [lia | exact H1].
    + destruct e; try discriminate. inversion Hrep; subst. cbn [forest]. rewrite ?bump_forest. exact Hp'.
  - destruct n; [|discriminate]. destruct (Nat.ltb _ _); [discriminate|]. destruct (existsb _ _); [|discriminate].
    inversion Hrep; subst. cbn [set_forest forest]. apply pages_below_touch; [lia | exact Hp'].
  - destruct n; [|discriminate]. destruct (existsb _ _); [|discriminate].
    inversion Hrep; subst. cbn [set_forest forest]. apply pages_below_touch; [lia | exact Hp'].
Qed.

Lemma fresh_run_sorted ws : forall s B, pages_below B (forest s) -> lsn_sorted B ws -> fresh_run s ws.
Proof.
  induction ws as [|w rest IH]; intros s B Hp Hs; [exact I|].
  cbn [lsn_sorted] in Hs. destruct Hs as [HB Hrest]. cbn [fresh_run]. split.
  - unfold fresh. eapply pages_below_weaken; [|exact Hp]. exact HB.
  - destruct (replay_one s w) as [s1| | |] eqn:E; try exact I.
    apply (IH s1 (w_lsn w + 1)); [|exact Hrest]. eapply replay_one_pages; eauto.
Qed.

(* ====================== the hypotheses of torn_recover hold in every reachable system ====================== *)
Definition TornInv (y : sys) : Prop :=
  exists old new, wal y = old ++ new /\ Good (disk y) /\ fclean (forest (disk y)) = forest (disk y) /\
                  LogInv (disk y) old /\ lsn_sorted (nextLSN (disk y)) new /\ nextLSN (disk y) <= nextLSN (mem y).

Lemma flush_clean s : fclean (forest (flush s)) = forest (flush s).
Proof. rewrite flush_forest. apply fclean_idem. Qed.

(* a system whose data file is a completed flush of its cache *)
Lemma tinv_synced y : GL (wal y) (disk y) -> fclean (forest (disk y)) = forest (disk y) ->
  nextLSN (disk y) <= nextLSN (mem y) -> TornInv y.
Proof.
  intros [G L] Hc Hn. exists (wal y), []. rewrite app_nil_r.
  split; [reflexivity|]. split; [exact G|]. split; [exact Hc|]. split; [exact L|]. split; [exact I | exact Hn].
Qed.

Lemma recover_shape y y1 : recover y = Ok y1 ->
  disk y1 = mem y1 /\ fclean (forest (disk y1)) = forest (disk y1).
Proof.
  unfold recover. destruct (replay (disk y) (wal y)) as [s|s|s e|]; try discriminate;
    intros H; inversion H; subst; cbn [disk mem]; split; try reflexivity; apply flush_clean.
Qed.

Lemma tinv_after_recover y1 : Inv y1 -> disk y1 = mem y1 -> fclean (forest (disk y1)) = forest (disk y1) -> TornInv y1.
Proof.
  intros (r & _ & _ & _ & HGL) Hd Hc. apply tinv_synced; [rewrite Hd; exact HGL | exact Hc | rewrite Hd; apply N.le_refl].
Qed.

Lemma flushed_store_clean s st : e_flushed (run_stmt s st) = true ->
  fclean (forest (e_store (run_stmt s st))) = forest (e_store (run_stmt s st)).
Proof.
  destruct st; cbn [run_stmt]; try (cbn; discriminate).
  - destruct (st_create_table s name _) as [s1 [u|e|]]; cbn; try discriminate. intros _. apply flush_clean.
  - destruct (insert_rows s table cols rows [] 0) as [[s1 b] o]. cbn. discriminate.
  - destruct (existsb _ sets); [cbn; discriminate|].
    destruct (where_ids s table where_) as [ids|e|]; try (cbn; discriminate).
    destruct (update_rows s table _ _ ids []) as [[s1 b] o]. cbn. discriminate.
  - destruct (where_ids s table where_) as [ids|e|]; try (cbn; discriminate).
    destruct (delete_rows s table ids [] 0) as [[s1 b] o]. cbn. discriminate.
Qed.

Lemma tinv_stmt y st : Inv y -> TornInv y -> TornInv (fst (exec y st)).
Proof.
  intros (r & Hrep & Hseq & Gr & HGL) (old & new & Hw & Gd & Hc & Lold & Hs & Hn). unfold exec.
  pose proof (log_stmt (wal y) (mem y) st HGL) as HL.
  set (e := run_stmt (mem y) st) in *. cbn [fst].
  destruct (e_flushed e) eqn:Efl.
  - apply tinv_synced; cbn [mem disk wal]; [exact HL | apply flushed_store_clean; exact Efl | apply N.le_refl].
  - pose proof (run_stmt_lsn_mono (nextLSN (disk y)) (mem y) st Hn) as Hn'. fold e in Hn'.
    destruct (is_ok (e_out e)) eqn:Eok.
    + destruct (e_out e) as [m| |] eqn:Eo; try discriminate.
      assert (Hd : is_dml st = true) by (apply (ok_unflushed_is_dml (mem y)); fold e; [rewrite Eo; reflexivity | exact Efl]).
      destruct (sorted_stmt (mem y) st m (proj1 HGL) Hd Eo) as (S1 & S2 & S3). fold e in S1, S2, S3.
      exists old, (new ++ e_batch e). cbn [mem disk wal]. split; [rewrite Hw, app_assoc; reflexivity|].
      split; [exact Gd|]. split; [exact Hc|]. split; [exact Lold|]. split; [|exact Hn'].
      apply (lsn_sorted_app new _ (nextLSN (mem y))); auto.
      destruct HGL as [_ Lm]. rewrite Hw in Lm. apply Forall_app in Lm as [_ Lnew].
      eapply Forall_impl; [|exact Lnew]. intros w [Hlt _]. exact Hlt.
    + exists old, new. cbn [mem disk wal].
      split; [exact Hw|]. split; [exact Gd|]. split; [exact Hc|]. split; [exact Lold|]. split; [exact Hs | exact Hn'].
Qed.

Lemma tinv_step y ev y1 o : Inv y -> TornInv y -> ev_ok y ev -> step y ev = (SOk y1, o) -> TornInv y1.
Proof.
  intros HI HT Hok Hs. pose proof (inv_step y ev y1 o HI Hok Hs) as HI1.
  destruct ev; cbn [ev_ok] in Hok; try contradiction; cbn [step] in Hs.
  - pose proof (tinv_stmt y st HI HT) as H1. destruct (exec y st) as [y2 o2]. cbn [fst] in H1.
    destruct o2; inversion Hs; subst; exact H1.
  - inversion Hs; subst. destruct HI1 as (r & _ & _ & _ & HGL). cbn [do_flush mem disk wal] in *.
    apply tinv_synced; cbn [mem disk wal]; [exact HGL | apply flush_clean | apply N.le_refl].
  - destruct (recover y) as [y2|e|] eqn:Er; inversion Hs; subst.
    destruct (recover_shape _ _ Er) as [A B]. apply tinv_after_recover; assumption.
  - match type of Hs with context [recover ?a] => destruct (recover a) as [y2|e|] eqn:Er end; inversion Hs; subst.
    destruct (recover_shape _ _ Er) as [A B]. apply tinv_after_recover; assumption.
Qed.

Lemma tinv_init : TornInv init_sys.
Proof.
  unfold init_sys. apply tinv_synced; cbn [mem disk wal].
  - split; [apply init_good | constructor].
  - vm_compute. reflexivity.
  - apply N.le_refl.
Qed.

Theorem tinv_run evs : forall y y' os,
  Inv y -> TornInv y -> hist_ok y evs -> run_events y evs = (SOk y', os) -> TornInv y'.
Proof.
  induction evs as [|ev r IH]; intros y y' os HI HT Hok Hr.
  - cbn in Hr. inversion Hr; subst. exact HT.
  - cbn [hist_ok] in Hok. destruct Hok as [Hev Hrest]. cbn [run_events] in Hr.
    destruct (step y ev) as [[y1|e|] o] eqn:Es; try discriminate.
    destruct (run_events y1 r) as [fin os'] eqn:Er. inversion Hr; subst.
    eapply IH; [eapply inv_step; eauto | eapply tinv_step; eauto | exact Hrest | exact Er].
Qed.

(* C04, in-place case: whatever subset W of the dirty leaves reached the file before the crash
   (the header did not), recovery restores every table *)
Theorem torn_flush_recovers y W d :
  reachable_c y -> torn_disk y W = Some d ->
  exists y', recover (mkSys d d (wal y)) = Ok y' /\ seq (mem y') (mem y) /\ abs (mem y') = abs (mem y) /\
             step y (EvTornFlush W) = (SOk y', None).
Proof.
  intros Hy Htd. pose proof (reachable_inv_c y Hy) as HI.
  assert (HT : TornInv y).
  { destruct Hy as (evs & os & Hok & Hr). eapply tinv_run; [apply inv_init | apply tinv_init | exact Hok | exact Hr]. }
  destruct HI as (r & Hrep & Hseq & Gr & [Gm Lm]).
  destruct HT as (old & new & Hw & Gd & Hc & Lold & Hs & Hn).
  unfold torn_disk in Htd.
  destruct (N.eqb_spec (nextFree (mem y)) (nextFree (disk y))) as [Enf|]; [|discriminate].
  destruct (N.eqb_spec (ptRoot (mem y)) (ptRoot (disk y))) as [Ept|]; [|discriminate]. cbn [andb] in Htd.
  destruct (merge_forest W (forest (disk y)) (forest (mem y))) as [fd|] eqn:Em; [|discriminate].
  inversion Htd; subst d. clear Htd.
  assert (Hrn : replay (disk y) new = RCont r).
  { rewrite Hw in Hrep. rewrite (replay_app _ old new (disk y)) in Hrep; [exact Hrep|]. apply replay_inert; assumption. }
  assert (Hfr : fresh_run (disk y) new).
  { apply (fresh_run_sorted new (disk y) (nextLSN (disk y))); [|exact Hs]. destruct Gd as [_ [_ Hl]]. exact Hl. }
  destruct Gm as [[_ Hnm _] _].
  destruct (torn_recover W (disk y) (mem y) old new r fd Gd Hc Hnm Lold Hrn Hseq Hfr Enf Ept Em) as (g' & Hrg & Sg).
  assert (Hrec : recover (mkSys (set_forest (disk y) fd) (set_forest (disk y) fd) (wal y)) =
                 Ok (mkSys (flush g') (flush g') (wal y))).
  { unfold recover. cbn [disk wal]. rewrite Hw, Hrg. reflexivity. }
  assert (Sf : seq (flush g') (mem y)) by (eapply seq_trans; [apply seq_flush | exact Sg]).
  eexists. split; [exact Hrec|]. cbn [mem]. split; [exact Sf|]. split; [apply seq_abs; exact Sf|].
  cbn [step]. unfold torn_disk. rewrite Enf, Ept, !N.eqb_refl. cbn [andb]. rewrite Em, Hrec. reflexivity.
Qed.
