(* Crash theory, part 9 (C04): every reachable system satisfies the hypotheses of torn_recover.
   The log splits into records already reflected in the data file (inert on it) and the records
   logged since the last completed flush, whose LSNs increase strictly from the file's nextLSN
   - so each is above every page LSN when it is replayed. *)
From Coq Require Import Arith Lia Bool List NArith Permutation.
From Mkdb Require Import Model.Engine Proofs.TreeProofs Proofs.StoreInv Proofs.CrashBase Proofs.CrashPages
  Proofs.CrashRedo Proofs.CrashLog Proofs.CrashMain Proofs.CrashPrefix Proofs.CrashTorn Gen.Params.
Import ListNotations.
Local Open Scope N_scope.

(* ---------- strictly increasing LSNs ---------- *)
Fixpoint lsn_sorted (lo : N) (ws : list walentry) : Prop :=
  match ws with
  | [] => True
  | w :: r => lo <= w_lsn w /\ lsn_sorted (w_lsn w + 1) r
  end.

Lemma lsn_sorted_weaken ws lo lo' : lo' <= lo -> lsn_sorted lo ws -> lsn_sorted lo' ws.
Proof. destruct ws as [|w r]; [auto|]. cbn. intros H [A B]. split; [lia | exact B]. Qed.

Lemma lsn_sorted_app a : forall lo hi b,
  lsn_sorted lo a -> Forall (fun w => w_lsn w < hi) a -> lo <= hi -> lsn_sorted hi b -> lsn_sorted lo (a ++ b).
Proof.
  induction a as [|w r IH]; intros lo hi b Ha Hlt Hle Hb.
  - cbn. eapply lsn_sorted_weaken; eauto.
  - cbn [app lsn_sorted] in *. destruct Ha as [A B]. inversion Hlt as [|? ? Hw Hr]; subst.
    split; [exact A|]. apply (IH _ hi); auto. lia.
Qed.

Lemma lsn_sorted_lt ws : forall lo, lsn_sorted lo ws -> Forall (fun w => lo <= w_lsn w) ws.
Proof.
  induction ws as [|w r IH]; intros lo H; [constructor|]. cbn in H. destruct H as [A B].
  constructor; [exact A|]. eapply Forall_impl; [|apply (IH _ B)]. cbn. intros; lia.
Qed.

(* ---------- the batch of a statement is sorted from the statement's starting nextLSN ---------- *)
Lemma bt_insert_lsn b off bs b1 k lsn nr :
  bt_insert b off bs = (b1, Ok (k, lsn, nr)) -> lsn = nextLSN b /\ nextLSN b1 = nextLSN b + 1.
Proof.
  unfold bt_insert. destruct (get_tree b off) as [t|e|]; try discriminate.
  destruct (tree_insert ML MI PS MV t _ _ bs _) as [[t' nf]|e]; [|destruct e; discriminate].
  intros H. inversion H; subst. auto.
Qed.

Definition sorted_step (b b' : store) (ws : list walentry) : Prop :=
  lsn_sorted (nextLSN b) ws /\ Forall (fun w => w_lsn w < nextLSN b') ws /\ nextLSN b <= nextLSN b'.

Lemma sorted_step_trans b b1 b2 ws1 ws2 :
  sorted_step b b1 ws1 -> sorted_step b1 b2 ws2 -> sorted_step b b2 (ws1 ++ ws2).
Proof.
  intros (A1 & B1 & C1) (A2 & B2 & C2). split; [|split; [|lia]].
  - apply (lsn_sorted_app ws1 _ (nextLSN b1)); auto.
  - apply Forall_app. split; [|exact B2]. eapply Forall_impl; [|exact B1]. cbn. intros; lia.
Qed.

Lemma sorted_step_nil b : sorted_step b b [].
Proof. split; [exact I|]. split; [constructor | lia]. Qed.

Lemma sorted_touched b pg key g op bs :
  sorted_step b (touched b pg key g) [mkWal op (nextLSN b) pg key bs].
Proof.
  split; [cbn; split; [lia | exact I]|]. split; [constructor; [cbn; lia | constructor] | cbn; lia].
Qed.

Lemma sorted_st_insert b name cols vals b2 ws :
  Good b -> st_insert b name cols vals = (b2, Ok ws) -> sorted_step b b2 ws.
Proof.
  intros G Hst.
  destruct (st_insert_shape _ _ _ _ _ _ Hst) as (off & bs & b1 & k & lsn & nr & _ & _ & Hbt & Hcase).
  destruct (bt_insert_lsn _ _ _ _ _ _ _ Hbt) as [-> Hn1].
  assert (S1 : sorted_step b b1 [mkWal OpInsert (nextLSN b) off k bs]).
  { split; [cbn; split; [lia | exact I]|]. split; [constructor; [cbn; lia | constructor] | lia]. }
  destruct Hcase as [(-> & -> & ->)|(Hne & ws' & Hup & ->)]; [exact S1|].
  assert (G1 : Good b1).
  { replace b1 with (fst (bt_insert b off bs)) by (rewrite Hbt; reflexivity). apply good_bt_insert. exact G. }
  destruct (update_page_table_shape b1 nr name b2 ws' G1 Hup) as (pg & key & bs' & _ & _ & -> & ->).
  apply (sorted_step_trans b b1 _ [_] [_] S1). apply sorted_touched.
Qed.

Lemma sorted_st_update b name rowid cols vals b1 ws :
  Good b -> st_update b name rowid cols vals = (b1, Ok ws) -> sorted_step b b1 ws.
Proof.
  intros G Hst. destruct (st_update_shape _ _ _ _ _ _ _ G Hst) as [(-> & ->)|(pg & bs & _ & _ & -> & ->)].
  - apply sorted_step_nil.
  - apply sorted_touched.
Qed.

Lemma sorted_st_delete b name rowid b1 ws :
  st_delete b name rowid = (b1, Ok ws) -> sorted_step b b1 ws.
Proof. intros Hst. destruct (st_delete_shape _ _ _ _ _ Hst) as (pg & _ & -> & ->). apply sorted_touched. Qed.

Lemma gl_nil s : Good s <-> GL [] s.
Proof. split; [intros G; split; [exact G | constructor] | intros [G _]; exact G]. Qed.

Lemma sorted_insert_rows rows : forall b name cols batch n b' B m,
  Good b -> insert_rows b name cols rows batch n = (b', B, OOk m) ->
  exists ws, B = batch ++ ws /\ sorted_step b b' ws.
Proof.
  induction rows as [|r rest IH]; intros b name cols batch n b' B m G H.
  - cbn in H. inversion H; subst. exists []. rewrite app_nil_r. split; [reflexivity | apply sorted_step_nil].
  - cbn [insert_rows] in H. destruct (st_insert b name cols r) as [b1 [ws1|e|]] eqn:Est; try discriminate.
    pose proof (log_st_insert [] b name cols r b1 ws1 (proj1 (gl_nil b) G) Est) as [G1 _].
    destruct (IH b1 name cols (batch ++ ws1) (S n) b' B m G1 H) as (ws2 & EB & S2).
    exists (ws1 ++ ws2). split; [rewrite EB, app_assoc; reflexivity|].
    eapply sorted_step_trans; [eapply sorted_st_insert; eauto | exact S2].
Qed.

Lemma sorted_update_rows ids : forall b name cols vals batch b' B m,
  Good b -> update_rows b name cols vals ids batch = (b', B, OOk m) ->
  exists ws, B = batch ++ ws /\ sorted_step b b' ws.
Proof.
  induction ids as [|k rest IH]; intros b name cols vals batch b' B m G H.
  - cbn in H. inversion H; subst. exists []. rewrite app_nil_r. split; [reflexivity | apply sorted_step_nil].
  - cbn [update_rows] in H. destruct (st_update b name k cols vals) as [b1 [ws1|e|]] eqn:Est; try discriminate.
    pose proof (log_st_update [] b name k cols vals b1 ws1 (proj1 (gl_nil b) G) Est) as [G1 _].
    destruct (IH b1 name cols vals (batch ++ ws1) b' B m G1 H) as (ws2 & EB & S2).
    exists (ws1 ++ ws2). split; [rewrite EB, app_assoc; reflexivity|].
    eapply sorted_step_trans; [eapply sorted_st_update; eauto | exact S2].
Qed.

Lemma sorted_delete_rows ids : forall b name batch n b' B m,
  Good b -> delete_rows b name ids batch n = (b', B, OOk m) ->
  exists ws, B = batch ++ ws /\ sorted_step b b' ws.
Proof.
  induction ids as [|k rest IH]; intros b name batch n b' B m G H.
  - cbn in H. inversion H; subst. exists []. rewrite app_nil_r. split; [reflexivity | apply sorted_step_nil].
  - cbn [delete_rows] in H. destruct (st_delete b name k) as [b1 [ws1|e|]] eqn:Est; try discriminate.
    pose proof (log_st_delete [] b name k b1 ws1 (proj1 (gl_nil b) G) Est) as [G1 _].
    destruct (IH b1 name (batch ++ ws1) (S n) b' B m G1 H) as (ws2 & EB & S2).
    exists (ws1 ++ ws2). split; [rewrite EB, app_assoc; reflexivity|].
    eapply sorted_step_trans; [eapply sorted_st_delete; eauto | exact S2].
Qed.

Lemma sorted_stmt s st m :
  Good s -> is_dml st = true -> e_out (run_stmt s st) = OOk m ->
  sorted_step s (e_store (run_stmt s st)) (e_batch (run_stmt s st)).
Proof.
  intros G Hd Hout. destruct st; try discriminate; cbn [run_stmt] in *.
  - destruct (first_err _ rows) as [u|e0|]; try discriminate.
    destruct (insert_rows s table cols rows [] 0) as [[b' B] o] eqn:E. cbn [e_out e_batch e_store] in *. subst o.
    destruct (sorted_insert_rows rows s table cols [] 0%nat b' B m G E) as (ws & -> & S). exact S.
  - destruct (existsb _ sets); [discriminate|].
    destruct (where_ids s table where_) as [ids|e|]; try discriminate.
    destruct (first_err _ ids) as [u|e0|]; try discriminate.
    destruct (update_rows s table _ _ ids []) as [[b' B] o] eqn:E. cbn [e_out e_batch e_store] in *. subst o.
    destruct (sorted_update_rows ids s table _ _ [] b' B m G E) as (ws & -> & S). exact S.
  - destruct (where_ids s table where_) as [ids|e|]; try discriminate.
    destruct (delete_rows s table ids [] 0) as [[b' B] o] eqn:E. cbn [e_out e_batch e_store] in *. subst o.
    destruct (sorted_delete_rows ids s table [] 0%nat b' B m G E) as (ws & -> & S). exact S.
Qed.

(* no statement moves the LSN counter backwards *)
Lemma run_stmt_lsn_mono B s st : B <= nextLSN s -> B <= nextLSN (e_store (run_stmt s st)).
Proof.
  apply (run_stmt_closed (fun s0 => B <= nextLSN s0)).
  - intros s0 root v H. unfold bt_insert. destruct (get_tree s0 root) as [t|e|]; cbn [fst]; auto.
    destruct (tree_insert ML MI PS MV t _ _ v _) as [[t' nf]|e]; cbn [fst nextLSN]; lia.
  - intros s0 pg k g _ H. cbn [nextLSN]. lia.
  - intros s0 H. exact H.
  - intros s0 pt H. exact H.
  - intros s0 H. exact H.
Qed.

(* ---------- page LSNs after one replayed record ---------- *)
Definition pages_below (B : N) (f : list tree) : Prop :=
  Forall (fun t => Forall (fun n => t_lsn n < B) (nodes t)) f.

Lemma pages_below_weaken B B' f : B <= B' -> pages_below B f -> pages_below B' f.
Proof. intros H. apply Forall_nodes_weaken. exact H. Qed.

Lemma pages_below_replace_root B p t' f :
  Forall (fun n => t_lsn n < B) (nodes t') -> pages_below B f -> pages_below B (replace_root p t' f).
Proof.
  intros Ht. induction 1 as [|t f Hh Hf IH]; [constructor|]. cbn [replace_root].
  destruct (N.eqb (t_off t) p); constructor; auto.
Qed.

Lemma pages_below_touch B pg k l g f :
  l < B -> pages_below B f -> pages_below B (touch_forest pg k l g f).
Proof.
  intros Hl H. apply touch_forest_Forall; [|exact H].
  intros t Ht. rewrite touch_nodes, Forall_map. eapply Forall_impl; [|exact Ht]. cbn. intros n Hn.
  destruct (touch_lsn pg k l g n) as [E|E]; rewrite E; lia.
Qed.

Lemma redo_root_move_pages B s o n l :
  l < B -> pages_below B (forest s) -> pages_below B (forest (fst (redo_root_move s o n l))).
Proof.
  intros Hl H. unfold redo_root_move.
  repeat (break_match; cbn [fst]; try exact H).
  cbn [set_forest forest]. apply pages_below_touch; assumption.
Qed.

Lemma replay_one_pages s w s1 B :
  replay_one s w = RCont s1 -> pages_below B (forest s) -> B <= w_lsn w ->
  pages_below (w_lsn w + 1) (forest s1).
Proof.
  intros Hrep Hp HB. assert (Hp' : pages_below (w_lsn w + 1) (forest s)) by (eapply pages_below_weaken; [|exact Hp]; lia).
  unfold replay_one in Hrep. fold (pre s w) in Hrep. rewrite pre_forest in Hrep.
  destruct (find_node (w_page w) (forest s)) as [[b n]|] eqn:Ef; [|discriminate].
  destruct (N.leb (w_lsn w) (t_lsn n)); [inversion Hrep; subst; rewrite pre_forest; exact Hp'|].
  destruct (w_op w).
  - destruct (negb b); [discriminate|].
    destruct (tree_insert ML MI PS MV n (w_cell w) (w_lsn w) (w_val w) _) as [[t' nf]|e] eqn:Eti.
    + assert (Ht' : Forall (fun x => t_lsn x < w_lsn w + 1) (nodes t')).
      { destruct (tree_insert_nodes _ _ _ _ _ _ _ Eti) as (_ & Bk & _).
        apply Forall_forall. intros x Hx. destruct (Bk x Hx) as [E|(y & Hy & E)]; [lia|].
        destruct (find_node_sound _ _ _ _ Ef) as (t0 & Ht0 & Hin0 & _).
        unfold pages_below in Hp'. rewrite Forall_forall in Hp'. specialize (Hp' t0 Ht0). rewrite Forall_forall in Hp'.
        (* y is a node of n, n a node of t0 *)
        assert (In y (nodes t0)).
        { clear - Hin0 Hy. revert n Hin0 Hy.
          induction t0 as [off l d cells hl hr ls rs | off l d kids rgt IHk IHr] using tree_ind2; intros n Hin0 Hy.
          - destruct Hin0 as [<-|[]]. exact Hy.
          - rewrite nodes_node in Hin0. destruct Hin0 as [<-|Hin0]; [exact Hy|]. rewrite nodes_node. right.
            apply in_app_or in Hin0 as [H|H]; apply in_or_app.
            + left. apply in_kids_nodes in H as (sc & Hsc & Hn). apply in_kids_nodes. exists sc. split; [exact Hsc|].
              rewrite Forall_forall in IHk. eapply IHk; eauto.
            + right. eapply IHr; eauto. }
        rewrite <- E. apply Hp'. assumption. }
      assert (H1 : pages_below (w_lsn w + 1) (replace_root (w_page w) t' (forest s)))
        by (apply pages_below_replace_root; assumption).
      destruct (N.eqb (t_off t') (w_page w)); [inversion Hrep; subst; exact H1|].
      match type of Hrep with context [redo_root_move ?a ?b0 ?c ?d] =>
        pose proof (redo_root_move_pages (w_lsn w + 1) a b0 c d) as Hrp;
        destruct (redo_root_move a b0 c d) as [s2 [u|e|]] end; try discriminate.
      inversion Hrep; subst s2. cbn [fst forest] in Hrp. apply Hrp; [lia | exact H1].
    + destruct e; try discriminate. inversion Hrep; subst. cbn [forest]. rewrite ?pre_forest. exact Hp'.
  - destruct n; [|discriminate]. destruct (Nat.ltb _ _); [discriminate|]. destruct (existsb _ _); [|discriminate].
    inversion Hrep; subst. cbn [set_forest forest]. apply pages_below_touch; [lia | exact Hp'].
  - destruct n; [|discriminate]. destruct (existsb _ _); [|discriminate].
    inversion Hrep; subst. cbn [set_forest forest]. apply pages_below_touch; [lia | exact Hp'].
Qed.

Lemma fresh_run_sorted ws : forall s B, pages_below B (forest s) -> lsn_sorted B ws -> fresh_run s ws.
Proof.
  induction ws as [|w rest IH]; intros s B Hp Hs; [exact I|].
  cbn [lsn_sorted] in Hs. destruct Hs as [HB Hrest]. cbn [fresh_run]. split.
  - unfold fresh. eapply pages_below_weaken; [|exact Hp]. exact HB.
  - destruct (replay_one s w) as [s1| | |] eqn:E; try exact I.
    apply (IH s1 (w_lsn w + 1)); [|exact Hrest]. eapply replay_one_pages; eauto.
Qed.

(* ====================== the hypotheses of torn_recover hold in every reachable system ====================== *)
Definition TornInv (y : sys) : Prop :=
  exists old new, wal y = old ++ new /\ Good (disk y) /\ fclean (forest (disk y)) = forest (disk y) /\
                  LogInv (disk y) old /\ lsn_sorted (nextLSN (disk y)) new /\ nextLSN (disk y) <= nextLSN (mem y).

Lemma flush_clean s : fclean (forest (flush s)) = forest (flush s).
Proof. rewrite flush_forest. apply fclean_idem. Qed.

(* a system whose data file is a completed flush of its cache *)
Lemma tinv_synced y : GL (wal y) (disk y) -> fclean (forest (disk y)) = forest (disk y) ->
  nextLSN (disk y) <= nextLSN (mem y) -> TornInv y.
Proof.
  intros [G L] Hc Hn. exists (wal y), []. rewrite app_nil_r.
  split; [reflexivity|]. split; [exact G|]. split; [exact Hc|]. split; [exact L|]. split; [exact I | exact Hn].
Qed.

Lemma recover_shape y y1 : recover y = Ok y1 ->
  disk y1 = mem y1 /\ fclean (forest (disk y1)) = forest (disk y1).
Proof.
  unfold recover. destruct (replay (disk y) (wal y)) as [s|s|s e|]; try discriminate;
    intros H; inversion H; subst; cbn [disk mem]; split; try reflexivity; apply flush_clean.
Qed.

Lemma tinv_after_recover y1 : Inv y1 -> disk y1 = mem y1 -> fclean (forest (disk y1)) = forest (disk y1) -> TornInv y1.
Proof.
  intros (r & _ & _ & _ & HGL) Hd Hc. apply tinv_synced; [rewrite Hd; exact HGL | exact Hc | rewrite Hd; apply N.le_refl].
Qed.

Lemma flushed_store_clean s st : e_flushed (run_stmt s st) = true ->
  fclean (forest (e_store (run_stmt s st))) = forest (e_store (run_stmt s st)).
Proof.
  destruct st; cbn [run_stmt]; try (cbn; discriminate).
  - destruct (st_create_table s name _) as [s1 [u|e|]]; cbn; try discriminate. intros _. apply flush_clean.
  - destruct (first_err _ rows) as [u|e|]; try (cbn; discriminate).
    destruct (insert_rows s table cols rows [] 0) as [[s1 b] o]. cbn. discriminate.
  - destruct (existsb _ sets); [cbn; discriminate|].
    destruct (where_ids s table where_) as [ids|e|]; try (cbn; discriminate).
    destruct (first_err _ ids) as [u|e|]; try (cbn; discriminate).
    destruct (update_rows s table _ _ ids []) as [[s1 b] o]. cbn. discriminate.
  - destruct (where_ids s table where_) as [ids|e|]; try (cbn; discriminate).
    destruct (delete_rows s table ids [] 0) as [[s1 b] o]. cbn. discriminate.
Qed.

Lemma tinv_stmt y st : Inv y -> TornInv y -> TornInv (fst (exec y st)).
Proof.
  intros (r & Hrep & Hseq & Gr & HGL) (old & new & Hw & Gd & Hc & Lold & Hs & Hn). unfold exec.
  pose proof (log_stmt (wal y) (mem y) st HGL) as HL.
  set (e := run_stmt (mem y) st) in *. cbn [fst].
  destruct (e_flushed e) eqn:Efl.
  - apply tinv_synced; cbn [mem disk wal]; [exact HL | apply flushed_store_clean; exact Efl | apply N.le_refl].
  - pose proof (run_stmt_lsn_mono (nextLSN (disk y)) (mem y) st Hn) as Hn'. fold e in Hn'.
    destruct (is_ok (e_out e)) eqn:Eok.
    + destruct (e_out e) as [m| |] eqn:Eo; try discriminate.
      assert (Hd : is_dml st = true) by (apply (ok_unflushed_is_dml (mem y)); fold e; [rewrite Eo; reflexivity | exact Efl]).
      destruct (sorted_stmt (mem y) st m (proj1 HGL) Hd Eo) as (S1 & S2 & S3). fold e in S1, S2, S3.
      exists old, (new ++ e_batch e). cbn [mem disk wal]. split; [rewrite Hw, app_assoc; reflexivity|].
      split; [exact Gd|]. split; [exact Hc|]. split; [exact Lold|]. split; [|exact Hn'].
      apply (lsn_sorted_app new _ (nextLSN (mem y))); auto.
      destruct HGL as [_ Lm]. rewrite Hw in Lm. apply Forall_app in Lm as [_ Lnew].
      eapply Forall_impl; [|exact Lnew]. intros w [Hlt _]. exact Hlt.
    + exists old, new. cbn [mem disk wal].
      split; [exact Hw|]. split; [exact Gd|]. split; [exact Hc|]. split; [exact Lold|]. split; [exact Hs | exact Hn'].
Qed.

Lemma tinv_init : TornInv init_sys.
Proof.
  unfold init_sys. apply tinv_synced; cbn [mem disk wal].
  - split; [apply init_good | constructor].
  - vm_compute. reflexivity.
  - apply N.le_refl.
Qed.


(* ---------- the exact counters after a replay: they do not depend on the pages ---------- *)
Fixpoint key_fold (k : N) (ws : list walentry) : N :=
  match ws with
  | [] => k
  | w :: r => key_fold (match w_op w with OpInsert => N.max k (w_cell w) | _ => k end) r
  end.

Fixpoint lsn_fold (l : N) (ws : list walentry) : N :=
  match ws with [] => l | w :: r => lsn_fold (N.max l (w_lsn w + 1)) r end.

Lemma pre_exact s w :
  lastKey (pre s w) = match w_op w with OpInsert => N.max (lastKey s) (w_cell w) | _ => lastKey s end /\
  nextLSN (pre s w) = N.max (nextLSN s) (w_lsn w + 1).
Proof.
  unfold pre, bump_key, bump_lsn.
  destruct (N.leb_spec (nextLSN s) (w_lsn w)); destruct (w_op w); cbn [lastKey nextLSN]; split; lia.
Qed.

Lemma replay_one_exact s w s1 : replay_one s w = RCont s1 ->
  lastKey s1 = match w_op w with OpInsert => N.max (lastKey s) (w_cell w) | _ => lastKey s end /\
  nextLSN s1 = N.max (nextLSN s) (w_lsn w + 1).
Proof.
  unfold replay_one. fold (pre s w). destruct (pre_exact s w) as [A B]. set (s0 := pre s w) in *.
  destruct (find_node (w_page w) (forest s0)) as [[isroot n]|]; [|discriminate].
  destruct (N.leb (w_lsn w) (t_lsn n)); [intros H; inversion H; subst; auto|].
  destruct (w_op w) eqn:Eop.
  - destruct (negb isroot); [discriminate|].
    destruct (tree_insert ML MI PS MV n (w_cell w) (w_lsn w) (w_val w) (nextFree s0)) as [[t' nf]|e].
    + destruct (N.eqb (t_off t') (w_page w)); [intros H; inversion H; subst; cbn [nextLSN lastKey]; split; [lia | exact B]|].
      match goal with |- context [redo_root_move ?a ?b ?c ?d] =>
        pose proof (redo_root_move_lsn a b c d) as L; pose proof (redo_root_move_key a b c d) as K;
        destruct (redo_root_move a b c d) as [s2 [u|e|]] end;
        try discriminate.
      intros H; inversion H; subst. cbn [fst nextLSN lastKey] in L, K. rewrite L, K. split; [lia | exact B].
    + destruct e; try discriminate. intros H; inversion H; subst; cbn [nextLSN lastKey]; split; [lia | exact B].
  - destruct n; [|discriminate]. destruct (Nat.ltb MV _); [discriminate|].
    destruct (existsb _ _); [|discriminate]. intros H; inversion H; subst; cbn [set_forest nextLSN lastKey]; auto.
  - destruct n; [|discriminate].
    destruct (existsb _ _); [|discriminate]. intros H; inversion H; subst; cbn [set_forest nextLSN lastKey]; auto.
Qed.

Lemma replay_exact ws : forall s r, replay s ws = RCont r ->
  lastKey r = key_fold (lastKey s) ws /\ nextLSN r = lsn_fold (nextLSN s) ws.
Proof.
  induction ws as [|w rest IH]; intros s r H.
  - cbn in H. inversion H; subst. auto.
  - cbn [replay] in H. destruct (replay_one s w) as [s1| | |] eqn:E; try discriminate.
    destruct (replay_one_exact _ _ _ E) as [A B]. destruct (IH _ _ H) as [C D].
    cbn [key_fold lsn_fold]. rewrite <- A, <- B. auto.
Qed.

Lemma key_fold_mono ws : forall k k', k <= k' -> key_fold k ws <= key_fold k' ws.
Proof.
  induction ws as [|w r IH]; intros k k' H; [exact H|]. cbn [key_fold]. apply IH. destruct (w_op w); lia.
Qed.
Lemma key_fold_ge ws : forall k, k <= key_fold k ws.
Proof.
  induction ws as [|w r IH]; intros k; [cbn; lia|]. cbn [key_fold].
  eapply N.le_trans; [|apply IH]. destruct (w_op w); lia.
Qed.
Lemma key_fold_app a b k : key_fold k (a ++ b) = key_fold (key_fold k a) b.
Proof. revert k. induction a as [|w r IH]; intros k; [reflexivity|]. cbn [app key_fold]. apply IH. Qed.

Lemma lsn_fold_mono ws : forall k k', k <= k' -> lsn_fold k ws <= lsn_fold k' ws.
Proof. induction ws as [|w r IH]; intros k k' H; [exact H|]. cbn [lsn_fold]. apply IH. lia. Qed.
Lemma lsn_fold_ge ws : forall k, k <= lsn_fold k ws.
Proof.
  induction ws as [|w r IH]; intros k; [cbn; lia|]. cbn [lsn_fold]. eapply N.le_trans; [|apply IH]. lia.
Qed.
Lemma lsn_fold_app a b k : lsn_fold k (a ++ b) = lsn_fold (lsn_fold k a) b.
Proof. revert k. induction a as [|w r IH]; intros k; [reflexivity|]. cbn [app lsn_fold]. apply IH. Qed.

(* C11's invariant and the LSN discipline carry over to a store with the same pages and
   counters at least as large *)
Lemma good_transfer a b : seq a b -> Good b -> lastKey b <= lastKey a -> nextLSN b <= nextLSN a -> Good a.
Proof.
  intros [Hf Hp Hn] [[Bw Bn Bk] [Bl1 Bl2]] Hk Hl. split.
  - constructor.
    + rewrite Hn. apply (fclean_Forall _ _ _ Hf); [|exact Bw]. intros t t' E H.
      apply (erase_WFT false). rewrite E. apply (erase_WFT false). exact H.
    + rewrite (fclean_all_offsets _ _ Hf). exact Bn.
    + assert (Bk' : Forall (fun t => Forall (fun x => x <= lastKey a) (tree_keys t)) (forest b)).
      { eapply Forall_impl; [|exact Bk]. cbn. intros t H. eapply Forall_impl; [|exact H]. cbn. intros; lia. }
      apply (fclean_Forall _ _ _ Hf); [|exact Bk']. intros t t' E H.
      rewrite <- (erase_keys false t), E, erase_keys. exact H.
  - split; [lia|].
    assert (Bl' : Forall (fun t => Forall (fun n => t_lsn n < nextLSN a) (nodes t)) (forest b))
      by (eapply Forall_nodes_weaken; [exact Hl | exact Bl2]).
    apply (fclean_Forall _ _ _ Hf); [|exact Bl']. intros t t' E H.
    rewrite Forall_forall in *. intros n Hn'.
    destruct (erase_eq_nodes t t' n (eq_sym E) Hn') as (n' & Hin & En).
    rewrite <- (erase_lsn n), <- En, erase_lsn. apply H. exact Hin.
Qed.

(* C04, in-place case: whatever subset W of the dirty leaves reached the file before the crash
   (the header did not), recovery restores every table, and the recovered system satisfies the
   invariants again (in particular: every key <= lastKey, every page LSN < nextLSN) *)
Theorem torn_flush_inv y W d :
  Inv y -> TornInv y -> torn_disk y W = Some d ->
  exists y', recover (mkSys d d (wal y)) = Ok y' /\ seq (mem y') (mem y) /\ abs (mem y') = abs (mem y) /\
             step y (EvTornFlush W) = (SOk y', None) /\ Inv y' /\ TornInv y'.
Proof.
  intros HI HT Htd.
  destruct HI as (r & Hrep & Hseq & Gr & [Gm Lm]).
  destruct HT as (old & new & Hw & Gd & Hc & Lold & Hs & Hn).
  unfold torn_disk in Htd.
  destruct (N.eqb_spec (nextFree (mem y)) (nextFree (disk y))) as [Enf|]; [|discriminate].
  destruct (N.eqb_spec (ptRoot (mem y)) (ptRoot (disk y))) as [Ept|]; [|discriminate]. cbn [andb] in Htd.
  destruct (merge_forest W (forest (disk y)) (forest (mem y))) as [fd|] eqn:Em; [|discriminate].
  inversion Htd; subst d. clear Htd.
  assert (Hro : replay (disk y) old = RCont (disk y)) by (apply replay_inert; assumption).
  assert (Hrn : replay (disk y) new = RCont r).
  { rewrite Hw in Hrep. rewrite (replay_app _ old new (disk y) Hro) in Hrep. exact Hrep. }
  assert (Hfr : fresh_run (disk y) new).
  { apply (fresh_run_sorted new (disk y) (nextLSN (disk y))); [|exact Hs]. destruct Gd as [_ [_ Hl]]. exact Hl. }
  pose proof Gm as [[_ Hnm _] _].
  destruct (torn_recover W (disk y) (mem y) old new r fd Gd Hc Hnm Lold Hrn Hseq Hfr Enf Ept Em) as (g' & Hrg & Sg).
  set (d := set_forest (disk y) fd) in *.
  assert (Hrec : recover (mkSys d d (wal y)) = Ok (mkSys (flush g') (flush g') (wal y))).
  { unfold recover. cbn [disk wal]. rewrite Hw, Hrg. reflexivity. }
  (* counters of the recovered store dominate those of the replay from the old file *)
  destruct (replay_exact _ _ _ Hrg) as [Kg Lg]. destruct (replay_exact _ _ _ Hrn) as [Kr Lr].
  change (lastKey d) with (lastKey (disk y)) in Kg. change (nextLSN d) with (nextLSN (disk y)) in Lg.
  assert (Hkle : lastKey r <= lastKey g').
  { rewrite Kg, Kr, key_fold_app. apply key_fold_mono. apply key_fold_ge. }
  assert (Hlle : nextLSN r <= nextLSN g').
  { rewrite Lg, Lr, lsn_fold_app. apply lsn_fold_mono. apply lsn_fold_ge. }
  assert (Sgr : seq g' r) by (eapply seq_trans; [exact Sg | apply seq_sym; exact Hseq]).
  pose proof (good_transfer g' r Sgr Gr Hkle Hlle) as Gg.
  pose proof (good_flush g' Gg) as Gf.
  assert (Sf : seq (flush g') (mem y)) by (eapply seq_trans; [apply seq_flush | exact Sg]).
  assert (HGL : GL (wal y) (flush g')).
  { split; [exact Gf|]. rewrite <- Hw in Hrg.
    destruct (replay_lsn _ _ _ Hrg) as [_ Hb]. destruct (replay_key _ _ _ Hrg) as [_ Hk].
    unfold LogInv in *. rewrite Forall_forall in *. intros w Hw0.
    apply (rec_inert_seq (flush g') (mem y) w Sf); [apply Hb; exact Hw0 | apply Hk; exact Hw0 | apply Lm; exact Hw0]. }
  assert (HI' : Inv (mkSys (flush g') (flush g') (wal y))).
  { exists (flush g'). cbn [mem disk wal]. split; [apply replay_inert; apply HGL|].
    split; [apply seq_refl|]. split; [exact Gf | exact HGL]. }
  eexists. split; [exact Hrec|]. cbn [mem]. split; [exact Sf|]. split; [apply seq_abs; exact Sf|].
  split; [|split; [exact HI'|]].
  - cbn [step]. unfold torn_disk. rewrite Enf, Ept, !N.eqb_refl. cbn [andb]. rewrite Em. fold d. rewrite Hrec. reflexivity.
  - apply tinv_synced; cbn [mem disk wal]; [exact HGL | apply flush_clean | apply N.le_refl].
Qed.

(* ====================== a second crash, inside the flush that ends recovery ====================== *)
(* whether a torn file exists does not depend on which pages were written *)
Lemma merge_tree_indep W W' a : forall b x, merge_tree W a b = Some x -> exists x', merge_tree W' a b = Some x'.
Proof.
  induction a as [od ld dd cd hld hrd lsd rsd | od ld dd kd rd IHk IHr] using tree_ind2; intros b x H.
  - destruct b as [om lm dm cm hlm hrm lsm rsm|]; [|discriminate]. cbn [merge_tree] in *.
    destruct (N.eqb od om); [eauto | discriminate].
  - destruct b as [|om lm dm km rm]; [discriminate|]. rewrite merge_tree_node in *.
    destruct (N.eqb od om && N.eqb ld lm && negb dm); [|discriminate].
    destruct (merge_kids W kd km) as [k|] eqn:Ek; [|discriminate].
    destruct (merge_tree W rd rm) as [r|] eqn:Er; [|discriminate].
    destruct (IHr _ _ Er) as (r' & ->).
    assert (G : exists k', merge_kids W' kd km = Some k').
    { clear - IHk Ek. revert km k Ek. induction kd as [|[sa ca] ra IH]; intros [|[sb cb] rb] k Ek; cbn [merge_kids] in *; try discriminate.
      - eauto.
      - destruct (N.eqb sa sb); [|discriminate].
        destruct (merge_tree W ca cb) as [c|] eqn:Ec; [|discriminate].
        destruct (merge_kids W ra rb) as [r0|] eqn:Er0; [|discriminate].
        inversion IHk as [|? ? Hca Hra]; subst. cbn [snd] in Hca.
        destruct (Hca _ _ Ec) as (c' & ->). destruct (IH Hra _ _ Er0) as (r' & ->). eauto. }
    destruct G as (k' & ->). eauto.
Qed.

Lemma merge_forest_indep W W' : forall a b x, merge_forest W a b = Some x -> exists x', merge_forest W' a b = Some x'.
Proof.
  induction a as [|t a IH]; intros [|u b] x H; cbn [merge_forest] in *; try discriminate; [eauto|].
  destruct (merge_tree W t u) as [c|] eqn:Ec; [|discriminate].
  destruct (merge_forest W a b) as [r|] eqn:Er; [|discriminate].
  destruct (merge_tree_indep W W' _ _ _ Ec) as (c' & ->). destruct (IH _ _ Er) as (r' & ->). eauto.
Qed.

Lemma inW_app W W2 o : inW (W ++ W2) o = inW W o || inW W2 o.
Proof. unfold inW. apply existsb_app. Qed.

Lemma mix_mix W W2 fin l : fin_ok fin -> mixfun W2 fin (mixfun W fin l) = mixfun (W ++ W2) fin l.
Proof.
  intros Hf. unfold mixfun. rewrite inW_app. destruct (inW W (t_off l)) eqn:E; cbn [orb].
  - destruct (Hf (t_off l)) as [_ Ho]. rewrite Ho. destruct (inW W2 (t_off l)); reflexivity.
  - reflexivity.
Qed.

Lemma clean_leaves t l : erase false t = t -> In l (leaves t) -> erase false l = l.
Proof.
  intros Ht Hl. assert (H : map (erase false) (leaves t) = leaves t) by (rewrite <- erase_leaves, Ht; reflexivity).
  clear Ht. induction (leaves t) as [|x r IH]; [contradiction|]. cbn [map] in H. injection H as Hx Hr.
  destruct Hl as [->|Hl]; auto.
Qed.

Lemma erase_repl_clean sg t :
  lp sg -> erase false t = t -> (forall l, In l (leaves t) -> erase false (sg l) = sg l) ->
  erase false (repl sg t) = repl sg t.
Proof.
  intros Hlp. induction t as [off l d cells hl hr ls rs | off l d kids rgt IHk IHr] using tree_ind2; intros Hc H.
  - cbn [repl]. apply H. left. reflexivity.
  - rewrite erase_node in Hc. injection Hc as Hd Hkc Hrc. subst d.
    rewrite repl_node, erase_node. rewrite leaves_node in H. f_equal.
    + unfold ekids, rkids. rewrite map_kids_map.
      apply (map_kids_ext (fun t => erase false (repl sg t)) (repl sg)).
      rewrite Forall_forall in *. intros sc Hsc. apply IHk; [exact Hsc | |].
      * clear - Hkc Hsc. unfold ekids in Hkc. induction kids as [|[s c] r IH]; [contradiction|].
        cbn [map fst snd] in Hkc. injection Hkc as Hc Hr. destruct Hsc as [<-|Hsc]; [exact Hc | apply IH; assumption].
      * intros x Hx. apply H. apply in_or_app. left. unfold kids_leaves. apply in_flat_map. eauto.
    + apply IHr; [exact Hrc|]. intros x Hx. apply H. apply in_or_app. right. exact Hx.
Qed.

Lemma fin_of_clean R o : erase false (fin_of R o) = fin_of R o.
Proof. unfold fin_of. destruct (find _ _); [apply erase_idem | reflexivity]. Qed.

(* the file left by a torn flush of the recovery that followed a torn flush is the file a single
   torn flush of the original system would have left, with both page sets written *)
Theorem torn_twice y W d g' W2 d2 :
  Inv y -> TornInv y -> torn_disk y W = Some d -> replay d (wal y) = RCont g' ->
  torn_disk (mkSys g' d (wal y)) W2 = Some d2 ->
  torn_disk y (W ++ W2) = Some d2.
Proof.
  intros HI HT Htd Hrg Htd2.
  destruct (torn_flush_inv y W d HI HT Htd) as (y' & Hrec & Sy & _ & _ & HI' & _).
  unfold recover in Hrec. cbn [disk wal] in Hrec. rewrite Hrg in Hrec. inversion Hrec; subst y'. clear Hrec.
  cbn [mem] in Sy. assert (Sg : seq g' (mem y)) by (eapply seq_trans; [apply seq_sym; apply seq_flush | exact Sy]).
  destruct HI as (r & Hrep & Hseq & Gr & [Gm Lm]).
  destruct HT as (old & new & Hw & Gd & Hc & Lold & Hs & Hn).
  pose proof Gm as [[_ Hnm _] _].
  unfold torn_disk in *. cbn [mem disk] in *.
  destruct (N.eqb_spec (nextFree (mem y)) (nextFree (disk y))) as [Enf|]; [|discriminate].
  destruct (N.eqb_spec (ptRoot (mem y)) (ptRoot (disk y))) as [Ept|]; [|discriminate]. cbn [andb] in *.
  destruct (merge_forest W (forest (disk y)) (forest (mem y))) as [fd|] eqn:Em; [|discriminate].
  inversion Htd; subst d. clear Htd. cbn [set_forest forest nextFree ptRoot] in Htd2.
  destruct (N.eqb (nextFree g') (nextFree (disk y)) && N.eqb (ptRoot g') (ptRoot (disk y))); [|discriminate].
  destruct (merge_forest W2 fd (forest g')) as [fd2|] eqn:Em2; [|discriminate].
  inversion Htd2; subst d2. clear Htd2.
  destruct (merge_forest_indep W (W ++ W2) _ _ _ Em) as (fd' & Em').
  rewrite Em'. f_equal. unfold set_forest. cbn [forest lastKey ptRoot nextFree nextLSN]. f_equal.
  set (fin := fin_of (forest (mem y))).
  assert (Hdc : forall t, In t (forest (disk y)) -> erase false t = t).
  { intros t Ht. unfold fclean in Hc. rewrite <- Hc in Ht. apply in_map_iff in Ht as (t0 & <- & _). apply erase_idem. }
  assert (Hfd : fd = mapF (mixfun W fin) (forest (disk y))).
  { apply (merge_forest_mapF W (forest (mem y)) _ _ _ Em Hdc). intros t l Ht Hl. apply (fin_of_leaf _ t l); assumption. }
  assert (Hfd' : fd' = mapF (mixfun (W ++ W2) fin) (forest (disk y))).
  { apply (merge_forest_mapF (W ++ W2) (forest (mem y)) _ _ _ Em' Hdc). intros t l Ht Hl. apply (fin_of_leaf _ t l); assumption. }
  assert (Hng : NoDup (all_offsets (forest g'))).
  { destruct Sg as [Fg _ _]. rewrite (fclean_all_offsets _ _ Fg). exact Hnm. }
  assert (Hfd2 : fd2 = mapF (mixfun W2 (fin_of (forest g'))) fd).
  { apply (merge_forest_mapF W2 (forest g') _ _ _ Em2).
    - intros t Ht. rewrite Hfd in Ht. apply in_map_iff in Ht as (t0 & <- & Ht0).
      apply erase_repl_clean; [apply lp_mix; apply fin_of_ok | apply Hdc; exact Ht0|].
      intros l Hl. unfold mixfun. destruct (inW W (t_off l)); [apply fin_of_clean | apply (clean_leaves t0); auto].
    - intros t l Ht Hl. apply (fin_of_leaf _ t l); assumption. }
  rewrite Hfd2, Hfd', Hfd. rewrite mapF_comp by (apply lp_mix; apply fin_of_ok).
  apply mapF_ext. intros l _. rewrite <- (mix_mix W W2 fin l (fin_of_ok _)).
  unfold mixfun at 1 3. destruct (inW W2 (t_off (mixfun W fin l))); [|reflexivity].
  apply fin_of_fclean. first [exact (seq_forest _ _ Sg) | exact (eq_sym (seq_forest _ _ Sg))].
Qed.
