(* C01 refinement, part 5: INSERT, DELETE and UPDATE on a user table refine the specification. *)
From Coq Require Import Arith Lia Bool List NArith ZArith String Sorted Permutation.
From Mkdb Require Import Model.Engine Spec.TableSpec Spec.HistObs Proofs.TreeProofs Proofs.StoreInv
  Proofs.BytesProofs Proofs.TupleProofs Proofs.RefineForest Proofs.RefineCodec Proofs.RefineRep
  Proofs.RefineCat Gen.Params.
Import ListNotations.
Local Open Scope N_scope.
Local Open Scope string_scope.
Local Open Scope list_scope.

Notation val_okP := (fun v => val_ok v = true).

(* ====================== generic list facts ====================== *)
Lemma Forall2_map_both {A B} (R : A -> B -> Prop) (f : A -> A) (h : B -> B) l1 l2 :
  Forall2 R l1 l2 -> (forall x y, In x l1 -> In y l2 -> R x y -> R (f x) (h y)) -> Forall2 R (map f l1) (map h l2).
Proof.
  induction 1 as [|x y l1 l2 Hxy _ IH]; intros H; cbn [map]; constructor.
  - apply H; auto; left; reflexivity.
  - apply IH. intros a b Ha Hb. apply H; right; assumption.
Qed.

Lemma Forall2_filter_both {A B} (R : A -> B -> Prop) (p : A -> bool) (q : B -> bool) l1 l2 :
  Forall2 R l1 l2 -> (forall x y, R x y -> p x = q y) -> Forall2 R (filter p l1) (filter q l2).
Proof.
  induction 1 as [|x y l1 l2 Hxy _ IH]; intros H; cbn [filter]; [constructor|].
  rewrite (H x y Hxy). destruct (q y); [constructor|]; auto.
Qed.

Lemma combine_fst_snd {A B} (l : list (A * B)) : combine (map fst l) (map snd l) = l.
Proof. induction l as [|[a b] l IH]; [reflexivity|]. cbn. rewrite IH. reflexivity. Qed.

Lemma filter_true {A} (l : list A) : filter (fun _ => true) l = l.
Proof. induction l as [|a l IH]; [reflexivity|]. cbn [filter]. rewrite IH. reflexivity. Qed.

Lemma set_rows_self n d t : find_tbl n d = Some t -> set_rows n (tb_rows t) d = d.
Proof.
  induction d as [|a d IH]; [reflexivity|]. cbn [find_tbl set_rows].
  destruct (String.eqb_spec (tb_name a) n) as [E|E]; intros Hf.
  - inversion Hf; subst. destruct t; reflexivity.
  - f_equal. auto.
Qed.

Lemma map_fst_combine {A B} (l1 : list A) (l2 : list B) : List.length l1 = List.length l2 -> map fst (combine l1 l2) = l1.
Proof.
  revert l2. induction l1 as [|a l1 IH]; intros [|b l2] H; try discriminate; [reflexivity|].
  cbn. rewrite IH by (cbn in H; lia). reflexivity.
Qed.

Lemma map_snd_combine {A B} (l1 : list A) (l2 : list B) : List.length l1 = List.length l2 -> map snd (combine l1 l2) = l2.
Proof.
  revert l2. induction l1 as [|a l1 IH]; intros [|b l2] H; try discriminate; [reflexivity|].
  cbn. rewrite IH by (cbn in H; lia). reflexivity.
Qed.

Lemma NoDup_map_inj_in {A} (f : A -> N) l x y : NoDup (map f l) -> In x l -> In y l -> f x = f y -> x = y.
Proof.
  induction l as [|a l IH]; intros Hnd Hx Hy E; [contradiction|].
  cbn [map] in Hnd. inversion Hnd as [|? ? Hna Hnd']; subst.
  destruct Hx as [->|Hx], Hy as [->|Hy]; auto.
  - exfalso. apply Hna. rewrite E. apply in_map. exact Hy.
  - exfalso. apply Hna. rewrite <- E. apply in_map. exact Hx.
Qed.

Lemma NoDup_map_filter {A} (f : A -> N) p l : NoDup (map f l) -> NoDup (map f (filter p l)).
Proof.
  induction l as [|a l IH]; intros H; [constructor|]. cbn [map] in H. inversion H as [|? ? Hna Hnd]; subst.
  cbn [filter]. destruct (p a); [|auto]. cbn [map]. constructor; [|auto].
  intros X. apply Hna. apply in_map_iff in X as (y & E & Hy). apply filter_In in Hy as [Hy _].
  rewrite <- E. apply in_map. exact Hy.
Qed.

(* ====================== rows with their ids ====================== *)
Definition IdCell (sch : schema) (c : leafcell) (kr : N * row) : Prop :=
  lc_key c = fst kr /\ RowCell sch c (snd kr).

Lemma TableRep_ids sch cells rows :
  Forall2 (RowCell sch) cells rows -> Forall2 (IdCell sch) cells (combine (keys_of cells) rows).
Proof. induction 1; cbn; constructor; auto. split; auto. Qed.

Lemma ids_TableRep sch cells idrows :
  Forall2 (IdCell sch) cells idrows -> Forall2 (RowCell sch) cells (map snd idrows) /\ map fst idrows = keys_of cells.
Proof.
  induction 1 as [|c kr cells idrows [A B] _ [IH1 IH2]]; [split; [constructor | reflexivity]|].
  cbn [map keys_of]. split; [constructor; auto | fold (keys_of cells); congruence].
Qed.

Definition fetch_rows (s : store) (n : string) : list (N * row) :=
  match st_fetch s n with Ok (idrows, _) => idrows | _ => [] end.

(* a row cell determines its row *)
Lemma RowCell_fun sch c r1 r2 : NoDup (names sch) -> RowCell sch c r1 -> RowCell sch c r2 -> r1 = r2.
Proof.
  intros Hnd [A1 B1] [A2 B2].
  pose proof (decode_row_enc sch r1 Hnd B1) as D1. pose proof (decode_row_enc sch r2 Hnd B2) as D2.
  rewrite <- A1 in D1. rewrite <- A2 in D2. congruence.
Qed.

(* ====================== the row an INSERT / UPDATE writes ====================== *)
Lemma assoc_last_cases c : forall cols vals acc,
  assoc_last c cols vals acc = acc \/ In (assoc_last c cols vals acc) vals.
Proof.
  induction cols as [|x cr IH]; intros vals acc; [left; reflexivity|].
  destruct vals as [|v vr]; [left; reflexivity|]. cbn [assoc_last].
  destruct (IH vr (if String.eqb x c then v else acc)) as [E|E].
  - rewrite E. destruct (String.eqb x c); [right; left; reflexivity | left; reflexivity].
  - right. right. exact E.
Qed.

Lemma build_row_val_ok sch cols vals base :
  Forall val_okP vals -> Forall val_okP base -> Forall val_okP (build_row sch cols vals base).
Proof.
  intros Hv Hb. unfold build_row. rewrite Forall_forall in *. intros x Hx.
  apply in_map_iff in Hx as ([fd b] & <- & Hin). cbn [fst snd].
  destruct (assoc_last_cases (fd_name fd) cols vals b) as [E|E]; [rewrite E; apply Hb; eapply in_combine_r; eauto | auto].
Qed.

Lemma null_row_val_ok sch : Forall val_okP (null_row sch).
Proof. unfold null_row. rewrite Forall_forall. intros x Hx. apply in_map_iff in Hx as (? & <- & _). reflexivity. Qed.

Lemma is_sys_table_is_sys n : is_sys_table n = is_sys n.
Proof. reflexivity. Qed.

(* ====================== monotone allocator ====================== *)
Lemma bt_insert_free_mono s root v : nextFree s <= nextFree (fst (bt_insert s root v)).
Proof.
  unfold bt_insert. destruct (get_tree s root) as [t|e|]; cbn [fst]; try lia.
  destruct (tree_insert ML MI PS MV t (lastKey s + 1) (nextLSN s) v (nextFree s)) as [[t' nf]|e] eqn:E; cbn [fst nextFree]; [|lia].
  apply tree_insert_root in E. tauto.
Qed.

Lemma update_page_table_free s nr n : nextFree (fst (update_page_table s nr n)) = nextFree s.
Proof. unfold update_page_table. repeat (break_match; cbn [fst nextFree]; try reflexivity). Qed.

Lemma st_insert_free_mono s n cols vals : nextFree s <= nextFree (fst (st_insert s n cols vals)).
Proof.
  unfold st_insert. destruct (ins_bad_cols _ _ _ _); cbn [fst]; [lia|]. unfold st_insert0.
  destruct (is_sys_table n); cbn [fst]; [lia|].
  destruct (bind _ _) as [[off bs]|e|]; cbn [fst]; try lia.
  pose proof (bt_insert_free_mono s off bs) as H1.
  destruct (bt_insert s off bs) as [s1 [[[k l] nr]|e|]]; cbn [fst] in *; try exact H1.
  destruct (N.eqb nr off); cbn [fst]; [exact H1|].
  pose proof (update_page_table_free s1 nr n) as H2.
  destruct (update_page_table s1 nr n) as [s2 [ws|e|]]; cbn [fst] in *; lia.
Qed.

Lemma insert_rows_free_mono rows : forall s n cols b k, nextFree s <= nextFree (fst (fst (insert_rows s n cols rows b k))).
Proof.
  induction rows as [|r rest IH]; intros s n cols b k; cbn [insert_rows fst]; [lia|].
  pose proof (st_insert_free_mono s n cols r) as H1.
  destruct (st_insert s n cols r) as [s1 [ws|e|]]; cbn [fst] in *; try exact H1.
  specialize (IH s1 n cols (b ++ ws) (S k)). lia.
Qed.

(* ====================== INSERT ====================== *)
Section Insert.
Variables (n : string) (cols : list string).

Lemma st_insert0_rep s d t vals s' ws :
  Rep s d -> is_sys n = false -> find_tbl n d = Some t -> Forall val_okP vals ->
  nextFree s' <= OFFMAX ->
  st_insert0 s n cols vals = (s', Ok ws) ->
  let cols' := match cols with [] => map fd_name (tb_schema t) | _ => cols end in
  let r := build_row (tb_schema t) cols' vals (null_row (tb_schema t)) in
  Nat.eqb (List.length cols') (List.length vals) = true /\ check_row (tb_schema t) r = None /\
  Rep s' (set_rows n (tb_rows t ++ [r]) d).
Proof.
  intros [Hinv Hok (pt & sc & ents & osc & HC)] Hsys Hf Hvals Hmax Hst cols' r.
  destruct (find_tbl_In _ _ _ Hf) as [Hin Hn]. subst n.
  destruct (c_tabs _ _ _ _ _ _ HC t Hin) as (o & tr & He & Hr & Ht).
  pose proof (cat_rel_offset_in s d pt sc ents osc Hinv Hok HC _ _ He) as Eo.
  pose proof (cat_rel_schema s d pt sc ents osc Hinv Hok HC _ Hsys) as Es. rewrite Hf in Es.
  unfold st_insert0 in Hst. rewrite is_sys_table_is_sys, Hsys in Hst. rewrite Eo, Es in Hst. cbn [bind] in Hst.
  unfold get_tree at 1 in Hst. rewrite Hr in Hst. cbn [bind] in Hst.
  fold cols' in Hst.
  destruct (Nat.eqb (List.length cols') (List.length vals)) eqn:Elen; cbn [negb] in Hst; [|inversion Hst].
  destruct (encode_tuple (tb_schema t) (zip_set cols' vals [])) as [bs|e|] eqn:Eenc; cbn [bind] in Hst; try (inversion Hst; fail).
  assert (Hrow : row_of (tb_schema t) (zip_set cols' vals []) = r).
  { rewrite row_of_zip_set. reflexivity. }
  assert (Hrv : Forall val_okP (row_of (tb_schema t) (zip_set cols' vals []))).
  { rewrite Hrow. apply build_row_val_ok; [exact Hvals | apply null_row_val_ok]. }
  destruct (encode_tuple_check _ _ _ Eenc Hrv) as (Ebs & Hfits & Hchk). rewrite Hrow in Ebs, Hfits, Hchk.
  destruct (bt_insert s o bs) as [s1 [[[k lsn] nr]|e|]] eqn:Ebt; try (inversion Hst; fail).
  destruct (bt_insert_spec s o bs tr Hinv Hr s1 k lsn nr Ebt)
    as (t' & Hinv1 & -> & -> & -> & Hlk & Hptr & Hnf & Hlsn & Hlen & Hroot & Hcells & Hfind & Hframe).
  assert (Hsz : (MV <? List.length bs)%nat = false) by (apply Nat.ltb_ge; exact Hlen).
  split; [reflexivity|]. split; [apply Hchk; exact Hsz|].
  assert (Hrep' : TableRep (tb_schema t) t' (tb_rows t ++ [r])).
  { unfold TableRep, scan_tree. rewrite Hcells, live_app. cbn [live filter lc_deleted negb].
    apply Forall2_app; [exact Ht|]. constructor; [|constructor]. split; [exact Ebs | exact Hfits]. }
  assert (Hns : tb_name t <> "sys_pages") by (apply is_sys_false in Hsys; tauto).
  pose proof (cat_offset_not_ptroot s d pt sc ents osc HC _ _ He Hns) as Hop.
  destruct (N.eqb_spec (t_off t') o) as [Esame|Emoved].
  - (* the root stayed *)
    inversion Hst; subst s' ws. clear Hst.
    constructor; [exact Hinv1 | apply DbOk_set_rows; exact Hok|].
    exists pt, sc, ents, osc.
    eapply (Cat_table_same_root s s1 d pt sc ents osc t o t'); eauto.
    + pose proof (find_root_bound s o tr Hinv Hr). lia.
    + rewrite <- Esame. exact Hfind.
    + intros x Hx. apply Hframe; congruence.
  - (* the root moved to a fresh page: the catalog row is rewritten *)
    destruct Hroot as [Hroot|Hroot]; [contradiction|].
    pose proof (find_root_bound s _ pt Hinv (c_pt _ _ _ _ _ _ HC)) as Hptb.
    assert (Hpt1 : find_root (ptRoot s1) (forest s1) = Some pt).
    { rewrite Hptr, Hframe by (try congruence; lia). apply (c_pt _ _ _ _ _ _ HC). }
    destruct (update_page_table s1 (t_off t') (tb_name t)) as [s2 [ws2|e|]] eqn:Eup; inversion Hst; subst s' ws. clear Hst.
    destruct (update_page_table_spec s1 pt ents (tb_name t) o (t_off t') Hinv1 Hpt1
                (c_ptcells _ _ _ _ _ _ HC) (c_ptfits _ _ _ _ _ _ HC)
                (cat_names_NoDup d ents Hok (c_names _ _ _ _ _ _ HC)) He s2 ws2 Eup)
      as (pt' & Hinv2 & Hptr2 & Hnf2 & Hlk2 & Hpt2 & Hframe2 & Hcells2).
    constructor; [exact Hinv2 | apply DbOk_set_rows; exact Hok|].
    exists pt', sc, (map (upd (tb_name t) (t_off t')) ents), osc.
    eapply (Cat_table_step s s2 d pt pt' sc ents osc t o (t_off t') t'); eauto.
    + congruence.
    + pose proof (find_root_bound s1 _ t' Hinv1 Hfind). unfold OFFMAX in *. lia.
    + rewrite <- Hptr. exact Hpt2.
    + rewrite Hframe2 by (rewrite Hptr; lia). exact Hfind.
    + intros x X1 X2 X3. rewrite Hframe2 by congruence. apply Hframe; assumption.
Qed.

(* a successful Insert passed the column-list check: only columns of the table, each once *)
Lemma st_insert_rep s d t vals s' ws :
  Rep s d -> is_sys n = false -> find_tbl n d = Some t -> Forall val_okP vals ->
  nextFree s' <= OFFMAX ->
  st_insert s n cols vals = (s', Ok ws) ->
  let cols' := match cols with [] => map fd_name (tb_schema t) | _ => cols end in
  let r := build_row (tb_schema t) cols' vals (null_row (tb_schema t)) in
  Nat.eqb (List.length cols') (List.length vals) = true /\
  cols_err (map fd_name (tb_schema t)) cols' [] = None /\ check_row (tb_schema t) r = None /\
  Rep s' (set_rows n (tb_rows t ++ [r]) d).
Proof.
  intros HR Hsys Hf Hvals Hmax Hst cols' r.
  unfold st_insert in Hst. destruct (ins_bad_cols s n cols vals) as [e|] eqn:Eb; [inversion Hst|].
  destruct (st_insert0_rep s d t vals s' ws HR Hsys Hf Hvals Hmax Hst) as (Hlen & Hchk & HR').
  split; [exact Hlen|]. split; [|split; [exact Hchk | exact HR']].
  destruct HR as [Hinv Hok (pt & sc & ents & osc & HC)].
  destruct (find_tbl_In _ _ _ Hf) as [Hin Hn]. subst n.
  destruct (c_tabs _ _ _ _ _ _ HC t Hin) as (o & tr & He & Hr & Ht).
  pose proof (cat_rel_offset_in s d pt sc ents osc Hinv Hok HC _ _ He) as Eo.
  pose proof (cat_rel_schema s d pt sc ents osc Hinv Hok HC _ Hsys) as Es. rewrite Hf in Es.
  unfold ins_bad_cols in Eb. rewrite is_sys_table_is_sys, Hsys, Eo in Eb. cbn [bind] in Eb.
  unfold get_tree at 1 in Eb. rewrite Hr in Eb. cbn [bind] in Eb. rewrite Es in Eb.
  fold cols' in Eb. fold cols' in Hlen. rewrite Hlen in Eb. cbn [negb] in Eb. exact Eb.
Qed.

Lemma insert_rows_rep rows : forall s d t b k s' b' c,
  Rep s d -> is_sys n = false -> find_tbl n d = Some t -> Forall (Forall val_okP) rows ->
  nextFree s' <= OFFMAX ->
  insert_rows s n cols rows b k = (s', b', OOk c) ->
  exists new, insert_all (tb_schema t) cols rows = Ok new /\ Rep s' (set_rows n (tb_rows t ++ new) d).
Proof.
  induction rows as [|vals rest IH]; intros s d t b k s' b' c HR Hsys Hf Hvals Hmax Hrun.
  - cbn [insert_rows] in Hrun. inversion Hrun; subst. exists []. split; [reflexivity|].
    rewrite app_nil_r. destruct (find_tbl_In _ _ _ Hf) as [Hin Hn].
    rewrite (set_rows_self n d t Hf). exact HR.
  - cbn [insert_rows] in Hrun. inversion Hvals as [|? ? Hv Hvr]; subst.
    destruct (st_insert s n cols vals) as [s1 [ws|e|]] eqn:Est; try (inversion Hrun; fail).
    assert (Hmax1 : nextFree s1 <= OFFMAX).
    { pose proof (insert_rows_free_mono rest s1 n cols (b ++ ws) (S k)) as X. rewrite Hrun in X. cbn [fst] in X. lia. }
    destruct (st_insert_rep s d t vals s1 ws HR Hsys Hf Hv Hmax1 Est) as (Hlen & Hce & Hchk & HR1).
    pose proof (find_tbl_set_rows n (tb_rows t ++ [build_row (tb_schema t)
                 match cols with [] => map fd_name (tb_schema t) | _ :: _ => cols end vals (null_row (tb_schema t))]) d t Hf) as Hf1.
    destruct (IH s1 _ _ (b ++ ws) (S k) s' b' c HR1 Hsys Hf1 Hvr Hmax Hrun) as (new & Hnew & HR').
    cbn [tb_schema tb_rows] in Hnew, HR'. rewrite set_rows_set_rows, <- app_assoc in HR'. cbn [app] in HR'.
    eexists. split; [|exact HR'].
    cbn [insert_all]. rewrite Hlen. cbn [negb]. rewrite Hce, Hchk, Hnew. reflexivity.
Qed.

End Insert.

(* ====================== where_ids ====================== *)
Definition sel_pred (w : option expr) (fs : list field) (kr : N * row) : bool :=
  match w with
  | None => true
  | Some e => match evaluate e fs (snd kr) with Ok (VBool true) => true | _ => false end
  end.

Definition evaluable (w : option expr) (fs : list field) (idrows : list (N * row)) : Prop :=
  forall e, w = Some e -> Forall (fun kr => exists v, evaluate e fs (snd kr) = Ok v) idrows.

Lemma filter_rows_filter e fs : forall (rows keep : list (N * row)),
  filter_rows e fs rows = Ok keep ->
  keep = filter (sel_pred (Some e) fs) rows /\ Forall (fun kr => exists v, evaluate e fs (snd kr) = Ok v) rows.
Proof.
  induction rows as [|[k r] rows IH]; intros keep H; cbn [filter_rows] in H.
  - inversion H; subst. split; [reflexivity | constructor].
  - destruct (evaluate e fs r) as [v|x|] eqn:Ev; cbn [bind] in H; try discriminate.
    destruct (filter_rows e fs rows) as [rest|x|] eqn:Er; cbn [bind] in H; try discriminate.
    destruct (IH rest eq_refl) as [A B]. split; [|constructor; [cbn [snd]; eauto | exact B]].
    cbn [filter sel_pred snd]. rewrite Ev.
    destruct v as [z|st|[|]|]; inversion H; subst; reflexivity.
Qed.

Lemma where_ids_spec s n w ids :
  where_ids s n w = Ok ids ->
  exists idrows fs, st_fetch s n = Ok (idrows, fs) /\
                    ids = map fst (filter (sel_pred w fs) idrows) /\ evaluable w fs idrows.
Proof.
  unfold where_ids. destruct (st_fetch s n) as [[idrows fs]|e|]; cbn [bind]; try discriminate.
  intros H. exists idrows, fs. split; [reflexivity|]. destruct w as [e|].
  - destruct (filter_rows e fs idrows) as [keep|x|] eqn:Ef; cbn [bind] in H; try discriminate.
    inversion H; subst. destruct (filter_rows_filter e fs idrows keep Ef) as [A B]. subst keep.
    split; [reflexivity|]. intros e' E'. inversion E'; subst. exact B.
  - inversion H; subst. split.
    + f_equal. symmetry. clear. induction idrows as [|a l IH]; [reflexivity|]. cbn. rewrite IH. reflexivity.
    + intros e' E'. discriminate.
Qed.

Lemma matches_sel w sch k r :
  (forall e, w = Some e -> exists v, evaluate e (fields_of sch) r = Ok v) ->
  matches w sch r = Ok (sel_pred w (fields_of sch) (k, r)).
Proof.
  intros H. destruct w as [e|]; [|reflexivity]. destruct (H e eq_refl) as [v Hv].
  cbn [matches sel_pred snd]. rewrite Hv. cbn [bind]. destruct v as [z|st|[|]|]; reflexivity.
Qed.

(* membership in the id list = the predicate, for rows with distinct ids *)
Lemma existsb_ids_pred (p : N * row -> bool) idrows kr :
  NoDup (map fst idrows) -> In kr idrows ->
  existsb (N.eqb (fst kr)) (map fst (filter p idrows)) = p kr.
Proof.
  intros Hnd Hin. destruct (p kr) eqn:Ep.
  - apply existsb_exists. exists (fst kr). split; [|apply N.eqb_refl].
    apply in_map. apply filter_In. auto.
  - destruct (existsb _ _) eqn:Ee; [|reflexivity]. exfalso.
    apply existsb_exists in Ee as (k & Hk & E). apply N.eqb_eq in E. subst k.
    apply in_map_iff in Hk as (kr' & E & Hf). apply filter_In in Hf as [Hin' Hp'].
    assert (kr' = kr) by (eapply (NoDup_map_inj_in fst idrows); eauto). subst. congruence.
Qed.

(* ====================== the specification's UPDATE / DELETE as maps over (id, row) ====================== *)
Definition upd_ids (ids : list N) (F : row -> row) (idrows : list (N * row)) : list (N * row) :=
  map (fun kr => if existsb (N.eqb (fst kr)) ids then (fst kr, F (snd kr)) else kr) idrows.

Definition del_ids (ids : list N) (idrows : list (N * row)) : list (N * row) :=
  filter (fun kr => negb (existsb (N.eqb (fst kr)) ids)) idrows.

Lemma del_ids_cons k rest (L : list (N * row)) :
  del_ids rest (filter (fun kr => negb (N.eqb (fst kr) k)) L) = del_ids (k :: rest) L.
Proof.
  unfold del_ids. induction L as [|kr L IHL]; [reflexivity|].
  cbn [filter existsb]. destruct (N.eqb (fst kr) k) eqn:E; cbn [negb orb filter]; [exact IHL|].
  destruct (existsb (N.eqb (fst kr)) rest); cbn [negb]; [exact IHL | f_equal; exact IHL].
Qed.

Lemma update_all_pred w sch cols vals : forall idrows,
  evaluable w (fields_of sch) idrows ->
  (forall kr, In kr idrows -> sel_pred w (fields_of sch) kr = true ->
              check_row sch (build_row sch cols vals (snd kr)) = None) ->
  (forall kr, In kr idrows -> sel_pred w (fields_of sch) kr = true ->
              cols_err (map fd_name sch) cols [] = None) ->
  update_all w sch cols vals (map snd idrows) =
  Ok (map snd (map (fun kr => if sel_pred w (fields_of sch) kr
                              then (fst kr, build_row sch cols vals (snd kr)) else kr) idrows)).
Proof.
  induction idrows as [|[k r] idrows IH]; intros Hev Hchk Hce; [reflexivity|].
  cbn [map snd update_all].
  rewrite (matches_sel w sch k r).
  2:{ intros e E. specialize (Hev e E). inversion Hev; subst. assumption. }
  cbn [bind]. rewrite IH.
  2:{ intros e E. specialize (Hev e E). inversion Hev; subst. assumption. }
  2:{ intros kr Hin. apply Hchk. right. exact Hin. }
  2:{ intros kr Hin. apply Hce. right. exact Hin. }
  cbn [bind]. destruct (sel_pred w (fields_of sch) (k, r)) eqn:Ep; [|reflexivity].
  rewrite (Hce (k, r) (or_introl eq_refl) Ep).
  pose proof (Hchk (k, r) (or_introl eq_refl) Ep) as X. cbn [snd] in X. cbn [fst snd]. rewrite X. reflexivity.
Qed.

Lemma delete_all_pred w sch : forall idrows,
  evaluable w (fields_of sch) idrows ->
  delete_all w sch (map snd idrows) =
  Ok (map snd (filter (fun kr => negb (sel_pred w (fields_of sch) kr)) idrows)).
Proof.
  induction idrows as [|[k r] idrows IH]; intros Hev; [reflexivity|].
  cbn [map snd delete_all].
  rewrite (matches_sel w sch k r).
  2:{ intros e E. specialize (Hev e E). inversion Hev; subst. assumption. }
  cbn [bind]. rewrite IH.
  2:{ intros e E. specialize (Hev e E). inversion Hev; subst. assumption. }
  cbn [bind filter]. destruct (sel_pred w (fields_of sch) (k, r)); reflexivity.
Qed.

(* ====================== what SELECT * returns for a represented table ====================== *)
Lemma st_fetch_det s d n t o tr :
  Rep s d -> is_sys n = false -> find_tbl n d = Some t ->
  rel_offset s n = Ok o -> find_root o (forest s) = Some tr ->
  TableRep (tb_schema t) tr (tb_rows t) /\
  st_fetch s n = Ok (combine (keys_of (scan_tree tr)) (tb_rows t), fields_of (tb_schema t)).
Proof.
  intros HR Hsys Hf Eo Hr. destruct (st_fetch_user s d n t HR Hsys Hf) as (o2 & tr2 & Eo2 & Hr2 & _ & Ht & Hfetch).
  assert (o2 = o) by congruence. subst o2. assert (tr2 = tr) by congruence. subst tr2. auto.
Qed.

Lemma fetch_rows_ids s d n t o tr :
  Rep s d -> is_sys n = false -> find_tbl n d = Some t ->
  rel_offset s n = Ok o -> find_root o (forest s) = Some tr ->
  Forall2 (IdCell (tb_schema t)) (scan_tree tr) (fetch_rows s n) /\ map snd (fetch_rows s n) = tb_rows t /\
  NoDup (map fst (fetch_rows s n)).
Proof.
  intros HR Hsys Hf Eo Hr. destruct (st_fetch_det s d n t o tr HR Hsys Hf Eo Hr) as [Ht Hfetch].
  unfold fetch_rows. rewrite Hfetch. pose proof (Forall2_length' _ _ _ Ht) as Hlen.
  split; [apply TableRep_ids; exact Ht|]. split; [apply map_snd_combine; unfold keys_of; rewrite map_length; exact Hlen|].
  rewrite map_fst_combine by (unfold keys_of; rewrite map_length; exact Hlen).
  apply SSorted_NoDup. eapply scan_keys_sorted; [apply (r_sinv _ _ HR) | exact Hr].
Qed.

(* ====================== in-place changes of one table ====================== *)
Lemma live_map_cell k g cells :
  (forall x, lc_deleted (g x) = lc_deleted x) -> live (map_cell k g cells) = map_cell k g (live cells).
Proof.
  intros Hg. unfold live, map_cell. induction cells as [|c cells IH]; [reflexivity|].
  cbn [map filter]. destruct (N.eqb (lc_key c) k) eqn:E.
  - rewrite Hg. destruct (negb (lc_deleted c)); cbn [map]; rewrite ?E, IH; reflexivity.
  - destruct (negb (lc_deleted c)); cbn [map]; rewrite ?E, IH; reflexivity.
Qed.

Lemma live_tombstone k cells :
  live (map_cell k (fun x => mkLC (lc_key x) true (lc_val x)) cells) =
  filter (fun c => negb (N.eqb (lc_key c) k)) (live cells).
Proof.
  unfold live, map_cell. induction cells as [|c cells IH]; [reflexivity|].
  cbn [map filter]. destruct (N.eqb (lc_key c) k) eqn:E.
  - cbn [lc_deleted negb]. rewrite IH. destruct (negb (lc_deleted c)); cbn [filter]; rewrite ?E; reflexivity.
  - destruct (negb (lc_deleted c)); cbn [filter]; rewrite ?E, IH; reflexivity.
Qed.

Lemma find_cell_leaf free t c :
  WFT ML MI free t -> In c (all_cells t) -> lc_deleted c = false ->
  exists l, In l (leaves t) /\ In c (leaf_cells l) /\ find_cell (lc_key c) t = Some (t_off l, c).
Proof.
  intros Hw Hin Hlive. destruct (find_cell_ok ML MI free t c Hw Hin Hlive) as [pg Hpg].
  destruct Hw as [[h Hs] _ _ _].
  destruct (descend_finds ML MI t h 0 None c Hs Hin) as [Hc Hl].
  exists (descend (lc_key c) t). split; [exact Hl|]. split; [exact Hc|].
  unfold find_cell in *. destruct (descend (lc_key c) t) as [off a b cells hl hr ls rs|]; [|discriminate].
  destruct (find _ cells) as [c'|]; [|discriminate]. destruct (lc_deleted c'); [discriminate|].
  inversion Hpg; subst. reflexivity.
Qed.

Lemma find_pair_key (pcs : list (N * leafcell)) pg c :
  NoDup (keys_of (map snd pcs)) -> In (pg, c) pcs -> lc_deleted c = false ->
  find (fun lc => N.eqb (lc_key (snd lc)) (lc_key c) && negb (lc_deleted (snd lc))) pcs = Some (pg, c).
Proof.
  induction pcs as [|[pg' c'] pcs IH]; intros Hnd Hin Hlive; [contradiction|].
  cbn [map snd keys_of] in Hnd. inversion Hnd as [|? ? Hna Hnd']; subst. cbn [find snd].
  destruct Hin as [E|Hin].
  - inversion E; subst. rewrite N.eqb_refl, Hlive. reflexivity.
  - destruct (N.eqb_spec (lc_key c') (lc_key c)) as [E|E].
    + exfalso. apply Hna. rewrite E. unfold keys_of. apply in_map. change c with (snd (pg, c)). apply in_map. exact Hin.
    + cbn [andb]. apply IH; auto.
Qed.

Section InPlace.
Variables (n : string).

(* common setting of DELETE / UPDATE on row id k of table n *)
Lemma inplace_setup s d t k :
  Rep s d -> is_sys n = false -> find_tbl n d = Some t -> In k (map fst (fetch_rows s n)) ->
  exists pt sc ents osc o tr c l,
    Cat s d pt sc ents osc /\ In t d /\ tb_name t = n /\ In (n, o) ents /\
    rel_offset s n = Ok o /\ find_root o (forest s) = Some tr /\ rel_schema s n = Ok (tb_schema t) /\
    Forall2 (IdCell (tb_schema t)) (scan_tree tr) (fetch_rows s n) /\
    In c (all_cells tr) /\ lc_deleted c = false /\ lc_key c = k /\
    In l (leaves tr) /\ In c (leaf_cells l).
Proof.
  intros HR Hsys Hf Hk. pose proof HR as [Hinv Hok (pt & sc & ents & osc & HC)].
  destruct (find_tbl_In _ _ _ Hf) as [Hin Hn].
  destruct (c_tabs _ _ _ _ _ _ HC t Hin) as (o & tr & He & Hr & Ht). rewrite Hn in He.
  pose proof (cat_rel_offset_in s d pt sc ents osc Hinv Hok HC _ _ He) as Eo.
  pose proof (cat_rel_schema s d pt sc ents osc Hinv Hok HC _ Hsys) as Es. rewrite Hf in Es.
  destruct (fetch_rows_ids s d n t o tr HR Hsys Hf Eo Hr) as (Hids & _ & _).
  destruct (ids_TableRep _ _ _ Hids) as [_ Hkeys]. rewrite Hkeys in Hk.
  unfold keys_of in Hk. apply in_map_iff in Hk as (c & Hck & Hc).
  unfold scan_tree, live in Hc. apply filter_In in Hc as [Hc Hlive]. apply negb_true_iff in Hlive.
  destruct (cell_leaf tr c Hc) as (l & Hl & Hcl).
  exists pt, sc, ents, osc, o, tr, c, l.
  split; [exact HC|]. do 11 (split; [assumption|]). assumption.
Qed.

(* the conclusion shared by both: the table now holds idrows' *)
Lemma inplace_finish s s' d t pt sc ents osc o tr tr' idrows' :
  Rep s d -> is_sys n = false -> Cat s d pt sc ents osc -> In t d -> tb_name t = n -> In (n, o) ents ->
  find_root o (forest s) = Some tr ->
  SInv s' -> ptRoot s' = ptRoot s ->
  find_root o (forest s') = Some tr' ->
  (forall x, x <> o -> find_root x (forest s') = find_root x (forest s)) ->
  Forall2 (IdCell (tb_schema t)) (scan_tree tr') idrows' ->
  Rep s' (set_rows n (map snd idrows') d) /\ fetch_rows s' n = idrows'.
Proof.
  intros HR Hsys HC Hin Hn He Hr Hinv' Hptr Hr' Hframe Hids'.
  pose proof HR as [Hinv Hok _]. subst n.
  destruct (ids_TableRep _ _ _ Hids') as [Hrep' Hkeys'].
  assert (HR' : Rep s' (set_rows (tb_name t) (map snd idrows') d)).
  { constructor; [exact Hinv' | apply DbOk_set_rows; exact Hok|]. exists pt, sc, ents, osc.
    eapply (Cat_table_same_root s s' d pt sc ents osc t o tr'); eauto.
    pose proof (find_root_bound s o tr Hinv Hr) as X.
    pose proof (c_ptfits _ _ _ _ _ _ HC) as Hf. rewrite Forall_forall in Hf. specialize (Hf _ He).
    apply pt_fits_bound in Hf. unfold OFFMAX. exact Hf. }
  split; [exact HR'|].
  assert (Hf' : find_tbl (tb_name t) (set_rows (tb_name t) (map snd idrows') d) =
                Some (mkTbl (tb_name t) (tb_schema t) (map snd idrows'))).
  { apply find_tbl_set_rows. apply find_tbl_unique; auto. apply (d_nodup _ Hok). }
  pose proof HR' as [_ Hok' (pt2 & sc2 & ents2 & osc2 & HC2)].
  assert (Eo' : rel_offset s' (tb_name t) = Ok o).
  { (* the catalog is untouched: same lookup as before *)
    assert (Hpt' : find_root (ptRoot s') (forest s') = Some pt).
    { rewrite Hptr, Hframe; [apply (c_pt _ _ _ _ _ _ HC)|].
      intros E. apply (cat_offset_not_ptroot s d pt sc ents osc HC _ _ He); [|auto].
      apply is_sys_false in Hsys. tauto. }
    rewrite (rel_offset_cat s' pt ents (tb_name t) Hinv' Hpt' (c_ptcells _ _ _ _ _ _ HC) (c_ptfits _ _ _ _ _ _ HC)).
    rewrite (find_assoc_unique _ o ents (cat_names_NoDup d ents Hok (c_names _ _ _ _ _ _ HC)) He). reflexivity. }
  destruct (st_fetch_det s' _ _ _ o tr' HR' Hsys Hf' Eo' Hr') as [_ Hfetch].
  unfold fetch_rows. rewrite Hfetch. cbn [tb_rows]. rewrite <- Hkeys'. apply combine_fst_snd.
Qed.

(* ---------- DELETE of one row ---------- *)
Lemma st_delete_rep s d t k s' ws :
  Rep s d -> is_sys n = false -> find_tbl n d = Some t ->
  In k (map fst (fetch_rows s n)) ->
  st_delete s n k = (s', Ok ws) ->
  let idrows' := filter (fun kr => negb (N.eqb (fst kr) k)) (fetch_rows s n) in
  Rep s' (set_rows n (map snd idrows') d) /\ fetch_rows s' n = idrows' /\ nextFree s' = nextFree s.
Proof.
  intros HR Hsys Hf Hk Hst idrows'. pose proof HR as [Hinv Hok _].
  destruct (inplace_setup s d t k HR Hsys Hf Hk)
    as (pt & sc & ents & osc & o & tr & c & l & HC & Hin & Hn & He & Eo & Hr & Es & Hids & Hc & Hlive & Hck & Hl & Hcl).
  pose proof (find_root_WFT s o tr Hinv Hr) as Hw.
  destruct (find_cell_leaf _ tr c Hw Hc Hlive) as (l2 & Hl2 & Hcl2 & Hfc). rewrite Hck in Hfc.
  pose proof (st_delete_inv s n k Hinv) as Hinv'. rewrite Hst in Hinv'. cbn [fst] in Hinv'.
  unfold st_delete in Hst. rewrite is_sys_table_is_sys, Hsys in Hst. rewrite Eo in Hst. cbn [bind] in Hst. unfold get_tree in Hst. rewrite Hr, Hfc in Hst.
  inversion Hst; subst s' ws. clear Hst.
  destruct (touch_forest_find (forest s) o tr (t_off l2) k (nextLSN s)
              (fun x => mkLC (lc_key x) true (lc_val x)) (si_nodup _ Hinv) Hr (leaf_off_in_offsets tr l2 Hl2)) as [T1 T2].
  assert (Hscan : scan_tree (touch_leaf (t_off l2) k (nextLSN s) (fun x => mkLC (lc_key x) true (lc_val x)) tr)
                  = filter (fun c => negb (N.eqb (lc_key c) k)) (scan_tree tr)).
  { unfold scan_tree. rewrite <- Hck. rewrite (touch_tree_cells _ tr l2 c _ _ Hw Hl2 Hcl2). apply live_tombstone. }
  destruct (inplace_finish s _ d t pt sc ents osc o tr _ idrows' HR Hsys HC Hin Hn He Hr Hinv' eq_refl T1 T2) as [A B].
  { rewrite Hscan. apply Forall2_filter_both; [exact Hids|]. intros x y [E _]. rewrite E. reflexivity. }
  auto.
Qed.

Lemma delete_rows_rep ids : forall s d t b c0 s' b' c,
  Rep s d -> is_sys n = false -> find_tbl n d = Some t ->
  (forall k, In k ids -> In k (map fst (fetch_rows s n))) -> NoDup ids ->
  delete_rows s n ids b c0 = (s', b', OOk c) ->
  Rep s' (set_rows n (map snd (del_ids ids (fetch_rows s n))) d) /\ nextFree s' = nextFree s.
Proof.
  induction ids as [|k rest IH]; intros s d t b c0 s' b' c HR Hsys Hf Hks Hnd Hrun.
  - cbn [delete_rows] in Hrun. inversion Hrun; subst. split; [|reflexivity].
    unfold del_ids. cbn [existsb negb].
    rewrite filter_true.
    pose proof HR as [Hinv Hok (pt & sc & ents & osc & HC)].
    destruct (find_tbl_In _ _ _ Hf) as [Hin Hn].
    destruct (c_tabs _ _ _ _ _ _ HC t Hin) as (o & tr & He & Hr & Ht). rewrite Hn in He.
    pose proof (cat_rel_offset_in s' d pt sc ents osc Hinv Hok HC _ _ He) as Eo.
    destruct (fetch_rows_ids s' d n t o tr HR Hsys Hf Eo Hr) as (_ & -> & _).
    rewrite (set_rows_self n d t Hf). exact HR.
  - cbn [delete_rows] in Hrun. inversion Hnd as [|? ? Hnk Hnd']; subst.
    destruct (st_delete s n k) as [s1 [ws|e|]] eqn:Est; try (inversion Hrun; fail).
    destruct (st_delete_rep s d t k s1 ws HR Hsys Hf (Hks k (or_introl eq_refl)) Est) as (HR1 & Hfr1 & Hnf1).
    pose proof (find_tbl_set_rows n (map snd (filter (fun kr => negb (N.eqb (fst kr) k)) (fetch_rows s n))) d t Hf) as Hf1.
    destruct (IH s1 _ _ (b ++ ws) (S c0) s' b' c HR1 Hsys Hf1) as [HR' Hnf']; auto.
    { intros k' Hk'. rewrite Hfr1. apply in_map_iff.
      destruct (proj1 (in_map_iff _ _ _) (Hks k' (or_intror Hk'))) as (kr & E & Hkr).
      exists kr. split; [exact E|]. apply filter_In. split; [exact Hkr|].
      apply negb_true_iff. apply N.eqb_neq. rewrite E. intros ->. contradiction. }
    split; [|congruence]. rewrite set_rows_set_rows, Hfr1 in HR'.
    replace (del_ids (k :: rest) (fetch_rows s n)) with
            (del_ids rest (filter (fun kr => negb (N.eqb (fst kr) k)) (fetch_rows s n))); [exact HR'|].
    apply del_ids_cons.
Qed.

(* ---------- UPDATE of one row ---------- *)
Variables (cols : list string) (vals : list value).

Lemma st_update0_rep s d t k s' ws :
  Rep s d -> is_sys n = false -> find_tbl n d = Some t -> Forall val_okP vals ->
  In k (map fst (fetch_rows s n)) ->
  st_update0 s n k cols vals = (s', Ok ws) ->
  let F := build_row (tb_schema t) cols vals in
  let idrows' := map (fun kr => if N.eqb (fst kr) k then (fst kr, F (snd kr)) else kr) (fetch_rows s n) in
  Rep s' (set_rows n (map snd idrows') d) /\ fetch_rows s' n = idrows' /\ nextFree s' = nextFree s /\
  (forall r, In (k, r) (fetch_rows s n) -> check_row (tb_schema t) (F r) = None).
Proof.
  intros HR Hsys Hf Hvals Hk Hst F idrows'. pose proof HR as [Hinv Hok _].
  destruct (inplace_setup s d t k HR Hsys Hf Hk)
    as (pt & sc & ents & osc & o & tr & c & l & HC & Hin & Hn & He & Eo & Hr & Es & Hids & Hc & Hlive & Hck & Hl & Hcl).
  pose proof (find_root_WFT s o tr Hinv Hr) as Hw.
  assert (Hsch : NoDup (names (tb_schema t))).
  { pose proof (d_sch _ Hok) as X. rewrite Forall_forall in X. apply X. exact Hin. }
  (* the row held by c *)
  assert (Hcs : In c (scan_tree tr)).
  { unfold scan_tree, live. apply filter_In. split; [exact Hc | rewrite Hlive; reflexivity]. }
  assert (Hrc : exists r, In (k, r) (fetch_rows s n) /\ RowCell (tb_schema t) c r).
  { clear - Hids Hcs Hck. induction Hids as [|x [k0 r0] L1 L2 [A B] _ IH]; [contradiction|].
    destruct Hcs as [->|Hcs].
    - exists r0. cbn [fst snd] in *. split; [left; congruence | exact B].
    - destruct (IH Hcs) as (r & X & Y). exists r. split; [right; exact X | exact Y]. }
  destruct Hrc as (r & Hkr & [Hval Hfit]).
  pose proof (st_update0_inv s n k cols vals Hinv) as Hinv'. rewrite Hst in Hinv'. cbn [fst] in Hinv'.
  unfold st_update0 in Hst. rewrite is_sys_table_is_sys, Hsys in Hst. rewrite Eo, Es in Hst. cbn [bind] in Hst. unfold get_tree in Hst. rewrite Hr in Hst. cbn [bind] in Hst.
  rewrite (scan_right_leaves_okP _ _ Hw) in Hst. cbn [of_tres bind] in Hst.
  fold (leaf_pairs (leaves tr)) in Hst.
  assert (Hpc : In (t_off l, c) (leaf_pairs (leaves tr))).
  { unfold leaf_pairs. apply in_flat_map. exists l. split; [exact Hl|]. apply in_map. exact Hcl. }
  rewrite <- Hck in Hst.
  rewrite (find_pair_key _ (t_off l) c) in Hst; [| rewrite leaf_pairs_cells; apply (WFT_keys_NoDup _ tr Hw) | exact Hpc | exact Hlive].
  rewrite Hval, (decode_tuple_enc _ _ Hfit) in Hst. cbn [bind] in Hst.
  destruct (encode_tuple (tb_schema t) (zip_set cols vals (fill (tb_schema t) r []))) as [bs|e|] eqn:Eenc; try (inversion Hst; fail).
  assert (Hrow : row_of (tb_schema t) (zip_set cols vals (fill (tb_schema t) r [])) = F r).
  { rewrite row_of_zip_set, (row_of_fill _ _ Hsch Hfit). reflexivity. }
  assert (Hrv : Forall val_okP (row_of (tb_schema t) (zip_set cols vals (fill (tb_schema t) r [])))).
  { rewrite Hrow. apply build_row_val_ok; [exact Hvals | apply (row_fits_val_ok _ _ Hfit)]. }
  destruct (encode_tuple_check _ _ _ Eenc Hrv) as (Ebs & Hfits & Hchk). rewrite Hrow in Ebs, Hfits, Hchk.
  destruct (Nat.ltb MV (List.length bs)) eqn:Esz; [inversion Hst|].
  inversion Hst; subst s' ws. clear Hst.
  set (g := fun x => mkLC (lc_key x) (lc_deleted x) bs) in *.
  destruct (touch_forest_find (forest s) o tr (t_off l) (lc_key c) (nextLSN s) g
              (si_nodup _ Hinv) Hr (leaf_off_in_offsets tr l Hl)) as [T1 T2].
  assert (Hscan : scan_tree (touch_leaf (t_off l) (lc_key c) (nextLSN s) g tr) = map_cell (lc_key c) g (scan_tree tr)).
  { unfold scan_tree. rewrite (touch_tree_cells _ tr l c _ _ Hw Hl Hcl). apply live_map_cell. reflexivity. }
  assert (Hknd : NoDup (keys_of (scan_tree tr))).
  { apply SSorted_NoDup. apply (scan_keys_sorted s o tr Hinv Hr). }
  destruct (inplace_finish s _ d t pt sc ents osc o tr _ idrows' HR Hsys HC Hin Hn He Hr Hinv' eq_refl T1 T2) as [A B].
  { rewrite Hscan. unfold map_cell, idrows'. apply Forall2_map_both; [exact Hids|].
    intros x [k0 r0] Hx _ [E [V Ft]]. cbn [fst snd] in *. rewrite E, Hck.
    destruct (N.eqb_spec k0 k) as [Ek|Ek]; [|unfold IdCell, RowCell; cbn [fst snd]; auto].
    assert (x = c) by (eapply (NoDup_map_inj_in lc_key (scan_tree tr)); eauto; congruence). subst x.
    assert (r0 = r) by (apply (RowCell_fun (tb_schema t) c r0 r Hsch); split; assumption). subst r0.
    split; [cbn; congruence|]. split; [exact Ebs | exact Hfits]. }
  split; [exact A|]. split; [exact B|]. split; [reflexivity|].
  intros r' Hr'. assert (r' = r).
  { destruct (fetch_rows_ids s d n t o tr HR Hsys Hf Eo Hr) as (_ & _ & Hnd).
    pose proof (NoDup_map_inj_in fst _ (k, r') (k, r) Hnd Hr' Hkr eq_refl) as X. congruence. }
  subst r'. apply Hchk. reflexivity.
Qed.

(* a successful Update passed the column-list check *)
Lemma st_update_rep s d t k s' ws :
  Rep s d -> is_sys n = false -> find_tbl n d = Some t -> Forall val_okP vals ->
  In k (map fst (fetch_rows s n)) ->
  st_update s n k cols vals = (s', Ok ws) ->
  let F := build_row (tb_schema t) cols vals in
  let idrows' := map (fun kr => if N.eqb (fst kr) k then (fst kr, F (snd kr)) else kr) (fetch_rows s n) in
  Rep s' (set_rows n (map snd idrows') d) /\ fetch_rows s' n = idrows' /\ nextFree s' = nextFree s /\
  (forall r, In (k, r) (fetch_rows s n) -> check_row (tb_schema t) (F r) = None) /\
  cols_err (map fd_name (tb_schema t)) cols [] = None.
Proof.
  intros HR Hsys Hf Hvals Hk Hst F idrows'.
  unfold st_update in Hst. destruct (upd_bad_cols s n cols) as [e|] eqn:Eb; [inversion Hst|].
  destruct (st_update0_rep s d t k s' ws HR Hsys Hf Hvals Hk Hst) as (A & B & C & D).
  split; [exact A|]. split; [exact B|]. split; [exact C|]. split; [exact D|].
  destruct (inplace_setup s d t k HR Hsys Hf Hk)
    as (pt & sc & ents & osc & o & tr & c & l & HC & Hin & Hn & He & Eo & Hr & Es & _).
  unfold upd_bad_cols in Eb. rewrite is_sys_table_is_sys, Hsys, Eo in Eb. cbn [bind] in Eb.
  unfold get_tree at 1 in Eb. rewrite Hr in Eb. cbn [bind] in Eb. rewrite Es in Eb. exact Eb.
Qed.

Lemma upd_ids_cons k rest F idrows :
  ~ In k rest ->
  upd_ids rest F (map (fun kr => if N.eqb (fst kr) k then (fst kr, F (snd kr)) else kr) idrows) =
  upd_ids (k :: rest) F idrows.
Proof.
  intros Hnk. unfold upd_ids. rewrite map_map. apply map_ext. intros kr. cbn [existsb].
  destruct (N.eqb_spec (fst kr) k) as [E|E]; cbn [fst snd orb].
  - assert (X : existsb (N.eqb (fst kr)) rest = false).
    { destruct (existsb _ rest) eqn:Ee; [|reflexivity]. exfalso. apply existsb_exists in Ee as (x & Hx & Ex).
      apply N.eqb_eq in Ex. apply Hnk. congruence. }
    rewrite X. reflexivity.
  - reflexivity.
Qed.

Lemma update_rows_rep ids : forall s d t b s' b' c,
  Rep s d -> is_sys n = false -> find_tbl n d = Some t -> Forall val_okP vals ->
  (forall k, In k ids -> In k (map fst (fetch_rows s n))) -> NoDup ids ->
  update_rows s n cols vals ids b = (s', b', OOk c) ->
  let F := build_row (tb_schema t) cols vals in
  Rep s' (set_rows n (map snd (upd_ids ids F (fetch_rows s n))) d) /\ nextFree s' = nextFree s /\
  (forall k r, In k ids -> In (k, r) (fetch_rows s n) -> check_row (tb_schema t) (F r) = None) /\
  (ids <> [] -> cols_err (map fd_name (tb_schema t)) cols [] = None).
Proof.
  induction ids as [|k rest IH]; intros s d t b s' b' c HR Hsys Hf Hvals Hks Hnd Hrun F.
  - cbn [update_rows] in Hrun. inversion Hrun; subst. split; [|split; [reflexivity | split; [intros ? ? [] | congruence]]].
    unfold upd_ids. cbn [existsb]. rewrite map_id.
    pose proof HR as [Hinv Hok (pt & sc & ents & osc & HC)].
    destruct (find_tbl_In _ _ _ Hf) as [Hin Hn].
    destruct (c_tabs _ _ _ _ _ _ HC t Hin) as (o & tr & He & Hr & Ht). rewrite Hn in He.
    pose proof (cat_rel_offset_in s' d pt sc ents osc Hinv Hok HC _ _ He) as Eo.
    destruct (fetch_rows_ids s' d n t o tr HR Hsys Hf Eo Hr) as (_ & -> & _).
    rewrite (set_rows_self n d t Hf). exact HR.
  - cbn [update_rows] in Hrun. inversion Hnd as [|? ? Hnk Hnd']; subst.
    destruct (st_update s n k cols vals) as [s1 [ws|e|]] eqn:Est; try (inversion Hrun; fail).
    destruct (st_update_rep s d t k s1 ws HR Hsys Hf Hvals (Hks k (or_introl eq_refl)) Est) as (HR1 & Hfr1 & Hnf1 & Hchk1 & Hce1).
    match type of HR1 with Rep _ (set_rows _ ?rows _) => pose proof (find_tbl_set_rows n rows d t Hf) as Hf1 end.
    destruct (IH s1 _ _ (b ++ ws) s' b' c HR1 Hsys Hf1 Hvals) as (HR' & Hnf' & Hchk' & _); auto.
    { intros k' Hk'. rewrite Hfr1, map_map.
      replace (map (fun x => fst (if N.eqb (fst x) k then (fst x, build_row (tb_schema t) cols vals (snd x)) else x)) (fetch_rows s n))
        with (map fst (fetch_rows s n)); [apply Hks; right; exact Hk'|].
      apply map_ext. intros kr. destruct (N.eqb (fst kr) k); reflexivity. }
    cbn [tb_schema] in HR', Hchk'. fold F in HR', Hchk'.
    split; [|split; [congruence|split; [|intros _; exact Hce1]]].
    + rewrite set_rows_set_rows, Hfr1 in HR'. fold F in HR'. rewrite (upd_ids_cons k rest F _ Hnk) in HR'. exact HR'.
    + intros k' r [<-|Hk'] Hkr; [apply Hchk1; exact Hkr|].
      apply (Hchk' k' r Hk'). rewrite Hfr1. apply in_map_iff. exists (k', r). split; [|exact Hkr].
      cbn [fst]. destruct (N.eqb_spec k' k) as [->|_]; [contradiction | reflexivity].
Qed.

End InPlace.
