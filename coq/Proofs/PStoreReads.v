(* C16: unconditional sufficient criteria for the discipline `ok_run` of Model/PStore.v.

   Proofs/PStoreProofs.v proves `cache_invisible` under the boolean discipline `ok_run`; here it is
   proved which continuations of a run satisfy it, with no `ok_run` hypothesis on the continuation:

   - reads: from a state with no dirty entry and capacity >= 1, every list of fetches is within
     the discipline (`reads_in_discipline`): a fetch is refused only by a cache full of dirty
     entries (`set_accepted`), a fetch makes no entry dirty (`fetch_facts`), and there is neither a
     modification nor a pending page;
   - a flush leaves no dirty entry (`flush_no_dirty`), whatever the visiting order;
   - hence, for every capacity >= 1: a run within the discipline with no pending page, then a
     flush, then any fetches, is within the discipline (`reads_after_flush_in_discipline`) and
     every one of these fetches returns the content of the reference map
     (`reads_after_flush_see_reference`);
   - one fetch-and-modify through the object the fetch returned is within the discipline from such
     a state (`fetch_modify_in_discipline`, `write_after_flush_in_discipline`);
   - more generally (`updates_in_discipline`, caller level `hrun`): from a state with d dirty
     entries, any number of reads and fewer than `cap - d` page updates (fetch, then modify through
     the object just fetched) are within the discipline: each update makes at most one more entry
     dirty, and a fetch is accepted while fewer than `cap` entries are dirty (`set_accepted_count`);
     over reachable states: `updates_after_flush_in_discipline`,
     `caller_updates_after_flush_in_discipline`. The bound is sharp (Properties/C16.v,
     C16_update_bound_sharp).
   The LRU invariant `Inv` (distinct keys, at most cap entries) and the capacity are preserved by
   every page-store step, with no discipline hypothesis (`ps_step_Inv`, `ps_step_cap`). *)
From Coq Require Import List NArith Bool Arith Lia.
From Mkdb Require Import Model.Lru Proofs.LruProofs Model.PStore Spec.PStoreSpec Proofs.PStoreProofs.
Import ListNotations.
Open Scope N_scope.

Definition is_fetch (o : pop) : bool := match o with PFetch _ => true | _ => false end.
Definition all_fetches (ops : list pop) : bool := forallb is_fetch ops.

Definition clean_cache (c : lru) : bool := forallb (fun e => negb (edirty e)) (entries c).
Definition no_dirty (s : pstore) : bool := clean_cache (ps_cache s).

(* the pending list (allocated, not yet modified pages) at the end of an operation list *)
Definition pend_of (ops : list pop) : list N := fold_left pend_step ops [].

Lemma clean_cache_spec c :
  clean_cache c = true <-> forall e, In e (entries c) -> edirty e = false.
Proof.
  unfold clean_cache. rewrite forallb_forall. split; intros H e He; specialize (H e He).
  - destruct (edirty e); [discriminate H | reflexivity].
  - rewrite H. reflexivity.
Qed.

(* ---------- the LRU accepts every set when nothing is dirty and the capacity is >= 1 ---------- *)
Lemma set_accepted c k v d :
  Inv c -> (1 <= cap c)%nat -> clean_cache c = true ->
  exists c1 ev, lru_step c (OSet k v d) = (c1, RSet true ev).
Proof.
  intros [Hnd Hlen] Hcap Hcl. cbn [lru_step].
  destruct (find_entry k (entries c)) as [e0|] eqn:Ef; [eauto|].
  destruct (Nat.eqb_spec (length (entries c)) (cap c)) as [Hfull|Hnf]; [|eauto].
  pose proof (victim_spec (entries c)) as S.
  destruct (victim (entries c)) as [ve|] eqn:Ev; [eauto|].
  exfalso. rewrite clean_cache_spec in Hcl.
  destruct (entries c) as [|a l] eqn:El.
  - cbn [length] in Hfull. lia.
  - inversion S as [|? ? Ha _]; subst.
    specialize (Hcl a (or_introl eq_refl)). congruence.
Qed.

(* ---------- one fetch from a state with no dirty entry ---------- *)
Lemma fetch_cases s k :
  Inv (ps_cache s) -> (1 <= cap (ps_cache s))%nat -> no_dirty s = true ->
  (exists e, find_entry k (entries (ps_cache s)) = Some e /\
             ps_step s (PFetch k) =
             (mkPS (mkLru (cap (ps_cache s)) (e :: remove_key k (entries (ps_cache s))))
                   (ps_heap s) (ps_file s) (ps_next s),
              PObj (eval e) (heap_get (eval e) (ps_heap s)))) \/
  (find_entry k (entries (ps_cache s)) = None /\
   exists c1 ev, lru_step (ps_cache s) (OSet k (ps_next s) false) = (c1, RSet true ev) /\
                 ps_step s (PFetch k) =
                 (mkPS c1 (aset (ps_next s) (file_get k (ps_file s)) (ps_heap s)) (ps_file s)
                       (ps_next s + 1),
                  PObj (ps_next s) (file_get k (ps_file s)))).
Proof.
  intros Hi Hcap Hcl. cbn [ps_step].
  destruct (lru_step (ps_cache s) (OGet k)) as [c0 out] eqn:Eg. cbn [lru_step] in Eg.
  destruct (find_entry k (entries (ps_cache s))) as [e|] eqn:Ef.
  - left. exists e. split; [reflexivity|]. inversion Eg; subst c0 out. reflexivity.
  - right. split; [reflexivity|]. inversion Eg; subst c0 out.
    destruct (set_accepted (ps_cache s) k (ps_next s) false Hi Hcap Hcl) as (c1 & ev & Hs).
    exists c1, ev. split; [exact Hs|]. rewrite Hs. reflexivity.
Qed.

Lemma fetch_facts s k :
  Inv (ps_cache s) -> (1 <= cap (ps_cache s))%nat -> no_dirty s = true ->
  let s1 := fst (ps_step s (PFetch k)) in
  step_ok s (PFetch k) = true /\
  Inv (ps_cache s1) /\ cap (ps_cache s1) = cap (ps_cache s) /\ no_dirty s1 = true /\
  exists o c0, snd (ps_step s (PFetch k)) = PObj o c0 /\ cached_obj k s1 = Some o.
Proof.
  intros Hi Hcap Hcl s1. subst s1. unfold step_ok.
  pose proof Hcl as Hcl'. unfold no_dirty in Hcl'. rewrite clean_cache_spec in Hcl'.
  destruct (fetch_cases s k Hi Hcap Hcl) as [(e & Ef & Hs)|(Ef & c1 & ev & Hset & Hs)];
    rewrite Hs; cbn [fst snd ps_cache].
  - pose proof (find_entry_some _ _ _ Ef) as [He Hek].
    split; [reflexivity|]. split; [|split; [reflexivity|split]].
    + pose proof (step_Inv (ps_cache s) (OGet k) Hi) as H. cbn [lru_step] in H. rewrite Ef in H. exact H.
    + unfold no_dirty. rewrite clean_cache_spec. cbn [ps_cache entries]. intros x [<-|Hx].
      * apply Hcl'. exact He.
      * apply Hcl'. eapply remove_key_in_subset. exact Hx.
    + exists (eval e), (heap_get (eval e) (ps_heap s)). split; [reflexivity|].
      unfold cached_obj. cbn [ps_cache entries find_entry]. rewrite Hek, N.eqb_refl. reflexivity.
  - destruct (set_entries _ _ _ _ _ _ Hset) as (rest & Erest & Hsub & _).
    split; [reflexivity|]. split; [|split; [|split]].
    + pose proof (step_Inv (ps_cache s) (OSet k (ps_next s) false) Hi) as H. rewrite Hset in H. exact H.
    + pose proof (step_cap (ps_cache s) (OSet k (ps_next s) false)) as H. rewrite Hset in H. exact H.
    + unfold no_dirty. rewrite clean_cache_spec. cbn [ps_cache]. rewrite Erest. intros x [<-|Hx].
      * reflexivity.
      * apply Hcl'. apply Hsub. exact Hx.
    + exists (ps_next s), (file_get k (ps_file s)). split; [reflexivity|].
      unfold cached_obj. cbn [ps_cache]. rewrite Erest. cbn [find_entry ekey]. rewrite N.eqb_refl. reflexivity.
Qed.

(* ---------- (1) reads are within the discipline at every capacity >= 1 ---------- *)
Lemma reads_state fs : forall s,
  Inv (ps_cache s) -> (1 <= cap (ps_cache s))%nat -> no_dirty s = true -> all_fetches fs = true ->
  let s' := fst (ps_run s fs) in
  Inv (ps_cache s') /\ cap (ps_cache s') = cap (ps_cache s) /\ no_dirty s' = true.
Proof.
  induction fs as [|op r IH]; intros s Hi Hcap Hcl Hfs; [cbn; auto|].
  cbn [all_fetches forallb] in Hfs. apply andb_true_iff in Hfs as [Hop Hr].
  destruct op as [k| | |]; try discriminate Hop.
  destruct (fetch_facts s k Hi Hcap Hcl) as (_ & Hi1 & Hc1 & Hcl1 & _).
  cbn [ps_run]. destruct (ps_step s (PFetch k)) as [s1 x]. cbn [fst] in *.
  assert (Hcap1 : (1 <= cap (ps_cache s1))%nat) by lia.
  specialize (IH s1 Hi1 Hcap1 Hcl1 Hr). destruct (ps_run s1 r) as [s2 xs]. cbn [fst] in *.
  rewrite <- Hc1. exact IH.
Qed.

Theorem reads_in_discipline fs : forall s,
  Inv (ps_cache s) -> (1 <= cap (ps_cache s))%nat -> no_dirty s = true -> all_fetches fs = true ->
  ok_run s [] fs = true.
Proof.
  induction fs as [|op r IH]; intros s Hi Hcap Hcl Hfs; [reflexivity|].
  cbn [all_fetches forallb] in Hfs. apply andb_true_iff in Hfs as [Hop Hr].
  destruct op as [k| | |]; try discriminate Hop.
  destruct (fetch_facts s k Hi Hcap Hcl) as (Hok & Hi1 & Hc1 & Hcl1 & _).
  cbn [ok_run pend_step forallb]. rewrite Hok. cbn [andb].
  apply IH; auto. lia.
Qed.

(* ---------- a flush leaves no dirty entry ---------- *)
Lemma flush_one_cap h c f k : cap (fst (flush_one h (c, f) k)) = cap c.
Proof.
  unfold flush_one. destruct (find_entry k (entries c)) as [e|]; [|reflexivity].
  destruct (edirty e); reflexivity.
Qed.

Lemma flush_fold_cap h todo : forall c f, cap (fst (fold_left (flush_one h) todo (c, f))) = cap c.
Proof.
  induction todo as [|k r IH]; intros c f; [reflexivity|].
  cbn [fold_left]. pose proof (flush_one_cap h c f k) as H.
  destruct (flush_one h (c, f) k) as [c1 f1]. cbn [fst] in H. rewrite IH. exact H.
Qed.

Lemma flush_fold_clean h todo : forall c f,
  NoDup (keys (entries c)) ->
  (forall e, In e (entries c) -> edirty e = true -> In (ekey e) todo) ->
  clean_cache (fst (fold_left (flush_one h) todo (c, f))) = true.
Proof.
  induction todo as [|k r IH]; intros c f Hnd Hd.
  - cbn [fold_left fst]. apply clean_cache_spec. intros e He.
    destruct (edirty e) eqn:Ed; [|reflexivity]. destruct (Hd e He Ed).
  - cbn [fold_left]. unfold flush_one at 2.
    destruct (find_entry k (entries c)) as [e0|] eqn:Ef.
    + pose proof (find_entry_some _ _ _ Ef) as [He0 Hek0].
      destruct (edirty e0) eqn:Ed0.
      * apply IH; cbn [entries].
        -- cbn [keys map ekey]. constructor; [apply remove_key_not_in; exact Hnd | apply remove_key_NoDup; exact Hnd].
        -- intros e [<-|He] Ed; [cbn [edirty] in Ed; discriminate Ed|].
           pose proof (remove_key_in_subset _ _ _ He) as He'.
           destruct (Hd e He' Ed) as [Hk|Hin]; [|exact Hin].
           exfalso. apply (remove_key_not_in k (entries c) Hnd). unfold keys. apply in_map_iff.
           exists e. split; [symmetry; exact Hk | exact He].
      * apply IH; [exact Hnd|]. intros e He Ed.
        destruct (Hd e He Ed) as [Hk|Hin]; [|exact Hin].
        exfalso. pose proof (find_entry_unique _ e Hnd He) as Hu. rewrite <- Hk, Ef in Hu.
        inversion Hu; subst e0. congruence.
    + apply IH; [exact Hnd|]. intros e He Ed.
      destruct (Hd e He Ed) as [Hk|Hin]; [|exact Hin].
      exfalso. apply find_entry_none in Ef. apply Ef. rewrite Hk. apply in_map. exact He.
Qed.

Lemma ps_step_flush s order :
  ps_step s (PFlush order) =
  (mkPS (fst (fold_left (flush_one (ps_heap s))
                        (order ++ map ekey (filter edirty (entries (ps_cache s))))
                        (ps_cache s, ps_file s)))
        (ps_heap s)
        (snd (fold_left (flush_one (ps_heap s))
                        (order ++ map ekey (filter edirty (entries (ps_cache s))))
                        (ps_cache s, ps_file s)))
        (ps_next s), PUnit).
Proof.
  cbn [ps_step].
  match goal with
  | |- (let '(c, f) := fold_left ?F ?t ?a in _) = _ => change F with (flush_one (ps_heap s))
  end.
  destruct (fold_left (flush_one (ps_heap s)) _ _) as [c f]. reflexivity.
Qed.

Theorem flush_no_dirty s order :
  NoDup (keys (entries (ps_cache s))) -> no_dirty (fst (ps_step s (PFlush order))) = true.
Proof.
  intros Hnd. rewrite ps_step_flush. cbn [fst]. unfold no_dirty. cbn [ps_cache].
  apply flush_fold_clean; [exact Hnd|].
  intros e He Ed. apply in_or_app. right. apply in_map. apply filter_In. auto.
Qed.

(* ---------- the capacity never changes ---------- *)
Lemma ps_step_cap s op : cap (ps_cache (fst (ps_step s op))) = cap (ps_cache s).
Proof.
  destruct op as [k|k c|k o c|order].
  - cbn [ps_step]. pose proof (step_cap (ps_cache s) (OGet k)) as Hg.
    destruct (lru_step (ps_cache s) (OGet k)) as [c1 out]. cbn [fst] in Hg.
    pose proof (step_cap (ps_cache s) (OSet k (ps_next s) false)) as Hs.
    destruct (lru_step (ps_cache s) (OSet k (ps_next s) false)) as [c2 out2]. cbn [fst] in Hs.
    destruct out as [ok ev|[o|]|]; cbn [fst ps_cache]; try exact Hg;
      destruct out2 as [[|] ev2| |]; cbn [fst ps_cache]; auto.
  - cbn [ps_step].
    pose proof (step_cap (ps_cache s) (OSet k (ps_next s) false)) as Hs.
    destruct (lru_step (ps_cache s) (OSet k (ps_next s) false)) as [c2 out2]. cbn [fst] in Hs.
    destruct out2 as [[|] ev2| |]; cbn [fst ps_cache]; auto.
  - cbn [ps_step fst ps_cache].
    destruct (cached_obj k s) as [o'|]; [|reflexivity].
    destruct (N.eqb o' o); [|reflexivity]. apply step_cap.
  - rewrite ps_step_flush. cbn [fst ps_cache]. apply flush_fold_cap.
Qed.

Lemma ps_run_cap ops : forall s, cap (ps_cache (fst (ps_run s ops))) = cap (ps_cache s).
Proof.
  induction ops as [|op r IH]; intros s; [reflexivity|].
  cbn [ps_run]. pose proof (ps_step_cap s op) as H1. destruct (ps_step s op) as [s1 x]. cbn [fst] in H1.
  specialize (IH s1). destruct (ps_run s1 r) as [s2 xs]. cbn [fst] in *. lia.
Qed.

(* ---------- runs: concatenation, and the invariant with the pending list pinned ---------- *)
Lemma ok_run_concat a : forall s pend b,
  ok_run s pend (a ++ b) =
  ok_run s pend a && ok_run (fst (ps_run s a)) (fold_left pend_step a pend) b.
Proof.
  induction a as [|op r IH]; intros s pend b; [reflexivity|].
  cbn [app ok_run ps_run fold_left]. rewrite IH.
  destruct (ps_step s op) as [s1 x]. cbn [fst].
  destruct (ps_run s1 r) as [s2 xs]. cbn [fst]. rewrite andb_assoc. reflexivity.
Qed.

Lemma ps_run_concat a : forall s b,
  fst (ps_run s (a ++ b)) = fst (ps_run (fst (ps_run s a)) b).
Proof.
  induction a as [|op r IH]; intros s b; [reflexivity|].
  cbn [app ps_run]. destruct (ps_step s op) as [s1 x]. specialize (IH s1 b).
  destruct (ps_run s1 (r ++ b)) as [s2 xs]. destruct (ps_run s1 r) as [s3 ys]. cbn [fst] in *. exact IH.
Qed.

Lemma run_inv_pend ops : forall s ref pend,
  PInv s ref pend -> ok_run s pend ops = true ->
  PInv (fst (ps_run s ops)) (ref_run ref ops) (fold_left pend_step ops pend).
Proof.
  induction ops as [|op r IH]; intros s ref pend HI Hok; [exact HI|].
  cbn [ok_run] in Hok. apply andb_true_iff in Hok as [Hok Hrest]. apply andb_true_iff in Hok as [Hso Hres].
  rewrite forallb_forall in Hres.
  pose proof (step_inv s ref pend op HI Hso Hres) as H1.
  cbn [ps_run ref_run fold_left]. destruct (ps_step s op) as [s1 x]. cbn [fst] in *.
  specialize (IH s1 (ref_step ref op) (pend_step pend op) H1 Hrest).
  destruct (ps_run s1 r) as [s2 xs]. cbn [fst] in *. exact IH.
Qed.

Lemma ref_run_concat a : forall m b, ref_run m (a ++ b) = ref_run (ref_run m a) b.
Proof. induction a as [|op r IH]; intros m b; [reflexivity|]. cbn [app ref_run]. apply IH. Qed.

Lemma ref_run_fetches fs : forall m, all_fetches fs = true -> ref_run m fs = m.
Proof.
  induction fs as [|op r IH]; intros m H; [reflexivity|].
  cbn [all_fetches forallb] in H. apply andb_true_iff in H as [Hop Hr].
  destruct op; try discriminate Hop. cbn [ref_run ref_step]. apply IH. exact Hr.
Qed.

(* ---------- the LRU invariant holds in every state of every run ---------- *)
Lemma flush_one_Inv h c f k : Inv c -> Inv (fst (flush_one h (c, f) k)).
Proof.
  intros Hi. unfold flush_one. destruct (find_entry k (entries c)) as [e|] eqn:Ef; [|exact Hi].
  destruct (edirty e); [|exact Hi]. cbn [fst].
  pose proof (step_Inv c (OSet k (eval e) false) Hi) as H. cbn [lru_step] in H. rewrite Ef in H. exact H.
Qed.

Lemma flush_fold_Inv h todo : forall c f, Inv c -> Inv (fst (fold_left (flush_one h) todo (c, f))).
Proof.
  induction todo as [|k r IH]; intros c f Hi; [exact Hi|].
  cbn [fold_left]. pose proof (flush_one_Inv h c f k Hi) as H.
  destruct (flush_one h (c, f) k) as [c1 f1]. cbn [fst] in H. apply IH. exact H.
Qed.

Lemma ps_step_Inv s op : Inv (ps_cache s) -> Inv (ps_cache (fst (ps_step s op))).
Proof.
  intros Hi. destruct op as [k|k c|k o c|order].
  - cbn [ps_step]. pose proof (step_Inv (ps_cache s) (OGet k) Hi) as Hg.
    destruct (lru_step (ps_cache s) (OGet k)) as [c1 out]. cbn [fst] in Hg.
    pose proof (step_Inv (ps_cache s) (OSet k (ps_next s) false) Hi) as Hs.
    destruct (lru_step (ps_cache s) (OSet k (ps_next s) false)) as [c2 out2]. cbn [fst] in Hs.
    destruct out as [ok ev|[o|]|]; cbn [fst ps_cache]; try exact Hg;
      destruct out2 as [[|] ev2| |]; cbn [fst ps_cache]; auto.
  - cbn [ps_step].
    pose proof (step_Inv (ps_cache s) (OSet k (ps_next s) false) Hi) as Hs.
    destruct (lru_step (ps_cache s) (OSet k (ps_next s) false)) as [c2 out2]. cbn [fst] in Hs.
    destruct out2 as [[|] ev2| |]; cbn [fst ps_cache]; auto.
  - cbn [ps_step fst ps_cache].
    destruct (cached_obj k s) as [o'|]; [|exact Hi].
    destruct (N.eqb o' o); [|exact Hi]. apply step_Inv. exact Hi.
  - rewrite ps_step_flush. cbn [fst ps_cache]. apply flush_fold_Inv. exact Hi.
Qed.

Lemma ps_run_Inv ops : forall s, Inv (ps_cache s) -> Inv (ps_cache (fst (ps_run s ops))).
Proof.
  induction ops as [|op r IH]; intros s Hi; [exact Hi|].
  cbn [ps_run]. pose proof (ps_step_Inv s op Hi) as H1. destruct (ps_step s op) as [s1 x]. cbn [fst] in H1.
  specialize (IH s1 H1). destruct (ps_run s1 r) as [s2 xs]. cbn [fst] in *. exact IH.
Qed.

(* the state after a flush issued at any point of any run from the initial state: LRU invariant,
   the initial capacity, nothing dirty *)
Lemma flushed_state cap ops order :
  let s1 := fst (ps_step (fst (ps_run (ps_init cap) ops)) (PFlush order)) in
  Inv (ps_cache s1) /\ Lru.cap (ps_cache s1) = cap /\ no_dirty s1 = true.
Proof.
  intros s1. subst s1.
  assert (Hi : Inv (ps_cache (fst (ps_run (ps_init cap) ops)))) by (apply ps_run_Inv, Inv_init).
  split; [apply ps_step_Inv; exact Hi|]. split.
  - rewrite ps_step_cap, ps_run_cap. reflexivity.
  - apply flush_no_dirty. exact (proj1 Hi).
Qed.

(* ---------- (1) corollaries over reachable states ---------- *)
Theorem reads_after_flush_in_discipline cap ops order fs :
  (1 <= cap)%nat ->
  ok_run (ps_init cap) [] ops = true -> pend_of ops = [] -> all_fetches fs = true ->
  ok_run (ps_init cap) [] (ops ++ PFlush order :: fs) = true.
Proof.
  intros Hcap Hok Hpend Hfs. rewrite ok_run_concat, Hok. cbn [andb].
  fold (pend_of ops). rewrite Hpend. cbn [ok_run step_ok pend_step forallb andb].
  destruct (flushed_state cap ops order) as (Hi & Hc & Hcl).
  apply reads_in_discipline; auto. lia.
Qed.

Theorem reads_after_flush_see_reference cap ops order fs :
  (1 <= cap)%nat ->
  ok_run (ps_init cap) [] ops = true -> pend_of ops = [] -> all_fetches fs = true ->
  (forall k, ps_view (fst (ps_run (ps_init cap) (ops ++ PFlush order :: fs))) k =
             ref_get k (ref_run [] (ops ++ PFlush order :: fs))) /\
  (forall k, ref_get k (ref_run [] (ops ++ PFlush order :: fs)) = ref_get k (ref_run [] ops)) /\
  (forall fs1 k fs2, fs = fs1 ++ PFetch k :: fs2 ->
     match snd (ps_step (fst (ps_run (ps_init cap) (ops ++ PFlush order :: fs1))) (PFetch k)) with
     | PObj _ c => c = ref_get k (ref_run [] ops)
     | _ => False
     end).
Proof.
  intros Hcap Hok Hpend Hfs.
  assert (Href : forall fs', all_fetches fs' = true ->
                             ref_run [] (ops ++ PFlush order :: fs') = ref_run [] ops).
  { intros fs' H'. rewrite ref_run_concat. cbn [ref_run ref_step]. apply ref_run_fetches. exact H'. }
  split; [|split].
  - intros k. apply cache_invisible. apply reads_after_flush_in_discipline; auto.
  - intros k. rewrite Href by exact Hfs. reflexivity.
  - intros fs1 k fs2 E. subst fs.
    unfold all_fetches in Hfs. rewrite forallb_app in Hfs. apply andb_true_iff in Hfs as [Hfs1 _].
    assert (Hfs1' : all_fetches (fs1 ++ [PFetch k]) = true).
    { unfold all_fetches. rewrite forallb_app, Hfs1. reflexivity. }
    pose proof (reads_after_flush_in_discipline cap ops order (fs1 ++ [PFetch k]) Hcap Hok Hpend Hfs1') as H.
    change (ops ++ PFlush order :: fs1 ++ [PFetch k]) with (ops ++ (PFlush order :: fs1) ++ [PFetch k]) in H.
    rewrite app_assoc in H. apply fetch_sees_reference in H.
    rewrite (Href fs1 Hfs1) in H. exact H.
Qed.

(* ---------- (2) one fetch-and-modify through the object the fetch returned ---------- *)
Theorem fetch_modify_in_discipline s k o c0 c :
  Inv (ps_cache s) -> (1 <= cap (ps_cache s))%nat -> no_dirty s = true ->
  snd (ps_step s (PFetch k)) = PObj o c0 ->
  ok_run s [] [PFetch k; PModify k o c] = true.
Proof.
  intros Hi Hcap Hcl Hout.
  destruct (fetch_facts s k Hi Hcap Hcl) as (Hok & _ & _ & _ & o' & c' & Hout' & Hc).
  rewrite Hout in Hout'. inversion Hout'; subst o' c'.
  cbn [ok_run pend_step removeN forallb]. rewrite Hok. cbn [andb step_ok]. rewrite Hc, N.eqb_refl. reflexivity.
Qed.

(* over reachable states: discipline-respecting run with nothing pending, flush, any reads, then one
   page update through the object just fetched: in the discipline at every capacity >= 1, and the
   page then reads as the content written *)
Theorem write_after_flush_in_discipline cap ops order fs k o c0 c :
  (1 <= cap)%nat ->
  ok_run (ps_init cap) [] ops = true -> pend_of ops = [] -> all_fetches fs = true ->
  snd (ps_step (fst (ps_run (ps_init cap) (ops ++ PFlush order :: fs))) (PFetch k)) = PObj o c0 ->
  let all := (ops ++ PFlush order :: fs) ++ [PFetch k; PModify k o c] in
  ok_run (ps_init cap) [] all = true /\
  c0 = ref_get k (ref_run [] ops) /\
  ps_view (fst (ps_run (ps_init cap) all)) k = c.
Proof.
  intros Hcap Hok Hpend Hfs Hout all. subst all.
  pose proof (reads_after_flush_in_discipline cap ops order fs Hcap Hok Hpend Hfs) as Hpre.
  assert (Hall : ok_run (ps_init cap) [] ((ops ++ PFlush order :: fs) ++ [PFetch k; PModify k o c]) = true).
  { rewrite ok_run_concat, Hpre. cbn [andb].
    assert (Hp : fold_left pend_step (ops ++ PFlush order :: fs) [] = []).
    { rewrite fold_left_app. fold (pend_of ops). rewrite Hpend. cbn [fold_left pend_step].
      clear - Hfs. induction fs as [|op r IH]; [reflexivity|].
      cbn [all_fetches forallb] in Hfs. apply andb_true_iff in Hfs as [Hop Hr].
      destruct op; try discriminate Hop. cbn [fold_left pend_step]. apply IH. exact Hr. }
    rewrite Hp.
    destruct (flushed_state cap ops order) as (Hi & Hc & Hcl).
    assert (Hcap1 : (1 <= Lru.cap (ps_cache (fst (ps_step (fst (ps_run (ps_init cap) ops)) (PFlush order)))))%nat) by lia.
    destruct (reads_state fs _ Hi Hcap1 Hcl Hfs) as (Hi2 & Hc2 & Hcl2).
    assert (Es : fst (ps_run (ps_init cap) (ops ++ PFlush order :: fs)) =
                 fst (ps_run (fst (ps_step (fst (ps_run (ps_init cap) ops)) (PFlush order))) fs)).
    { rewrite ps_run_concat. cbn [ps_run].
      destruct (ps_step (fst (ps_run (ps_init cap) ops)) (PFlush order)) as [s1 x]. cbn [fst].
      destruct (ps_run s1 fs) as [s2 xs]. reflexivity. }
    rewrite Es in *. apply (fetch_modify_in_discipline _ k o c0 c Hi2); auto. lia. }
  split; [exact Hall|]. split.
  - assert (Hf : ok_run (ps_init cap) [] ((ops ++ PFlush order :: fs) ++ [PFetch k]) = true).
    { change [PFetch k; PModify k o c] with ([PFetch k] ++ [PModify k o c]) in Hall.
      rewrite app_assoc in Hall. apply ok_run_app in Hall as [Hall _]. exact Hall. }
    apply fetch_sees_reference in Hf. rewrite Hout in Hf. rewrite Hf.
    rewrite ref_run_concat. cbn [ref_run ref_step]. rewrite ref_run_fetches by exact Hfs. reflexivity.
  - rewrite (cache_invisible cap _ k Hall). rewrite ref_run_concat. cbn [ref_run ref_step].
    apply ref_get_aset_same.
Qed.

(* ====================== (3) bounded page updates ======================
   A fetch is accepted while fewer than `cap` entries are dirty; a fetch makes no entry dirty and a
   modification through the cached object makes at most one more entry dirty. Hence, at the caller
   level (Spec/PStoreSpec.v `hrun`: the caller modifies the object it got from its latest fetch of
   the page): any number of reads and fewer than `cap - dirty` page updates (fetch, then modify) are
   within the discipline. *)
Definition dirty_count (l : list entry) : nat := length (filter edirty l).
Definition ndirty (s : pstore) : nat := dirty_count (entries (ps_cache s)).

Lemma no_dirty_ndirty s : no_dirty s = true -> ndirty s = 0%nat.
Proof.
  unfold no_dirty, ndirty, dirty_count. rewrite clean_cache_spec.
  induction (entries (ps_cache s)) as [|a l IH]; intros H; [reflexivity|].
  cbn [filter]. rewrite (H a (or_introl eq_refl)). apply IH. intros e He. apply H. right. exact He.
Qed.

Lemma dirty_count_full l :
  Forall (fun x => edirty x = true) l -> dirty_count l = length l.
Proof.
  unfold dirty_count. induction l as [|a l IH]; intros H; [reflexivity|].
  inversion H as [|? ? Ha Hl]; subst. cbn [filter]. rewrite Ha. cbn [length]. rewrite IH by exact Hl. reflexivity.
Qed.

Lemma dirty_count_remove_le k l : (dirty_count (remove_key k l) <= dirty_count l)%nat.
Proof.
  unfold dirty_count. induction l as [|a l IH]; [cbn; lia|].
  cbn [remove_key]. destruct (N.eqb (ekey a) k); cbn [filter]; destruct (edirty a); cbn [length]; lia.
Qed.

Lemma dirty_count_hit k l e :
  find_entry k l = Some e -> dirty_count (e :: remove_key k l) = dirty_count l.
Proof.
  unfold dirty_count. induction l as [|a l IH]; cbn [find_entry remove_key]; [discriminate|].
  destruct (N.eqb (ekey a) k).
  - intros H; inversion H; subst. reflexivity.
  - intros H. specialize (IH H). cbn [filter] in *.
    destruct (edirty e); destruct (edirty a); cbn [length] in *; lia.
Qed.

Lemma set_flag_absent k d l : ~ In k (keys l) -> set_flag k d l = l.
Proof.
  unfold set_flag. induction l as [|a l IH]; intros H; [reflexivity|].
  cbn [map]. cbn [keys map In] in H.
  destruct (N.eqb_spec (ekey a) k) as [E|E]; [exfalso; apply H; left; exact E|].
  rewrite IH; [reflexivity|]. intros Hin. apply H. right. exact Hin.
Qed.

Lemma dirty_count_set_flag k l :
  NoDup (keys l) -> (dirty_count (set_flag k true l) <= S (dirty_count l))%nat.
Proof.
  unfold dirty_count. induction l as [|a l IH]; intros Hnd; [cbn; lia|].
  cbn [keys map] in Hnd. inversion Hnd as [|? ? Hn Hd]; subst.
  change (set_flag k true (a :: l)) with
    ((if N.eqb (ekey a) k then mkEntry (ekey a) (eval a) true else a) :: set_flag k true l).
  destruct (N.eqb_spec (ekey a) k) as [E|E].
  - rewrite set_flag_absent by (rewrite <- E; exact Hn).
    cbn [filter edirty length]. destruct (edirty a); cbn [length]; lia.
  - specialize (IH Hd). cbn [filter]. destruct (edirty a); cbn [length]; lia.
Qed.

(* refusal needs a cache full of dirty entries *)
Lemma set_accepted_count c k v d :
  Inv c -> (dirty_count (entries c) < cap c)%nat ->
  exists c1 ev, lru_step c (OSet k v d) = (c1, RSet true ev).
Proof.
  intros Hi Hlt.
  destruct (lru_step c (OSet k v d)) as [c1 out] eqn:Es.
  assert (Hout : exists b ev, out = RSet b ev).
  { revert Es. cbn [lru_step]. destruct (find_entry k (entries c)); [intros H; inversion H; eauto|].
    destruct (Nat.eqb _ _); [|intros H; inversion H; eauto].
    destruct (victim (entries c)); intros H; inversion H; eauto. }
  destruct Hout as (b & ev & ->). destruct b; [eauto|]. exfalso.
  assert (Hr : exists ev0, snd (lru_step c (OSet k v d)) = RSet false ev0) by (exists ev; rewrite Es; reflexivity).
  apply (set_refused_iff c k v d Hi) in Hr as (_ & Hfull & Hall).
  rewrite (dirty_count_full _ Hall) in Hlt. lia.
Qed.

Lemma set_clean_dirty_count c k v :
  (dirty_count (entries (fst (lru_step c (OSet k v false)))) <= dirty_count (entries c))%nat.
Proof.
  cbn [lru_step]. destruct (find_entry k (entries c)) as [e0|]; cbn [fst entries].
  - pose proof (dirty_count_remove_le k (entries c)) as H. unfold dirty_count in *. cbn [filter edirty]. exact H.
  - destruct (Nat.eqb _ _).
    + destruct (victim (entries c)) as [ve|]; cbn [fst entries]; [|lia].
      pose proof (dirty_count_remove_le (ekey ve) (entries c)) as H. unfold dirty_count in *. cbn [filter edirty]. exact H.
    + cbn [fst entries]. unfold dirty_count. cbn [filter edirty]. lia.
Qed.

(* one fetch while fewer than cap entries are dirty *)
Lemma fetch_facts_count s k :
  Inv (ps_cache s) -> (ndirty s < cap (ps_cache s))%nat ->
  let s1 := fst (ps_step s (PFetch k)) in
  step_ok s (PFetch k) = true /\ (ndirty s1 <= ndirty s)%nat /\
  exists o c0, snd (ps_step s (PFetch k)) = PObj o c0 /\ cached_obj k s1 = Some o.
Proof.
  intros Hi Hlt s1. subst s1. unfold step_ok, ndirty in *. cbn [ps_step].
  destruct (lru_step (ps_cache s) (OGet k)) as [c0 out] eqn:Eg. cbn [lru_step] in Eg.
  destruct (find_entry k (entries (ps_cache s))) as [e|] eqn:Ef; inversion Eg; subst c0 out; clear Eg.
  - pose proof (find_entry_some _ _ _ Ef) as [He Hek]. cbn [fst snd ps_cache entries].
    split; [reflexivity|]. split; [rewrite (dirty_count_hit k _ e Ef); lia|].
    eexists _, _. split; [reflexivity|].
    unfold cached_obj. cbn [ps_cache entries find_entry]. rewrite Hek, N.eqb_refl. reflexivity.
  - destruct (set_accepted_count (ps_cache s) k (ps_next s) false Hi Hlt) as (c1 & ev & Hs).
    pose proof (set_clean_dirty_count (ps_cache s) k (ps_next s)) as Hle.
    destruct (set_entries _ _ _ _ _ _ Hs) as (rest & Erest & _).
    rewrite Hs in *. cbn [fst snd ps_cache] in *.
    split; [reflexivity|]. split; [exact Hle|].
    eexists _, _. split; [reflexivity|].
    unfold cached_obj. cbn [ps_cache]. rewrite Erest. cbn [find_entry ekey]. rewrite N.eqb_refl. reflexivity.
Qed.

Lemma modify_ndirty s k o c :
  Inv (ps_cache s) -> (ndirty (fst (ps_step s (PModify k o c))) <= S (ndirty s))%nat.
Proof.
  intros [Hnd _]. unfold ndirty. cbn [ps_step fst ps_cache].
  destruct (cached_obj k s) as [o'|]; [|lia]. destruct (N.eqb o' o); [|lia].
  cbn [lru_step fst entries]. apply dirty_count_set_flag. exact Hnd.
Qed.

(* caller-level scripts: reads and page updates *)
Inductive uop := URead (k : N) | UWrite (k c : N).
Definition uop_hops (u : uop) : list hop :=
  match u with URead k => [HFetch k] | UWrite k c => [HFetch k; HModify k c] end.
Definition script_hops (sc : list uop) : list hop := flat_map uop_hops sc.
Definition is_write (u : uop) : bool := match u with UWrite _ _ => true | URead _ => false end.
Definition nwrites (sc : list uop) : nat := length (filter is_write sc).

Lemma hrun_fetch s held k r :
  fst (hrun s held (HFetch k :: r)) =
  PFetch k :: fst (hrun (fst (ps_step s (PFetch k)))
                        (match snd (ps_step s (PFetch k)) with PObj o _ => aset k o held | _ => held end) r).
Proof.
  cbn [hrun]. destruct (ps_step s (PFetch k)) as [s1 out]. cbn [fst snd].
  destruct out as [o c0| |]; match goal with |- fst (let '(ps, os) := ?X in _) = _ => destruct X end; reflexivity.
Qed.

Lemma hrun_modify s held k o c r :
  aget k held = Some o ->
  fst (hrun s held (HModify k c :: r)) =
  PModify k o c :: fst (hrun (fst (ps_step s (PModify k o c))) held r).
Proof.
  intros Hh. cbn [hrun]. rewrite Hh. destruct (ps_step s (PModify k o c)) as [s1 out] eqn:Es.
  assert (out = PUnit) by (cbn [ps_step] in Es; inversion Es; reflexivity). subst out. cbn [fst].
  match goal with |- fst (let '(ps, os) := ?X in _) = _ => destruct X end. reflexivity.
Qed.

Theorem updates_in_discipline sc : forall s held,
  Inv (ps_cache s) -> (ndirty s + nwrites sc < cap (ps_cache s))%nat ->
  ok_run s [] (fst (hrun s held (script_hops sc))) = true.
Proof.
  induction sc as [|u r IH]; intros s held Hi Hlt; [reflexivity|].
  assert (Hlt0 : (ndirty s < cap (ps_cache s))%nat) by lia.
  unfold script_hops in *.
  destruct u as [k|k c]; cbn [flat_map uop_hops app]; rewrite hrun_fetch;
    destruct (fetch_facts_count s k Hi Hlt0) as (Hok & Hle & o & c0 & Hout & Hc);
    pose proof (ps_step_Inv s (PFetch k) Hi) as Hi1;
    pose proof (ps_step_cap s (PFetch k)) as Hc1;
    rewrite Hout.
  - cbn [ok_run pend_step forallb]. rewrite Hok. cbn [andb]. apply IH; [exact Hi1|].
    unfold nwrites in *. cbn [filter is_write] in Hlt. lia.
  - rewrite (hrun_modify _ _ k o c _ (aget_aset_same k o held)).
    cbn [ok_run pend_step removeN forallb]. rewrite Hok. cbn [andb step_ok]. rewrite Hc, N.eqb_refl. cbn [andb].
    apply IH; [apply ps_step_Inv; exact Hi1|].
    pose proof (modify_ndirty (fst (ps_step s (PFetch k))) k o c Hi1) as Hm.
    rewrite ps_step_cap, Hc1. unfold nwrites in *. cbn [filter is_write length] in Hlt. lia.
Qed.

(* over reachable states: a run within the discipline with nothing pending, a flush, then a caller
   script with any number of reads and fewer than `cap` page updates *)
Theorem updates_after_flush_in_discipline cap ops order sc held :
  ok_run (ps_init cap) [] ops = true -> pend_of ops = [] -> (nwrites sc < cap)%nat ->
  let s1 := fst (ps_step (fst (ps_run (ps_init cap) ops)) (PFlush order)) in
  let all := ops ++ PFlush order :: fst (hrun s1 held (script_hops sc)) in
  ok_run (ps_init cap) [] all = true /\
  forall k, ps_view (fst (ps_run (ps_init cap) all)) k = ref_get k (ref_run [] all).
Proof.
  intros Hok Hpend Hn s1 all.
  assert (Hall : ok_run (ps_init cap) [] all = true).
  { subst all. rewrite ok_run_concat, Hok. cbn [andb].
    fold (pend_of ops). rewrite Hpend. cbn [ok_run step_ok pend_step forallb andb]. fold s1.
    destruct (flushed_state cap ops order) as (Hi & Hc & Hcl). fold s1 in Hi, Hc, Hcl.
    apply updates_in_discipline; [exact Hi|]. rewrite (no_dirty_ndirty s1 Hcl), Hc. lia. }
  split; [exact Hall|]. intros k. apply cache_invisible. exact Hall.
Qed.

(* ---------- the same at the caller level (the operation lists of the page-store check) ---------- *)
Definition hop_pop (held : amap) (h : hop) : option pop :=
  match h with
  | HFetch k => Some (PFetch k)
  | HAlloc k c => Some (PAlloc k c)
  | HModify k c => match aget k held with Some o => Some (PModify k o c) | None => None end
  | HFlush ord => Some (PFlush ord)
  end.

Definition held_step (held : amap) (h : hop) (out : pout) : amap :=
  match h, out with
  | HFetch k, PObj o _ | HAlloc k _, PObj o _ => aset k o held
  | _, _ => held
  end.

(* the state and the held objects at the end of a caller-level run *)
Fixpoint hfinal (s : pstore) (held : amap) (ops : list hop) : pstore * amap :=
  match ops with
  | [] => (s, held)
  | h :: r =>
      match hop_pop held h with
      | None => hfinal s held r
      | Some op => hfinal (fst (ps_step s op)) (held_step held h (snd (ps_step s op))) r
      end
  end.

Lemma hrun_cons s held h r :
  fst (hrun s held (h :: r)) =
  match hop_pop held h with
  | None => fst (hrun s held r)
  | Some op => op :: fst (hrun (fst (ps_step s op)) (held_step held h (snd (ps_step s op))) r)
  end.
Proof.
  cbn [hrun]. fold (hop_pop held h). destruct (hop_pop held h) as [op|].
  - destruct (ps_step s op) as [s1 out]. cbn [fst snd]. fold (held_step held h out).
    destruct (hrun s1 (held_step held h out) r) as [ps os]. reflexivity.
  - destruct (hrun s held r) as [ps os]. reflexivity.
Qed.

Lemma hrun_concat a : forall s held b,
  fst (hrun s held (a ++ b)) =
  fst (hrun s held a) ++ fst (hrun (fst (hfinal s held a)) (snd (hfinal s held a)) b).
Proof.
  induction a as [|h r IH]; intros s held b; [reflexivity|].
  cbn [app hfinal]. rewrite !hrun_cons. destruct (hop_pop held h) as [op|].
  - rewrite IH. reflexivity.
  - apply IH.
Qed.

Lemma hfinal_state a : forall s held,
  fst (hfinal s held a) = fst (ps_run s (fst (hrun s held a))).
Proof.
  induction a as [|h r IH]; intros s held; [reflexivity|].
  cbn [hfinal]. rewrite hrun_cons. destruct (hop_pop held h) as [op|].
  - rewrite IH. cbn [ps_run]. destruct (ps_step s op) as [s1 out]. cbn [fst snd].
    destruct (ps_run s1 _) as [s2 xs]. reflexivity.
  - apply IH.
Qed.

Theorem caller_updates_after_flush_in_discipline cap hops order sc :
  ok_run (ps_init cap) [] (fst (hrun (ps_init cap) [] hops)) = true ->
  pend_of (fst (hrun (ps_init cap) [] hops)) = [] -> (nwrites sc < cap)%nat ->
  let all := fst (hrun (ps_init cap) [] (hops ++ HFlush order :: script_hops sc)) in
  ok_run (ps_init cap) [] all = true /\
  forall k, ps_view (fst (ps_run (ps_init cap) all)) k = ref_get k (ref_run [] all).
Proof.
  intros Hok Hpend Hn all. subst all.
  rewrite hrun_concat, hrun_cons. cbn [hop_pop]. rewrite hfinal_state.
  apply (updates_after_flush_in_discipline cap _ order sc _ Hok Hpend Hn).
Qed.
