(* C14 (a statement that returns an error changes nothing), the part that needs no invariant:
   a statement whose error arises BEFORE its first page change (`fails_early`, a syntactic
   criterion looking at the first row only) leaves every page, the catalog root and the allocator
   untouched, so `abs` is unchanged; and no failing statement appends anything to the log or
   flushes. Errors at row k > 1 of a multi-row statement / column k > 1 of CREATE TABLE are caught
   by the check loops the engine now runs before its first change (first_err / create_bad_rows);
   that nothing can fail AFTER those checks needs the refinement invariant and is proved in
   Proofs/FailsEarly.v (stmt_err_unchanged). *)
From Coq Require Import Arith Lia Bool List NArith String.
From Mkdb Require Import Model.Engine Proofs.StoreInv.
Import ListNotations.
Local Open Scope N_scope.

(* ---------- states that differ only in the two counters ---------- *)
Definition same_pages (s s' : store) : Prop :=
  forest s' = forest s /\ ptRoot s' = ptRoot s /\ nextFree s' = nextFree s /\
  lastKey s <= lastKey s' /\ nextLSN s <= nextLSN s'.

Lemma same_pages_refl s : same_pages s s.
Proof. unfold same_pages. repeat split; lia. Qed.

Lemma same_pages_trans a b c : same_pages a b -> same_pages b c -> same_pages a c.
Proof.
  unfold same_pages. intros (A1 & A2 & A3 & A4 & A5) (B1 & B2 & B3 & B4 & B5).
  repeat split; try congruence; lia.
Qed.

Lemma get_tree_pages s s' off : forest s' = forest s -> get_tree s' off = get_tree s off.
Proof. intros H. unfold get_tree. rewrite H. reflexivity. Qed.

Lemma rel_offset_pages s s' n :
  forest s' = forest s -> ptRoot s' = ptRoot s -> rel_offset s' n = rel_offset s n.
Proof. intros Hf Hp. unfold rel_offset. rewrite Hp, (get_tree_pages s s' _ Hf). reflexivity. Qed.

Lemma rel_schema_pages s s' n :
  forest s' = forest s -> ptRoot s' = ptRoot s -> rel_schema s' n = rel_schema s n.
Proof.
  intros Hf Hp. unfold rel_schema. rewrite (rel_offset_pages s s' _ Hf Hp).
  destruct (rel_offset s schemaTableName) as [off|e|]; cbn [bind]; try reflexivity.
  rewrite (get_tree_pages s s' _ Hf). reflexivity.
Qed.

Lemma st_fetch_pages s s' n :
  forest s' = forest s -> ptRoot s' = ptRoot s -> st_fetch s' n = st_fetch s n.
Proof.
  intros Hf Hp. unfold st_fetch. rewrite (rel_offset_pages s s' _ Hf Hp).
  destruct (rel_offset s n) as [off|e|]; cbn [bind]; try reflexivity.
  rewrite (rel_schema_pages s s' _ Hf Hp).
  destruct (rel_schema s n) as [sch|e|]; cbn [bind]; try reflexivity.
  rewrite (get_tree_pages s s' _ Hf). reflexivity.
Qed.

Lemma all_tables_pages s s' :
  forest s' = forest s -> ptRoot s' = ptRoot s -> all_tables s' = all_tables s.
Proof. intros Hf Hp. unfold all_tables. rewrite Hp, (get_tree_pages s s' _ Hf). reflexivity. Qed.

Lemma fetch_all_pages s s' ns :
  forest s' = forest s -> ptRoot s' = ptRoot s -> fetch_all s' ns = fetch_all s ns.
Proof.
  intros Hf Hp. induction ns as [|n r IH]; [reflexivity|].
  cbn [fetch_all]. rewrite (st_fetch_pages s s' n Hf Hp), IH. reflexivity.
Qed.

Lemma abs_pages s s' : forest s' = forest s -> ptRoot s' = ptRoot s -> abs s' = abs s.
Proof.
  intros Hf Hp. unfold abs. rewrite (all_tables_pages s s' Hf Hp).
  destruct (all_tables s) as [ns|e|]; cbn [bind]; try reflexivity.
  apply fetch_all_pages; assumption.
Qed.

Lemma same_pages_abs s s' : same_pages s s' -> abs s' = abs s.
Proof. intros (Hf & Hp & _). apply abs_pages; assumption. Qed.

(* ---------- RelationService.Insert: everything before BTree.insert (Model/Store.v ins_precheck) ---------- *)
Lemma st_insert_unfold s name cols vals :
  st_insert s name cols vals =
  if is_sys_table name then (s, Err EOther) else
  match ins_precheck s name cols vals with
  | Ok (off, bs) =>
      match bt_insert s off bs with
      | (s1, Ok (k, lsn, newroot)) =>
          let w := mkWal OpInsert lsn off k bs in
          if N.eqb newroot off then (s1, Ok [w])
          else match update_page_table s1 newroot name with
               | (s2, Ok ws) => (s2, Ok (w :: ws))
               | (s2, Err e) => (s2, Err e)
               | (s2, Panic) => (s2, Panic)
               end
      | (s1, Err e) => (s1, Err e)
      | (s1, Panic) => (s1, Panic)
      end
  | Err e => (s, Err e)
  | Panic => (s, Panic)
  end.
Proof.
  unfold st_insert, ins_bad_cols, st_insert0, ins_precheck.
  destruct (is_sys_table name); [reflexivity|].
  destruct (rel_offset s name) as [o|e|]; cbn [bind]; try reflexivity.
  destruct (get_tree s o) as [t|e|]; cbn [bind]; try reflexivity.
  destruct (rel_schema s name) as [sch|e|]; cbn [bind]; try reflexivity.
  destruct (negb _); [reflexivity|].
  destruct (cols_err _ _ _); reflexivity.
Qed.

Lemma ins_precheck_tree s name cols vals off bs :
  ins_precheck s name cols vals = Ok (off, bs) -> exists t, get_tree s off = Ok t.
Proof.
  unfold ins_precheck. destruct (rel_offset s name) as [o|e|]; cbn [bind]; try discriminate.
  destruct (get_tree s o) as [t|e|] eqn:Et; cbn [bind]; try discriminate.
  destruct (rel_schema s name) as [sch|e|]; cbn [bind]; try discriminate.
  destruct (negb _); try discriminate.
  destruct (cols_err _ _ _); try discriminate.
  destruct (encode_tuple _ _) as [b|e|]; cbn [bind]; try discriminate.
  intros H. inversion H; subst. eauto.
Qed.

(* an oversized value: BTree.insert consumes a row id and an LSN and fails; no page changes *)
Lemma bt_insert_too_large s off bs :
  (MV < length bs)%nat ->
  same_pages s (fst (bt_insert s off bs)) /\ forall x, snd (bt_insert s off bs) <> Ok x.
Proof.
  intros H. unfold bt_insert. cbv zeta.
  destruct (get_tree s off) as [t|e|]; cbn [fst snd].
  - destruct (tree_insert_too_large t (lastKey s + 1) (nextLSN s) bs (nextFree s) H) as [e He].
    rewrite He. cbn [fst snd]. split.
    + unfold same_pages. cbn [forest ptRoot nextFree lastKey nextLSN]. repeat split; lia.
    + intros x. destruct e; cbn; discriminate.
  - split; [apply same_pages_refl | discriminate].
  - split; [apply same_pages_refl | discriminate].
Qed.

(* every error path of Update / MarkDeleted returns before touching anything *)
Lemma st_update_err s name k cols vals e :
  snd (st_update s name k cols vals) = Err e -> fst (st_update s name k cols vals) = s.
Proof.
  unfold st_update. destruct (upd_bad_cols s name cols); [reflexivity|].
  unfold st_update0. destruct (is_sys_table name); [reflexivity|]. repeat (break_match; cbn [fst snd]; try reflexivity); discriminate.
Qed.

Lemma st_delete_err s name k e :
  snd (st_delete s name k) = Err e -> fst (st_delete s name k) = s.
Proof.
  unfold st_delete. destruct (is_sys_table name); [reflexivity|]. repeat (break_match; cbn [fst snd]; try reflexivity); discriminate.
Qed.

(* ---------- projections of run_stmt ---------- *)
Definition lit_vals (sets : list (string * vexpr)) : list value :=
  map (fun sv => match snd sv with XLit v => v | _ => VNull end) sets.

Definition set_from_col (sets : list (string * vexpr)) : bool :=
  existsb (fun sv => match snd sv with XCol _ => true | _ => false end) sets.

(* the check loops *)
Lemma first_err_ok {A} (chk : A -> res unit) l :
  first_err chk l = Ok tt -> forall a, In a l -> chk a = Ok tt.
Proof.
  induction l as [|x l IH]; intros H a Ha; [contradiction|]. cbn [first_err] in H.
  destruct (chk x) as [[]|e|] eqn:Ex; try discriminate.
  destruct Ha as [<-|Ha]; [exact Ex | apply IH; assumption].
Qed.

Lemma first_err_ok_intro {A} (chk : A -> res unit) l :
  (forall a, In a l -> chk a = Ok tt) -> first_err chk l = Ok tt.
Proof.
  induction l as [|x l IH]; intros H; [reflexivity|]. cbn [first_err].
  rewrite (H x (or_introl eq_refl)). apply IH. intros a Ha. apply H. right. exact Ha.
Qed.

Lemma first_err_ext {A} (f g : A -> res unit) l :
  (forall a, In a l -> f a = g a) -> first_err f l = first_err g l.
Proof.
  induction l as [|x l IH]; intros H; [reflexivity|]. cbn [first_err].
  rewrite (H x (or_introl eq_refl)), IH; [reflexivity|]. intros a Ha. apply H. right. exact Ha.
Qed.

Lemma run_insert s n cols rows :
  run_stmt s (SInsert n cols rows) =
  match first_err (check_insert s n cols) rows with
  | Ok _ =>
      mkEffect (fst (fst (insert_rows s n cols rows [] 0))) (snd (fst (insert_rows s n cols rows [] 0)))
               false (snd (insert_rows s n cols rows [] 0))
  | Err e => mkEffect s [] false (OErr e)
  | Panic => mkEffect s [] false OPanic
  end.
Proof.
  cbn [run_stmt]. destruct (first_err _ rows) as [u|e|]; try reflexivity.
  destruct (insert_rows s n cols rows [] 0) as [[s1 b] o]. reflexivity.
Qed.

Lemma run_update s n sets w :
  run_stmt s (SUpdate n sets w) =
  if set_from_col sets then mkEffect s [] false (OErr ETmpUnsupported)
  else match where_ids s n w with
       | Ok ids =>
           match first_err (fun k => check_update s n k (map fst sets) (lit_vals sets)) ids with
           | Ok _ =>
               let r := update_rows s n (map fst sets) (lit_vals sets) ids [] in
               mkEffect (fst (fst r)) (snd (fst r)) false (snd r)
           | Err e => mkEffect s [] false (OErr e)
           | Panic => mkEffect s [] false OPanic
           end
       | Err e => mkEffect s [] false (OErr e)
       | Panic => mkEffect s [] false OPanic
       end.
Proof.
  cbn [run_stmt]. unfold set_from_col, lit_vals. destruct (existsb _ sets); [reflexivity|].
  destruct (where_ids s n w) as [ids|e|]; try reflexivity.
  cbv zeta. destruct (first_err _ ids) as [u|e|]; try reflexivity.
  destruct (update_rows s n _ _ ids []) as [[s1 b] o]. reflexivity.
Qed.

Lemma run_delete s n w :
  run_stmt s (SDelete n w) =
  match where_ids s n w with
  | Ok ids =>
      let r := delete_rows s n ids [] 0 in mkEffect (fst (fst r)) (snd (fst r)) false (snd r)
  | Err e => mkEffect s [] false (OErr e)
  | Panic => mkEffect s [] false OPanic
  end.
Proof.
  cbn [run_stmt]. destruct (where_ids s n w) as [ids|e|]; try reflexivity.
  cbv zeta. destruct (delete_rows s n ids [] 0) as [[s1 b] o]. reflexivity.
Qed.

(* ---------- a failing statement hands no log records over and does not flush ---------- *)
Lemma insert_rows_err_batch rows : forall s n cols b c e,
  snd (insert_rows s n cols rows b c) = OErr e -> snd (fst (insert_rows s n cols rows b c)) = [].
Proof.
  induction rows as [|r rest IH]; intros s n cols b c e; cbn [insert_rows]; [discriminate|].
  destruct (st_insert s n cols r) as [s1 [ws|e1|]]; cbn [fst snd]; try reflexivity. apply IH.
Qed.

Lemma update_rows_err_batch ids : forall s n cols vals b e,
  snd (update_rows s n cols vals ids b) = OErr e -> snd (fst (update_rows s n cols vals ids b)) = [].
Proof.
  induction ids as [|k rest IH]; intros s n cols vals b e; cbn [update_rows]; [discriminate|].
  destruct (st_update s n k cols vals) as [s1 [ws|e1|]]; cbn [fst snd]; try reflexivity. apply IH.
Qed.

Lemma delete_rows_err_batch ids : forall s n b c e,
  snd (delete_rows s n ids b c) = OErr e -> snd (fst (delete_rows s n ids b c)) = [].
Proof.
  induction ids as [|k rest IH]; intros s n b c e; cbn [delete_rows]; [discriminate|].
  destruct (st_delete s n k) as [s1 [ws|e1|]]; cbn [fst snd]; try reflexivity. apply IH.
Qed.

Lemma run_stmt_err_batch s st e :
  e_out (run_stmt s st) = OErr e ->
  e_batch (run_stmt s st) = [] /\ e_flushed (run_stmt s st) = false.
Proof.
  destruct st as [q|n cds|n| |n|n cols rows|n sets w|n w]; try (cbn; auto; fail).
  - cbn [run_stmt]. destruct (st_create_table s n (map fielddef_of cds)) as [s1 [u|e1|]]; cbn; auto.
    discriminate.
  - rewrite run_insert. destruct (first_err _ rows) as [u|e1|]; cbn [e_out e_batch e_flushed]; auto.
    intros H. split; [|reflexivity].
    eapply insert_rows_err_batch; eauto.
  - rewrite run_update. destruct (set_from_col sets); [cbn; auto|].
    destruct (where_ids s n w) as [ids|e1|]; cbn [e_out e_batch e_flushed]; auto.
    destruct (first_err _ ids) as [u|e1|]; cbn [e_out e_batch e_flushed]; auto.
    intros H. split; [|reflexivity]. eapply update_rows_err_batch; eauto.
  - rewrite run_delete. destruct (where_ids s n w) as [ids|e1|]; cbn [e_out e_batch e_flushed]; auto.
    intros H. split; [|reflexivity]. eapply delete_rows_err_batch; eauto.
Qed.

Lemma names_fielddef_of cols : map fd_name (map fielddef_of cols) = map cd_name cols.
Proof. rewrite map_map. apply map_ext. intros c. unfold fielddef_of. destruct (cd_type c); reflexivity. Qed.

(* ---------- the statement's error arises before the first page change ---------- *)
Definition is_err {A} (r : res A) : bool := match r with Err _ => true | _ => false end.

Definition fails_early (s : store) (st : stmt) : bool :=
  match st with
  | SCreateTable n cols =>
      (* a column name used twice; duplicate table, or a catalog lookup error other than "does not exist" *)
      negb (names_distinct (map cd_name cols)) ||
      match rel_offset s n with
      | Err ETableNotExist => false
      | Panic => false
      | _ => true
      end
  | SInsert n cols rows =>
      match rows with
      | [] => false
      | r :: _ =>
          (* catalog table (read-only); unknown table, column count, type mismatch, INT range;
             or the FIRST row is oversized *)
          is_sys_table n ||
          match ins_precheck s n cols r with
          | Err _ => true
          | Ok (_, bs) => (MV <? length bs)%nat
          | Panic => false
          end
      end
  | SUpdate n sets w =>
      set_from_col sets || is_sys_table n ||
      match where_ids s n w with
      | Err _ => true
      | Ok (k :: _) => is_err (snd (st_update s n k (map fst sets) (lit_vals sets)))
      | _ => false
      end
  | SDelete n w =>
      is_sys_table n ||
      match where_ids s n w with
      | Err _ => true
      | Ok (k :: _) => is_err (snd (st_delete s n k))
      | _ => false
      end
  | _ => true
  end.

Lemma fails_early_same_pages s st e :
  e_out (run_stmt s st) = OErr e -> fails_early s st = true ->
  same_pages s (e_store (run_stmt s st)).
Proof.
  destruct st as [q|n cds|n| |n|n cols rows|n sets w|n w];
    try (intros _ _; cbn [run_stmt e_store]; apply same_pages_refl).
  - (* CREATE TABLE *)
    cbn [run_stmt fails_early]. unfold st_create_table. rewrite names_fielddef_of.
    destruct (names_distinct (map cd_name cds)); [|intros _ _; cbn [e_store]; apply same_pages_refl].
    cbn [negb orb]. unfold create_bad_rows, st_create_table0. intros _ Hfe.
    destruct (rel_offset s n) as [o|e1|]; [| |discriminate].
    + cbn [e_store]. apply same_pages_refl.
    + destruct e1; try discriminate; cbn [e_store]; apply same_pages_refl.
  - (* INSERT: a refusal of the first row is a refusal by the check loop *)
    rewrite run_insert. cbn [fails_early].
    destruct rows as [|r rest]; [discriminate|]. cbn [first_err]. unfold check_insert.
    destruct (is_sys_table n); [intros _ _; cbn [e_store]; apply same_pages_refl|]. cbn [orb].
    destruct (ins_precheck s n cols r) as [[off bs]|e1|] eqn:Ep; cbn [bind snd]; [| |discriminate].
    + unfold check_row_size. intros Ho Hfe. rewrite Hfe. cbn [e_store]. apply same_pages_refl.
    + intros _ _. cbn [e_store]. apply same_pages_refl.
  - (* UPDATE: likewise *)
    rewrite run_update. cbn [fails_early].
    destruct (set_from_col sets); [intros _ _; cbn [e_store]; apply same_pages_refl|].
    cbn [orb]. destruct (where_ids s n w) as [ids|e1|]; [| |cbn [e_out]; discriminate].
    + destruct ids as [|k rest]; [cbv zeta; cbn [first_err e_out update_rows snd]; discriminate|].
      cbn [first_err]. intros _ Hfe. rewrite orb_true_iff in Hfe.
      assert (Hx : exists e2, check_update s n k (map fst sets) (lit_vals sets) = Err e2).
      { unfold check_update. destruct Hfe as [Hsys|Hfe].
        - unfold st_update, upd_bad_cols, st_update0. rewrite Hsys. cbn [snd]. eauto.
        - destruct (snd (st_update s n k (map fst sets) (lit_vals sets))); try discriminate. eauto. }
      destruct Hx as [e2 He2]. rewrite He2. cbn [e_store]. apply same_pages_refl.
    + intros _ _. cbn [e_store]. apply same_pages_refl.
  - (* DELETE *)
    rewrite run_delete. cbn [fails_early].
    destruct (where_ids s n w) as [ids|e1|]; [| |cbn [e_out]; discriminate].
    + destruct ids as [|k rest]; [cbv zeta; cbn [e_out delete_rows snd]; discriminate|].
      cbv zeta. cbn [e_out e_store delete_rows].
      intros _ Hfe. rewrite orb_true_iff in Hfe.
      pose proof (st_delete_err s n k) as Hs.
      assert (Hx : exists e2, snd (st_delete s n k) = Err e2).
      { destruct Hfe as [Hsys|Hfe].
        - unfold st_delete. rewrite Hsys. cbn [snd]. eauto.
        - destruct (snd (st_delete s n k)); try discriminate. eauto. }
      destruct Hx as [e2 He2]. specialize (Hs e2 He2).
      destruct (st_delete s n k) as [s1 r1]; cbn [fst snd] in *. subst s1 r1. cbn [fst].
      apply same_pages_refl.
    + intros _ _. cbn [e_store]. apply same_pages_refl.
Qed.

Lemma fails_early_abs s st e :
  e_out (run_stmt s st) = OErr e -> fails_early s st = true ->
  abs (e_store (run_stmt s st)) = abs s.
Proof. intros Ho Hfe. apply same_pages_abs. eapply fails_early_same_pages; eauto. Qed.
