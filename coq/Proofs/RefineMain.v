(* C01 refinement, part 7: every acknowledged statement refines the specification; induction
   over statement histories. *)
From Coq Require Import Arith Lia Bool List NArith ZArith String Sorted Permutation.
From Mkdb Require Import Model.Engine Spec.TableSpec Spec.HistObs Proofs.TreeProofs Proofs.StoreInv
  Proofs.BytesProofs Proofs.TupleProofs Proofs.RefineForest Proofs.RefineCodec Proofs.RefineRep
  Proofs.RefineCat Proofs.RefineDML Proofs.RefineDDL Proofs.Atomic Gen.Params.
Import ListNotations.
Local Open Scope N_scope.
Local Open Scope string_scope.
Local Open Scope list_scope.

(* ====================== scope of the theorem, as boolean predicates on statements ====================== *)
Fixpoint nodupb (l : list string) : bool :=
  match l with
  | [] => true
  | a :: r => negb (existsb (String.eqb a) r) && nodupb r
  end.

Lemma nodupb_NoDup l : nodupb l = true -> NoDup l.
Proof.
  induction l as [|a r IH]; intros H; [constructor|]. cbn [nodupb] in H.
  apply andb_true_iff in H as [A B]. constructor; [|auto].
  intros Hin. apply negb_true_iff in A. assert (X : existsb (String.eqb a) r = true).
  { apply existsb_exists. exists a. split; [exact Hin | apply String.eqb_refl]. }
  congruence.
Qed.

Definition set_vals (sets : list (string * vexpr)) : list value :=
  map (fun sv => match snd sv with XLit v => v | _ => VNull end) sets.

(* (ii) [no longer a hypothesis: a CREATE TABLE naming a column twice is refused by the code]
   (iii) literals are Go values: integers within int64, strings shorter than 2^32 bytes.
   Statements naming sys_pages / sys_schema need no exclusion: the code refuses them. *)
Definition stmt_ok (st : stmt) : bool :=
  match st with
  | SInsert n _ rows => forallb (forallb val_ok) rows
  | SUpdate n sets _ => forallb val_ok (set_vals sets)
  | _ => true
  end.

Definition spec_step (d : db) (st : stmt) : db :=
  match spec_exec d st with SpecOk d' => d' | SpecErr _ => d end.

(* ====================== nextFreeOffset never decreases ====================== *)
Lemma st_update_free s n k cols vals : nextFree (fst (st_update s n k cols vals)) = nextFree s.
Proof. unfold st_update, st_update0. repeat (break_match; cbn [fst nextFree]; try reflexivity). Qed.

Lemma st_delete_free s n k : nextFree (fst (st_delete s n k)) = nextFree s.
Proof. unfold st_delete. repeat (break_match; cbn [fst nextFree]; try reflexivity). Qed.

Lemma update_rows_free ids : forall s n cols vals b, nextFree (fst (fst (update_rows s n cols vals ids b))) = nextFree s.
Proof.
  induction ids as [|k r IH]; intros s n cols vals b; cbn [update_rows fst]; [reflexivity|].
  pose proof (st_update_free s n k cols vals) as H1.
  destruct (st_update s n k cols vals) as [s1 [ws|e|]]; cbn [fst] in *; try exact H1. rewrite IH. exact H1.
Qed.

Lemma delete_rows_free ids : forall s n b c, nextFree (fst (fst (delete_rows s n ids b c))) = nextFree s.
Proof.
  induction ids as [|k r IH]; intros s n b c; cbn [delete_rows fst]; [reflexivity|].
  pose proof (st_delete_free s n k) as H1.
  destruct (st_delete s n k) as [s1 [ws|e|]]; cbn [fst] in *; try exact H1. rewrite IH. exact H1.
Qed.

Lemma st_create_table_free_mono s n fds : nextFree s <= nextFree (fst (st_create_table s n fds)).
Proof.
  unfold st_create_table. destruct (names_distinct _); [|cbn [fst]; lia].
  destruct (create_bad_rows s n fds); [cbn [fst]; lia|]. unfold st_create_table0.
  destruct (rel_offset s n) as [o|e|]; cbn [fst]; try lia.
  destruct e; cbn [fst]; try lia.
  unfold create_page. cbv zeta.
  set (s1 := mkStore _ _ _ _ _).
  assert (H1 : nextFree s <= nextFree s1) by (unfold s1; cbn [nextFree]; pose proof PS_pos; lia).
  unfold insert_page_table. destruct (encode_tuple _ _) as [bs|e|]; cbn [fst]; try exact H1.
  pose proof (bt_insert_free_mono s1 (ptRoot s1) bs) as H2.
  destruct (bt_insert s1 (ptRoot s1) bs) as [s2 [[[k l] nr]|e|]]; cbn [fst] in *; try lia.
  unfold insert_schema_table.
  set (s2' := mkStore _ _ _ _ _). assert (H3 : nextFree s2' = nextFree s2) by reflexivity.
  destruct (bind _ _) as [off|e|]; cbn [fst]; try lia.
  pose proof (insert_schema_rows_free_mono n fds s2' off). lia.
Qed.

Lemma run_stmt_free_mono s st : nextFree s <= nextFree (e_store (run_stmt s st)).
Proof.
  destruct st; cbn [run_stmt e_store]; try lia.
  - pose proof (st_create_table_free_mono s name (map fielddef_of cols)) as H.
    destruct (st_create_table s name (map fielddef_of cols)) as [s1 [u|e|]]; cbn [fst e_store] in *; exact H.
  - destruct (first_err _ rows) as [u|e|]; cbn [e_store]; try lia.
    pose proof (insert_rows_free_mono rows s table cols [] 0%nat) as H.
    destruct (insert_rows s table cols rows [] 0) as [[s1 b] o]. exact H.
  - destruct (existsb _ sets); cbn [e_store]; [lia|].
    destruct (where_ids s table where_) as [ids|e|]; cbn [e_store]; try lia.
    destruct (first_err _ ids) as [u|e|]; cbn [e_store]; try lia.
    match goal with |- context [update_rows s table ?c ?v ids []] => pose proof (update_rows_free ids s table c v []) as H;
      destruct (update_rows s table c v ids []) as [[s1 b] o] end. cbn [fst e_store] in *. lia.
  - destruct (where_ids s table where_) as [ids|e|]; cbn [e_store]; try lia.
    pose proof (delete_rows_free ids s table [] 0%nat) as H.
    destruct (delete_rows s table ids [] 0) as [[s1 b] o]. cbn [fst e_store] in *. lia.
Qed.

(* ====================== the representation only looks at pages and the page-table root ====================== *)
Lemma Rep_same_pages s s' d : Rep s d -> SInv s' -> forest s' = forest s -> ptRoot s' = ptRoot s -> Rep s' d.
Proof.
  intros [Hinv Hok (pt & sc & ents & osc & HC)] Hinv' Hf Hp. constructor; auto.
  exists pt, sc, ents, osc. destruct HC. constructor; rewrite ?Hf, ?Hp; auto.
Qed.

(* ====================== one acknowledged statement ====================== *)
Lemma fielddef_spec cols : map fielddef_of cols = map spec_fielddef cols.
Proof. reflexivity. Qed.

Lemma names_fielddefs cols : names (map fielddef_of cols) = map cd_name cols.
Proof.
  unfold names. rewrite map_map. apply map_ext. intros c. unfold fielddef_of. destruct (cd_type c); reflexivity.
Qed.

Lemma forallb_Forall {A} (p : A -> bool) l : forallb p l = true -> Forall (fun x => p x = true) l.
Proof. intros H. rewrite Forall_forall. apply forallb_forall. exact H. Qed.

Lemma find_tbl_sys d n : DbOk d -> is_sys n = true -> find_tbl n d = None.
Proof.
  intros Hok Hs. apply find_tbl_None. intros Hin. apply in_map_iff in Hin as (t & <- & Ht).
  pose proof (d_nonsys _ Hok) as X. rewrite Forall_forall in X. specialize (X t Ht). congruence.
Qed.

Lemma rel_offset_sys s d n : Rep s d -> is_sys n = true -> exists o, rel_offset s n = Ok o.
Proof.
  intros [Hinv Hok (pt & sc & ents & osc & HC)] Hs.
  unfold is_sys in Hs. apply orb_true_iff in Hs as [E|E]; apply String.eqb_eq in E; subst n.
  - pose proof (c_names _ _ _ _ _ _ HC) as Hn. destruct ents as [|[n0 o0] rest]; [discriminate|].
    cbn [map fst] in Hn. inversion Hn; subst n0. exists o0.
    apply (cat_rel_offset_in s d pt sc _ osc Hinv Hok HC). left. reflexivity.
  - exists osc. apply (cat_rel_offset_in s d pt sc _ osc Hinv Hok HC). apply (c_osc _ _ _ _ _ _ HC).
Qed.

Lemma run_stmt_rep s d st c :
  Rep s d -> stmt_ok st = true -> nextFree (e_store (run_stmt s st)) <= OFFMAX ->
  e_out (run_stmt s st) = OOk c ->
  Rep (e_store (run_stmt s st)) (spec_step d st).
Proof.
  intros HR Hst Hmax Hout. destruct st as [q|n cds|n| |n|n cols rows|n sets w|n w]; try (cbn in Hout; discriminate).
  - (* CREATE TABLE *)
    clear Hst. cbn [run_stmt] in *.
    destruct (is_sys n) eqn:Hsys.
    { exfalso. destruct (rel_offset_sys s d n HR Hsys) as [o Eo]. unfold st_create_table, create_bad_rows, st_create_table0 in Hout.
      rewrite Eo in Hout. destruct (names_distinct _); cbn in Hout; discriminate. }
    destruct (st_create_table s n (map fielddef_of cds)) as [s1 [[]|e|]] eqn:Ec; cbn [e_store e_out] in *; try discriminate.
    assert (Hmax1 : nextFree s1 <= OFFMAX) by exact Hmax.
    destruct (st_create_table_rep s d n (map fielddef_of cds) s1 HR Hsys Hmax1 Ec) as (Hnd & Hf & HR1).
    rewrite names_fielddefs in Hnd.
    unfold spec_step. cbn [spec_exec]. rewrite Hnd. cbn [negb]. rewrite Hf. apply Rep_flush. exact HR1.
  - (* INSERT *)
    cbn [stmt_ok] in Hst. rename Hst into Hv.
    assert (Hvals : Forall (Forall val_okP) rows).
    { apply forallb_Forall in Hv. eapply Forall_impl; [|exact Hv]. intros r. apply forallb_Forall. }
    cbn [run_stmt] in *. destruct (first_err _ rows) as [u|e0|]; try discriminate.
    destruct (insert_rows s n cols rows [] 0) as [[s1 b] o] eqn:Er. cbn [e_store e_out] in *. subst o.
    unfold spec_step. cbn [spec_exec].
    destruct (is_sys n) eqn:Hsys.
    { rewrite (find_tbl_sys d n (r_dbok _ _ HR) Hsys).
      destruct rows as [|r rest]; [cbn in Er; inversion Er; subst; exact HR|].
      exfalso. cbn [insert_rows] in Er. unfold st_insert, ins_bad_cols, st_insert0 in Er.
      rewrite is_sys_table_is_sys, Hsys in Er. inversion Er. }
    destruct (find_tbl n d) as [t|] eqn:Hf.
    + destruct (insert_rows_rep n cols rows s d t [] 0%nat s1 b c HR Hsys Hf Hvals Hmax Er) as (new & Hnew & HR1).
      rewrite Hnew. exact HR1.
    + destruct rows as [|r rest]; [cbn in Er; inversion Er; subst; exact HR|].
      exfalso. cbn [insert_rows] in Er. unfold st_insert, ins_bad_cols, st_insert0 in Er.
      rewrite is_sys_table_is_sys, Hsys in Er.
      destruct HR as [Hinv Hok (pt & sc & ents & osc & HC)].
      rewrite (cat_rel_offset_none s d pt sc ents osc Hinv HC n Hsys Hf) in Er. cbn [bind] in Er. inversion Er.
  - (* UPDATE *)
    cbn [stmt_ok] in Hst. rename Hst into Hv.
    apply forallb_Forall in Hv. fold (set_vals sets) in *.
    cbn [run_stmt] in *. fold (set_vals sets) in *.
    unfold spec_step. cbn [spec_exec]. fold (set_vals sets).
    destruct (existsb _ sets) eqn:Ex; [cbn in Hout; discriminate|].
    destruct (where_ids s n w) as [ids|e|] eqn:Ew; cbn [e_out e_store] in *; try discriminate.
    destruct (first_err _ ids) as [u|e0|]; cbn [e_out e_store] in *; try discriminate.
    destruct (is_sys n) eqn:Hsys.
    { rewrite (find_tbl_sys d n (r_dbok _ _ HR) Hsys).
      destruct ids as [|k rest]; [cbn in *; exact HR|].
      exfalso. cbn [update_rows] in Hout. unfold st_update, upd_bad_cols, st_update0 in Hout.
      rewrite is_sys_table_is_sys, Hsys in Hout. cbn in Hout. discriminate. }
    destruct (find_tbl n d) as [t|] eqn:Hf.
    2:{ exfalso. unfold where_ids in Ew. rewrite (st_fetch_missing s d n HR Hsys Hf) in Ew. discriminate. }
    destruct (where_ids_spec s n w ids Ew) as (idrows & fs & Hfetch & Hids & Hev).
    destruct (st_fetch_user s d n t HR Hsys Hf) as (o & tr & Eo & Hr & Es & Ht & Hfetch').
    rewrite Hfetch' in Hfetch. inversion Hfetch; subst idrows fs. clear Hfetch.
    destruct (fetch_rows_ids s d n t o tr HR Hsys Hf Eo Hr) as (Hidc & Hrows & Hndk).
    assert (Efr : fetch_rows s n = combine (keys_of (scan_tree tr)) (tb_rows t)) by (unfold fetch_rows; rewrite Hfetch'; reflexivity).
    rewrite <- Efr in *.
    destruct (update_rows s n (map fst sets) (set_vals sets) ids []) as [[s1 b] o1] eqn:Eu. cbn [e_store e_out] in *. subst o1.
    destruct (update_rows_rep n (map fst sets) (set_vals sets) ids s d t [] s1 b c HR Hsys Hf Hv) as (HR1 & _ & Hchk & Hce); auto.
    { intros k Hk. subst ids. apply in_map_iff in Hk as (kr & <- & Hkr). apply filter_In in Hkr as [Hkr _]. apply in_map. exact Hkr. }
    { subst ids. apply NoDup_map_filter. exact Hndk. }
    rewrite <- Hrows.
    rewrite (update_all_pred w (tb_schema t) (map fst sets) (set_vals sets) (fetch_rows s n) Hev).
    + replace (map _ (fetch_rows s n)) with (upd_ids ids (build_row (tb_schema t) (map fst sets) (set_vals sets)) (fetch_rows s n)); [exact HR1|].
      unfold upd_ids. apply map_ext_in. intros kr Hkr. subst ids. rewrite (existsb_ids_pred _ _ kr Hndk Hkr). reflexivity.
    + intros [k r] Hkr Hp. cbn [snd]. apply (Hchk k r); [|exact Hkr].
      subst ids. change k with (fst (k, r)). apply in_map. apply filter_In. auto.
    + intros [k r] Hkr Hp. apply Hce. subst ids. intros E.
      assert (X : In (fst (k, r)) (map fst (filter (sel_pred w (fields_of (tb_schema t))) (fetch_rows s n))))
        by (apply in_map; apply filter_In; auto).
      rewrite E in X. exact X.
  - (* DELETE *)
    cbn [run_stmt] in *. unfold spec_step. cbn [spec_exec].
    destruct (where_ids s n w) as [ids|e|] eqn:Ew; cbn [e_out e_store] in *; try discriminate.
    destruct (is_sys n) eqn:Hsys.
    { rewrite (find_tbl_sys d n (r_dbok _ _ HR) Hsys).
      destruct ids as [|k rest]; [cbn in *; exact HR|].
      exfalso. cbn [delete_rows] in Hout. unfold st_delete in Hout. rewrite is_sys_table_is_sys, Hsys in Hout.
      cbn in Hout. discriminate. }
    destruct (find_tbl n d) as [t|] eqn:Hf.
    2:{ exfalso. unfold where_ids in Ew. rewrite (st_fetch_missing s d n HR Hsys Hf) in Ew. discriminate. }
    destruct (where_ids_spec s n w ids Ew) as (idrows & fs & Hfetch & Hids & Hev).
    destruct (st_fetch_user s d n t HR Hsys Hf) as (o & tr & Eo & Hr & Es & Ht & Hfetch').
    rewrite Hfetch' in Hfetch. inversion Hfetch; subst idrows fs. clear Hfetch.
    destruct (fetch_rows_ids s d n t o tr HR Hsys Hf Eo Hr) as (Hidc & Hrows & Hndk).
    assert (Efr : fetch_rows s n = combine (keys_of (scan_tree tr)) (tb_rows t)) by (unfold fetch_rows; rewrite Hfetch'; reflexivity).
    rewrite <- Efr in *.
    destruct (delete_rows s n ids [] 0) as [[s1 b] o1] eqn:Eu. cbn [e_store e_out] in *. subst o1.
    destruct (delete_rows_rep n ids s d t [] 0%nat s1 b c HR Hsys Hf) as (HR1 & _); auto.
    { intros k Hk. subst ids. apply in_map_iff in Hk as (kr & <- & Hkr). apply filter_In in Hkr as [Hkr _]. apply in_map. exact Hkr. }
    { subst ids. apply NoDup_map_filter. exact Hndk. }
    rewrite <- Hrows. rewrite (delete_all_pred w (tb_schema t) (fetch_rows s n) Hev).
    replace (filter _ (fetch_rows s n)) with (del_ids ids (fetch_rows s n)); [exact HR1|].
    unfold del_ids. apply filter_ext_in. intros kr Hkr. subst ids. rewrite (existsb_ids_pred _ _ kr Hndk Hkr). reflexivity.
Qed.

(* ====================== histories ====================== *)
Definition stmts_only' (evs : list event) : bool :=
  forallb (fun e => match e with EvStmt _ => true | _ => false end) evs.

Definition acked_stmts' (evs : list event) (os : list (option outcome)) : list stmt :=
  flat_map (fun eo => match eo with
                      | (EvStmt st, Some (OOk _)) => [st]
                      | _ => []
                      end) (combine evs os).

Definition ev_ok (e : event) : bool := match e with EvStmt st => stmt_ok st | _ => true end.

(* (i) every failing statement of the history fails before its first page change *)
Fixpoint early_failures (y : sys) (evs : list event) : bool :=
  match evs with
  | [] => true
  | EvStmt st :: r =>
      match e_out (run_stmt (mem y) st) with
      | OErr _ => fails_early (mem y) st && early_failures (fst (exec y st)) r
      | OOk _ => early_failures (fst (exec y st)) r
      | OPanic => true
      end
  | _ :: _ => true
  end.

Lemma run_events_free_mono evs : forall y0 yf osf,
  stmts_only' evs = true -> run_events y0 evs = (SOk yf, osf) -> nextFree (mem y0) <= nextFree (mem yf).
Proof.
  induction evs as [|ev evs IHe]; intros y0 yf osf Hs Hr.
  - cbn in Hr. inversion Hr; subst. lia.
  - cbn [stmts_only' forallb] in Hs. apply andb_true_iff in Hs as [A B]. destruct ev; try discriminate.
    cbn [run_events step] in Hr. unfold exec in Hr.
    pose proof (run_stmt_free_mono (mem y0) st) as M.
    destruct (e_out (run_stmt (mem y0) st)); try discriminate;
      match type of Hr with context [run_events ?yy evs] => destruct (run_events yy evs) as [f o] eqn:E end;
      inversion Hr; subst; specialize (IHe _ _ _ B E); cbn [mem] in IHe; lia.
Qed.

Lemma run_events_rep evs : forall y d y' os,
  Rep (mem y) d -> stmts_only' evs = true -> forallb ev_ok evs = true -> early_failures y evs = true ->
  run_events y evs = (SOk y', os) -> nextFree (mem y') <= OFFMAX ->
  Rep (mem y') (spec_run d (acked_stmts' evs os)) /\ nextFree (mem y) <= nextFree (mem y').
Proof.
  induction evs as [|ev r IH]; intros y d y' os HR Hso Hok Hearly Hrun Hmax.
  - cbn in Hrun. inversion Hrun; subst. cbn. split; [exact HR | lia].
  - cbn [stmts_only' forallb] in Hso, Hok. apply andb_true_iff in Hso as [Hs1 Hs2]. apply andb_true_iff in Hok as [Hk1 Hk2].
    destruct ev as [st| | | |]; try discriminate. cbn [ev_ok] in Hk1.
    cbn [run_events step] in Hrun. cbn [early_failures] in Hearly.
    unfold exec in *. cbn [fst] in Hearly.
    pose proof (run_stmt_free_mono (mem y) st) as Hmono.
    pose proof (run_stmt_inv (mem y) st (r_sinv _ _ HR)) as Hinv1.
    destruct (run_stmt (mem y) st) as [es eb ef eo] eqn:Ers. cbn [e_store e_batch e_flushed e_out] in *.
    set (y1 := mkSys es (if ef then es else disk y) (if is_ok eo then wal y ++ eb else wal y)) in *.
    destruct eo as [c|e|]; try discriminate.
    + destruct (run_events y1 r) as [fin os'] eqn:Er. inversion Hrun; subst fin os. clear Hrun.
      destruct (IH y1 (spec_step d st) y' os') as [HR' Hm']; auto.
      { pose proof (run_stmt_rep (mem y) d st c HR Hk1) as X. rewrite Ers in X. cbn [e_store e_out] in X.
        apply X; [|reflexivity].
        pose proof (run_events_free_mono r y1 y' os' Hs2 Er) as M. unfold y1 in M. cbn [mem] in M.
        lia. }
      cbn [acked_stmts' combine flat_map app]. fold (acked_stmts' r os'). cbn [spec_run].
      unfold spec_step in HR'. split; [|unfold y1 in Hm'; cbn [mem] in Hm'; lia].
      destruct (spec_exec d st); exact HR'.
    + destruct (run_events y1 r) as [fin os'] eqn:Er. inversion Hrun; subst fin os. clear Hrun.
      apply andb_true_iff in Hearly as [He1 He2].
      pose proof (fails_early_same_pages (mem y) st e) as X. rewrite Ers in X. cbn [e_out e_store] in X.
      destruct (X eq_refl He1) as (Xf & Xp & Xn & _).
      destruct (IH y1 d y' os') as [HR' Hm']; auto.
      { unfold y1. cbn [mem]. eapply Rep_same_pages; eauto. }
      cbn [acked_stmts' combine flat_map app]. fold (acked_stmts' r os'). split; [exact HR'|].
      unfold y1 in Hm'. cbn [mem] in Hm'. lia.
Qed.
