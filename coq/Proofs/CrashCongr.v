(* Crash theory, part 10: statements do not look at dirty flags. Two stores equal up to dirty flags
   and with the same row-id / LSN counters run every statement alike: same outcome, same log
   records, stores again equal up to dirty flags with the same counters. *)
From Coq Require Import Arith Lia Bool List NArith Permutation.
From Mkdb Require Import Model.Engine Proofs.TreeProofs Proofs.StoreInv Proofs.CrashBase Proofs.CrashPages
  Proofs.CrashRedo Gen.Params.
Import ListNotations.
Local Open Scope N_scope.

Record seqc (a b : store) : Prop := mkSeqc {
  sc_seq : seq a b; sc_key : lastKey a = lastKey b; sc_lsn : nextLSN a = nextLSN b }.

Lemma seqc_refl s : seqc s s.
Proof. constructor; [apply seq_refl | reflexivity | reflexivity]. Qed.

(* results of the relation-layer operations: same answer, related stores *)
Definition res_rel {A} (x y : store * A) : Prop := seqc (fst x) (fst y) /\ snd x = snd y.

Lemma res_rel_same {A} a b (r : A) : seqc a b -> res_rel (a, r) (b, r).
Proof. intros H. split; [exact H | reflexivity]. Qed.

Lemma bt_insert_c a b root v : seqc a b -> res_rel (bt_insert a root v) (bt_insert b root v).
Proof.
  intros [S K L]. destruct (bt_insert_congr a b root v S K L) as (A & B & C & D).
  split; [constructor; assumption | exact B].
Qed.

Lemma seq_get_tree_same a b off : seq a b ->
  (exists ta tb, get_tree a off = Ok ta /\ get_tree b off = Ok tb /\ erase false ta = erase false tb) \/
  (exists e, get_tree a off = Err e /\ get_tree b off = Err e).
Proof.
  intros S. pose proof (seq_get_tree a b off S) as G.
  destruct (get_tree a off) as [ta|ea|], (get_tree b off) as [tb|eb|]; try contradiction.
  - left. eauto.
  - right. subst. eauto.
Qed.

Lemma pt_find_row_erase el name ls : pt_find_row name (map (erase el) ls) = pt_find_row name ls.
Proof.
  induction ls as [|l r IH]; [reflexivity|]. cbn [map].
  rewrite !pt_find_row_cons, IH, erase_off, erase_leaf_cells. reflexivity.
Qed.

Lemma seq_cat_scan_row a b name : seq a b -> cat_scan a (pt_find_row name) = cat_scan b (pt_find_row name).
Proof.
  intros S. unfold cat_scan. rewrite (seq_pt _ _ S). pose proof (seq_get_tree a b (ptRoot b) S) as G.
  destruct (get_tree a (ptRoot b)) as [t1|e1|], (get_tree b (ptRoot b)) as [t2|e2|]; try contradiction; cbn [bind].
  - pose proof (scan_leaves_eq _ _ G) as E.
    destruct (scan_right_leaves t1) as [l1|x1], (scan_right_leaves t2) as [l2|x2]; cbn [map_tres] in E; try discriminate.
    + inversion E as [E']. cbn [of_tres bind].
      rewrite <- (pt_find_row_erase false name l1), E', pt_find_row_erase. reflexivity.
    + inversion E; subst. reflexivity.
  - subst. reflexivity.
Qed.

Lemma touched_c a b pg key g : seqc a b ->
  seqc (mkStore (touch_forest pg key (nextLSN a) g (forest a)) (lastKey a) (ptRoot a) (nextFree a) (nextLSN a + 1))
       (mkStore (touch_forest pg key (nextLSN b) g (forest b)) (lastKey b) (ptRoot b) (nextFree b) (nextLSN b + 1)).
Proof.
  intros [[F P N] K L]. constructor; cbn [lastKey nextLSN]; [|exact K|congruence].
  constructor; cbn [forest ptRoot nextFree]; auto. rewrite L. apply fclean_touch_forest. exact F.
Qed.

Lemma update_page_table_c a b newroot name : seqc a b ->
  res_rel (update_page_table a newroot name) (update_page_table b newroot name).
Proof.
  intros H. pose proof (seq_cat_scan_row a b name (sc_seq _ _ H)) as E. unfold cat_scan in E.
  unfold update_page_table. rewrite E.
  destruct (bind (get_tree b (ptRoot b)) _) as [[[[pg c] m]|]|e|]; try (apply res_rel_same; exact H).
  destruct (encode_tuple pageTableSchema _) as [bs|e|]; try (apply res_rel_same; exact H).
  destruct (Nat.ltb MV (length bs)); [apply res_rel_same; exact H|].
  split; cbn [fst snd]; [apply touched_c; exact H | rewrite (sc_lsn _ _ H); reflexivity].
Qed.

Lemma ptroot_c a b pt : seqc a b ->
  seqc (mkStore (forest a) (lastKey a) pt (nextFree a) (nextLSN a)) (mkStore (forest b) (lastKey b) pt (nextFree b) (nextLSN b)).
Proof. intros [[F P N] K L]. constructor; cbn; auto. constructor; cbn; auto. Qed.

Lemma insert_page_table_c a b pg name : seqc a b ->
  res_rel (insert_page_table a pg name) (insert_page_table b pg name).
Proof.
  intros H. unfold insert_page_table. destruct (encode_tuple _ _) as [bs|e|]; try (apply res_rel_same; exact H).
  rewrite (seq_pt _ _ (sc_seq _ _ H)).
  destruct (bt_insert_c a b (ptRoot b) bs H) as [S1 R1].
  destruct (bt_insert a (ptRoot b) bs) as [a1 ra], (bt_insert b (ptRoot b) bs) as [b1 rb]. cbn [fst snd] in *. subst rb.
  destruct ra as [[[k l] nr]|e|]; try (apply res_rel_same; exact S1).
  split; cbn [fst snd]; [apply ptroot_c; exact S1 | reflexivity].
Qed.

Lemma ins_prelude_c a b name cols vals : seq a b -> ins_prelude a name cols vals = ins_prelude b name cols vals.
Proof.
  intros S. unfold ins_prelude. rewrite (seq_rel_offset a b _ S), (seq_rel_schema a b _ S).
  destruct (rel_offset b name) as [off|e|]; cbn [bind]; try reflexivity.
  destruct (seq_get_tree_same a b off S) as [(ta & tb & -> & -> & _)|(e & -> & ->)]; reflexivity.
Qed.

Lemma ins_bad_cols_c a b name cols vals : seq a b -> ins_bad_cols a name cols vals = ins_bad_cols b name cols vals.
Proof.
  intros S. unfold ins_bad_cols. rewrite (seq_rel_offset a b _ S), (seq_rel_schema a b _ S).
  destruct (is_sys_table name); [reflexivity|].
  destruct (rel_offset b name) as [off|e|]; cbn [bind]; try reflexivity.
  destruct (seq_get_tree_same a b off S) as [(ta & tb & -> & -> & _)|(e & -> & ->)]; reflexivity.
Qed.

Lemma upd_bad_cols_c a b name cols : seq a b -> upd_bad_cols a name cols = upd_bad_cols b name cols.
Proof.
  intros S. unfold upd_bad_cols. rewrite (seq_rel_offset a b _ S), (seq_rel_schema a b _ S).
  destruct (is_sys_table name); [reflexivity|].
  destruct (rel_offset b name) as [off|e|]; cbn [bind]; try reflexivity.
  destruct (seq_get_tree_same a b off S) as [(ta & tb & -> & -> & _)|(e & -> & ->)]; reflexivity.
Qed.

Lemma st_insert_c a b name cols vals : seqc a b ->
  res_rel (st_insert a name cols vals) (st_insert b name cols vals).
Proof.
  intros H. unfold st_insert. rewrite (ins_bad_cols_c a b name cols vals (sc_seq _ _ H)).
  destruct (ins_bad_cols b name cols vals); [apply res_rel_same; exact H|]. unfold st_insert0.
  destruct (is_sys_table name); [apply res_rel_same; exact H|].
  fold (ins_prelude a name cols vals). fold (ins_prelude b name cols vals).
  rewrite (ins_prelude_c a b name cols vals (sc_seq _ _ H)).
  destruct (ins_prelude b name cols vals) as [[off bs]|e|]; try (apply res_rel_same; exact H).
  destruct (bt_insert_c a b off bs H) as [S1 R1].
  destruct (bt_insert a off bs) as [a1 ra], (bt_insert b off bs) as [b1 rb]. cbn [fst snd] in *. subst rb.
  destruct ra as [[[k l] nr]|e|]; try (apply res_rel_same; exact S1).
  destruct (N.eqb nr off); [apply res_rel_same; exact S1|].
  destruct (update_page_table_c a1 b1 nr name S1) as [S2 R2].
  destruct (update_page_table a1 nr name) as [a2 r2], (update_page_table b1 nr name) as [b2 r2']. cbn [fst snd] in *. subst r2'.
  destruct r2 as [ws|e|]; apply res_rel_same; exact S2.
Qed.

Lemma leaf_pairs_erase el (ls : list tree) :
  flat_map (fun l => map (fun c => (t_off l, c)) (leaf_cells l)) (map (erase el) ls) =
  flat_map (fun l => map (fun c => (t_off l, c)) (leaf_cells l)) ls.
Proof.
  rewrite flat_map_concat_map, map_map, <- flat_map_concat_map. apply flat_map_ext. intros l.
  rewrite erase_off, erase_leaf_cells. reflexivity.
Qed.

Lemma st_update_c a b name rowid cols vals : seqc a b ->
  res_rel (st_update a name rowid cols vals) (st_update b name rowid cols vals).
Proof.
  intros H. pose proof (sc_seq _ _ H) as S. unfold st_update. rewrite (upd_bad_cols_c a b name cols S).
  destruct (upd_bad_cols b name cols); [apply res_rel_same; exact H|]. unfold st_update0.
  destruct (is_sys_table name); [apply res_rel_same; exact H|].
  rewrite (seq_rel_offset a b _ S), (seq_rel_schema a b _ S).
  destruct (rel_offset b name) as [off|e|]; cbn [bind]; try (apply res_rel_same; exact H).
  destruct (seq_get_tree_same a b off S) as [(ta & tb & -> & -> & Et)|(e & -> & ->)]; cbn [bind]; [|apply res_rel_same; exact H].
  destruct (rel_schema b name) as [sch|e|]; cbn [bind]; try (apply res_rel_same; exact H).
  pose proof (scan_leaves_eq _ _ Et) as E.
  destruct (scan_right_leaves ta) as [l1|x1], (scan_right_leaves tb) as [l2|x2]; cbn [map_tres] in E; try discriminate;
    cbn [of_tres bind].
  2:{ inversion E; subst. destruct x2; apply res_rel_same; exact H. }
  inversion E as [E']. rewrite <- (leaf_pairs_erase false l1), E', leaf_pairs_erase.
  destruct (find _ _) as [[pg c]|]; [|apply res_rel_same; exact H].
  destruct (bind (decode_tuple sch (lc_val c) []) _) as [bs|e|]; try (apply res_rel_same; exact H).
  destruct (Nat.ltb MV (length bs)); [apply res_rel_same; exact H|].
  split; cbn [fst snd]; [apply touched_c; exact H | rewrite (sc_lsn _ _ H); reflexivity].
Qed.

Lemma find_cell_eq t1 t2 k : erase false t1 = erase false t2 -> find_cell k t1 = find_cell k t2.
Proof. intros E. rewrite <- (erase_find_cell false t1), E. apply erase_find_cell. Qed.

Lemma st_delete_c a b name rowid : seqc a b -> res_rel (st_delete a name rowid) (st_delete b name rowid).
Proof.
  intros H. pose proof (sc_seq _ _ H) as S. unfold st_delete. destruct (is_sys_table name); [apply res_rel_same; exact H|].
  rewrite (seq_rel_offset a b _ S).
  destruct (rel_offset b name) as [off|e|]; cbn [bind]; try (apply res_rel_same; exact H).
  destruct (seq_get_tree_same a b off S) as [(ta & tb & -> & -> & Et)|(e & -> & ->)]; [|apply res_rel_same; exact H].
  rewrite (find_cell_eq _ _ rowid Et).
  destruct (find_cell rowid tb) as [[pg c]|]; [|apply res_rel_same; exact H].
  split; cbn [fst snd]; [apply touched_c; exact H | rewrite (sc_lsn _ _ H); reflexivity].
Qed.

Lemma create_page_c a b : seqc a b -> res_rel (create_page a) (create_page b).
Proof.
  intros [[F P N] K L]. unfold create_page. split; cbn [fst snd]; [|exact N].
  constructor; cbn [lastKey nextLSN]; auto. constructor; cbn [forest ptRoot nextFree]; [|exact P|congruence].
  unfold fclean in *. rewrite !map_app, F, N. reflexivity.
Qed.

Lemma insert_schema_rows_c fds : forall a b root tname, seqc a b ->
  res_rel (insert_schema_rows a root tname fds) (insert_schema_rows b root tname fds).
Proof.
  induction fds as [|fd r IH]; intros a b root tname H; [apply res_rel_same; exact H|].
  cbn [insert_schema_rows]. destruct (encode_tuple _ _) as [bs|e|]; try (apply res_rel_same; exact H).
  destruct (bt_insert_c a b root bs H) as [S1 R1].
  destruct (bt_insert a root bs) as [a1 ra], (bt_insert b root bs) as [b1 rb]. cbn [fst snd] in *. subst rb.
  destruct ra as [[[k l] nr]|e|]; try (apply res_rel_same; exact S1).
  destruct (N.eqb nr root); [apply IH; exact S1|].
  destruct (update_page_table_c a1 b1 nr schemaTableName S1) as [S2 R2].
  destruct (update_page_table a1 nr schemaTableName) as [a2 r2], (update_page_table b1 nr schemaTableName) as [b2 r2'].
  cbn [fst snd] in *. subst r2'.
  destruct r2 as [ws|e|]; [apply IH; exact S2 | apply res_rel_same; exact S2 | apply res_rel_same; exact S2].
Qed.

Lemma insert_schema_table_c a b tname fds : seqc a b ->
  res_rel (insert_schema_table a tname fds) (insert_schema_table b tname fds).
Proof.
  intros H. pose proof (sc_seq _ _ H) as S. unfold insert_schema_table. rewrite (seq_rel_offset a b _ S).
  destruct (rel_offset b schemaTableName) as [off|e|]; cbn [bind]; try (apply res_rel_same; exact H).
  destruct (seq_get_tree_same a b off S) as [(ta & tb & -> & -> & _)|(e & -> & ->)]; cbn [bind];
    [apply insert_schema_rows_c; exact H | apply res_rel_same; exact H].
Qed.

Lemma create_bad_rows_c a b name fds : seq a b -> create_bad_rows a name fds = create_bad_rows b name fds.
Proof. intros S. unfold create_bad_rows. rewrite (seq_rel_offset a b _ S). reflexivity. Qed.

Lemma st_create_table_c a b name fds : seqc a b ->
  res_rel (st_create_table a name fds) (st_create_table b name fds).
Proof.
  intros H. pose proof (sc_seq _ _ H) as S. unfold st_create_table.
  destruct (names_distinct _); [|apply res_rel_same; exact H].
  rewrite (create_bad_rows_c a b name fds S).
  destruct (create_bad_rows b name fds); [apply res_rel_same; exact H|]. unfold st_create_table0.
  rewrite (seq_rel_offset a b _ S).
  destruct (rel_offset b name) as [o|e|]; try (apply res_rel_same; exact H).
  destruct e; try (apply res_rel_same; exact H).
  destruct (create_page_c a b H) as [S1 R1].
  destruct (create_page a) as [a1 pga], (create_page b) as [b1 pgb]. cbn [fst snd] in *. subst pgb.
  destruct (insert_page_table_c a1 b1 pga name S1) as [S2 R2].
  destruct (insert_page_table a1 pga name) as [a2 r2], (insert_page_table b1 pga name) as [b2 r2']. cbn [fst snd] in *. subst r2'.
  destruct r2 as [u|e|]; [apply insert_schema_table_c; exact S2 | apply res_rel_same; exact S2 | apply res_rel_same; exact S2].
Qed.

(* ---------- row loops and statements ---------- *)
Definition eff_rel (x y : store * list walentry * outcome) : Prop :=
  seqc (fst (fst x)) (fst (fst y)) /\ snd (fst x) = snd (fst y) /\ snd x = snd y.

Lemma insert_rows_c rows : forall a b name cols batch n, seqc a b ->
  eff_rel (insert_rows a name cols rows batch n) (insert_rows b name cols rows batch n).
Proof.
  induction rows as [|r rest IH]; intros a b name cols batch n H; [repeat split; auto; apply H|].
  cbn [insert_rows]. destruct (st_insert_c a b name cols r H) as [S1 R1].
  destruct (st_insert a name cols r) as [a1 ra], (st_insert b name cols r) as [b1 rb]. cbn [fst snd] in *. subst rb.
  destruct ra as [ws|e|]; [apply IH; exact S1 | repeat split; auto; apply S1 | repeat split; auto; apply S1].
Qed.

Lemma update_rows_c ids : forall a b name cols vals batch, seqc a b ->
  eff_rel (update_rows a name cols vals ids batch) (update_rows b name cols vals ids batch).
Proof.
  induction ids as [|k rest IH]; intros a b name cols vals batch H; [repeat split; auto; apply H|].
  cbn [update_rows]. destruct (st_update_c a b name k cols vals H) as [S1 R1].
  destruct (st_update a name k cols vals) as [a1 ra], (st_update b name k cols vals) as [b1 rb]. cbn [fst snd] in *. subst rb.
  destruct ra as [ws|e|]; [apply IH; exact S1 | repeat split; auto; apply S1 | repeat split; auto; apply S1].
Qed.

Lemma delete_rows_c ids : forall a b name batch n, seqc a b ->
  eff_rel (delete_rows a name ids batch n) (delete_rows b name ids batch n).
Proof.
  induction ids as [|k rest IH]; intros a b name batch n H; [repeat split; auto; apply H|].
  cbn [delete_rows]. destruct (st_delete_c a b name k H) as [S1 R1].
  destruct (st_delete a name k) as [a1 ra], (st_delete b name k) as [b1 rb]. cbn [fst snd] in *. subst rb.
  destruct ra as [ws|e|]; [apply IH; exact S1 | repeat split; auto; apply S1 | repeat split; auto; apply S1].
Qed.

(* the checks in front of the row loops read the same in both stores *)
Lemma ins_precheck_c a b name cols vals : seq a b -> ins_precheck a name cols vals = ins_precheck b name cols vals.
Proof.
  intros S. unfold ins_precheck. rewrite (seq_rel_offset a b _ S), (seq_rel_schema a b _ S).
  destruct (rel_offset b name) as [off|e|]; cbn [bind]; try reflexivity.
  destruct (seq_get_tree_same a b off S) as [(ta & tb & -> & -> & _)|(e & -> & ->)]; reflexivity.
Qed.

Lemma check_insert_c a b name cols vals : seq a b -> check_insert a name cols vals = check_insert b name cols vals.
Proof. intros S. unfold check_insert. rewrite (ins_precheck_c a b name cols vals S). reflexivity. Qed.

Lemma check_update_c a b name k cols vals : seqc a b -> check_update a name k cols vals = check_update b name k cols vals.
Proof. intros H. unfold check_update. destruct (st_update_c a b name k cols vals H) as [_ ->]. reflexivity. Qed.

Lemma first_err_ext' {A} (f g : A -> res unit) l : (forall a, f a = g a) -> first_err f l = first_err g l.
Proof. intros H. induction l as [|x l IH]; [reflexivity|]. cbn [first_err]. rewrite H, IH. reflexivity. Qed.

Lemma where_ids_c a b name w : seq a b -> where_ids a name w = where_ids b name w.
Proof. intros S. unfold where_ids. rewrite (seq_st_fetch a b name S). reflexivity. Qed.

Lemma flush_c a b : seqc a b -> seqc (flush a) (flush b).
Proof.
  intros [S K L]. constructor; [|exact K|exact L].
  eapply seq_trans; [apply seq_flush|]. eapply seq_trans; [exact S|]. apply seq_sym. apply seq_flush.
Qed.

Definition effect_rel (x y : effect) : Prop :=
  seqc (e_store x) (e_store y) /\ e_batch x = e_batch y /\ e_flushed x = e_flushed y /\ e_out x = e_out y.

(* the congruence: every statement, same outcome, same records, related stores *)
Theorem run_stmt_congr a b st : seqc a b -> effect_rel (run_stmt a st) (run_stmt b st).
Proof.
  intros H. pose proof (sc_seq _ _ H) as S.
  destruct st; cbn [run_stmt]; try (repeat split; auto; apply H).
  - destruct (st_create_table_c a b name (map fielddef_of cols) H) as [S1 R1].
    destruct (st_create_table a name _) as [a1 ra], (st_create_table b name _) as [b1 rb]. cbn [fst snd] in *. subst rb.
    destruct ra as [u|e|]; repeat split; cbn [e_store]; auto; try apply S1. apply flush_c. exact S1.
  - rewrite (first_err_ext' _ _ rows (fun r => check_insert_c a b table cols r S)).
    destruct (first_err _ rows) as [u|e|]; try (repeat split; auto; apply H).
    destruct (insert_rows_c rows a b table cols [] 0%nat H) as (A & B & C).
    destruct (insert_rows a table cols rows [] 0) as [[a1 ba] oa], (insert_rows b table cols rows [] 0) as [[b1 bb] ob].
    cbn [fst snd] in *. subst. repeat split; auto; apply A.
  - destruct (existsb _ sets); [repeat split; auto; apply H|].
    rewrite (where_ids_c a b table where_ S).
    destruct (where_ids b table where_) as [ids|e|]; try (repeat split; auto; apply H).
    match goal with |- context [first_err (fun k => check_update a table k ?c ?v) ids] =>
      rewrite (first_err_ext' _ _ ids (fun k => check_update_c a b table k c v H)) end.
    destruct (first_err _ ids) as [u|e|]; try (repeat split; auto; apply H).
    match goal with |- context [update_rows a table ?c ?v ids []] => destruct (update_rows_c ids a b table c v [] H) as (A & B & C);
      destruct (update_rows a table c v ids []) as [[a1 ba] oa], (update_rows b table c v ids []) as [[b1 bb] ob] end.
    cbn [fst snd] in *. subst. repeat split; auto; apply A.
  - rewrite (where_ids_c a b table where_ S).
    destruct (where_ids b table where_) as [ids|e|]; try (repeat split; auto; apply H).
    destruct (delete_rows_c ids a b table [] 0%nat H) as (A & B & C).
    destruct (delete_rows a table ids [] 0) as [[a1 ba] oa], (delete_rows b table ids [] 0) as [[b1 bb] ob].
    cbn [fst snd] in *. subst. repeat split; auto; apply A.
Qed.

(* any number of later statements *)
Fixpoint run_stmts (s : store) (sts : list stmt) : store * list outcome :=
  match sts with
  | [] => (s, [])
  | st :: r => let e := run_stmt s st in
               let '(s', os) := run_stmts (e_store e) r in (s', e_out e :: os)
  end.

Theorem run_stmts_congr sts : forall a b, seqc a b ->
  seqc (fst (run_stmts a sts)) (fst (run_stmts b sts)) /\ snd (run_stmts a sts) = snd (run_stmts b sts).
Proof.
  induction sts as [|st r IH]; intros a b H; [split; [exact H | reflexivity]|].
  cbn [run_stmts]. destruct (run_stmt_congr a b st H) as (S1 & _ & _ & O1).
  destruct (IH _ _ S1) as [A B].
  destruct (run_stmts (e_store (run_stmt a st)) r) as [a' oa], (run_stmts (e_store (run_stmt b st)) r) as [b' ob].
  cbn [fst snd] in *. split; [exact A | congruence].
Qed.

Lemma seqc_abs a b : seqc a b -> abs a = abs b.
Proof. intros H. apply seq_abs. apply H. Qed.
