(* C15: the step-by-step oracle of Spec/LruSpec.v (`spec_accepts`, stated on what the Go driver
   reports) accepts the model's own trace, for every capacity and every operation list; hence
   "the model agrees with Go on this case" implies "the oracle accepts what Go did".
   No hypothesis on the case is needed. *)
From Coq Require Import List NArith Bool Arith Lia.
From Mkdb Require Import Model.CaseLib Model.Lru Spec.LruSpec Proofs.LruProofs.
Import ListNotations.
Open Scope N_scope.

(* what the driver reports for one resident entry *)
Definition obs_of (e : entry) : N * N * bool := (ekey e, eval e, edirty e).

Lemma resident_map s : resident s = map obs_of (entries s).
Proof. reflexivity. Qed.

(* ---------- the oracle's list functions on a reported list = the model's on the entries ---------- *)

Lemma has_key_map k l :
  has_key k (map obs_of l) = match find_entry k l with Some _ => true | None => false end.
Proof.
  induction l as [|a l IH]; cbn; [reflexivity|].
  destruct (N.eqb (ekey a) k); cbn; auto.
Qed.

Lemma has_key_in k l : has_key k (map obs_of l) = true <-> In k (keys l).
Proof.
  rewrite has_key_map. destruct (find_entry k l) as [e|] eqn:E.
  - apply find_entry_some in E as [Hin Hk]. split; [intros _|auto]. subst. apply in_map; auto.
  - apply find_entry_none in E. split; [discriminate | contradiction].
Qed.

Lemma without_map k l : without k (map obs_of l) = map obs_of (remove_key k l).
Proof.
  induction l as [|a l IH]; cbn; [reflexivity|].
  destruct (N.eqb (ekey a) k); cbn; [reflexivity | rewrite IH; reflexivity].
Qed.

Lemma without_absent k (l : res) : has_key k l = false -> without k l = l.
Proof.
  induction l as [|a l IH]; cbn; [reflexivity|].
  destruct (N.eqb (rkey a) k); cbn; [discriminate|]. intros H. rewrite IH; auto.
Qed.

Lemma lookup_res_map k l : lookup_res k (map obs_of l) = option_map obs_of (find_entry k l).
Proof.
  induction l as [|a l IH]; cbn; [reflexivity|].
  destruct (N.eqb (ekey a) k); cbn; auto.
Qed.

Lemma set_flag_res_map k d l : set_flag_res k d (map obs_of l) = map obs_of (set_flag k d l).
Proof.
  unfold set_flag_res, set_flag. rewrite !map_map. apply map_ext. intros e.
  unfold rkey; cbn. destruct (N.eqb (ekey e) k); reflexivity.
Qed.

Lemma nodup_keys_map l : NoDup (keys l) -> nodup_keys (map obs_of l) = true.
Proof.
  induction l as [|a l IH]; cbn; [reflexivity|]. intros H; inversion H as [|? ? Hn Hd]; subst.
  rewrite (IH Hd), andb_true_r.
  destruct (has_key (ekey a) (map obs_of l)) eqn:E; [|reflexivity].
  apply has_key_in in E. contradiction.
Qed.

Lemma all_dirty_map l : Forall (fun e => edirty e = true) l -> all_dirty (map obs_of l) = true.
Proof.
  induction 1 as [|a l Ha _ IH]; cbn; [reflexivity|]. unfold rdirty at 1; cbn. rewrite Ha. exact IH.
Qed.

(* the victim's position: with one entry per key, what lies behind the victim's key is l2 *)
Lemma split_unique l1 e l2 :
  NoDup (keys (l1 ++ e :: l2)) ->
  find_entry (ekey e) (l1 ++ e :: l2) = Some e /\
  behind (ekey e) (map obs_of (l1 ++ e :: l2)) = map obs_of l2.
Proof.
  induction l1 as [|a l1 IH]; cbn.
  - intros _. unfold rkey; cbn. rewrite N.eqb_refl. auto.
  - intros H; inversion H as [|? ? Hn Hd]; subst.
    destruct (N.eqb_spec (ekey a) (ekey e)) as [Heq|Hne].
    + exfalso. apply Hn. unfold keys. rewrite map_app. apply in_or_app; right; left; auto.
    + apply IH; exact Hd.
Qed.

(* ---------- the comparison functions are equalities ---------- *)

Lemma ent_eqb_spec a b : ent_eqb a b = true <-> a = b.
Proof.
  destruct a as [[a1 a2] a3], b as [[b1 b2] b3]. unfold ent_eqb; cbn.
  rewrite !andb_true_iff, !N.eqb_eq, Bool.eqb_true_iff.
  split; [intros [[-> ->] ->]; reflexivity | intros E; inversion E; auto].
Qed.

Lemma res_eqb_spec a b : res_eqb a b = true <-> a = b.
Proof. apply list_eqb_spec, ent_eqb_spec. Qed.

Lemma res_eqb_refl a : res_eqb a a = true.
Proof. apply res_eqb_spec; reflexivity. Qed.

Lemma option_N_eqb_spec (a b : option N) : option_eqb N.eqb a b = true <-> a = b.
Proof.
  destruct a, b; cbn; try (split; discriminate); [|tauto].
  rewrite N.eqb_eq. split; [intros ->; auto | intros E; inversion E; auto].
Qed.

Lemma out_eqb_spec a b : out_eqb a b = true <-> a = b.
Proof.
  destruct a, b; cbn; try (split; discriminate); [| |tauto].
  - rewrite andb_true_iff, Bool.eqb_true_iff, option_N_eqb_spec.
    split; [intros [-> ->]; auto | intros E; inversion E; auto].
  - rewrite option_N_eqb_spec. split; [intros ->; auto | intros E; inversion E; auto].
Qed.

Lemma obs_eqb_spec a b : obs_eqb a b = true <-> a = b.
Proof.
  destruct a, b. unfold obs_eqb; cbn. rewrite andb_true_iff, out_eqb_spec, res_eqb_spec.
  split; [intros [-> ->]; auto | intros E; inversion E; auto].
Qed.

(* ---------- one step of the model passes step_ok ---------- *)

Lemma model_step_ok s o :
  Inv s ->
  step_ok (cap s) (resident s) o (snd (lru_step s o)) (resident (fst (lru_step s o))) = true.
Proof.
  intros HI. pose proof (step_Inv s o HI) as [Hnd1 Hlen1]. rewrite step_cap in Hlen1.
  destruct HI as [Hnd Hlen].
  unfold step_ok. rewrite !resident_map.
  rewrite (nodup_keys_map _ Hnd1), map_length.
  replace (length (entries (fst (lru_step s o))) <=? cap s)%nat with true
    by (symmetry; apply Nat.leb_le; exact Hlen1).
  cbn [andb]. clear Hnd1 Hlen1.
  destruct o as [k v d|k|k|k]; cbn [lru_step].
  - rewrite has_key_map, map_length.
    destruct (find_entry k (entries s)) as [e0|] eqn:Ef; cbn [fst snd].
    + cbn [entries orb andb]. rewrite without_map. apply res_eqb_refl.
    + destruct (Nat.eqb_spec (length (entries s)) (cap s)) as [Hfull|Hnf].
      * pose proof (victim_spec (entries s)) as S.
        destruct (victim (entries s)) as [ve|]; cbn [fst snd entries negb andb].
        -- destruct S as (l1 & l2 & Hl & Hc & Hd).
           rewrite Hl in Hnd. destruct (split_unique l1 ve l2 Hnd) as [Hf Hb].
           rewrite <- Hl in Hf, Hb.
           rewrite lookup_res_map, Hf. cbn [option_map]. unfold rdirty at 1; cbn [obs_of snd].
           rewrite Hc, Hb, (all_dirty_map _ Hd), without_map. cbn [negb andb].
           apply res_eqb_refl.
        -- rewrite (all_dirty_map _ S). cbn [andb]. apply res_eqb_refl.
      * cbn [fst snd entries orb].
        replace (length (entries s) <? cap s)%nat with true
          by (symmetry; apply Nat.ltb_lt; lia).
        cbn [andb map]. rewrite without_absent; [apply res_eqb_refl|].
        rewrite has_key_map, Ef. reflexivity.
  - rewrite lookup_res_map, has_key_map.
    destruct (find_entry k (entries s)) as [e0|] eqn:Ef; cbn [fst snd option_map entries negb andb].
    + unfold obs_of at 1; cbn [fst snd]. rewrite N.eqb_refl, without_map. cbn [andb map].
      apply res_eqb_refl.
    + apply res_eqb_refl.
  - cbn [fst snd entries]. rewrite set_flag_res_map. apply res_eqb_refl.
  - cbn [fst snd entries]. rewrite set_flag_res_map. apply res_eqb_refl.
Qed.

(* ---------- the whole trace ---------- *)

Lemma model_trace_ok ops : forall s,
  Inv s -> trace_ok (cap s) (resident s) ops (lru_trace s ops) = true.
Proof.
  induction ops as [|o ops IH]; intros s HI; [reflexivity|].
  cbn [lru_trace]. pose proof (model_step_ok s o HI) as Hs.
  pose proof (step_Inv s o HI) as HI1. pose proof (step_cap s o) as Hc.
  destruct (lru_step s o) as [s1 x]. cbn [fst snd] in *. cbn [trace_ok].
  rewrite Hs. cbn [andb]. rewrite <- Hc. apply IH. exact HI1.
Qed.

(* the oracle accepts the model's own trace: every capacity, every operation list *)
Lemma oracle_accepts_model c ops :
  spec_accepts (c, ops, lru_trace (lru_init c) ops) = true.
Proof. exact (model_trace_ok ops (lru_init c) (Inv_init c)). Qed.

Lemma agreement_implies_acceptance (cs : lru_case) :
  model_agrees cs = true -> spec_accepts cs = true.
Proof.
  destruct cs as [[c ops] obs]. unfold model_agrees. intros H.
  apply (list_eqb_spec obs_eqb obs_eqb_spec) in H. subst obs. apply oracle_accepts_model.
Qed.

(* ---------- converse: the oracle accepts NOTHING BUT the model's trace ----------
   (the oracle determines return value and resident list of every step: it is not laxer than the
   model, so together with the above `spec_accepts` and `model_agrees` are the same function) *)

Lemma all_dirty_Forall l : all_dirty (map obs_of l) = true -> Forall (fun e => edirty e = true) l.
Proof.
  induction l as [|a l IH]; cbn; [constructor|]. unfold rdirty at 1; cbn.
  intros H. apply andb_true_iff in H as [H1 H2]. constructor; auto.
Qed.

Lemma victim_unique x e' l1 ve l2 :
  find_entry x (l1 ++ ve :: l2) = Some e' -> edirty e' = false ->
  all_dirty (behind x (map obs_of (l1 ++ ve :: l2))) = true ->
  edirty ve = false -> Forall (fun e => edirty e = true) l2 -> ekey ve = x.
Proof.
  intros Hf Hc Hb Hv Hd. induction l1 as [|a l1 IH]; cbn in Hf, Hb.
  - destruct (N.eqb_spec (ekey ve) x) as [Heq|Hne]; [exact Heq|].
    apply find_entry_some in Hf as [Hin _]. rewrite Forall_forall in Hd.
    rewrite (Hd _ Hin) in Hc. discriminate.
  - destruct (N.eqb_spec (ekey a) x) as [Heq|Hne].
    + apply all_dirty_Forall in Hb. apply Forall_app in Hb as [_ Hb].
      inversion Hb; subst. congruence.
    + apply IH; auto.
Qed.

Lemma oracle_step_exact s o out post :
  step_ok (cap s) (resident s) o out post = true ->
  out = snd (lru_step s o) /\ post = resident (fst (lru_step s o)).
Proof.
  unfold step_ok. rewrite !resident_map. intros H.
  apply andb_true_iff in H as [_ H].
  destruct o as [k v d|k|k|k]; cbn [lru_step].
  - destruct out as [ok ev| |]; [|discriminate|discriminate].
    rewrite has_key_map, map_length in H.
    destruct ok, ev as [x|]; [| | discriminate |].
    + (* evicting set *)
      rewrite lookup_res_map in H.
      destruct (find_entry k (entries s)) as [e0|]; [discriminate|]. cbn [negb andb] in H.
      destruct (Nat.eqb (length (entries s)) (cap s)); [|discriminate]. cbn [andb] in H.
      destruct (find_entry x (entries s)) as [e'|] eqn:Ex; [|discriminate]. cbn [option_map] in H.
      unfold rdirty at 1 in H; cbn [obs_of snd] in H.
      apply andb_true_iff in H as [H Hp]. apply andb_true_iff in H as [Hc Hb].
      apply negb_true_iff in Hc. apply res_eqb_spec in Hp.
      pose proof (victim_spec (entries s)) as S.
      destruct (victim (entries s)) as [ve|]; cbn [fst snd entries].
      * destruct S as (l1 & l2 & Hl & Hvc & Hd). rewrite Hl in Ex, Hb.
        rewrite (victim_unique x e' l1 ve l2 Ex Hc Hb Hvc Hd).
        rewrite without_map in Hp. auto.
      * exfalso. apply find_entry_some in Ex as [Hin _]. rewrite Forall_forall in S.
        rewrite (S _ Hin) in Hc. discriminate.
    + (* plain set *)
      apply andb_true_iff in H as [Hk Hp]. apply res_eqb_spec in Hp.
      destruct (find_entry k (entries s)) as [e0|] eqn:Ef; cbn [fst snd entries].
      * rewrite without_map in Hp. auto.
      * cbn [orb] in Hk. apply Nat.ltb_lt in Hk.
        destruct (Nat.eqb_spec (length (entries s)) (cap s)) as [Hfull|Hnf]; [lia|].
        cbn [fst snd entries]. rewrite without_absent in Hp by (rewrite has_key_map, Ef; reflexivity).
        auto.
    + (* refused set *)
      destruct (find_entry k (entries s)) as [e0|]; [discriminate|]. cbn [negb andb] in H.
      destruct (Nat.eqb (length (entries s)) (cap s)); [|discriminate]. cbn [andb] in H.
      apply andb_true_iff in H as [Ha Hp]. apply res_eqb_spec in Hp. apply all_dirty_Forall in Ha.
      pose proof (victim_spec (entries s)) as S.
      destruct (victim (entries s)) as [ve|]; cbn [fst snd entries]; [|auto].
      exfalso. destruct S as (l1 & l2 & Hl & Hvc & _). rewrite Hl in Ha.
      apply Forall_app in Ha as [_ Ha]. inversion Ha; subst. congruence.
  - destruct out as [|r|]; [discriminate| |discriminate].
    rewrite lookup_res_map, has_key_map in H.
    destruct r as [v|]; destruct (find_entry k (entries s)) as [e0|]; cbn [option_map negb andb] in H;
      try discriminate; cbn [fst snd entries].
    + apply andb_true_iff in H as [Hv Hp]. apply N.eqb_eq in Hv. apply res_eqb_spec in Hp.
      cbn in Hv. subst v. rewrite without_map in Hp. auto.
    + apply res_eqb_spec in H. auto.
  - destruct out; try discriminate. apply res_eqb_spec in H. rewrite set_flag_res_map in H. auto.
  - destruct out; try discriminate. apply res_eqb_spec in H. rewrite set_flag_res_map in H. auto.
Qed.

Lemma oracle_trace_exact ops : forall s obs,
  trace_ok (cap s) (resident s) ops obs = true -> obs = lru_trace s ops.
Proof.
  induction ops as [|o ops IH]; intros s obs H.
  - destruct obs; [reflexivity | discriminate].
  - destruct obs as [|[out post] obs]; [discriminate|]. cbn [trace_ok] in H.
    apply andb_true_iff in H as [Hs Ht].
    destruct (oracle_step_exact s o out post Hs) as [-> Hp].
    cbn [lru_trace]. pose proof (step_cap s o) as Hc.
    destruct (lru_step s o) as [s1 x]. cbn [fst snd] in *. subst post.
    rewrite <- Hc in Ht. rewrite (IH s1 obs Ht). reflexivity.
Qed.

Lemma acceptance_implies_agreement (cs : lru_case) :
  spec_accepts cs = true -> model_agrees cs = true.
Proof.
  destruct cs as [[c ops] obs]. unfold spec_accepts, model_agrees. intros H.
  apply (list_eqb_spec obs_eqb obs_eqb_spec). symmetry.
  exact (oracle_trace_exact ops (lru_init c) obs H).
Qed.

Lemma oracle_is_model (cs : lru_case) : spec_accepts cs = model_agrees cs.
Proof.
  destruct (spec_accepts cs) eqn:E1, (model_agrees cs) eqn:E2; auto.
  - apply acceptance_implies_agreement in E1. congruence.
  - apply agreement_implies_acceptance in E2. congruence.
Qed.

(* sparse observation (long runs at large capacities): agreement means that every return value the
   implementation produced is the model's, and so is the final resident list - the theorems of
   Properties/C15.v about `lru_step (reach c ops)` then speak about what was observed *)
Lemma list_out_eqb_spec (a b : list lru_out) : list_eqb out_eqb a b = true -> a = b.
Proof.
  revert b. induction a as [|x a IH]; intros [|y b] H; cbn in H; try discriminate; [reflexivity|].
  apply andb_true_iff in H as [H1 H2]. apply out_eqb_spec in H1. subst y. f_equal. apply IH. exact H2.
Qed.

Lemma sparse_agreement_exact c ops outs fin :
  model_agrees_sparse (c, ops, outs, fin) = true ->
  outs = snd (lru_run (lru_init c) ops) /\ fin = resident (fst (lru_run (lru_init c) ops)).
Proof.
  unfold model_agrees_sparse. destruct (lru_run (lru_init c) ops) as [s mouts]. cbn [fst snd].
  intros H. apply andb_true_iff in H as [H1 H2]. apply list_out_eqb_spec in H1. apply res_eqb_spec in H2.
  split; congruence.
Qed.
