(* Lemmas about Model/Console.v used by Properties/C20.v. *)
From Coq Require Import List NArith Bool Arith Lia.
From Mkdb Require Import Model.Console Spec.ConsoleSpec.
Import ListNotations.
Open Scope N_scope.

(* ------------------------------------------------------------------------------------ *)
(* pieces / split_statements over concatenation                                          *)
(* ------------------------------------------------------------------------------------ *)

Definition P (s : qstate) (l : list N) := fst (fst (pieces s l)).
Definition T (s : qstate) (l : list N) := snd (fst (pieces s l)).
Definition S (s : qstate) (l : list N) := snd (pieces s l).

Definition join (x y : list (list N) * list N) : list (list N) * list N :=
  match fst y with
  | [] => (fst x, snd x ++ snd y)
  | p :: ps => (fst x ++ (snd x ++ p) :: ps, snd y)
  end.

Lemma pieces_cons s c r :
  pieces s (c :: r) =
  (if snd (step_q s c) then ([c] :: P (fst (step_q s c)) r, T (fst (step_q s c)) r)
   else push c (fst (pieces (fst (step_q s c)) r)),
   S (fst (step_q s c)) r).
Proof.
  unfold P, T, S. cbn [pieces]. destruct (step_q s c) as [s' cut]. cbn [fst snd].
  destruct (pieces s' r) as [pt sf]. cbn [fst snd]. destruct cut; reflexivity.
Qed.

Lemma pieces_app a : forall s b,
  pieces s (a ++ b) = (join (fst (pieces s a)) (fst (pieces (S s a) b)), S (S s a) b).
Proof.
  induction a as [|c a IH]; intros s b.
  - cbn [app]. unfold S. cbn [pieces fst snd]. unfold join.
    destruct (pieces s b) as [[pb tb] sb]. cbn [fst snd app]. destruct pb; reflexivity.
  - cbn [app].
    assert (HS : S s (c :: a) = S (fst (step_q s c)) a) by (unfold S; rewrite pieces_cons; reflexivity).
    rewrite HS. rewrite (pieces_cons s c (a ++ b)), (pieces_cons s c a). cbn [fst].
    set (s' := fst (step_q s c)). unfold P, T, S in *. rewrite (IH s' b). cbn [fst snd].
    f_equal. destruct (snd (step_q s c)).
    + unfold join; cbn [fst snd]. destruct (fst (fst (pieces (snd (pieces s' a)) b))); reflexivity.
    + unfold join, push; cbn [fst snd]. destruct (pieces s' a) as [[pa ta] sa]; cbn [fst snd].
      destruct (fst (fst (pieces sa b))); destruct pa; reflexivity.
Qed.

Lemma S_app a s b : S s (a ++ b) = S (S s a) b.
Proof. unfold S at 1. rewrite pieces_app. reflexivity. Qed.

Definition tstr (p : list N) : list N := trim (to_str p).

Lemma split_unfold l :
  split_statements l = (map tstr (P q0 l), (fst (S q0 l) =? 0) && all_space (to_str (T q0 l))).
Proof.
  unfold split_statements, P, T, S, tstr. destruct (pieces q0 l) as [[ps tl] sf]. reflexivity.
Qed.

(* the skip flag is only ever set inside a literal *)
Definition st_ok (s : qstate) : Prop := snd s = true -> fst s <> 0.

Lemma step_q_ok s c : st_ok s -> st_ok (fst (step_q s c)).
Proof.
  destruct s as [q sk]. unfold st_ok, step_q. cbn [fst snd]. intros H.
  destruct sk; cbn [fst snd]; [discriminate|].
  destruct (q =? 0) eqn:Eq; cbn [negb].
  - destruct ((c =? 39) || (c =? 34)); [cbn; discriminate|]. destruct (c =? 59); cbn; discriminate.
  - apply N.eqb_neq in Eq. destruct (c =? 92); cbn [fst snd]; [auto|].
    destruct (c =? q); cbn; [discriminate | discriminate].
Qed.

Lemma S_ok l : forall s, st_ok s -> st_ok (S s l).
Proof.
  induction l as [|c r IH]; intros s H; unfold S.
  - exact H.
  - rewrite pieces_cons. cbn [snd]. apply IH, step_q_ok, H.
Qed.

Lemma q0_ok : st_ok q0.
Proof. unfold st_ok, q0. cbn. discriminate. Qed.

Lemma complete_state b : complete b = true -> S q0 b = q0.
Proof.
  unfold complete. rewrite split_unfold. cbn [snd]. intros H. apply andb_true_iff in H as [H _].
  apply N.eqb_eq in H. pose proof (S_ok b q0 q0_ok) as Hk. unfold st_ok in Hk.
  destruct (S q0 b) as [q sk]. cbn [fst snd] in *. subst q. destruct sk; [exfalso; apply Hk; reflexivity|reflexivity].
Qed.

Lemma trim_left_app w y : all_space w = true -> trim_left (w ++ y) = trim_left y.
Proof.
  induction w as [|c w IH]; cbn; [reflexivity|]. intros H. apply andb_true_iff in H as [Hc Hw].
  rewrite Hc. apply IH, Hw.
Qed.

Lemma trim_app w y : all_space w = true -> trim (w ++ y) = trim y.
Proof. intros H. unfold trim. rewrite trim_left_app by exact H. reflexivity. Qed.

Lemma all_space_app a b : all_space (a ++ b) = all_space a && all_space b.
Proof. apply forallb_app. Qed.

Lemma to_str_app a b : to_str (a ++ b) = to_str a ++ to_str b.
Proof. apply map_app. Qed.

(* L1: a complete buffer followed by anything *)
Lemma split_after_complete b x :
  complete b = true ->
  pending (b ++ x) = pending b ++ pending x /\ complete (b ++ x) = complete x.
Proof.
  intros Hc. pose proof (complete_state b Hc) as Hs.
  unfold complete in Hc. rewrite split_unfold in Hc. cbn [snd] in Hc.
  apply andb_true_iff in Hc as [_ Hsp].
  unfold pending, complete. rewrite !split_unfold. cbn [fst snd].
  unfold P, T. rewrite pieces_app. rewrite S_app, Hs. cbn [fst snd]. unfold join.
  unfold T in Hsp. unfold S. clear Hs.
  destruct (pieces q0 b) as [[pb tb] sb]. destruct (pieces q0 x) as [[px tx] sx]. cbn [fst snd] in *.
  destruct px as [|p ps]; cbn [fst snd].
  - rewrite app_nil_r. split; [reflexivity|]. rewrite to_str_app, all_space_app, Hsp. reflexivity.
  - split; [|reflexivity]. rewrite map_app. cbn [map]. f_equal. f_equal. unfold tstr.
    rewrite to_str_app. apply trim_app, Hsp.
Qed.

Lemma pending_space x : pending (32 :: x) = pending x /\ complete (32 :: x) = complete x.
Proof.
  change (32 :: x) with ([32] ++ x).
  assert (H : complete [32] = true) by (vm_compute; reflexivity).
  destruct (split_after_complete [32] x H) as [A B]. split; [rewrite A; reflexivity | exact B].
Qed.

(* ------------------------------------------------------------------------------------ *)
(* The session over keys equals splitting the flat text                                  *)
(* ------------------------------------------------------------------------------------ *)





Lemma enter_not_printable : is_printable keyEnter = false.
Proof. reflexivity. Qed.

Lemma run_general ks : forall t lip,
  clean (paste t) ks = true ->
  submitted (fst (run t lip ks)) ++ pending (line (fst (snd (run t lip ks)))) =
    pending (line t ++ flat (paste t) ks) /\
  complete (line (fst (snd (run t lip ks)))) = complete (line t ++ flat (paste t) ks) /\
  all_lines (fst (run t lip ks)) = true.
Proof.
  induction ks as [|k r IH]; intros [ln p] lip Hc.
  - cbn [run flat fst snd line]. rewrite app_nil_r. repeat split; reflexivity.
  - cbn [clean paste] in Hc.
    cbn [run flat paste line].
    (* Enter, in either mode *)
    assert (HEnter : k = keyEnter ->
       (p = true \/ True) ->
       forall lip0, process_key (mkTerm ln p) lip0 k =
         (if complete ln then PLine (pending ln) (if p then lip0 else false) (mkTerm [] p)
          else PCont (mkTerm (ln ++ [32]) p) (if p then lip0 else false))).
    { intros -> _ lip0. unfold process_key, handle_key, complete, pending. cbn [paste line].
      destruct p; cbn; destruct (split_statements ln) as [ss cpl]; cbn [fst snd];
        destruct ln; destruct cpl; reflexivity. }
    destruct p.
    + (* paste active *)
      destruct (k =? keyPasteEnd) eqn:Epe.
      * apply N.eqb_eq in Epe. subst k.
        unfold process_key in *. cbn [paste line negb] in *. cbn.
        specialize (IH (mkTerm ln false) lip Hc). cbn [paste line] in IH. exact IH.
      * destruct (k =? keyEnter) eqn:Een.
        -- apply N.eqb_eq in Een. rewrite (HEnter Een (or_intror I)) in *.
           destruct (complete ln) eqn:Ecl.
           ++ cbn [paste]. destruct (run (mkTerm [] true) true r) as [os tf] eqn:Er. cbn [fst snd].
              specialize (IH (mkTerm [] true) true Hc). rewrite Er in IH. cbn [fst snd paste line app] in IH.
              destruct IH as (A & B & C).
              destruct (split_after_complete ln (32 :: flat true r) Ecl) as [L1 L2].
              destruct (pending_space (flat true r)) as [S1 S2].
              repeat split.
              ** unfold submitted in *. cbn [map concat stmts_of]. rewrite <- app_assoc, A, L1, S1. reflexivity.
              ** rewrite B, L2, S2. reflexivity.
              ** unfold all_lines in *. cbn [existsb is_stop orb]. exact C.
           ++ specialize (IH (mkTerm (ln ++ [32]) true) lip Hc). cbn [paste line] in IH.
              rewrite <- app_assoc in IH. exact IH.
        -- assert (Hp : forall lip0, process_key (mkTerm ln true) lip0 k = PCont (mkTerm (ln ++ [k]) true) lip0).
           { intros lip0. unfold process_key, handle_key, add_key. cbn [paste line negb]. rewrite Epe, Een. reflexivity. }
           rewrite Hp in *. specialize (IH (mkTerm (ln ++ [k]) true) lip Hc). cbn [paste line] in IH.
           rewrite <- app_assoc in IH. exact IH.
    + (* typed *)
      destruct (k =? keyPasteStart) eqn:Eps.
      * apply N.eqb_eq in Eps. subst k.
        assert (Hp : process_key (mkTerm ln false) lip keyPasteStart =
                     PCont (mkTerm ln true) (match ln with [] => true | _ => lip end)).
        { unfold process_key. cbn [paste line negb]. destruct ln; reflexivity. }
        rewrite Hp in *. specialize (IH (mkTerm ln true) (match ln with [] => true | _ => lip end) Hc). cbn [paste line] in IH. exact IH.
      * apply andb_true_iff in Hc as [Hc Hcl]. apply andb_true_iff in Hc as [Hc Hed].
        apply andb_true_iff in Hc as [Hcc Hcd].
        apply negb_true_iff in Hcc, Hcd, Hed.
        destruct (k =? keyEnter) eqn:Een.
        -- apply N.eqb_eq in Een. rewrite (HEnter Een (or_intror I)) in *.
           destruct (complete ln) eqn:Ecl.
           ++ cbn [paste]. destruct (run (mkTerm [] false) false r) as [os tf] eqn:Er. cbn [fst snd].
              specialize (IH (mkTerm [] false) false Hcl). rewrite Er in IH. cbn [fst snd paste line app] in IH.
              destruct IH as (A & B & C).
              destruct (split_after_complete ln (32 :: flat false r) Ecl) as [L1 L2].
              destruct (pending_space (flat false r)) as [S1 S2].
              repeat split.
              ** unfold submitted in *. cbn [map concat stmts_of]. rewrite <- app_assoc, A, L1, S1. reflexivity.
              ** rewrite B, L2, S2. reflexivity.
              ** unfold all_lines in *. cbn [existsb is_stop orb]. exact C.
           ++ specialize (IH (mkTerm (ln ++ [32]) false) false Hcl). cbn [paste line] in IH.
              rewrite <- app_assoc in IH. exact IH.
        -- assert (Hp : process_key (mkTerm ln false) lip k =
                        PCont (if is_printable k then mkTerm (ln ++ [k]) false else mkTerm ln false) false).
           { unfold process_key, handle_key, add_key. cbn [paste line negb andb].
             rewrite Hcd, Hcc, Eps, Een, Hed. cbn [andb].
             destruct (is_printable k) eqn:Epr; cbn [negb].
             - reflexivity.
             - destruct (k =? keyCtrlD); reflexivity. }
           rewrite Hp in *. destruct (is_printable k).
           ++ specialize (IH (mkTerm (ln ++ [k]) false) false Hcl). cbn [paste line] in IH.
              rewrite <- app_assoc in IH. exact IH.
           ++ specialize (IH (mkTerm ln false) false Hcl). cbn [paste line] in IH. exact IH.
Qed.

(* ------------------------------------------------------------------------------------ *)
(* Well-formed statements (with line-break marks) and scripts                            *)
(* ------------------------------------------------------------------------------------ *)








Definition quote_state (q : N) : Prop := q = 0 \/ q = 39 \/ q = 34.

Lemma valid_not_brk c : valid_rune c = true -> (c =? brk) = false.
Proof.
  intros H. destruct (c =? brk) eqn:E; [|reflexivity]. apply N.eqb_eq in E. subst c. discriminate H.
Qed.

Lemma valid_fix c : valid_rune c = true -> fix_rune c = c.
Proof.
  unfold valid_rune. intros H. apply andb_true_iff in H as [H _]. apply andb_true_iff in H as [_ H].
  apply N.eqb_eq in H. exact H.
Qed.

Lemma wf_pieces m : forall q esc, quote_state q -> wf_from q esc m = true ->
  pieces (q, esc) (text_of m) = ([text_of m], [], q0).
Proof.
  induction m as [|c r IH]; intros q esc Hq H; [discriminate|].
  cbn [wf_from] in H. cbn [text_of map]. fold (text_of r).
  destruct esc.
  { apply andb_true_iff in H as [Hv H]. rewrite (valid_not_brk c Hv).
    rewrite pieces_cons. unfold step_q. cbn [fst snd]. unfold S. rewrite (IH q false Hq H). reflexivity. }
  destruct (q =? 0) eqn:Eq.
  - apply N.eqb_eq in Eq. subst q.
    destruct (c =? brk) eqn:Eb.
    + rewrite pieces_cons. change (step_q (0, false) 32) with (0, false, false). cbn [fst snd].
      unfold S. rewrite (IH 0 false (or_introl eq_refl) H). reflexivity.
    + apply andb_true_iff in H as [Hv H].
      rewrite pieces_cons. unfold step_q. cbn [N.eqb negb fst snd].
      destruct (c =? 59) eqn:E59.
      * apply N.eqb_eq in E59. subst c. cbn [N.eqb orb fst snd]. destruct r; [|discriminate]. reflexivity.
      * destruct ((c =? 39) || (c =? 34)) eqn:Equ; cbn [fst snd].
        -- assert (Hqs : quote_state c).
           { apply orb_true_iff in Equ as [E|E]; apply N.eqb_eq in E; subst c; [right; left|right; right]; reflexivity. }
           unfold S. rewrite (IH c false Hqs H). reflexivity.
        -- unfold S. rewrite (IH 0 false (or_introl eq_refl) H). reflexivity.
  - apply andb_true_iff in H as [Hv H]. rewrite (valid_not_brk c Hv).
    rewrite pieces_cons. unfold step_q. rewrite Eq. cbn [negb].
    destruct (c =? 92) eqn:E92; cbn [fst snd]; unfold S.
    + rewrite (IH q true Hq H). reflexivity.
    + destruct (c =? q) eqn:Ecq; cbn [fst snd].
      * rewrite (IH 0 false (or_introl eq_refl) H). reflexivity.
      * rewrite (IH q false Hq H). reflexivity.
Qed.

Lemma wf_to_str m : forall q esc, wf_from q esc m = true -> to_str (text_of m) = text_of m.
Proof.
  induction m as [|c r IH]; intros q esc H; [reflexivity|].
  cbn [wf_from] in H. cbn [text_of map to_str]. fold (text_of r). fold (to_str (text_of r)).
  destruct esc.
  { apply andb_true_iff in H as [Hv H]. rewrite (valid_not_brk c Hv), (valid_fix c Hv). f_equal.
    eapply IH; exact H. }
  destruct (q =? 0).
  - destruct (c =? brk) eqn:Eb.
    + rewrite (IH _ _ H). reflexivity.
    + apply andb_true_iff in H as [Hv H]. rewrite (valid_fix c Hv). f_equal.
      destruct (c =? 59); [destruct r; [reflexivity|discriminate]|].
      destruct ((c =? 39) || (c =? 34)); eapply IH; exact H.
  - apply andb_true_iff in H as [Hv H].
    rewrite (valid_not_brk c Hv), (valid_fix c Hv). f_equal.
    destruct (c =? 92); [eapply IH; exact H|].
    destruct (c =? q); eapply IH; exact H.
Qed.

Lemma space_not_special c : is_space c = true -> (c =? 39) = false /\ (c =? 34) = false /\ (c =? 59) = false.
Proof.
  intros H. repeat split; (destruct (N.eqb_spec c 39) as [->|]; [discriminate H|]);
  (destruct (N.eqb_spec c 34) as [->|]; [discriminate H|]);
  (destruct (N.eqb_spec c 59) as [->|]; [discriminate H|]); reflexivity.
Qed.

Lemma sep_pieces sp : wf_sep sp = true ->
  pieces q0 (text_of sp) = ([], text_of sp, q0) /\ all_space (to_str (text_of sp)) = true.
Proof.
  induction sp as [|c r IH]; intros H; [split; reflexivity|].
  cbn [wf_sep forallb] in H. apply andb_true_iff in H as [Hc H]. destruct (IH H) as [IH1 IH2].
  cbn [text_of map]. fold (text_of r). rewrite pieces_cons.
  assert (Hsp : is_space (if c =? brk then 32 else c) = true /\
                fix_rune (if c =? brk then 32 else c) = (if c =? brk then 32 else c)).
  { destruct (c =? brk); [split; reflexivity|]. cbn [orb] in Hc. apply andb_true_iff in Hc as [Hv Hs].
    split; [exact Hs | apply valid_fix, Hv]. }
  destruct Hsp as [Hsp Hfx]. set (c' := if c =? brk then 32 else c) in *.
  destruct (space_not_special c' Hsp) as (E1 & E2 & E3).
  unfold step_q, q0. cbn [N.eqb negb fst snd]. rewrite E1, E2, E3. cbn [orb fst snd].
  unfold S. fold q0. rewrite IH1. cbn [push fst snd]. split; [reflexivity|].
  cbn [to_str map all_space forallb]. rewrite Hfx, Hsp. exact IH2.
Qed.


Lemma unit_then u x : wf_unit u = true ->
  pending (unit_text u ++ x) = normalise (fst u) :: pending x /\
  complete (unit_text u ++ x) = complete x.
Proof.
  intros H. apply andb_true_iff in H as [Hm Hs]. unfold wf_stmt in Hm.
  pose proof (wf_pieces _ 0 false (or_introl eq_refl) Hm) as Pm.
  destruct (sep_pieces _ Hs) as [Ps As].
  assert (Hsplit : split_statements (unit_text u) = ([normalise (fst u)], true)).
  { rewrite split_unfold. unfold P, T, S, unit_text. rewrite pieces_app. unfold S. fold q0 in Pm. rewrite Pm.
    cbn [fst snd]. rewrite Ps. unfold join. cbn [fst snd app map]. rewrite As.
    unfold tstr, normalise. rewrite (wf_to_str _ _ _ Hm). reflexivity. }
  assert (Hc : complete (unit_text u) = true) by (unfold complete; rewrite Hsplit; reflexivity).
  destruct (split_after_complete _ x Hc) as [A B]. split; [|exact B].
  rewrite A. unfold pending at 1. rewrite Hsplit. reflexivity.
Qed.

(* split_concat: the concatenation of well-formed statements with their separators splits
   into exactly the normalised statements, and is complete *)
Lemma split_concat us : forallb wf_unit us = true ->
  split_statements (concat (map unit_text us)) = (map (fun u => normalise (fst u)) us, true).
Proof.
  induction us as [|u r IH]; intros H; [reflexivity|].
  cbn [forallb] in H. apply andb_true_iff in H as [Hu Hr]. specialize (IH Hr).
  cbn [map concat]. destruct (unit_then u (concat (map unit_text r)) Hu) as [A B].
  unfold pending in A. unfold complete in B. rewrite IH in A, B. cbn [fst snd] in A, B.
  destruct (split_statements (unit_text u ++ concat (map unit_text r))) as [x y]. cbn [fst snd] in A, B.
  subst. reflexivity.
Qed.


Definition item_ok (k : N) : bool := (k =? brk) || valid_rune k.

Lemma valid_facts k : valid_rune k = true ->
  is_printable k = true /\ (k =? keyPasteStart) = false /\ (k =? keyPasteEnd) = false /\
  (k =? keyCtrlC) = false /\ (k =? keyCtrlD) = false /\ is_edit_key k = false /\ (k =? keyEnter) = false.
Proof.
  intros H. pose proof H as H0. unfold valid_rune in H. apply andb_true_iff in H as [H Hb].
  apply andb_true_iff in H as [Hp _]. apply negb_true_iff in Hb.
  split; [exact Hp|].
  assert (Hne : forall c, is_printable c = false -> (k =? c) = false).
  { intros c Hc. destruct (N.eqb_spec k c) as [->|]; [congruence|reflexivity]. }
  repeat split; try (apply Hne; reflexivity).
  unfold is_edit_key. rewrite Hb, (Hne keyCtrlU eq_refl). cbn [orb].
  unfold is_printable in Hp. apply andb_true_iff in Hp as [_ Hs]. apply negb_true_iff in Hs.
  apply andb_false_iff. apply andb_false_iff in Hs as [Hs|Hs]; apply N.leb_gt in Hs.
  - left. apply N.leb_gt. unfold keyUp. lia.
  - right. apply N.leb_gt. unfold keyClearScreen. lia.
Qed.

Lemma flat_items p its tail : forallb item_ok its = true ->
  flat p (its ++ tail) = text_of its ++ flat p tail /\
  (clean p tail = true -> clean p (its ++ tail) = true).
Proof.
  induction its as [|k r IH]; intros H; [split; auto|].
  cbn [forallb] in H. apply andb_true_iff in H as [Hk Hr]. destruct (IH Hr) as [IH1 IH2].
  cbn [app flat clean text_of map]. fold (text_of r).
  unfold item_ok in Hk. destruct (k =? brk) eqn:Eb.
  - apply N.eqb_eq in Eb. subst k. destruct p; cbn; rewrite IH1; split; auto.
  - cbn [orb] in Hk. destruct (valid_facts k Hk) as (F1 & F2 & F3 & F4 & F5 & F6 & F7).
    unfold brk in Eb. destruct p; rewrite ?F1, ?F2, ?F3, ?F4, ?F5, ?F6, ?F7; cbn [negb andb]; rewrite IH1; split; auto.
Qed.

Lemma flat_deliver pcs tail : forallb (fun pc : bool * list N => forallb item_ok (snd pc)) pcs = true ->
  flat false (deliver pcs ++ tail) = text_of (concat (map snd pcs)) ++ flat false tail /\
  (clean false tail = true -> clean false (deliver pcs ++ tail) = true).
Proof.
  induction pcs as [|[pf its] r IH]; intros H; [split; auto|].
  cbn [forallb snd] in H. apply andb_true_iff in H as [Hi Hr]. destruct (IH Hr) as [IH1 IH2].
  unfold deliver in *. cbn [map concat fst snd]. unfold text_of in *. rewrite map_app. fold (text_of its).
  rewrite <- !app_assoc.
  destruct pf.
  - cbn [app flat clean]. change (keyPasteStart =? keyPasteStart) with true. cbn iota.
    rewrite <- app_assoc.
    destruct (flat_items true its ([keyPasteEnd] ++ concat (map (fun pc : bool * list N => if fst pc then keyPasteStart :: snd pc ++ [keyPasteEnd] else snd pc) r) ++ tail) Hi) as [A B].
    rewrite A. cbn [app flat clean] in *. change (keyPasteEnd =? keyPasteEnd) with true in *. cbn iota in *.
    rewrite IH1. split; [reflexivity|]. intros Ht. apply B. apply IH2, Ht.
  - destruct (flat_items false its (concat (map (fun pc : bool * list N => if fst pc then keyPasteStart :: snd pc ++ [keyPasteEnd] else snd pc) r) ++ tail) Hi) as [A B].
    rewrite A, IH1. split; [reflexivity|]. intros Ht. apply B, IH2, Ht.
Qed.

(* ---- the last Enter of a session leaves an empty or an incomplete buffer ---- *)
Lemma step_q_quote s c : quote_state (fst s) -> quote_state (fst (fst (step_q s c))).
Proof.
  destruct s as [q sk]. unfold step_q. cbn [fst]. intros H.
  destruct sk; cbn [fst]; [exact H|].
  destruct (q =? 0) eqn:Eq; cbn [negb].
  - destruct ((c =? 39) || (c =? 34)) eqn:E; cbn [fst].
    + apply orb_true_iff in E as [E|E]; apply N.eqb_eq in E; subst c; [right; left|right; right]; reflexivity.
    + destruct (c =? 59); left; reflexivity.
  - destruct (c =? 92); cbn [fst]; [exact H|]. destruct (c =? q); cbn [fst]; [left; reflexivity|exact H].
Qed.

Lemma S_quote l : forall s, quote_state (fst s) -> quote_state (fst (S s l)).
Proof.
  induction l as [|c r IH]; intros s H; unfold S; [exact H|].
  rewrite pieces_cons. cbn [snd]. apply IH, step_q_quote, H.
Qed.

Lemma complete_snoc_space ln : complete (ln ++ [32]) = complete ln.
Proof.
  unfold complete. rewrite !split_unfold. cbn [snd]. unfold T. rewrite S_app, pieces_app.
  pose proof (S_quote ln q0 (or_introl eq_refl)) as Hq.
  pose proof (S_ok ln q0 q0_ok) as Hk. unfold st_ok in Hk.
  destruct (S q0 ln) as [q sk]. cbn [fst snd] in *.
  assert (Hp : pieces (q, sk) [32] = ([], [32], (q, false))).
  { cbn [pieces]. unfold step_q. destruct sk; [reflexivity|].
    destruct Hq as [Hq|[Hq|Hq]]; subst q; reflexivity. }
  unfold S. rewrite Hp. unfold join. cbn [fst snd]. rewrite to_str_app, all_space_app.
  cbn [to_str map all_space forallb]. change (is_space (fix_rune 32)) with true. cbn [andb].
  rewrite andb_true_r. reflexivity.
Qed.

Lemma process_enter ln p lip :
  process_key (mkTerm ln p) lip keyEnter =
    (if complete ln then PLine (pending ln) (if p then lip else false) (mkTerm [] p)
     else PCont (mkTerm (ln ++ [32]) p) (if p then lip else false)).
Proof.
  unfold process_key, handle_key, complete, pending. cbn [paste line].
  destruct p; cbn; destruct (split_statements ln) as [ss cpl]; cbn [fst snd];
    destruct ln; destruct cpl; reflexivity.
Qed.

Lemma process_stop t lip k o : process_key t lip k = PStop o -> is_stop o = true.
Proof.
  unfold process_key. destruct (handle_key t k);
  repeat match goal with |- context [if ?b then _ else _] => destruct b end;
  intros H; inversion H; reflexivity.
Qed.

Lemma run_last_enter ks : forall t lip,
  all_lines (fst (run t lip (ks ++ [keyEnter]))) = true ->
  line (fst (snd (run t lip (ks ++ [keyEnter])))) = [] \/
  complete (line (fst (snd (run t lip (ks ++ [keyEnter]))))) = false.
Proof.
  induction ks as [|k r IH]; intros t lip H.
  - destruct t as [ln p]. cbn [app run] in *. rewrite process_enter in *.
    destruct (complete ln) eqn:E; cbn [fst snd line].
    + left. reflexivity.
    + right. rewrite complete_snoc_space. exact E.
  - cbn [app run] in *. destruct (process_key t lip k) eqn:Ep.
    + apply process_stop in Ep. unfold all_lines in H. cbn in H. rewrite Ep in H. discriminate.
    + apply IH, H.
    + destruct (run t0 (paste t0) (r ++ [keyEnter])) as [os x] eqn:Er. cbn [fst snd] in *.
      specialize (IH t0 (paste t0)). rewrite Er in IH. cbn [fst snd] in IH. apply IH.
      unfold all_lines in *. cbn [existsb is_stop orb] in H. exact H.
Qed.


Lemma text_of_app a b : text_of (a ++ b) = text_of a ++ text_of b.
Proof. apply map_app. Qed.

Lemma text_of_script us : text_of (script_keys us) = concat (map unit_text us).
Proof.
  induction us as [|u r IH]; [reflexivity|]. unfold script_keys in *. cbn [map concat].
  rewrite text_of_app, IH. unfold unit_keys, unit_text. rewrite text_of_app. reflexivity.
Qed.

Lemma wf_items m : forall q esc, wf_from q esc m = true -> forallb item_ok m = true.
Proof.
  induction m as [|c r IH]; intros q esc H; [reflexivity|]. cbn [wf_from] in H. cbn [forallb]. unfold item_ok at 1.
  destruct esc.
  { apply andb_true_iff in H as [Hv H]. rewrite Hv, orb_true_r. cbn [andb]. eapply IH; exact H. }
  destruct (q =? 0).
  - destruct (c =? brk); cbn [orb]; [eapply IH; exact H|].
    apply andb_true_iff in H as [Hv H]. rewrite Hv. cbn [andb].
    destruct (c =? 59); [destruct r; [reflexivity|discriminate]|].
    destruct ((c =? 39) || (c =? 34)); eapply IH; exact H.
  - apply andb_true_iff in H as [Hv H]. rewrite Hv, orb_true_r. cbn [andb].
    destruct (c =? 92); [eapply IH; exact H|].
    destruct (c =? q); eapply IH; exact H.
Qed.

Lemma sep_items sp : wf_sep sp = true -> forallb item_ok sp = true.
Proof.
  unfold wf_sep. intros H. rewrite forallb_forall in *. intros k Hk. specialize (H k Hk). unfold item_ok.
  destruct (k =? brk); [reflexivity|]. cbn [orb] in *. apply andb_true_iff in H as [H _]. exact H.
Qed.

Lemma script_items us : forallb wf_unit us = true -> forallb item_ok (script_keys us) = true.
Proof.
  induction us as [|u r IH]; intros H; [reflexivity|]. cbn [forallb] in H. apply andb_true_iff in H as [Hu Hr].
  unfold script_keys in *. cbn [map concat]. rewrite forallb_app, (IH Hr), andb_true_r.
  unfold unit_keys. rewrite forallb_app. apply andb_true_iff in Hu as [Hm Hs].
  rewrite (wf_items _ _ _ Hm), (sep_items _ Hs). reflexivity.
Qed.

Lemma forallb_concat_parts (pcs : list (bool * list N)) :
  forallb item_ok (concat (map snd pcs)) = true ->
  forallb (fun pc : bool * list N => forallb item_ok (snd pc)) pcs = true.
Proof.
  induction pcs as [|pc r IH]; intros H; [reflexivity|]. cbn [map concat] in H. rewrite forallb_app in H.
  apply andb_true_iff in H as [A B]. cbn [forallb]. rewrite A, (IH B). reflexivity.
Qed.

Lemma console_script us pcs :
  forallb wf_unit us = true ->
  concat (map snd pcs) = script_keys us ->
  submitted (fst (run init_term false (deliver pcs ++ [keyEnter]))) = map (fun u => normalise (fst u)) us /\
  all_lines (fst (run init_term false (deliver pcs ++ [keyEnter]))) = true /\
  line (fst (snd (run init_term false (deliver pcs ++ [keyEnter])))) = [].
Proof.
  intros Hwf Hcat.
  assert (Hit : forallb (fun pc : bool * list N => forallb item_ok (snd pc)) pcs = true).
  { apply forallb_concat_parts. rewrite Hcat. apply script_items, Hwf. }
  destruct (flat_deliver pcs [keyEnter] Hit) as [Hflat Hclean].
  specialize (Hclean eq_refl).
  destruct (run_general (deliver pcs ++ [keyEnter]) init_term false Hclean) as (A & B & C).
  cbn [init_term line paste app] in A, B. rewrite Hflat, Hcat, text_of_script in A, B.
  change (flat false [keyEnter]) with [32] in A, B.
  pose proof (split_concat us Hwf) as Hs.
  assert (Hc : complete (concat (map unit_text us)) = true) by (unfold complete; rewrite Hs; reflexivity).
  destruct (split_after_complete _ [32] Hc) as [L1 L2]. rewrite L1 in A. rewrite L2 in B.
  change (pending [32]) with (@nil (list N)) in A. change (complete [32]) with true in B.
  rewrite app_nil_r in A. unfold pending at 2 in A. rewrite Hs in A. cbn [fst] in A.
  destruct (run_last_enter (deliver pcs) init_term false C) as [E|E]; [|rewrite E in B; discriminate].
  rewrite E in A. change (pending []) with (@nil (list N)) in A. rewrite app_nil_r in A.
  repeat split; assumption.
Qed.

(* ---- nothing is submitted before the terminating ';' has been entered ---- *)
Lemma wf_prefix_open m : forall q esc p x, quote_state q -> wf_from q esc m = true -> m = p ++ x -> x <> [] ->
  P (q, esc) (text_of p) = [] /\ T (q, esc) (text_of p) = text_of p.
Proof.
  induction m as [|c r IH]; intros q esc p x Hq H E Hx; [discriminate|].
  destruct p as [|c' p']; [split; reflexivity|]. cbn [app] in E. inversion E; subst c' r. clear E.
  cbn [wf_from] in H. cbn [text_of map]. fold (text_of p'). unfold P, T. rewrite pieces_cons.
  assert (Hgo : forall q' esc', quote_state q' -> wf_from q' esc' (p' ++ x) = true ->
            forall c2, (push c2 (fst (pieces (q', esc') (text_of p')))) = ([], c2 :: text_of p')).
  { intros q' esc' Hq' Hw c2. destruct (IH q' esc' p' x Hq' Hw eq_refl Hx) as [A B]. unfold P, T in A, B.
    destruct (pieces (q', esc') (text_of p')) as [[pp tt] ss]. cbn [fst snd] in *. subst. reflexivity. }
  destruct esc.
  { apply andb_true_iff in H as [Hv H]. rewrite (valid_not_brk c Hv). unfold step_q. cbn [fst snd].
    rewrite (Hgo q false Hq H). split; reflexivity. }
  destruct (q =? 0) eqn:Eq.
  - apply N.eqb_eq in Eq. subst q. destruct (c =? brk) eqn:Eb.
    + change (step_q (0, false) 32) with (0, false, false). cbn [fst snd].
      rewrite (Hgo 0 false (or_introl eq_refl) H). split; reflexivity.
    + apply andb_true_iff in H as [Hv H]. unfold step_q. cbn [N.eqb negb fst snd].
      destruct (c =? 59) eqn:E59.
      * destruct (p' ++ x) eqn:Epx; [|discriminate]. apply app_eq_nil in Epx as [_ ->]. contradiction.
      * destruct ((c =? 39) || (c =? 34)) eqn:Equ; cbn [fst snd].
        -- assert (Hqs : quote_state c).
           { apply orb_true_iff in Equ as [E|E]; apply N.eqb_eq in E; subst c; [right; left|right; right]; reflexivity. }
           rewrite (Hgo c false Hqs H). split; reflexivity.
        -- rewrite (Hgo 0 false (or_introl eq_refl) H). split; reflexivity.
  - apply andb_true_iff in H as [Hv H]. rewrite (valid_not_brk c Hv).
    unfold step_q. rewrite Eq. cbn [negb].
    destruct (c =? 92) eqn:E92; cbn [fst snd].
    + rewrite (Hgo q true Hq H). split; reflexivity.
    + destruct (c =? q) eqn:Ecq; cbn [fst snd].
      * rewrite (Hgo 0 false (or_introl eq_refl) H). split; reflexivity.
      * rewrite (Hgo q false Hq H). split; reflexivity.
Qed.

Lemma wf_prefix_to_str m : forall q esc p x, wf_from q esc m = true -> m = p ++ x -> to_str (text_of p) = text_of p.
Proof.
  intros q esc p x H E. pose proof (wf_items m q esc H) as Hi. subst m. rewrite forallb_app in Hi.
  apply andb_true_iff in Hi as [Hi _]. clear H. induction p as [|c r IH]; [reflexivity|].
  cbn [forallb] in Hi. apply andb_true_iff in Hi as [Hc Hr]. cbn [text_of map to_str]. fold (text_of r).
  fold (to_str (text_of r)). rewrite (IH Hr). f_equal. unfold item_ok in Hc. destruct (c =? brk); [reflexivity|].
  apply valid_fix, Hc.
Qed.

Lemma incomplete_never_submits b m p x :
  complete b = true -> wf_stmt m = true -> m = p ++ x -> x <> [] ->
  pending (b ++ text_of p) = pending b /\
  (all_space (text_of p) = false -> complete (b ++ text_of p) = false).
Proof.
  intros Hb Hm E Hx. unfold wf_stmt in Hm.
  destruct (wf_prefix_open m 0 false p x (or_introl eq_refl) Hm E Hx) as [A B].
  destruct (split_after_complete b (text_of p) Hb) as [L1 L2]. rewrite L1, L2.
  change (0, false) with q0 in A, B.
  assert (Hp : pending (text_of p) = []) by (unfold pending; rewrite split_unfold; cbn [fst]; rewrite A; reflexivity).
  rewrite Hp, app_nil_r. split; [reflexivity|]. intros Hs.
  unfold complete. rewrite split_unfold. cbn [snd]. rewrite B.
  rewrite (wf_prefix_to_str m 0 false p x Hm E), Hs. apply andb_false_r.
Qed.

(* ------------------------------------------------------------------------------------ *)
(* Literals and words of the submitted statement                                         *)
(* ------------------------------------------------------------------------------------ *)

Lemma nobrk_valid c r : valid_rune c = true -> nobrk (c :: r) = c :: nobrk r.
Proof. intros H. unfold nobrk. cbn [filter]. rewrite (valid_not_brk c H). reflexivity. Qed.

Lemma nobrk_brk r : nobrk (brk :: r) = nobrk r.
Proof. reflexivity. Qed.

Lemma text_valid c r : valid_rune c = true -> text_of (c :: r) = c :: text_of r.
Proof. intros H. unfold text_of. cbn [map]. rewrite (valid_not_brk c H). reflexivity. Qed.

Lemma text_brk r : text_of (brk :: r) = 32 :: text_of r.
Proof. reflexivity. Qed.

Lemma lits_cons s c r :
  lits s (c :: r) =
  (if fst s =? 0 then
     if fst (fst (step_q s c)) =? 0 then lits (fst (step_q s c)) r else cons_head c (lits (fst (step_q s c)) r)
   else if fst (fst (step_q s c)) =? 0 then [c] :: lits (fst (step_q s c)) r
   else cons_head c (lits (fst (step_q s c)) r)).
Proof. reflexivity. Qed.

Lemma step_q_wf q c : valid_rune c = true ->
  fst (step_q (q, false) c) =
    if q =? 0 then (if (c =? 39) || (c =? 34) then (c, false) else (0, false))
    else if c =? 92 then (q, true) else if c =? q then (0, false) else (q, false).
Proof.
  intros _. unfold step_q. destruct (q =? 0); cbn [negb].
  - destruct ((c =? 39) || (c =? 34)); [reflexivity|]. destruct (c =? 59); reflexivity.
  - destruct (c =? 92); [reflexivity|]. destruct (c =? q); reflexivity.
Qed.

Lemma lits_text m : forall q esc, quote_state q -> (esc = true -> q <> 0) -> wf_from q esc m = true ->
  lits (q, esc) (text_of m) = lits (q, esc) (nobrk m).
Proof.
  induction m as [|c r IH]; intros q esc Hq He H; [discriminate|].
  cbn [wf_from] in H.
  destruct esc.
  { apply andb_true_iff in H as [Hv H]. specialize (He eq_refl). apply N.eqb_neq in He.
    rewrite (text_valid c r Hv), (nobrk_valid c r Hv), !lits_cons.
    change (step_q (q, true) c) with (q, false, false). cbn [fst]. rewrite He.
    rewrite (IH q false Hq (fun X => False_ind _ (Bool.diff_false_true X)) H). reflexivity. }
  assert (Hf : forall q' : N, false = true -> q' <> 0) by (intros q' X; discriminate X).
  destruct (q =? 0) eqn:Eq.
  - apply N.eqb_eq in Eq. subst q. destruct (c =? brk) eqn:Eb.
    + apply N.eqb_eq in Eb. subst c. rewrite text_brk, nobrk_brk, lits_cons.
      change (step_q (0, false) 32) with (0, false, false). cbn [fst snd N.eqb].
      apply IH; [left; reflexivity|apply Hf|exact H].
    + apply andb_true_iff in H as [Hv H]. rewrite (text_valid c r Hv), (nobrk_valid c r Hv), !lits_cons.
      rewrite (step_q_wf 0 c Hv). cbn [N.eqb].
      destruct (c =? 59) eqn:E59.
      * destruct r; [reflexivity|discriminate].
      * destruct ((c =? 39) || (c =? 34)) eqn:Equ.
        -- assert (Hqs : quote_state c).
           { apply orb_true_iff in Equ as [E|E]; apply N.eqb_eq in E; subst c; [right; left|right; right]; reflexivity. }
           rewrite (IH c false Hqs (Hf c) H). reflexivity.
        -- rewrite (IH 0 false (or_introl eq_refl) (Hf 0) H). reflexivity.
  - apply andb_true_iff in H as [Hv H].
    rewrite (text_valid c r Hv), (nobrk_valid c r Hv), !lits_cons, (step_q_wf q c Hv), Eq.
    destruct (c =? 92).
    + rewrite (IH q true Hq (fun _ => proj1 (N.eqb_neq q 0) Eq) H). reflexivity.
    + destruct (c =? q).
      * rewrite (IH 0 false (or_introl eq_refl) (Hf 0) H). reflexivity.
      * rewrite (IH q false Hq (Hf q) H). reflexivity.
Qed.

Lemma space_step c : is_space c = true -> step_q q0 c = (q0, false).
Proof.
  intros H. destruct (space_not_special c H) as (E1 & E2 & E3). unfold step_q, q0. cbn [N.eqb negb].
  rewrite E1, E2, E3. reflexivity.
Qed.

Lemma lits_trim_left t : lits q0 (trim_left t) = lits q0 t.
Proof.
  induction t as [|c r IH]; [reflexivity|]. cbn [trim_left]. destruct (is_space c) eqn:E; [|reflexivity].
  rewrite lits_cons, (space_step c E). cbn [fst N.eqb q0]. exact IH.
Qed.

Lemma wf_ends m : forall q esc, wf_from q esc m = true -> exists a, text_of m = a ++ [59].
Proof.
  induction m as [|c r IH]; intros q esc H; [discriminate|]. cbn [wf_from] in H.
  assert (Hr : forall q' esc', wf_from q' esc' r = true -> exists a, text_of (c :: r) = a ++ [59]).
  { intros q' esc' Hw. destruct (IH q' esc' Hw) as [a Ha]. exists ((if c =? brk then 32 else c) :: a).
    cbn [text_of map]. fold (text_of r). rewrite Ha. reflexivity. }
  destruct esc.
  { apply andb_true_iff in H as [_ H]. eapply Hr; exact H. }
  destruct (q =? 0).
  - destruct (c =? brk) eqn:Eb; [eapply Hr; exact H|].
    apply andb_true_iff in H as [Hv H]. destruct (c =? 59) eqn:E59.
    + destruct r; [|discriminate]. apply N.eqb_eq in E59. subst c. exists []. reflexivity.
    + destruct ((c =? 39) || (c =? 34)); eapply Hr; exact H.
  - apply andb_true_iff in H as [_ H]. destruct (c =? 92); [eapply Hr; exact H|].
    destruct (c =? q); eapply Hr; exact H.
Qed.

Lemma trim_left_keeps_end a : exists a', trim_left (a ++ [59]) = a' ++ [59].
Proof.
  induction a as [|c r IH]; [exists []; reflexivity|]. cbn [app trim_left].
  destruct (is_space c); [exact IH|]. exists (c :: r). reflexivity.
Qed.

Lemma trim_ends_semicolon a : trim (a ++ [59]) = trim_left (a ++ [59]).
Proof.
  unfold trim. destruct (trim_left_keeps_end a) as [a' Ha]. rewrite Ha, rev_app_distr. cbn [rev app trim_left].
  change (is_space 59) with false. cbn iota. rewrite <- (rev_involutive a') at 2.
  change (59 :: rev a') with ([59] ++ rev a'). rewrite rev_app_distr, rev_involutive. reflexivity.
Qed.

Lemma literal_intact m : wf_stmt m = true -> literals (normalise m) = literals (nobrk m).
Proof.
  intros H. unfold wf_stmt in H. unfold literals, normalise. destruct (wf_ends m 0 false H) as [a Ha].
  rewrite Ha, trim_ends_semicolon, lits_trim_left, <- Ha. apply (lits_text m 0 false (or_introl eq_refl) (fun X => False_ind _ (Bool.diff_false_true X)) H).
Qed.

(* ---- words ---- *)
Lemma wds_cons s inw c r :
  wds s inw (c :: r) =
  (if (fst s =? 0) && is_space c then (if inw then [[]] else []) ++ wds (fst (step_q s c)) false r
   else cons_head c (wds (fst (step_q s c)) true r)).
Proof. reflexivity. Qed.

Lemma quote_not_space q : quote_state q -> q <> 0 -> is_space q = false.
Proof. intros [-> | [-> | ->]] H; [contradiction|reflexivity|reflexivity]. Qed.

Lemma wds_text m :
  (forall q esc inw prev, quote_state q -> (esc = true -> q <> 0) -> wf_from q esc m = true ->
     breaks_at_spaces prev m = true ->
     (q = 0 -> prev = negb inw) -> (q <> 0 -> inw = true) ->
     wds (q, esc) inw (text_of m) = wds (q, esc) inw (nobrk m)) /\
  (wf_from 0 false m = true -> next_sp m = true -> breaks_at_spaces false m = true ->
     [] :: wds q0 false (text_of m) = wds q0 true (nobrk m)).
Proof.
  assert (Hf : forall q' : N, false = true -> q' <> 0) by (intros q' X; discriminate X).
  induction m as [|c r [IHA IHB]]; [split; intros; discriminate|]. split.
  - intros q esc inw prev Hq He H Hb Hp Hi. cbn [wf_from] in H. cbn [breaks_at_spaces] in Hb.
    destruct esc.
    { apply andb_true_iff in H as [Hv H]. specialize (He eq_refl). rewrite (valid_not_brk c Hv) in Hb.
      rewrite (text_valid c r Hv), (nobrk_valid c r Hv), !wds_cons.
      change (step_q (q, true) c) with (q, false, false). cbn [fst].
      apply N.eqb_neq in He. rewrite He. cbn [andb]. apply N.eqb_neq in He.
      rewrite (IHA q false true (is_space c) Hq (Hf q) H Hb); [reflexivity|intros X; contradiction|reflexivity]. }
    destruct (q =? 0) eqn:Eq.
    + apply N.eqb_eq in Eq. subst q. specialize (Hp eq_refl). destruct (c =? brk) eqn:Eb.
      * apply N.eqb_eq in Eb. subst c. rewrite text_brk, nobrk_brk, wds_cons.
        change (step_q (0, false) 32) with (0, false, false). cbn [fst N.eqb andb]. change (is_space 32) with true. cbn iota.
        apply andb_true_iff in Hb as [Hn Hb]. destruct inw; cbn [negb] in Hp; subst prev.
        -- cbn [orb] in Hn. cbn [app]. apply IHB; assumption.
        -- cbn [app]. apply (IHA 0 false false true (or_introl eq_refl) (Hf 0) H Hb); [reflexivity|intros X; contradiction].
      * apply andb_true_iff in H as [Hv H]. rewrite (text_valid c r Hv), (nobrk_valid c r Hv), !wds_cons.
        rewrite (step_q_wf 0 c Hv). cbn [fst N.eqb andb].
        destruct (is_space c) eqn:Es.
        -- destruct (space_not_special c Es) as (E1 & E2 & E3). rewrite E1, E2 in *. rewrite E3 in H. cbn [orb] in *.
           rewrite (IHA 0 false false true (or_introl eq_refl) (Hf 0) H Hb); [reflexivity|reflexivity|intros X; contradiction].
        -- destruct (c =? 59) eqn:E59.
           ++ destruct r; [reflexivity|discriminate].
           ++ destruct ((c =? 39) || (c =? 34)) eqn:Equ.
              ** assert (Hqs : quote_state c).
                 { apply orb_true_iff in Equ as [E|E]; apply N.eqb_eq in E; subst c; [right; left|right; right]; reflexivity. }
                 assert (Hc0 : c <> 0) by (intros ->; discriminate Hv).
                 rewrite (IHA c false true false Hqs (Hf c) H Hb); [reflexivity|intros X; contradiction|reflexivity].
              ** rewrite (IHA 0 false true false (or_introl eq_refl) (Hf 0) H Hb); [reflexivity|reflexivity|intros X; contradiction].
    + apply andb_true_iff in H as [Hv H].
      rewrite (valid_not_brk c Hv) in Hb.
      rewrite (text_valid c r Hv), (nobrk_valid c r Hv), !wds_cons, (step_q_wf q c Hv), Eq. cbn [fst andb].
      rewrite Eq. cbn [andb]. apply N.eqb_neq in Eq.
      destruct (c =? 92) eqn:E92.
      * rewrite (IHA q true true (is_space c) Hq (fun _ => Eq) H Hb); [reflexivity|intros X; contradiction|reflexivity].
      * destruct (c =? q) eqn:Ecq.
        -- apply N.eqb_eq in Ecq. subst c. rewrite (quote_not_space q Hq Eq) in Hb.
           rewrite (IHA 0 false true false (or_introl eq_refl) (Hf 0) H Hb); [reflexivity|reflexivity|intros X; contradiction].
        -- rewrite (IHA q false true (is_space c) Hq (Hf q) H Hb); [reflexivity|intros X; contradiction|reflexivity].
  - intros H Hn Hb. cbn [wf_from N.eqb] in H. cbn [next_sp] in Hn. cbn [breaks_at_spaces] in Hb.
    destruct (c =? brk) eqn:Eb.
    + apply N.eqb_eq in Eb. subst c. rewrite text_brk, nobrk_brk, wds_cons.
      change (step_q q0 32) with (q0, false). cbn [fst N.eqb andb q0]. change (is_space 32) with true. cbn iota. cbn [app].
      cbn [orb] in Hb. apply andb_true_iff in Hb as [_ Hb]. apply IHB; assumption.
    + apply andb_true_iff in H as [Hv H]. rewrite (text_valid c r Hv), (nobrk_valid c r Hv), !wds_cons.
      rewrite (space_step c Hn). cbn [fst N.eqb andb q0]. rewrite Hn. cbn [app].
      destruct (space_not_special c Hn) as (E1 & E2 & E3). rewrite E1, E2, E3 in H. cbn [orb] in H. rewrite Hn in Hb.
      f_equal. apply (IHA 0 false false true (or_introl eq_refl) (Hf 0) H Hb); [reflexivity|intros X; contradiction].
Qed.

Lemma wds_trim_left t : wds q0 false (trim_left t) = wds q0 false t.
Proof.
  induction t as [|c r IH]; [reflexivity|]. cbn [trim_left]. destruct (is_space c) eqn:E; [|reflexivity].
  rewrite wds_cons, (space_step c E). cbn [fst N.eqb q0 andb]. rewrite E. cbn [app]. exact IH.
Qed.

Lemma words_intact m : wf_stmt m = true -> breaks_at_spaces true m = true ->
  words (normalise m) = words (nobrk m).
Proof.
  intros H Hb. unfold wf_stmt in H. unfold words, normalise. destruct (wf_ends m 0 false H) as [a Ha].
  rewrite Ha, trim_ends_semicolon, wds_trim_left, <- Ha.
  apply (proj1 (wds_text m) 0 false false true (or_introl eq_refl) (fun X => False_ind _ (Bool.diff_false_true X)) H Hb); [reflexivity|intros X; contradiction].
Qed.

(* ---- the former hypothesis (no backslash inside literals) is a special case ---- *)
Lemma wf_plain_from_extends m : forall q, wf_plain_from q m = true -> wf_from q false m = true.
Proof.
  induction m as [|c r IH]; intros q H; [discriminate|]. cbn [wf_plain_from] in H. cbn [wf_from].
  destruct (q =? 0).
  - destruct (c =? brk); [apply IH, H|]. apply andb_true_iff in H as [Hv H]. rewrite Hv. cbn [andb].
    destruct (c =? 59); [exact H|]. destruct ((c =? 39) || (c =? 34)); apply IH, H.
  - apply andb_true_iff in H as [Hv H]. apply andb_true_iff in Hv as [Hv H92]. apply negb_true_iff in H92.
    rewrite Hv, H92. cbn [andb]. destruct (c =? q); apply IH, H.
Qed.

Lemma wf_plain_extends m : wf_plain_stmt m = true -> wf_stmt m = true.
Proof. apply wf_plain_from_extends. Qed.

(* ------------------------------------------------------------------------------------ *)
(* bytesToKey on the byte encodings of the keys of an ASCII delivery                      *)
(* ------------------------------------------------------------------------------------ *)

Definition ascii_key (k : N) : bool := ((32 <=? k) && (k <=? 126)) || (k =? keyEnter).

Lemma ascii_key_cases k : ascii_key k = true -> In k (map N.of_nat (seq 32 95)) \/ k = 13.
Proof.
  unfold ascii_key. intros H. apply orb_true_iff in H as [H|H]; [left|right; apply N.eqb_eq, H].
  apply andb_true_iff in H as [A B]. apply N.leb_le in A, B.
  replace k with (N.of_nat (N.to_nat k)) by apply N2Nat.id. apply in_map, in_seq. lia.
Qed.

(* a printable ASCII byte or '\r' is one key, in either mode, whatever follows *)
Lemma bytes_to_key_ascii k tail p : ascii_key k = true -> bytes_to_key (k :: tail) p = BKey k tail.
Proof.
  intros H. apply ascii_key_cases in H. destruct H as [H| ->].
  - cbn [map seq] in H. destruct p;
    repeat (destruct H as [<-|H]; [reflexivity|]); destruct H.
  - destruct p; reflexivity.
Qed.

Lemma bytes_to_key_paste_start tail : bytes_to_key (paste_start_seq ++ tail) false = BKey keyPasteStart tail.
Proof. reflexivity. Qed.

Lemma bytes_to_key_paste_end tail : bytes_to_key (paste_end_seq ++ tail) true = BKey keyPasteEnd tail.
Proof. reflexivity. Qed.

(* a marker cut by the end of the data read so far is kept for the next Read *)
Lemma bytes_to_key_partial_marker n :
  (0 < n < 6)%nat ->
  bytes_to_key (firstn n paste_start_seq) false = BNone (firstn n paste_start_seq) /\
  bytes_to_key (firstn n paste_end_seq) true = BNone (firstn n paste_end_seq).
Proof.
  intros H. assert (Hn : n = 1%nat \/ n = 2%nat \/ n = 3%nat \/ n = 4%nat \/ n = 5%nat) by lia.
  destruct Hn as [->|[->|[->|[->| ->]]]]; split; reflexivity.
Qed.

(* one delivered ASCII key at a time: the inner loop of readLine performs exactly
   process_key on it (first step of `inner` on the encoding of k followed by anything) *)
Lemma inner_step_ascii f t lip k tail : ascii_key k = true ->
  inner (Datatypes.S f) t lip (k :: tail) =
  match process_key t lip k with
  | PStop o => IStop o
  | PCont t' lip' => inner f t' lip' tail
  | PLine ss p t' => ILine ss p t' tail
  end.
Proof. intros H. cbn [inner]. unfold next_key. rewrite (bytes_to_key_ascii k tail (paste t) H). reflexivity. Qed.
