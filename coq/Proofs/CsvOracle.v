(* C19 - the link between the oracle (Spec/CsvSpec.v: spec_imports / config_safe, stated on what
   Go was observed to do) and the theorems about the model (Proofs/CsvProofs.v: import_exact,
   make_config_no_panic):

   * `oracle_accepts_model`: the oracle accepts the model's own behaviour - for every schema,
     every table before, every list of (configuration, reader events), when the events and tables
     written into the case are the ones `import` computes, `spec_imports` is true;
   * `agreement_implies_acceptance`: model_agrees c = true -> spec_accepts c = true, for every
     case, without any hypothesis on the case;
   * `config_agreement_implies_safe`: config_agrees c = true -> config_safe c = true.

   Why no hypothesis is needed: the oracle judges with the table's own column types when the
   destination columns resolve in the schema (judged_types) - and then `cfg_of` gives the model
   exactly those - and with the types Go reported (i_coltypes) otherwise - and `model_imports`
   checks those to be the model's; so the configuration the oracle builds is the model's; an
   import whose configuration has no_panic = false is skipped by the oracle (C19_exact says
   nothing about it), and for the others import_exact gives exactly the two facts the oracle
   checks; the table the oracle threads from one import to the next (Go's) is the model's. *)
From Coq Require Import List ZArith String Ascii Bool Arith Lia.
From Mkdb Require Import Model.CaseLib Model.Value Model.Csv Spec.CsvSpec Proofs.CsvProofs.
Import ListNotations.
Open Scope Z_scope.

(* ---- the comparison functions decide equality ---- *)
Lemma coltype_eqb_spec a b : coltype_eqb a b = true <-> a = b.
Proof. destruct a, b; cbn; split; intros H; try reflexivity; try discriminate. Qed.

Lemma row_eqb_spec a b : row_eqb a b = true <-> a = b.
Proof. apply (list_eqb_spec value_eqb value_eqb_spec). Qed.

Lemma table_eqb_spec a b : table_eqb a b = true <-> a = b.
Proof. apply (list_eqb_spec row_eqb row_eqb_spec). Qed.

Lemma table_eqb_refl t : table_eqb t t = true.
Proof. apply table_eqb_spec. reflexivity. Qed.

Lemma bools_eqb_refl (l : list bool) : list_eqb Bool.eqb l l = true.
Proof. apply (list_eqb_spec Bool.eqb Bool.eqb_true_iff). reflexivity. Qed.

(* events that compare equal have the same ok/not-ok projection (the oracle only looks at it) *)
Lemma ev_eqb_ok m g : ev_eqb m g = true -> is_ok m = gev_ok g.
Proof. destruct m, g; cbn; intros H; try reflexivity; discriminate. Qed.

Lemma events_eqb_ok os : forall gs, list_eqb2 ev_eqb os gs = true -> map is_ok os = map gev_ok gs.
Proof.
  induction os as [|o r IH]; intros [|g gs] H; cbn [list_eqb2] in H; try discriminate; [reflexivity|].
  apply andb_true_iff in H. destruct H as [A B]. cbn [map]. rewrite (ev_eqb_ok _ _ A), (IH _ B). reflexivity.
Qed.

(* ---- the configuration the model uses is the one the oracle rebuilds from Go's report ---- *)
Lemma cfg_of_shape sch i c : cfg_of sch i = Some c -> dstCols c = i_dst i /\ srcCols c = i_src i.
Proof.
  unfold cfg_of. destruct (col_data_types sch (i_dst i)); destruct (i_catalog i); intros H;
    inversion H; split; reflexivity.
Qed.

(* the oracle judges with the table's own types when the destination columns resolve, with the
   types Go reported otherwise. In the first case cfg_of already made the model use the table's
   types (i_catalog = true; with i_catalog = false there is no model configuration at all: the
   comparison fails); in the second the comparison of colTypes with i_coltypes is what makes the
   explicit types of the model the ones the oracle reads *)
Lemma cfg_of_judged sch i c :
  cfg_of sch i = Some c -> list_eqb coltype_eqb (colTypes c) (i_coltypes i) = true ->
  c = mkCfg (judged_types sch i) (i_dst i) (i_src i).
Proof.
  unfold cfg_of, judged_types. destruct (col_data_types sch (i_dst i)) as [ts|]; destruct (i_catalog i);
    intros H H1; inversion H; subst c; cbn [colTypes] in H1; try reflexivity.
  apply (list_eqb_spec coltype_eqb coltype_eqb_spec) in H1. rewrite H1. reflexivity.
Qed.

(* ---- one import: what `import` computes satisfies the oracle's two checks ---- *)
Lemma import_passes_oracle c sch evs before os gs t :
  no_panic c = true -> import c sch evs before = (os, t) -> list_eqb2 ev_eqb os gs = true ->
  table_eqb t (before ++ map (convert c sch) (accepted_records c sch (until_stop evs))) &&
  list_eqb Bool.eqb (map gev_ok gs) (map (event_accepted c sch) (until_stop evs)) = true.
Proof.
  intros Hn Hi He. destruct (import_exact c sch Hn evs before) as (A & B & _).
  rewrite Hi in A, B. cbn [fst snd] in A, B.
  rewrite <- A, <- B, <- (events_eqb_ok os gs He), table_eqb_refl, bools_eqb_refl. reflexivity.
Qed.

(* ---- MM implies SM, import after import (the table is threaded through) ---- *)
Lemma model_imports_spec_imports sch : forall is tbl,
  model_imports sch tbl is = true -> spec_imports sch tbl is = true.
Proof.
  induction is as [|i r IH]; intros tbl H; [reflexivity|].
  cbn [model_imports] in H. cbn [spec_imports].
  destruct (cfg_of sch i) as [c|] eqn:Ec; [|discriminate].
  apply andb_true_iff in H. destruct H as [H H3].
  apply andb_true_iff in H. destruct H as [H1 _].
  pose proof (cfg_of_judged sch i c Ec H1) as Hc.
  destruct (import c sch (i_reader i) tbl) as [os t] eqn:Ei.
  apply andb_true_iff in H3. destruct H3 as [H3 H5].
  apply andb_true_iff in H3. destruct H3 as [H3 H4].
  apply table_eqb_spec in H4. subst t.
  rewrite Hc in Ei. clear Ec H1 Hc c.
  apply andb_true_iff. split; [|exact (IH _ H5)].
  destruct (no_panic (mkCfg (judged_types sch i) (i_dst i) (i_src i))) eqn:En; [|reflexivity].
  cbn [negb orb]. exact (import_passes_oracle _ sch _ tbl os (i_events i) (i_table i) En Ei H3).
Qed.

Lemma agreement_implies_acceptance c : model_agrees c = true -> spec_accepts c = true.
Proof. unfold model_agrees, spec_accepts. apply model_imports_spec_imports. Qed.

(* ---- the oracle accepts the model: the case built from the model's own behaviour ---- *)
Definition gev_of (o : out_event) : gev :=
  match o with EvOk => GOk | EvErr e => GErr e | EvPanic => GOther end.

(* one import request: destination columns, source indexes, the column types to use when the
   catalog does not have the columns, the reader results *)
Definition ireq := (list string * list nat * list coltype * list rd_event)%type.

Definition model_cfg (sch : schema) (q : ireq) : cfg :=
  let '(dst, src, expl, _) := q in
  match col_data_types sch dst with
  | Some ts => mkCfg ts dst src
  | None => mkCfg expl dst src
  end.

(* the case in which every "Go" field holds what the model computes *)
Fixpoint model_icases (sch : schema) (tbl : list row) (qs : list ireq) : list icase :=
  match qs with
  | [] => []
  | q :: r =>
      let '(dst, src, expl, evs) := q in
      let c := model_cfg sch q in
      let '(os, t) := import c sch evs tbl in
      mkImport dst src expl evs
               (match col_data_types sch dst with Some _ => true | None => false end)
               (colTypes c) (map gev_of os) t []
      :: model_icases sch t r
  end.

Lemma gev_of_eqb os : ~ In EvPanic os -> list_eqb2 ev_eqb os (map gev_of os) = true.
Proof.
  induction os as [|o r IH]; intros H; [reflexivity|]. cbn [map list_eqb2].
  rewrite IH by (intros X; apply H; right; exact X).
  destruct o as [|e|]; [reflexivity| |exfalso; apply H; left; reflexivity].
  destruct e; reflexivity.
Qed.

Lemma gev_of_ok os : map gev_ok (map gev_of os) = map is_ok os.
Proof. rewrite map_map. apply map_ext. intros [|e|]; reflexivity. Qed.

(* for every schema, table and list of requests - also those whose configuration makes the
   import goroutine panic: the oracle skips them *)
Lemma oracle_accepts_model sch : forall qs tbl, spec_imports sch tbl (model_icases sch tbl qs) = true.
Proof.
  induction qs as [|q r IH]; intros tbl; [reflexivity|].
  destruct q as [[[dst src] expl] evs]. cbn [model_icases].
  set (c := model_cfg sch (dst, src, expl, evs)).
  destruct (import c sch evs tbl) as [os t] eqn:Ei.
  cbn [spec_imports i_dst i_src i_reader i_table i_events].
  match goal with |- context [judged_types sch ?i] =>
    assert (Hc : c = mkCfg (judged_types sch i) dst src) end.
  { subst c. unfold model_cfg, judged_types. cbn [i_dst i_coltypes].
    destruct (col_data_types sch dst); reflexivity. }
  rewrite <- Hc, IH, andb_true_r.
  destruct (no_panic c) eqn:En; [|reflexivity]. cbn [negb orb].
  destruct (import_exact c sch En evs tbl) as (A & B & _). rewrite Ei in A, B. cbn [fst snd] in A, B.
  rewrite <- A, <- B, gev_of_ok, table_eqb_refl, bools_eqb_refl. reflexivity.
Qed.

(* and the model agrees with itself when no import panics (a panic has no channel event) *)
Lemma model_agrees_model sch : forall qs tbl,
  forallb (fun q => no_panic (model_cfg sch q)) qs = true ->
  model_imports sch tbl (model_icases sch tbl qs) = true.
Proof.
  induction qs as [|q r IH]; intros tbl H; [reflexivity|].
  cbn [forallb] in H. apply andb_true_iff in H. destruct H as [Hn Hr].
  destruct q as [[[dst src] expl] evs]. cbn [model_icases].
  set (c := model_cfg sch (dst, src, expl, evs)) in *.
  destruct (import c sch evs tbl) as [os t] eqn:Ei. cbn [model_imports].
  assert (Hc : cfg_of sch (mkImport dst src expl evs
               (match col_data_types sch dst with Some _ => true | None => false end)
               (colTypes c) (map gev_of os) t []) = Some c).
  { subst c. unfold cfg_of, model_cfg. cbn [i_dst i_src i_explicit i_catalog].
    destruct (col_data_types sch dst); reflexivity. }
  rewrite Hc. cbn [i_coltypes i_atoi i_reader i_events i_table forallb]. rewrite Ei.
  destruct (import_exact c sch Hn evs tbl) as (_ & _ & C). rewrite Ei in C. cbn [fst] in C.
  rewrite (proj2 (list_eqb_spec coltype_eqb coltype_eqb_spec _ _) eq_refl), (gev_of_eqb os C),
    table_eqb_refl, (IH t Hr). reflexivity.
Qed.

(* ---- the makeConfig route ---- *)
Lemma make_config_safe sch dst src c : make_config sch dst src = Some c ->
  forallb (fun z => (0 <=? z)%Z) src = true /\ (List.length src <=? List.length dst)%nat = true.
Proof.
  unfold make_config. destruct (existsb (fun z => z <? 0) src) eqn:Ex; [discriminate|].
  destruct (List.length dst <? List.length src)%nat eqn:El; [discriminate|]. intros _. split.
  - apply forallb_forall. intros z Hz. apply Z.leb_le.
    destruct (Z.ltb_spec z 0) as [Hlt|Hge]; [|exact Hge].
    assert (X : existsb (fun z => z <? 0) src = true) by (apply existsb_exists; exists z; split; [exact Hz|apply Z.ltb_lt; exact Hlt]).
    rewrite X in Ex. discriminate.
  - apply Nat.leb_le. apply Nat.ltb_ge in El. exact El.
Qed.

Lemma config_agreement_implies_safe c : config_agrees c = true -> config_safe c = true.
Proof.
  destruct c as [[[sch dst] src] go_ok]. unfold config_agrees, config_safe.
  destruct go_ok; [|reflexivity]. cbn [negb orb].
  destruct (make_config sch dst src) as [c|] eqn:Em; [|discriminate]. intros _.
  destruct (make_config_safe sch dst src c Em) as [A B]. rewrite A, B. reflexivity.
Qed.

(* conversely the oracle is not laxer than the model on this route: a mapping the oracle calls
   safe and whose destination columns exist is one make_config accepts *)
Lemma config_safe_accepted sch dst src :
  forallb (fun z => (0 <=? z)%Z) src = true -> (List.length src <=? List.length dst)%nat = true ->
  col_data_types sch dst <> None -> make_config sch dst src <> None.
Proof.
  intros A B C. unfold make_config.
  assert (Ex : existsb (fun z => z <? 0) src = false).
  { destruct (existsb (fun z => z <? 0) src) eqn:E; [|reflexivity]. apply existsb_exists in E.
    destruct E as (z & Hz & Hlt). apply Z.ltb_lt in Hlt.
    pose proof (proj1 (forallb_forall _ _) A z Hz) as Hge. apply Z.leb_le in Hge. lia. }
  rewrite Ex. apply Nat.leb_le in B.
  assert (El : (List.length dst <? List.length src)%nat = false) by (apply Nat.ltb_ge; exact B).
  rewrite El. destruct (col_data_types sch dst); [discriminate|exfalso; apply C; reflexivity].
Qed.

(* ---- what is left of the trust in Go's reported types: nothing but their number ----
   when the destination columns do not resolve in the schema, one of them is not a column of the
   table, checkColumnList refuses every record, and so does `accepted` - whatever the types *)
Lemma field_type_none sch d : field_type sch d = None -> existsb (String.eqb d) (map fd_name sch) = false.
Proof.
  induction sch as [|fd r IH]; [reflexivity|]. cbn [field_type map existsb].
  destruct (field_type r d); [discriminate|]. rewrite (String.eqb_sym d).
  destruct (String.eqb (fd_name fd) d); [discriminate|]. intros _. exact (IH eq_refl).
Qed.

Lemma cols_ok_unresolved sch : forall dst seen,
  col_data_types sch dst = None -> cols_ok (map fd_name sch) dst seen = false.
Proof.
  induction dst as [|d r IH]; intros seen H; cbn [col_data_types] in H; [discriminate|].
  cbn [cols_ok]. destruct (field_type sch d) eqn:Ef.
  - destruct (col_data_types sch r); [discriminate|]. rewrite (IH (d :: seen) eq_refl). apply andb_false_r.
  - rewrite (field_type_none sch d Ef). reflexivity.
Qed.

Lemma unresolved_never_accepted sch dst : col_data_types sch dst = None ->
  forall tys src rec, accepted (mkCfg tys dst src) sch rec = false.
Proof.
  intros H tys src rec. unfold accepted. cbn [dstCols].
  assert (E : eff_cols sch dst = dst) by (destruct dst; [discriminate|reflexivity]).
  rewrite E, (cols_ok_unresolved sch dst [] H). rewrite !andb_false_r. reflexivity.
Qed.
