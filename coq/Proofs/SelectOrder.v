(* Order theory behind ORDER BY: vcmp is a total order on values, key_cmp a total preorder on
   rows; boolean sortedness = StronglySorted; multiset difference; and the theorem that the
   window checker accepts exactly the windows of sorted permutations. *)
From Coq Require Import ZArith String Bool List Ascii Permutation Sorted Lia NArith.
From Mkdb Require Import Model.CaseLib Model.Select Spec.SelectSpec.
Import ListNotations.

(* ---------------------------------------------------------------------------------- *)
(* strings                                                                             *)

Lemma ascii_compare_refl a : Ascii.compare a a = Eq.
Proof. unfold Ascii.compare. apply N.compare_refl. Qed.

Lemma ascii_compare_lt_trans a b c :
  Ascii.compare a b = Lt -> Ascii.compare b c = Lt -> Ascii.compare a c = Lt.
Proof. unfold Ascii.compare. rewrite !N.compare_lt_iff. lia. Qed.

Lemma string_compare_refl s : String.compare s s = Eq.
Proof. induction s as [|a s IH]; cbn; auto. rewrite ascii_compare_refl. exact IH. Qed.

Lemma string_compare_eq s t : String.compare s t = Eq -> s = t.
Proof. apply String.compare_eq_iff. Qed.

Lemma string_compare_lt_trans s : forall t u,
  String.compare s t = Lt -> String.compare t u = Lt -> String.compare s u = Lt.
Proof.
  induction s as [|a s IH]; intros [|b t] [|c u]; cbn; try discriminate; auto.
  destruct (Ascii.compare a b) eqn:Eab; try discriminate.
  - apply Ascii.compare_eq_iff in Eab. subst b.
    destruct (Ascii.compare a c) eqn:Eac; try discriminate; auto.
    intros. eapply IH; eauto.
  - intros _. destruct (Ascii.compare b c) eqn:Ebc; try discriminate.
    + apply Ascii.compare_eq_iff in Ebc. subst c. rewrite Eab. auto.
    + intros _. rewrite (ascii_compare_lt_trans _ _ _ Eab Ebc). auto.
Qed.

(* ---------------------------------------------------------------------------------- *)
(* values                                                                              *)

Lemma bool_cmp_antisym x y : bool_cmp x y = CompOpp (bool_cmp y x).
Proof. destruct x, y; reflexivity. Qed.

Lemma vcmp_antisym a b : vcmp a b = CompOpp (vcmp b a).
Proof.
  destruct a, b; cbn; auto.
  - apply Z.compare_antisym.
  - apply String.compare_antisym.
  - apply bool_cmp_antisym.
Qed.

Lemma vcmp_refl a : vcmp a a = Eq.
Proof.
  destruct a; cbn; auto.
  - apply Z.compare_refl.
  - apply string_compare_refl.
  - destruct b; auto.
Qed.

Lemma vcmp_eq a b : vcmp a b = Eq -> a = b.
Proof.
  destruct a, b; cbn; try discriminate; auto.
  - intros H. apply Z.compare_eq in H. congruence.
  - intros H. apply string_compare_eq in H. congruence.
  - destruct b0, b; cbn; try discriminate; auto.
Qed.

Lemma vcmp_lt_trans a b c : vcmp a b = Lt -> vcmp b c = Lt -> vcmp a c = Lt.
Proof.
  destruct a, b, c; cbn; try discriminate; auto.
  - rewrite !Z.compare_lt_iff. lia.
  - apply string_compare_lt_trans.
  - destruct b0, b, b1; cbn; try discriminate; auto.
Qed.

Lemma vcmp_gt_lt a b : vcmp a b = Gt <-> vcmp b a = Lt.
Proof. rewrite (vcmp_antisym a b). destruct (vcmp b a); cbn; split; congruence. Qed.

(* ---------------------------------------------------------------------------------- *)
(* rows under a list of sort keys                                                      *)

Lemma dir_cmp_eq d c : dir_cmp d c = Eq <-> c = Eq.
Proof. destruct d, c; cbn; split; congruence. Qed.

Lemma dir_cmp_opp d c : dir_cmp d (CompOpp c) = CompOpp (dir_cmp d c).
Proof. destruct d, c; reflexivity. Qed.

Lemma key_cmp_refl keys a : key_cmp keys a a = Eq.
Proof. induction keys as [|[i d] r IH]; cbn; auto. rewrite vcmp_refl. destruct d; cbn; auto. Qed.

Lemma key_cmp_antisym keys a b : key_cmp keys a b = CompOpp (key_cmp keys b a).
Proof.
  induction keys as [|[i d] r IH]; cbn; auto.
  rewrite (vcmp_antisym (nth i a VNull) (nth i b VNull)), dir_cmp_opp.
  destruct (dir_cmp d (vcmp (nth i b VNull) (nth i a VNull))); cbn; auto.
Qed.

(* rows that compare Eq are interchangeable in every comparison *)
Lemma key_cmp_eq_subst_l keys a b c : key_cmp keys a b = Eq -> key_cmp keys a c = key_cmp keys b c.
Proof.
  induction keys as [|[i d] r IH]; cbn; auto.
  destruct (dir_cmp d (vcmp (nth i a VNull) (nth i b VNull))) eqn:E; try discriminate.
  apply dir_cmp_eq, vcmp_eq in E. rewrite E. intros H.
  destruct (dir_cmp d (vcmp (nth i b VNull) (nth i c VNull))); auto.
Qed.

Lemma key_cmp_eq_subst_r keys a b c : key_cmp keys a b = Eq -> key_cmp keys c a = key_cmp keys c b.
Proof.
  intros H. rewrite (key_cmp_antisym keys c a), (key_cmp_antisym keys c b).
  f_equal. apply key_cmp_eq_subst_l; auto.
Qed.

Lemma dir_lt_trans d x y z :
  dir_cmp d (vcmp x y) = Lt -> dir_cmp d (vcmp y z) = Lt -> dir_cmp d (vcmp x z) = Lt.
Proof.
  destruct d; cbn.
  - apply vcmp_lt_trans.
  - intros H1 H2.
    assert (G1 : vcmp x y = Gt) by (destruct (vcmp x y); cbn in *; congruence).
    assert (G2 : vcmp y z = Gt) by (destruct (vcmp y z); cbn in *; congruence).
    apply vcmp_gt_lt in G1, G2. pose proof (vcmp_lt_trans _ _ _ G2 G1) as H.
    apply vcmp_gt_lt in H. rewrite H. reflexivity.
Qed.

Lemma key_cmp_lt_trans keys a b c :
  key_cmp keys a b = Lt -> key_cmp keys b c = Lt -> key_cmp keys a c = Lt.
Proof.
  induction keys as [|[i d] r IH]; cbn; try discriminate.
  destruct (dir_cmp d (vcmp (nth i a VNull) (nth i b VNull))) eqn:E1; try discriminate.
  - apply dir_cmp_eq, vcmp_eq in E1. rewrite E1.
    destruct (dir_cmp d (vcmp (nth i b VNull) (nth i c VNull))); try discriminate; auto.
  - intros _.
    destruct (dir_cmp d (vcmp (nth i b VNull) (nth i c VNull))) eqn:E2; try discriminate.
    + apply dir_cmp_eq, vcmp_eq in E2. rewrite <- E2, E1. auto.
    + intros _. rewrite (dir_lt_trans _ _ _ _ E1 E2). auto.
Qed.

Lemma row_le_trans keys a b c : row_le keys a b -> row_le keys b c -> row_le keys a c.
Proof.
  unfold row_le. intros H1 H2.
  destruct (key_cmp keys a b) eqn:E1; try congruence.
  - rewrite (key_cmp_eq_subst_l _ _ _ _ E1). auto.
  - destruct (key_cmp keys b c) eqn:E2; try congruence.
    + rewrite <- (key_cmp_eq_subst_r _ _ _ _ E2), E1. congruence.
    + rewrite (key_cmp_lt_trans _ _ _ _ E1 E2). congruence.
Qed.

Lemma row_le_total keys a b : row_le keys a b \/ row_le keys b a.
Proof.
  unfold row_le. rewrite (key_cmp_antisym keys b a).
  destruct (key_cmp keys a b); cbn; [left|left|right]; congruence.
Qed.

Lemma row_leb_iff keys a b : row_leb keys a b = true <-> row_le keys a b.
Proof. unfold row_leb, row_le. destruct (key_cmp keys a b); split; congruence. Qed.

Lemma row_leb_false keys a b : row_leb keys a b = false -> row_le keys b a.
Proof.
  unfold row_leb, row_le. rewrite (key_cmp_antisym keys b a).
  destruct (key_cmp keys a b); cbn; congruence.
Qed.

(* ---------------------------------------------------------------------------------- *)
(* sortedness                                                                          *)

Lemma sortedb_iff keys l : sortedb keys l = true <-> SortedBy keys l.
Proof.
  unfold SortedBy. induction l as [|a l IH].
  - cbn. split; auto. constructor.
  - destruct l as [|b l].
    + cbn. split; auto. intros _. constructor; constructor.
    + change (sortedb keys (a :: b :: l)) with (row_leb keys a b && sortedb keys (b :: l)).
      rewrite andb_true_iff, IH, row_leb_iff. split.
      * intros [Hab Hs]. constructor; auto.
        constructor; auto.
        inversion Hs as [|? ? Hs' Hf]; subst.
        eapply Forall_impl; [|exact Hf]. intros c Hc. eapply row_le_trans; eauto.
      * intros Hs. inversion Hs as [|? ? Hs' Hf]; subst. inversion Hf; subst. auto.
Qed.

Lemma sp_insert_perm keys x l : Permutation (x :: l) (sp_insert keys x l).
Proof.
  induction l as [|y l IH]; cbn; auto.
  destruct (row_leb keys x y); auto.
  rewrite perm_swap. constructor. exact IH.
Qed.

Lemma sp_sort_perm keys l : Permutation l (sp_sort keys l).
Proof.
  induction l as [|x l IH]; cbn; auto.
  rewrite <- sp_insert_perm. constructor. exact IH.
Qed.

Lemma sp_insert_sorted keys x l : SortedBy keys l -> SortedBy keys (sp_insert keys x l).
Proof.
  unfold SortedBy. induction l as [|y l IH]; cbn; intros Hs.
  - constructor; constructor.
  - inversion Hs as [|? ? Hs' Hf]; subst.
    destruct (row_leb keys x y) eqn:E.
    + apply row_leb_iff in E. constructor; auto. constructor; auto.
      eapply Forall_impl; [|exact Hf]. intros c Hc. eapply row_le_trans; eauto.
    + apply row_leb_false in E. constructor; auto.
      eapply Permutation_Forall; [apply sp_insert_perm|]. constructor; auto.
Qed.

Lemma sp_sort_sorted keys l : SortedBy keys (sp_sort keys l).
Proof.
  induction l as [|x l IH]; cbn.
  - constructor.
  - apply sp_insert_sorted. exact IH.
Qed.

(* ---------------------------------------------------------------------------------- *)
(* row equality, multiset difference                                                   *)

Lemma row_eqb_iff a b : row_eqb a b = true <-> a = b.
Proof. apply list_eqb_spec. apply value_eqb_spec. Qed.

Lemma rows_eqb_iff a b : rows_eqb a b = true <-> a = b.
Proof. apply list_eqb_spec. apply row_eqb_iff. Qed.

Lemma row_eqb_refl a : row_eqb a a = true.
Proof. apply row_eqb_iff. reflexivity. Qed.

Lemma remove1_perm x l l' : remove1 x l = Some l' -> Permutation l (x :: l').
Proof.
  revert l'. induction l as [|y l IH]; cbn; intros l'; try discriminate.
  destruct (row_eqb y x) eqn:E.
  - apply row_eqb_iff in E. subst. intros H. inversion H. auto.
  - destruct (remove1 x l) as [r|] eqn:R; try discriminate.
    intros H. inversion H; subst. rewrite perm_swap. constructor. apply IH. reflexivity.
Qed.

Lemma remove1_in x l : In x l -> exists l', remove1 x l = Some l'.
Proof.
  induction l as [|y l IH]; cbn; intros H; [tauto|].
  destruct (row_eqb y x) eqn:E; eauto.
  destruct H as [H|H].
  - subst. rewrite row_eqb_refl in E. discriminate.
  - destruct (IH H) as [l' ->]. eauto.
Qed.

Lemma msub_perm base r rest : msub base r = Some rest -> Permutation base (r ++ rest).
Proof.
  revert base rest. induction r as [|x r IH]; cbn; intros base rest H.
  - inversion H. auto.
  - destruct (remove1 x base) as [b'|] eqn:R; try discriminate.
    apply remove1_perm in R. rewrite R. constructor. apply IH. exact H.
Qed.

Lemma msub_complete r : forall base x, Permutation base (r ++ x) ->
  exists rest, msub base r = Some rest /\ Permutation rest x.
Proof.
  induction r as [|y r IH]; cbn; intros base x H.
  - eauto.
  - assert (Hin : In y base).
    { eapply Permutation_in; [symmetry; exact H|]. left. reflexivity. }
    destruct (remove1_in _ _ Hin) as [b' Hb]. rewrite Hb.
    apply IH. apply remove1_perm in Hb.
    eapply Permutation_cons_inv. rewrite <- Hb. exact H.
Qed.

Lemma perm_b_iff a b : perm_b a b = true <-> Permutation a b.
Proof.
  unfold perm_b. split.
  - destruct (msub a b) as [[|? ?]|] eqn:E; try discriminate. intros _.
    apply msub_perm in E. rewrite app_nil_r in E. exact E.
  - intros H. destruct (msub_complete b a [] ) as [rest [E P]].
    + rewrite app_nil_r. exact H.
    + rewrite E. symmetry in P. apply Permutation_nil in P. subst. reflexivity.
Qed.

(* ---------------------------------------------------------------------------------- *)
(* two sorted permutations carry the same keys position by position                    *)

Definition keq (keys : sortkeys) (a b : row) : Prop := key_cmp keys a b = Eq.

Lemma keq_refl keys a : keq keys a a.
Proof. apply key_cmp_refl. Qed.

Lemma keq_sym keys a b : keq keys a b -> keq keys b a.
Proof. unfold keq. rewrite (key_cmp_antisym keys b a). intros ->. reflexivity. Qed.

Lemma le_antisym_keq keys a b : row_le keys a b -> row_le keys b a -> keq keys a b.
Proof.
  unfold row_le, keq. rewrite (key_cmp_antisym keys b a).
  destruct (key_cmp keys a b); cbn; congruence.
Qed.

Lemma sorted_head_min keys a l : SortedBy keys (a :: l) -> forall x, In x (a :: l) -> row_le keys a x.
Proof.
  intros H x [->|Hx].
  - unfold row_le. rewrite key_cmp_refl. congruence.
  - inversion H as [|? ? _ Hf]; subst. rewrite Forall_forall in Hf. auto.
Qed.

(* replacing elements by key-equal ones keeps a list sorted *)
Lemma sorted_keq keys l l' : Forall2 (keq keys) l l' -> SortedBy keys l' -> SortedBy keys l.
Proof.
  unfold SortedBy. intros H. induction H as [|a b l l' Hab H IH]; intros Hs.
  - constructor.
  - inversion Hs as [|? ? Hs' Hf]; subst. constructor; auto.
    clear IH Hs Hs'. induction H as [|c e l l' Hce H IH]; constructor.
    + inversion Hf; subst. unfold row_le in *.
      rewrite (key_cmp_eq_subst_l _ _ _ _ Hab), (key_cmp_eq_subst_r _ _ _ _ Hce). auto.
    + apply IH. inversion Hf; auto.
Qed.

(* the values a row shows at the sort positions *)
Definition kproj (keys : sortkeys) (r : row) : list value := map (fun k => nth (fst k) r VNull) keys.

Lemma keq_kproj keys a b : keq keys a b -> kproj keys a = kproj keys b.
Proof.
  unfold keq. induction keys as [|[i d] r IH]; cbn; auto.
  destruct (dir_cmp d (vcmp (nth i a VNull) (nth i b VNull))) eqn:E; try discriminate.
  apply dir_cmp_eq, vcmp_eq in E. intros H. f_equal; [exact E | apply IH; exact H].
Qed.

Lemma kproj_key_cmp_l keys a a' b : kproj keys a = kproj keys a' -> key_cmp keys a b = key_cmp keys a' b.
Proof.
  induction keys as [|[i d] r IH]; cbn; auto.
  intros H. injection H as H1 H2. rewrite H1, (IH H2). reflexivity.
Qed.

Lemma kproj_keq keys a b : kproj keys a = kproj keys b -> keq keys a b.
Proof. intros H. unfold keq. rewrite (kproj_key_cmp_l _ _ _ _ H). apply key_cmp_refl. Qed.

Lemma kproj_row_le_l keys a a' b : kproj keys a = kproj keys a' -> row_le keys a b -> row_le keys a' b.
Proof. unfold row_le. intros H. rewrite (kproj_key_cmp_l _ _ _ _ H). auto. Qed.

Lemma sorted_perm_kproj keys : forall l1 l2,
  SortedBy keys l1 -> SortedBy keys l2 ->
  Permutation (map (kproj keys) l1) (map (kproj keys) l2) ->
  map (kproj keys) l1 = map (kproj keys) l2.
Proof.
  induction l1 as [|a l1 IH]; intros l2 S1 S2 P.
  - apply Permutation_nil in P. auto.
  - destruct l2 as [|b l2].
    + symmetry in P. apply Permutation_nil in P. discriminate.
    + cbn in *.
      assert (Hab : row_le keys a b).
      { assert (Hin : In (kproj keys b) (kproj keys a :: map (kproj keys) l1)).
        { eapply Permutation_in; [symmetry; exact P|]. left; auto. }
        change (kproj keys a :: map (kproj keys) l1) with (map (kproj keys) (a :: l1)) in Hin.
        apply in_map_iff in Hin. destruct Hin as [x [Hx Hin]].
        pose proof (sorted_head_min _ _ _ S1 x Hin) as Hle.
        unfold row_le in *. rewrite (key_cmp_antisym keys a b).
        rewrite <- (kproj_key_cmp_l _ _ _ a Hx). rewrite <- (key_cmp_antisym keys a x). exact Hle. }
      assert (Hba : row_le keys b a).
      { assert (Hin : In (kproj keys a) (kproj keys b :: map (kproj keys) l2)).
        { eapply Permutation_in; [exact P|]. left; auto. }
        change (kproj keys b :: map (kproj keys) l2) with (map (kproj keys) (b :: l2)) in Hin.
        apply in_map_iff in Hin. destruct Hin as [x [Hx Hin]].
        pose proof (sorted_head_min _ _ _ S2 x Hin) as Hle.
        unfold row_le in *. rewrite (key_cmp_antisym keys b a).
        rewrite <- (kproj_key_cmp_l _ _ _ b Hx). rewrite <- (key_cmp_antisym keys b x). exact Hle. }
      pose proof (keq_kproj _ _ _ (le_antisym_keq _ _ _ Hab Hba)) as E.
      rewrite E in *. f_equal.
      inversion S1; inversion S2; subst. apply IH; auto.
      eapply Permutation_cons_inv. exact P.
Qed.

Lemma kproj_eq_keq keys : forall l1 l2,
  map (kproj keys) l1 = map (kproj keys) l2 -> Forall2 (keq keys) l1 l2.
Proof.
  induction l1 as [|a l1 IH]; intros [|b l2] H; cbn in H; try discriminate; constructor.
  - injection H as H _. apply kproj_keq. exact H.
  - injection H as _ H. apply IH. exact H.
Qed.

Lemma sorted_perm_keq keys l1 l2 :
  SortedBy keys l1 -> SortedBy keys l2 -> Permutation l1 l2 -> Forall2 (keq keys) l1 l2.
Proof.
  intros S1 S2 P. apply kproj_eq_keq. apply sorted_perm_kproj; auto. apply Permutation_map. exact P.
Qed.

(* ---------------------------------------------------------------------------------- *)
(* the window checker accepts exactly the windows of sorted permutations               *)

Lemma ss_app_iff {A} (R : A -> A -> Prop) l1 l2 :
  StronglySorted R (l1 ++ l2) <->
  StronglySorted R l1 /\ StronglySorted R l2 /\ (forall x y, In x l1 -> In y l2 -> R x y).
Proof.
  induction l1 as [|a l1 IH]; cbn.
  - split; [intros H; repeat split; auto; [constructor | tauto] | tauto].
  - split.
    + intros H. inversion H as [|? ? Hs Hf]; subst. apply IH in Hs. destruct Hs as [S1 [S2 Hc]].
      rewrite Forall_app in Hf. destruct Hf as [F1 F2]. repeat split; auto.
      * constructor; auto.
      * intros x y [->|Hx] Hy; auto. rewrite Forall_forall in F2. auto.
    + intros [S1 [S2 Hc]]. inversion S1 as [|? ? S1' F1]; subst. constructor.
      * apply IH. repeat split; auto.
      * rewrite Forall_app. split; auto. rewrite Forall_forall. intros y Hy. apply Hc; auto.
Qed.

Lemma ss_drop_middle {A} (R : A -> A -> Prop) l1 l2 l3 :
  StronglySorted R (l1 ++ l2 ++ l3) -> StronglySorted R (l1 ++ l3).
Proof.
  rewrite !ss_app_iff. intros [S1 [[S2 [S3 H23]] H1]]. repeat split; auto.
  intros x y Hx Hy. apply H1; auto. apply in_or_app. auto.
Qed.

Definition off_n (off : option nat) : nat := match off with Some n => n | None => 0%nat end.
Definition lim_f (lim : option nat) (l : list row) : list row :=
  match lim with Some m => firstn m l | None => l end.
Definition lim_rest (lim : option nat) (l : list row) : list row :=
  match lim with Some m => skipn m l | None => [] end.

Lemma window_alt off lim l : window off lim l = lim_f lim (skipn (off_n off) l).
Proof. unfold window, lim_f, off_n. destruct off, lim; reflexivity. Qed.

Lemma lim_split lim l : l = lim_f lim l ++ lim_rest lim l.
Proof. destruct lim; cbn; [symmetry; apply firstn_skipn | rewrite app_nil_r; reflexivity]. Qed.

Lemma Forall2_len {A B} (R : A -> B -> Prop) l l' : Forall2 R l l' -> List.length l = List.length l'.
Proof. induction 1; cbn; auto. Qed.

Lemma Forall2_keq_refl keys l : Forall2 (keq keys) l l.
Proof. induction l; constructor; auto using keq_refl. Qed.

Lemma skipn_exact {A} (l1 l2 : list A) n : List.length l1 = n -> skipn n (l1 ++ l2) = l2.
Proof. intros <-. rewrite skipn_app, skipn_all, Nat.sub_diag. reflexivity. Qed.

Lemma firstn_exact {A} (l1 l2 : list A) n : List.length l1 = n -> firstn n (l1 ++ l2) = l1.
Proof. intros <-. rewrite firstn_app, firstn_all, Nat.sub_diag. cbn. apply app_nil_r. Qed.

(* the part of a limited list that LIMIT returns, followed by anything of the right kind, is
   returned again *)
Lemma lim_f_stable lim (T R2 : list row) :
  List.length R2 = List.length (lim_rest lim T) -> lim_f lim (lim_f lim T ++ R2) = lim_f lim T.
Proof.
  destruct lim as [m|]; cbn.
  - intros HL. destruct (Nat.le_gt_cases m (List.length T)) as [Hm|Hm].
    + apply firstn_exact. rewrite firstn_length. lia.
    + rewrite skipn_all2 in HL by lia. destruct R2; [|discriminate].
      rewrite app_nil_r. apply firstn_all2. rewrite firstn_length. lia.
  - intros HL. destruct R2; [|discriminate]. apply app_nil_r.
Qed.

Theorem check_window_iff keys off lim base r :
  check_window keys off lim base r = true <-> OrderedWindow keys off lim base r.
Proof.
  unfold check_window, OrderedWindow. destruct keys as [|k ks].
  - apply rows_eqb_iff.
  - set (keys := k :: ks). split.
    + destruct (msub base r) as [rest|] eqn:E; try discriminate.
      rewrite andb_true_iff, sortedb_iff, rows_eqb_iff. intros [Hs Hr].
      fold (off_n off) in *. set (n := off_n off) in *.
      exists (firstn n (sp_sort keys rest) ++ r ++ skipn n (sp_sort keys rest)).
      repeat split; auto.
      rewrite Permutation_app_swap_app, firstn_skipn.
      rewrite (msub_perm _ _ _ E). apply Permutation_app_head. symmetry. apply sp_sort_perm.
    + intros [s0 [P [S ->]]].
      rewrite window_alt. set (n := off_n off).
      set (A := firstn n s0). set (T := skipn n s0).
      set (C := lim_rest lim T).
      assert (Es0 : s0 = A ++ lim_f lim T ++ C).
      { unfold A, T, C. rewrite <- lim_split. symmetry. apply firstn_skipn. }
      assert (Pb : Permutation base (lim_f lim T ++ (A ++ C))).
      { rewrite <- P. rewrite Es0 at 1. apply Permutation_app_swap_app. }
      destruct (msub_complete _ _ _ Pb) as [rest [Em Pr]]. rewrite Em.
      fold (off_n off). fold n.
      set (rs := sp_sort keys rest).
      assert (SAC : SortedBy keys (A ++ C)).
      { unfold SortedBy. eapply ss_drop_middle. rewrite <- Es0. exact S. }
      assert (F : Forall2 (keq keys) rs (A ++ C)).
      { apply sorted_perm_keq; auto.
        - apply sp_sort_sorted.
        - unfold rs. rewrite <- sp_sort_perm. exact Pr. }
      apply Forall2_app_inv_r in F. destruct F as [R1 [R2 [F1 [F2 Ers]]]].
      pose proof (Forall2_len _ _ _ F1) as L1. pose proof (Forall2_len _ _ _ F2) as L2.
      assert (LA : List.length A = Nat.min n (List.length s0)) by (unfold A; apply firstn_length).
      assert (Hcase : (List.length R1 = n) \/ (List.length R1 < n /\ T = [])%nat).
      { destruct (Nat.le_gt_cases n (List.length s0)).
        - left. lia.
        - right. split; [lia|]. unfold T. apply skipn_all2. lia. }
      assert (E1 : firstn n rs = R1 /\ skipn n rs = R2).
      { rewrite Ers. destruct Hcase as [Hn|[Hn HT]].
        - split; [apply firstn_exact | apply skipn_exact]; auto.
        - assert (C = []) by (unfold C; rewrite HT; destruct lim; cbn; auto using skipn_nil).
          subst C. rewrite H in L2. destruct R2; [|discriminate]. rewrite app_nil_r.
          split; [apply firstn_all2 | apply skipn_all2]; lia. }
      destruct E1 as [-> ->].
      rewrite andb_true_iff, sortedb_iff, rows_eqb_iff. split.
      * eapply sorted_keq; [|rewrite Es0 in S; exact S].
        apply Forall2_app; auto. apply Forall2_app; auto. apply Forall2_keq_refl.
      * rewrite window_alt. fold n. destruct Hcase as [Hn|[Hn HT]].
        -- rewrite (skipn_exact _ _ _ Hn). symmetry. apply lim_f_stable. exact L2.
        -- assert (EC : C = []) by (unfold C; rewrite HT; destruct lim; cbn; auto using skipn_nil).
           rewrite EC in L2. destruct R2; [|discriminate].
           rewrite HT. assert (El : lim_f lim [] = []) by (destruct lim; cbn; auto using firstn_nil).
           rewrite El. cbn. rewrite app_nil_r, skipn_all2 by lia. rewrite El. reflexivity.
Qed.
