(* C01 refinement, part 1: the forest as a finite map from root offsets to trees.
   Frame lemmas: BTree.insert on root R changes only the tree rooted at R; an in-place cell
   change on page pg changes only the tree owning pg; createPage adds a tree. *)
From Coq Require Import Arith Lia Bool List NArith Sorted Permutation.
From Mkdb Require Import Model.Engine Proofs.TreeProofs Proofs.StoreInv Gen.Params.
Import ListNotations.
Local Open Scope N_scope.

(* ---------- roots ---------- *)
Definition roots (f : list tree) : list N := map t_off f.

Lemma root_in_offsets t : In (t_off t) (offsets_of t).
Proof.
  unfold offsets_of. destruct t as [o l d c hl hr ls rs | o l d kids rgt].
  - cbn. auto.
  - rewrite nodes_node. cbn. auto.
Qed.

Lemma roots_sub f x : In x (roots f) -> In x (all_offsets f).
Proof.
  unfold roots, all_offsets. intros H. apply in_map_iff in H as (t & <- & Hin).
  apply in_flat_map. exists t. split; [exact Hin | apply root_in_offsets].
Qed.

Lemma roots_NoDup f : NoDup (all_offsets f) -> NoDup (roots f).
Proof.
  induction f as [|t f IH]; intros H; [constructor|].
  cbn [all_offsets flat_map] in H. fold (all_offsets f) in H.
  apply NoDup_app_inv in H as (_ & Hf & Hd). cbn [roots map]. constructor; [|apply IH; exact Hf].
  intros Hin. apply (Hd (t_off t)); [apply root_in_offsets | apply roots_sub; exact Hin].
Qed.

Lemma find_root_In f o t : find_root o f = Some t -> In t f /\ t_off t = o.
Proof.
  unfold find_root. intros H. apply find_some in H as [A B]. apply N.eqb_eq in B. auto.
Qed.

Lemma find_root_unique f o t : NoDup (roots f) -> In t f -> t_off t = o -> find_root o f = Some t.
Proof.
  intros Hnd Hin <-. unfold find_root. apply (find_nodup t_off f t Hnd Hin).
Qed.

Lemma find_root_None f o : find_root o f = None <-> (forall t, In t f -> t_off t <> o).
Proof.
  unfold find_root. split.
  - intros H t Hin E. pose proof (find_none _ _ H t Hin) as X. cbn in X. apply N.eqb_neq in X. auto.
  - intros H. destruct (find _ f) as [t|] eqn:E; [|reflexivity].
    apply find_some in E as [A B]. apply N.eqb_eq in B. exfalso. eapply H; eauto.
Qed.

(* replacing one member: lookups of other roots are unchanged *)
Lemma find_root_replace l1 t l2 t' o :
  NoDup (roots (l1 ++ t :: l2)) -> NoDup (roots (l1 ++ t' :: l2)) ->
  o <> t_off t -> o <> t_off t' ->
  find_root o (l1 ++ t' :: l2) = find_root o (l1 ++ t :: l2).
Proof.
  intros N1 N2 H1 H2.
  destruct (find_root o (l1 ++ t :: l2)) as [x|] eqn:E.
  - apply find_root_In in E as [Hin Ho]. apply find_root_unique; auto.
    apply in_app_or in Hin as [Hin|[->|Hin]]; [apply in_or_app; auto | congruence |].
    apply in_or_app. right. right. exact Hin.
  - apply find_root_None. intros x Hin Ho. rewrite find_root_None in E.
    apply in_app_or in Hin as [Hin|[<-|Hin]]; [| congruence |].
    + apply (E x); [apply in_or_app; auto | exact Ho].
    + apply (E x); [apply in_or_app; right; right; exact Hin | exact Ho].
Qed.

Lemma find_root_mid l1 t l2 : NoDup (roots (l1 ++ t :: l2)) -> find_root (t_off t) (l1 ++ t :: l2) = Some t.
Proof. intros H. apply find_root_unique; auto. apply in_or_app. right. left. reflexivity. Qed.

(* ---------- has_page ---------- *)
Lemma has_page_In pg t : has_page pg t = true <-> In pg (offsets_of t).
Proof.
  unfold has_page. rewrite existsb_exists. split.
  - intros (x & Hin & E). apply N.eqb_eq in E. subst. exact Hin.
  - intros H. exists pg. split; [exact H | apply N.eqb_refl].
Qed.

Lemma touch_forest_at l1 : forall t l2 pg k lsn g,
  NoDup (all_offsets (l1 ++ t :: l2)) -> In pg (offsets_of t) ->
  touch_forest pg k lsn g (l1 ++ t :: l2) = l1 ++ touch_leaf pg k lsn g t :: l2.
Proof.
  induction l1 as [|a l1 IH]; intros t l2 pg k lsn g Hnd Hin; cbn [app touch_forest].
  - apply has_page_In in Hin. rewrite Hin. reflexivity.
  - destruct (has_page pg a) eqn:E.
    + exfalso. apply has_page_In in E. cbn [app all_offsets flat_map] in Hnd.
      apply NoDup_app_inv in Hnd as (_ & _ & Hd). apply (Hd pg E).
      fold (all_offsets (l1 ++ t :: l2)). rewrite all_offsets_app. apply in_or_app. right.
      cbn [all_offsets flat_map]. apply in_or_app. left. exact Hin.
    + f_equal. apply IH; auto. cbn [app all_offsets flat_map] in Hnd.
      apply NoDup_app_remove_l in Hnd. exact Hnd.
Qed.

(* an in-place cell change: the owner tree is rewritten, every other lookup is unchanged *)
Lemma touch_forest_find f o t pg k lsn g :
  NoDup (all_offsets f) -> find_root o f = Some t -> In pg (offsets_of t) ->
  find_root o (touch_forest pg k lsn g f) = Some (touch_leaf pg k lsn g t) /\
  (forall o', o' <> o -> find_root o' (touch_forest pg k lsn g f) = find_root o' f).
Proof.
  intros Hnd Hf Hpg.
  destruct (find_root_split _ _ _ Hf) as (l1 & l2 & -> & Ho & _ & _).
  pose proof (roots_NoDup _ Hnd) as Hr.
  assert (Hr' : NoDup (roots (l1 ++ touch_leaf pg k lsn g t :: l2))).
  { rewrite <- (touch_forest_at l1 t l2 pg k lsn g Hnd Hpg). apply roots_NoDup.
    rewrite touch_forest_offsets. exact Hnd. }
  rewrite (touch_forest_at l1 t l2 pg k lsn g Hnd Hpg). split.
  - rewrite <- Ho, <- (touch_off pg k lsn g t). apply find_root_mid. exact Hr'.
  - intros o' Hne. apply find_root_replace; auto; [|rewrite touch_off]; congruence.
Qed.

(* ---------- tree_insert: where the root ends up ---------- *)
Lemma ins_right_fit_off t : forall k lsn v free t' f,
  ins_right ML MI PS t k lsn v free = (IFit t', f) -> t_off t' = t_off t.
Proof.
  destruct t as [off l d cells hl hr ls rs | off l d kids rgt]; intros k lsn v free t' f H.
  - cbn [ins_right] in H. destruct (Nat.ltb _ ML); inversion H; subst; reflexivity.
  - cbn [ins_right] in H. destruct (ins_right ML MI PS rgt k lsn v free) as [[r'|lft sep r'] f0].
    + inversion H; subst. reflexivity.
    + destruct (Nat.ltb _ MI); [inversion H; subst; reflexivity|].
      destruct (nth_error _ _) as [[ms mc]|]; inversion H; subst; reflexivity.
Qed.

Lemma ins_right_free_mono t : forall k lsn v free, free <= snd (ins_right ML MI PS t k lsn v free).
Proof.
  induction t as [off l d cells hl hr ls rs | off l d kids rgt _ IHr] using tree_ind2; intros k lsn v free.
  - cbn [ins_right]. destruct (Nat.ltb _ ML); cbn [snd]; [lia | pose proof PS_pos; lia].
  - cbn [ins_right]. specialize (IHr k lsn v free).
    destruct (ins_right ML MI PS rgt k lsn v free) as [[r'|lft sep r'] f0]; cbn [snd] in *; [exact IHr|].
    destruct (Nat.ltb _ MI); cbn [snd]; [exact IHr|].
    destruct (nth_error _ _) as [[ms mc]|]; cbn [snd]; [pose proof PS_pos; lia | exact IHr].
Qed.

Lemma tree_insert_root t k lsn v free t' nf :
  tree_insert ML MI PS MV t k lsn v free = TOk (t', nf) ->
  (t_off t' = t_off t \/ free <= t_off t') /\ free <= nf /\ (length v <= MV)%nat.
Proof.
  unfold tree_insert. destruct (key_exists k t); [discriminate|].
  destruct (negb _); [discriminate|]. destruct (Nat.ltb_spec MV (length v)) as [|Hlen]; [discriminate|].
  pose proof (ins_right_free_mono t k lsn v free) as Hm.
  destruct (ins_right ML MI PS t k lsn v free) as [[t1|lft sep r'] f0] eqn:E; cbn [snd] in Hm; intros H; inversion H; subst.
  - split; [left; eapply ins_right_fit_off; eauto | split; [exact Hm | exact Hlen]].
  - cbn [t_off]. split; [right; exact Hm | split; [pose proof PS_pos; lia | exact Hlen]].
Qed.

(* ---------- BTree.insert at store level ---------- *)
Lemma live_app a b : live (a ++ b) = live a ++ live b.
Proof. unfold live. apply filter_app. Qed.

Lemma bt_insert_spec s root v t :
  SInv s -> find_root root (forest s) = Some t ->
  forall s1 k lsn nr, bt_insert s root v = (s1, Ok (k, lsn, nr)) ->
  exists t',
    SInv s1 /\ k = lastKey s + 1 /\ lsn = nextLSN s /\ nr = t_off t' /\
    lastKey s1 = lastKey s + 1 /\ ptRoot s1 = ptRoot s /\ nextFree s <= nextFree s1 /\
    nextLSN s1 = nextLSN s + 1 /\ (length v <= MV)%nat /\
    (t_off t' = root \/ nextFree s <= t_off t') /\
    all_cells t' = all_cells t ++ [mkLC (lastKey s + 1) false v] /\
    find_root (t_off t') (forest s1) = Some t' /\
    (forall o, o <> root -> o <> t_off t' -> find_root o (forest s1) = find_root o (forest s)).
Proof.
  intros Hinv Hf s1 k lsn nr Hb.
  pose proof (bt_insert_inv s root v Hinv) as Hinv1. rewrite Hb in Hinv1. cbn [fst] in Hinv1.
  unfold bt_insert, get_tree in Hb. rewrite Hf in Hb.
  destruct (tree_insert ML MI PS MV t (lastKey s + 1) (nextLSN s) v (nextFree s)) as [[t' nf]|e] eqn:Ei.
  2:{ destruct e; cbn in Hb; inversion Hb. }
  inversion Hb; subst s1 k lsn nr. clear Hb.
  destruct (tree_insert_root _ _ _ _ _ _ _ Ei) as (Hroot & Hnf & Hlen).
  destruct (find_root_split _ _ _ Hf) as (l1 & l2 & Hfs & Ho & _ & Hrep).
  destruct Hinv as [Hw Hn Hk].
  assert (Ht_w : WFT ML MI (nextFree s) t).
  { rewrite Forall_forall in Hw. apply Hw. rewrite Hfs. apply in_or_app; right; left; reflexivity. }
  assert (Ht_k : Forall (fun x => x < lastKey s + 1) (tree_keys t)).
  { rewrite Forall_forall in Hk. eapply Forall_impl; [|apply Hk; rewrite Hfs; apply in_or_app; right; left; reflexivity].
    cbn. intros; lia. }
  destruct (tree_insert_ok ML MI PS MV ML_ge MI_ge PS_pos (nextFree s) t (lastKey s + 1) (nextLSN s) v Ht_w Ht_k Hlen)
    as (t2 & f2 & E2 & W2 & C2 & K2 & F2 & O2).
  rewrite Ei in E2. inversion E2; subst t2 f2. clear E2.
  exists t'. cbn [lastKey ptRoot nextFree nextLSN forest] in *.
  rewrite Hrep in *.
  pose proof (roots_NoDup _ (si_nodup _ Hinv1)) as Hr1. cbn [forest] in Hr1.
  pose proof (roots_NoDup _ Hn) as Hr0. rewrite Hfs in Hr0.
  rewrite Ho in Hroot.
  split; [exact Hinv1|]. do 8 (split; [first [reflexivity | assumption]|]).
  split; [exact Hroot|]. split; [exact C2|]. split.
  - apply find_root_mid. exact Hr1.
  - intros o H1 H2. rewrite Hfs. apply find_root_replace; auto. congruence.
Qed.

(* the failure path of BTree.insert: only the two counters move *)
Lemma bt_insert_err s root v s1 e :
  bt_insert s root v = (s1, Err e) ->
  forest s1 = forest s /\ ptRoot s1 = ptRoot s /\ nextFree s1 = nextFree s.
Proof.
  unfold bt_insert. destruct (get_tree s root) as [t|e0|]; [|intros H; inversion H; auto|discriminate].
  destruct (tree_insert _ _ _ _ _ _ _ _ _) as [[t' nf]|e0]; [discriminate|].
  intros H. inversion H; subst. cbn. auto.
Qed.

(* ---------- createPage ---------- *)
Lemma find_root_app_fresh f t o :
  (forall x, In x f -> t_off x <> t_off t) ->
  find_root o (f ++ [t]) = if N.eqb (t_off t) o then Some t else find_root o f.
Proof.
  intros Hfresh. unfold find_root. induction f as [|a f IH]; cbn [app find].
  - destruct (N.eqb (t_off t) o); reflexivity.
  - destruct (N.eqb_spec (t_off a) o) as [E|E].
    + destruct (N.eqb_spec (t_off t) o) as [E2|]; [|reflexivity].
      exfalso. apply (Hfresh a (or_introl eq_refl)). congruence.
    + apply IH. intros x Hx. apply Hfresh. right. exact Hx.
Qed.

Lemma create_page_find s :
  SInv s ->
  forall o, find_root o (forest (fst (create_page s))) =
            if N.eqb (nextFree s) o then Some (TLeaf (nextFree s) 0 true [] false false 0 0)
            else find_root o (forest s).
Proof.
  intros Hinv o. unfold create_page. cbn [fst forest].
  rewrite find_root_app_fresh; [reflexivity|].
  intros x Hin. cbn [t_off]. pose proof (all_offsets_bound _ _ (si_wft _ Hinv)) as Hb.
  rewrite Forall_forall in Hb. specialize (Hb (t_off x)).
  assert (In (t_off x) (all_offsets (forest s))).
  { apply roots_sub. apply in_map. exact Hin. }
  specialize (Hb H). lia.
Qed.

(* every root of the forest lies below nextFree *)
Lemma find_root_bound s o t : SInv s -> find_root o (forest s) = Some t -> o < nextFree s.
Proof.
  intros Hinv Hf. apply find_root_In in Hf as [Hin <-].
  pose proof (all_offsets_bound _ _ (si_wft _ Hinv)) as Hb. rewrite Forall_forall in Hb.
  apply Hb. apply roots_sub. apply in_map. exact Hin.
Qed.

Lemma find_root_WFT s o t : SInv s -> find_root o (forest s) = Some t -> WFT ML MI (nextFree s) t.
Proof.
  intros Hinv Hf. apply find_root_In in Hf as [Hin _].
  pose proof (si_wft _ Hinv) as Hw. rewrite Forall_forall in Hw. auto.
Qed.

(* ---------- keys are unique across the leaves of a well-formed tree ---------- *)
Lemma SSorted_NoDup l : StronglySorted N.lt l -> NoDup l.
Proof.
  induction 1 as [|a l _ IH Hf]; constructor; [|exact IH].
  intros Hin. rewrite Forall_forall in Hf. specialize (Hf a Hin). lia.
Qed.

Lemma WFT_keys_NoDup free t : WFT ML MI free t -> NoDup (keys_of (all_cells t)).
Proof. intros [[h Hs] _ _ _]. apply SSorted_NoDup. eapply wf_sorted; eauto. Qed.

Lemma key_leaf_unique (L : list tree) : forall l l' c c',
  NoDup (keys_of (flat_map leaf_cells L)) ->
  In l L -> In l' L -> In c (leaf_cells l) -> In c' (leaf_cells l') -> lc_key c = lc_key c' -> l = l'.
Proof.
  induction L as [|a L IH]; intros l l' c c' Hnd Hl Hl' Hc Hc' Hk; [contradiction|].
  cbn [flat_map] in Hnd. rewrite keys_of_app in Hnd. apply NoDup_app_inv in Hnd as (_ & Hnd2 & Hd).
  assert (Hin_rest : forall x y, In x L -> In y (leaf_cells x) -> In (lc_key y) (keys_of (flat_map leaf_cells L))).
  { intros x y Hx Hy. unfold keys_of. apply in_map. apply in_flat_map. eauto. }
  destruct Hl as [<-|Hl], Hl' as [<-|Hl']; auto.
  - exfalso. apply (Hd (lc_key c)); [apply in_map; exact Hc | rewrite Hk; eapply Hin_rest; eauto].
  - exfalso. apply (Hd (lc_key c')); [apply in_map; exact Hc' | rewrite <- Hk; eapply Hin_rest; eauto].
  - eapply IH; eauto.
Qed.

(* an in-place change of the cell with key k, addressed through the leaf that holds it *)
Lemma touch_tree_cells free t l c lsn g :
  WFT ML MI free t -> In l (leaves t) -> In c (leaf_cells l) ->
  all_cells (touch_leaf (t_off l) (lc_key c) lsn g t) = map_cell (lc_key c) g (all_cells t).
Proof.
  intros Hw Hl Hc. apply touch_cells_unique. intros l0 c0 Hl0 Hc0 Hk.
  f_equal. eapply (key_leaf_unique (leaves t)); eauto. apply (WFT_keys_NoDup free t Hw).
Qed.

Lemma leaf_off_in_offsets t l : In l (leaves t) -> In (t_off l) (offsets_of t).
Proof. intros H. unfold offsets_of. apply in_map. apply leaves_sub_nodes. exact H. Qed.

(* map_cell on a list with unique keys rewrites exactly one cell *)
Lemma map_cell_split k g a c b :
  lc_key c = k -> ~ In k (keys_of a) -> ~ In k (keys_of b) ->
  map_cell k g (a ++ c :: b) = a ++ g c :: b.
Proof.
  intros Hk Ha Hb. unfold map_cell. rewrite map_app. cbn [map]. rewrite Hk, N.eqb_refl.
  fold (map_cell k g a). fold (map_cell k g b).
  rewrite !map_cell_id; [reflexivity | |].
  - intros x Hx E. apply Hb. rewrite <- E. apply in_map. exact Hx.
  - intros x Hx E. apply Ha. rewrite <- E. apply in_map. exact Hx.
Qed.

Lemma NoDup_mid_notin {A} (a : list A) x b : NoDup (a ++ x :: b) -> ~ In x a /\ ~ In x b.
Proof.
  intros H. apply NoDup_remove_2 in H. split; intros Hin; apply H; apply in_or_app; auto.
Qed.

(* the leaf (with its page offset) that holds a given cell *)
Lemma cell_leaf t c : In c (all_cells t) -> exists l, In l (leaves t) /\ In c (leaf_cells l).
Proof. unfold all_cells. intros H. apply in_flat_map in H. exact H. Qed.
