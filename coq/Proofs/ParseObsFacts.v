(* stmt_eqb (Spec/ParseObs.v), the comparison used by the correspondence runs of C09/C10, decides
   Leibniz equality of statement trees. *)
From Coq Require Import ZArith String Ascii List Bool.
From Mkdb Require Import Model.CaseLib Model.Value Model.Ast Spec.ParseObs.
Import ListNotations.

Ltac beq := repeat rewrite andb_true_iff.

Lemma option_eqb_spec {A} (eqb : A -> A -> bool) :
  (forall x y, eqb x y = true <-> x = y) -> forall a b, option_eqb eqb a b = true <-> a = b.
Proof.
  intros H [x|] [y|]; cbn; try (split; [discriminate|discriminate]); try tauto.
  rewrite H. split; [intros ->; auto|intros E; inversion E; auto].
Qed.

Lemma pair_eqb_spec {A B} (ea : A -> A -> bool) (eb : B -> B -> bool) :
  (forall x y, ea x y = true <-> x = y) -> (forall x y, eb x y = true <-> x = y) ->
  forall a b, pair_eqb ea eb a b = true <-> a = b.
Proof.
  intros Ha Hb [a1 b1] [a2 b2]. unfold pair_eqb. cbn. beq. rewrite Ha, Hb.
  split; [intros [-> ->]; auto|intros E; inversion E; auto].
Qed.

Lemma colref_eqb_spec a b : colref_eqb a b = true <-> a = b.
Proof.
  destruct a, b. unfold colref_eqb. cbn. beq. rewrite !String.eqb_eq.
  split; [intros [-> ->]; auto|intros E; inversion E; auto].
Qed.

Lemma vexpr_eqb_spec a b : vexpr_eqb a b = true <-> a = b.
Proof.
  destruct a, b; cbn; try (split; [discriminate|discriminate]).
  - rewrite value_eqb_spec. split; [intros ->; auto|intros E; inversion E; auto].
  - rewrite colref_eqb_spec. split; [intros ->; auto|intros E; inversion E; auto].
Qed.

Lemma compop_eqb_spec a b : compop_eqb a b = true <-> a = b.
Proof. destruct a, b; cbn; split; intros; try discriminate; auto. Qed.

Lemma expr_eqb_spec : forall a b, expr_eqb a b = true <-> a = b.
Proof.
  induction a as [v|l op r|[[l op] r] rhs IH|l IHl r IHr]; destruct b as [v'|l' op' r'|[[l' op'] r'] rhs'|l' r'];
    cbn; try (split; [discriminate|discriminate]).
  - rewrite vexpr_eqb_spec. split; [intros ->; auto|intros E; inversion E; auto].
  - beq. rewrite !vexpr_eqb_spec, compop_eqb_spec.
    split; [intros [[-> ->] ->]; auto|intros E; inversion E; auto].
  - beq. rewrite !vexpr_eqb_spec, compop_eqb_spec, IH.
    split; [intros [[[-> ->] ->] ->]; auto|intros E; inversion E; auto].
  - beq. rewrite IHl, IHr. split; [intros [-> ->]; auto|intros E; inversion E; auto].
Qed.

Lemma selprim_eqb_spec a b : selprim_eqb a b = true <-> a = b.
Proof.
  destruct a, b; cbn; try (split; [discriminate|discriminate]); try tauto.
  - rewrite (option_eqb_spec _ colref_eqb_spec). split; [intros ->; auto|intros E; inversion E; auto].
  - rewrite colref_eqb_spec. split; [intros ->; auto|intros E; inversion E; auto].
  - rewrite expr_eqb_spec. split; [intros ->; auto|intros E; inversion E; auto].
Qed.

Lemma derivedcol_eqb_spec a b : derivedcol_eqb a b = true <-> a = b.
Proof.
  destruct a, b. unfold derivedcol_eqb. cbn. beq. rewrite selprim_eqb_spec, String.eqb_eq.
  split; [intros [-> ->]; auto|intros E; inversion E; auto].
Qed.

Lemma jointype_eqb_spec a b : jointype_eqb a b = true <-> a = b.
Proof. destruct a, b; cbn; split; intros; try discriminate; auto. Qed.

Lemma tableref_eqb_spec : forall a b, tableref_eqb a b = true <-> a = b.
Proof.
  induction a as [n al|l IHl jt r IHr c]; destruct b as [n' al'|l' jt' r' c']; cbn;
    try (split; [discriminate|discriminate]).
  - beq. rewrite String.eqb_eq, (option_eqb_spec _ String.eqb_eq).
    split; [intros [-> ->]; auto|intros E; inversion E; auto].
  - beq. rewrite IHl, IHr, jointype_eqb_spec, expr_eqb_spec.
    split; [intros [[[-> ->] ->] ->]; auto|intros E; inversion E; auto].
Qed.

Lemma sortdir_eqb_spec a b : sortdir_eqb a b = true <-> a = b.
Proof. destruct a, b; cbn; split; intros; try discriminate; auto. Qed.

Lemma sortspec_eqb_spec a b : sortspec_eqb a b = true <-> a = b.
Proof.
  destruct a as [k d], b as [k' d']. unfold sortspec_eqb. cbn. beq. rewrite colref_eqb_spec, sortdir_eqb_spec.
  split; [intros [-> ->]; auto|intros E; inversion E; auto].
Qed.

Lemma select_eqb_spec a b : select_eqb a b = true <-> a = b.
Proof.
  destruct a, b. unfold select_eqb. cbn. beq.
  rewrite (list_eqb_spec _ derivedcol_eqb_spec), (list_eqb_spec _ tableref_eqb_spec),
    (option_eqb_spec _ expr_eqb_spec), (list_eqb_spec _ colref_eqb_spec), (list_eqb_spec _ sortspec_eqb_spec),
    !Bool.eqb_true_iff, !Z.eqb_eq.
  split.
  - intros [[[[[[[[-> ->] ->] ->] ->] ->] ->] ->] ->]. reflexivity.
  - intros E; inversion E; subst. repeat split.
Qed.

Lemma sqltype_eqb_spec a b : sqltype_eqb a b = true <-> a = b.
Proof.
  destruct a, b; cbn; try (split; [discriminate|discriminate]); try tauto.
  rewrite Z.eqb_eq. split; [intros ->; auto|intros E; inversion E; auto].
Qed.

Lemma coldef_eqb_spec a b : coldef_eqb a b = true <-> a = b.
Proof.
  destruct a, b. unfold coldef_eqb. cbn. beq. rewrite String.eqb_eq, sqltype_eqb_spec.
  split; [intros [-> ->]; auto|intros E; inversion E; auto].
Qed.

Theorem stmt_eqb_spec a b : stmt_eqb a b = true <-> a = b.
Proof.
  destruct a, b; cbn; try (split; [discriminate|discriminate]); try tauto.
  - rewrite select_eqb_spec. split; [intros ->; auto|intros E; inversion E; auto].
  - beq. rewrite String.eqb_eq, (list_eqb_spec _ coldef_eqb_spec).
    split; [intros [-> ->]; auto|intros E; inversion E; auto].
  - rewrite String.eqb_eq. split; [intros ->; auto|intros E; inversion E; auto].
  - rewrite String.eqb_eq. split; [intros ->; auto|intros E; inversion E; auto].
  - beq. rewrite String.eqb_eq, (list_eqb_spec _ String.eqb_eq),
      (list_eqb_spec _ (list_eqb_spec _ value_eqb_spec)).
    split; [intros [[-> ->] ->]; auto|intros E; inversion E; auto].
  - beq. rewrite String.eqb_eq, (list_eqb_spec _ (pair_eqb_spec _ _ String.eqb_eq vexpr_eqb_spec)),
      (option_eqb_spec _ expr_eqb_spec).
    split; [intros [[-> ->] ->]; auto|intros E; inversion E; auto].
  - beq. rewrite String.eqb_eq, (option_eqb_spec _ expr_eqb_spec).
    split; [intros [-> ->]; auto|intros E; inversion E; auto].
Qed.
