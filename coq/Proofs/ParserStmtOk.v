(* Glue: the literal facts of Proofs/ParserLits.v (which depends on the parser model only) in the
   vocabulary of the store theorems: RefineMain.stmt_ok / RefineCodec.val_ok / TupleProofs.int64_ok. *)
From Coq Require Import ZArith NArith String List Bool.
From Mkdb Require Import Model.Value Model.Ast Proofs.TupleProofs Proofs.RefineCodec Proofs.RefineMain.
From Mkdb Require Import Model.Lexer Model.Parser Proofs.ParserLits.
Import ListNotations.

Lemma valok_val_ok v : valok txt_ok v = val_ok v.
Proof. destruct v; reflexivity. Qed.

Lemma stmtok_stmt_ok st : stmtok txt_ok st = stmt_ok st.
Proof.
  destruct st; try reflexivity; cbn [stmtok stmt_ok]; unfold ParserLits.set_vals, RefineMain.set_vals;
    repeat (apply forallb_ext; intro); apply valok_val_ok.
Qed.

(* tokens handed to sql.Parser directly *)
Theorem parse_literals_ok : forall toks st,
  tokens_short toks = true -> parse_tokens toks = POk st -> stmt_ok st = true.
Proof. intros toks st H E. rewrite <- stmtok_stmt_ok. exact (parse_literals_short toks st H E). Qed.

(* the pipeline from raw scanner tokens *)
Theorem pipeline_literals_ok : forall raws st,
  raws_short raws = true -> parse_pipeline raws = POk st -> stmt_ok st = true.
Proof. intros raws st H E. rewrite <- stmtok_stmt_ok. exact (pipeline_literals_short raws st H E). Qed.

(* integers alone, no hypothesis: every integer literal of an INSERT row / UPDATE assignment that the
   parser returns is a Go int64 *)
Lemma int_lit_ok_int64 z : int_lit_ok (VInt z) = int64_ok z.
Proof. reflexivity. Qed.

Theorem pipeline_insert_ints_int64 : forall raws tbl cols rows row z,
  parse_pipeline raws = POk (SInsert tbl cols rows) -> In row rows -> In (VInt z) row -> int64_ok z = true.
Proof.
  intros raws tbl cols rows row z E Hr Hz. pose proof (pipeline_int_literals_ok raws _ E) as H.
  unfold stmt_ints_ok in H. cbn [stmtok] in H. rewrite forallb_forall in H. specialize (H row Hr).
  rewrite forallb_forall in H. exact (H (VInt z) Hz).
Qed.

(* ---- in a session: what remains of C18's `stmt_bounded` for a PARSED statement is the file-size bound
        of CREATE TABLE / INSERT (the offset arithmetic of the model is unbounded N, Go's is int64) ---- *)
From Mkdb Require Import Model.Engine Model.Session Proofs.RefineCat Proofs.SessionStore Proofs.SessionProofs.

Definition file_bounded (s : sess) (st : stmt) : bool :=
  match st with
  | SCreateTable _ _ | SInsert _ _ _ =>
      match cur s with
      | Some c => match get_db c (dbs s) with
                  | Some y => N.leb (nextFree (e_store (run_stmt (mem y) st))) OFFMAX
                  | None => true
                  end
      | None => true
      end
  | _ => true
  end.

Lemma stmt_ok_bounded s st : stmt_ok st = true -> file_bounded s st = true -> stmt_bounded s st = true.
Proof.
  intros Hok Hf. unfold stmt_bounded. destruct (is_session_stmt st); [reflexivity|]. cbn [orb].
  unfold file_bounded in Hf. destruct (cur s) as [c|]; [|reflexivity].
  destruct (get_db c (dbs s)) as [y|]; [|reflexivity].
  unfold np_hyp. destruct st; try exact Hok; rewrite Hok, Hf; reflexivity.
Qed.

Theorem parsed_statement_no_panic : forall raws s st,
  reachable s -> raws_short raws = true -> parse_pipeline raws = POk st ->
  file_bounded s st = true -> snd (sess_stmt s st) <> SOPanic.
Proof.
  intros raws s st Hr Hs E Hf. apply statement_no_panic; [exact Hr|].
  apply stmt_ok_bounded; [exact (pipeline_literals_ok raws st Hs E) | exact Hf].
Qed.
