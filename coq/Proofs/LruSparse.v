(* C15, sparse observation (long runs at large capacities; Spec/LruSpec.v `model_agrees_sparse`):
   the agreement of the correspondence run, restated in the language of the property. The driver
   reports every return value; when the model agrees with the report, the value OBSERVED at a
   position of the run is the value of `lru_step (reach c prefix) op`, so a refusal that was observed
   happened on a cache full of dirty entries, an acceptance that was observed happened on a cache
   that was not, and a victim that was observed was the least recently used clean entry.
   Nothing about LRU is re-proved here: the clauses are those of Proofs/LruProofs.v. *)
From Coq Require Import List NArith Bool Arith Lia.
From Mkdb Require Import Model.CaseLib Model.Lru Spec.LruSpec Proofs.LruProofs Proofs.LruOracle.
Import ListNotations.
Open Scope N_scope.

(* ---- the output of a run at the position of an operation is the step on the state before it ---- *)
Lemma lru_run_prefix pre : forall s op post,
  nth_error (snd (lru_run s (pre ++ op :: post))) (length pre) =
  Some (snd (lru_step (lru_state s pre) op)).
Proof.
  induction pre as [|a pre IH]; intros s op post.
  - cbn [app length lru_run]. unfold lru_state. cbn [lru_run fst].
    destruct (lru_step s op) as [s1 x]. destruct (lru_run s1 post) as [s2 xs].
    cbn [snd nth_error]. reflexivity.
  - cbn [app length lru_run]. rewrite lru_state_cons.
    destruct (lru_step s a) as [s1 x]. cbn [fst].
    specialize (IH s1 op post).
    destruct (lru_run s1 (pre ++ op :: post)) as [s2 xs].
    cbn [snd nth_error] in *. exact IH.
Qed.

(* the same fact as a decomposition of the output list *)
Lemma lru_run_prefix_split pre : forall s op post,
  exists outs_pre outs_post,
    snd (lru_run s (pre ++ op :: post)) =
      outs_pre ++ snd (lru_step (lru_state s pre) op) :: outs_post /\
    length outs_pre = length pre.
Proof.
  intros s op post.
  destruct (nth_error_split _ _ (lru_run_prefix pre s op post)) as (l1 & l2 & Hl & Hn).
  exists l1, l2. split; assumption.
Qed.

(* what was observed at the position of an operation, on a sparse case the model agrees with *)
Lemma sparse_observed_is_step c pre op post outs fin x :
  model_agrees_sparse (c, pre ++ op :: post, outs, fin) = true ->
  nth_error outs (length pre) = Some x ->
  snd (lru_step (reach c pre) op) = x.
Proof.
  intros Hag Hnth.
  destruct (sparse_agreement_exact _ _ _ _ Hag) as [Houts _].
  rewrite Houts, lru_run_prefix in Hnth. unfold reach. congruence.
Qed.

(* an observed refusal: the key was absent and the cache was full of dirty entries *)
Lemma sparse_refusal_means_full_of_dirty c pre k v d post outs fin ev :
  model_agrees_sparse (c, pre ++ OSet k v d :: post, outs, fin) = true ->
  nth_error outs (length pre) = Some (RSet false ev) ->
  ~ In k (keys (entries (reach c pre))) /\
  length (entries (reach c pre)) = c /\
  Forall (fun x => edirty x = true) (entries (reach c pre)) /\
  ev = None.
Proof.
  intros Hag Hnth.
  pose proof (sparse_observed_is_step _ _ _ _ _ _ _ Hag Hnth) as Hstep.
  destruct (proj1 (reach_refusal c pre k v d) (ex_intro _ ev Hstep)) as (Habs & Hlen & Hdirty).
  destruct (set_refused_unchanged _ _ _ _ _ Hstep) as [_ Hev].
  repeat split; assumption.
Qed.

(* an observed acceptance: the cache was NOT (key absent, full, all dirty) *)
Lemma sparse_acceptance_means_room_or_clean c pre k v d post outs fin ev :
  model_agrees_sparse (c, pre ++ OSet k v d :: post, outs, fin) = true ->
  nth_error outs (length pre) = Some (RSet true ev) ->
  ~ (~ In k (keys (entries (reach c pre))) /\
     length (entries (reach c pre)) = c /\
     Forall (fun x => edirty x = true) (entries (reach c pre))).
Proof.
  intros Hag Hnth Hfull.
  pose proof (sparse_observed_is_step _ _ _ _ _ _ _ Hag Hnth) as Hstep.
  destruct (proj2 (reach_refusal c pre k v d) Hfull) as [ev' Href].
  rewrite Hstep in Href. discriminate Href.
Qed.

(* an observed eviction: the victim was a clean entry, every entry behind it (less recently used)
   was dirty, the other entries keep their order behind the new one, the cache was full and the
   key absent - the conclusion of `reach_victim`, with the state after the step written as
   `reach c (pre ++ [OSet k v d])` *)
Lemma sparse_victim_is_lru_clean c pre k v d post outs fin k' :
  model_agrees_sparse (c, pre ++ OSet k v d :: post, outs, fin) = true ->
  nth_error outs (length pre) = Some (RSet true (Some k')) ->
  exists l1 e l2,
    entries (reach c pre) = l1 ++ e :: l2 /\ ekey e = k' /\ edirty e = false /\
    Forall (fun x => edirty x = true) l2 /\
    entries (reach c (pre ++ [OSet k v d])) = mkEntry k v d :: l1 ++ l2 /\
    length (entries (reach c pre)) = c /\ ~ In k (keys (entries (reach c pre))).
Proof.
  intros Hag Hnth.
  pose proof (sparse_observed_is_step _ _ _ _ _ _ _ Hag Hnth) as Hstep.
  assert (Hsn : reach c (pre ++ [OSet k v d]) = fst (lru_step (reach c pre) (OSet k v d)))
    by (unfold reach; apply lru_state_snoc).
  rewrite Hsn.
  apply (reach_victim c pre k v d k').
  destruct (lru_step (reach c pre) (OSet k v d)) as [s' x]. cbn [fst snd] in *.
  rewrite Hstep. reflexivity.
Qed.
